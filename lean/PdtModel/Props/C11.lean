/-
  Props/C11.lean — "A read filter selects blocks exactly; rejected blocks are never parsed".

  Theorems about `Blocks.runBlocks` / `Blocks.parseBlocks` (Model/Blocks.lean), for every block list /
  row list, every filter predicate, every tracker, every output form, every `ext`, every fixer:

    * `offered_is_reported`   the name offered to the predicate for a TABLE block is the name the parsed
                              table reports (all three forms); `""` for every other block type;
    * `filtered_is_unfiltered_on_accepted`
                              the filtered read is the unfiltered read of the accepted blocks alone
                              (no hypothesis: holds also when a block fails);
    * `filter_exact`          when the unfiltered read runs to the end, the filtered read delivers exactly
                              the unfiltered read's blocks for which the predicate accepts (type, reported
                              name), in order, and also runs to the end;
    * `rejected_content_irrelevant`
                              the whole result (blocks, issues, ending, fixer) is a function of the accepted
                              blocks and of the (type, first cell) of the rejected ones: the handler is never
                              evaluated on a rejected block, so nothing inside it can raise.
    * `agree_of_rowwise_edit`, `rejected_content_irrelevant_edit`
                              the same stated on rows: two streams equal except after the first cell of one rejected
                              block (same number of rows, still plain continuation rows) read identically.
    * `gridName_is_table_name`  if a raw grid parses, the name it spells is the parsed table's name.
    * `rejected_resize`       a rejected block replaced by one with more (or fewer) rows: the read is unchanged up to
                              the origin / issue / error rows after the block, which move by the difference.
-/
import PdtModel.Model.Blocks
import PdtModel.Props.C02
import PdtModel.Props.C03
import PdtModel.Props.C12
set_option linter.unusedSimpArgs false
set_option linter.unusedVariables false
namespace Pdt.C11
open Pdt Pdt.Reader Pdt.Blocks

/-! ## 1. declarative side -/

namespace Spec

/-- the table name a cell grid spells: its first cell without the leading `**` and without one trailing `*` -/
def gridName (rows : List Row) : Str :=
  match rows with
  | (.str s :: _) :: _ => if (s.drop 2).getLast? = some '*' then (s.drop 2).dropLast else s.drop 2
  | _ => []

/-- the name the predicate must have been offered for a delivered block: the name the parsed table reports
    (Table.name / JsonData "name" / the name the raw cell grid spells); empty for any other block type -/
def offeredName (d : Delivered) : Str :=
  if d.ty = .table then
    match d.val with
    | .table p => p.name
    | .json p => p.name
    | .grid rows => gridName rows
    | _ => []
  else []

/-- the first cell of a block -/
def firstCell (b : Block Row) : Option Cell := b.rows.head?.bind List.head?

end Spec

/-- `**name` spells `name`; `**name*` spells `name` too (the transposed marker is not part of the name) -/
theorem gridName_rowwise (name : Str) (r0 : Row) (rest : List Row) (h : name.getLast? ≠ some '*') :
    Spec.gridName ((.str ('*' :: '*' :: name) :: r0) :: rest) = name := by
  simp [Spec.gridName, h]

theorem gridName_transposed (name : Str) (r0 : Row) (rest : List Row) :
    Spec.gridName ((.str ('*' :: '*' :: (name ++ ['*'])) :: r0) :: rest) = name := by
  simp [Spec.gridName]

/-! ## 2. the fixer's message log never influences a result

  Between two blocks the fixer is `reset` (counters to zero, the message log is kept), so a filtered and
  an unfiltered read enter the same block with fixers that differ in their logs only. -/

/-- same configuration and counters (the message logs may differ) -/
def Rel (f g : Fixer) : Prop := f.cfg = g.cfg ∧ f.errors = g.errors ∧ f.warnings = g.warnings

theorem Rel.refl (f : Fixer) : Rel f f := ⟨rfl, rfl, rfl⟩

theorem rel_reset (f g : Fixer) (h : f.cfg = g.cfg) : Rel f.reset g.reset := ⟨h, rfl, rfl⟩

theorem rel_illegal (f g : Fixer) (v : String) (x : Str) (h : Rel f g) : Rel (f.illegal v x) (g.illegal v x) := by
  obtain ⟨h1, h2, h3⟩ := h
  exact ⟨h1, h2, by simp [Fixer.illegal, h3]⟩

/-- same outcome: the same exception, or the same value with related fixers -/
def RelE {α : Type} (x y : Except PyExc (α × Fixer)) : Prop :=
  match x, y with
  | .ok (a, f), .ok (b, g) => a = b ∧ Rel f g
  | .error e, .error e' => e = e'
  | _, _ => False

theorem rel_parseWith {α : Type} (cellFn : Cell → Option α) (rep : FixCfg → α) (vt : String)
    (txt : Cell → Str) (cells : List Cell) (f g : Fixer) (h : Rel f g) :
    (parseWith cellFn rep vt txt cells f).1 = (parseWith cellFn rep vt txt cells g).1 ∧
    Rel (parseWith cellFn rep vt txt cells f).2 (parseWith cellFn rep vt txt cells g).2 := by
  have a := C02.parseWith_spec cellFn rep vt txt cells f
  have b := C02.parseWith_spec cellFn rep vt txt cells g
  obtain ⟨h1, h2, h3⟩ := h
  refine ⟨by rw [a.1, b.1, h1], ?_, ?_, ?_⟩
  · rw [a.2.1, b.2.1]; exact h1
  · rw [a.2.2.1, b.2.2.1]; exact h2
  · rw [a.2.2.2.1, b.2.2.2.1, h3]

theorem rel_parseDatetime (ext : Ext) (cells : List Cell) (f g : Fixer) (h : Rel f g) :
    RelE (parseDatetime ext cells f) (parseDatetime ext cells g) := by
  induction cells generalizing f g with
  | nil => exact ⟨rfl, h⟩
  | cons c cs ih =>
    unfold parseDatetime
    cases hc : dtCell ext c with
    | ok t =>
      have := ih f g h
      cases h1 : parseDatetime ext cs f <;> cases h2 : parseDatetime ext cs g <;>
        simp_all [RelE, bind, Except.bind, pure, Except.pure]
    | fix =>
      have := ih (f.illegal "datetime" (dtTxt c)) (g.illegal "datetime" (dtTxt c)) (rel_illegal f g _ _ h)
      have hcfg : f.cfg = g.cfg := h.1
      cases h1 : parseDatetime ext cs (f.illegal "datetime" (dtTxt c)) <;>
        cases h2 : parseDatetime ext cs (g.illegal "datetime" (dtTxt c)) <;>
        simp_all [RelE, bind, Except.bind, pure, Except.pure]
    | raises n => simp [RelE]

theorem rel_parseColumn (ext : Ext) (unit : Str) (cells : List Cell) (f g : Fixer) (h : Rel f g) :
    RelE (parseColumn ext unit cells f) (parseColumn ext unit cells g) := by
  unfold parseColumn
  by_cases h1 : unit = uText
  · rw [if_pos h1, if_pos h1]; exact ⟨rfl, h⟩
  · rw [if_neg h1, if_neg h1]
    by_cases h2 : unit = uOnoff
    · rw [if_pos h2, if_pos h2]
      have := rel_parseWith onoffCell (·.repOnoff) "onoff" onoffTxt cells f g h
      show RelE (Except.ok (ColVals.onoff (parseOnoff cells f).1, (parseOnoff cells f).2))
        (Except.ok (ColVals.onoff (parseOnoff cells g).1, (parseOnoff cells g).2))
      unfold parseOnoff
      exact ⟨by rw [this.1], this.2⟩
    · rw [if_neg h2, if_neg h2]
      by_cases h3 : unit = uDatetime
      · rw [if_pos h3, if_pos h3]
        have := rel_parseDatetime ext cells f g h
        cases h1 : parseDatetime ext cells f <;> cases h2 : parseDatetime ext cells g <;>
          simp_all [RelE, bind, Except.bind, pure, Except.pure]
      · rw [if_neg h3, if_neg h3]
        have := rel_parseWith (floatCell ext) (·.repFloat) "float" floatTxt cells f g h
        show RelE (Except.ok (ColVals.num (Reader.parseFloat ext cells f).1, (Reader.parseFloat ext cells f).2))
          (Except.ok (ColVals.num (Reader.parseFloat ext cells g).1, (Reader.parseFloat ext cells g).2))
        unfold Reader.parseFloat
        exact ⟨by rw [this.1], this.2⟩

theorem rel_parseColumns (ext : Ext) (units : List Str) (cols : List Row) (f g : Fixer) (h : Rel f g) :
    RelE (parseColumns ext units cols f) (parseColumns ext units cols g) := by
  induction units generalizing cols f g with
  | nil => exact ⟨rfl, h⟩
  | cons u us ih =>
    cases cols with
    | nil => exact ⟨rfl, h⟩
    | cons c cs =>
      simp only [parseColumns]
      have h1 := rel_parseColumn ext u c f g h
      cases hf : parseColumn ext u c f with
      | error e =>
        cases hg : parseColumn ext u c g with
        | error e' => simp_all [RelE, bind, Except.bind]
        | ok r => simp_all [RelE]
      | ok r =>
        obtain ⟨v, f1⟩ := r
        cases hg : parseColumn ext u c g with
        | error e' => simp_all [RelE]
        | ok r' =>
          obtain ⟨w, g1⟩ := r'
          rw [hf, hg] at h1
          obtain ⟨rfl, h1⟩ := h1
          have h2 := ih cs f1 g1 h1
          cases hf2 : parseColumns ext us cs f1 <;> cases hg2 : parseColumns ext us cs g1 <;>
            simp_all [RelE, bind, Except.bind, pure, Except.pure]

theorem rel_foldl {β γ : Type} (step : β × Fixer → γ → β × Fixer)
    (hstep : ∀ a b p, a.1 = b.1 → Rel a.2 b.2 → (step a p).1 = (step b p).1 ∧ Rel (step a p).2 (step b p).2)
    (ps : List γ) (a b : β × Fixer) (h1 : a.1 = b.1) (h : Rel a.2 b.2) :
    (ps.foldl step a).1 = (ps.foldl step b).1 ∧ Rel (ps.foldl step a).2 (ps.foldl step b).2 := by
  induction ps generalizing a b with
  | nil => exact ⟨h1, h⟩
  | cons p ps ih =>
    have := hstep a b p h1 h
    exact ih _ _ this.1 this.2

theorem rel_fixDuplicates (names : List Str) (f g : Fixer) (h : Rel f g) :
    (fixDuplicates names f).1 = (fixDuplicates names g).1 ∧
    Rel (fixDuplicates names f).2 (fixDuplicates names g).2 := by
  unfold fixDuplicates
  refine rel_foldl dupStep ?_ names.zipIdx ([], f) ([], g) rfl h
  intro a b p h1 h
  obtain ⟨c1, c2, c3⟩ := h
  unfold dupStep
  rw [h1]
  split <;> simp [Rel, c1, c2, c3]

theorem rel_fixShortRows (rows : List Row) (n : Nat) (f g : Fixer) (h : Rel f g) :
    (fixShortRows rows n f).1 = (fixShortRows rows n g).1 ∧
    Rel (fixShortRows rows n f).2 (fixShortRows rows n g).2 := by
  unfold fixShortRows
  refine rel_foldl (shortStep n) ?_ rows.zipIdx ([], f) ([], g) rfl h
  intro a b p h1 h
  obtain ⟨c1, c2, c3⟩ := h
  unfold shortStep
  rw [h1]
  split <;> simp [Rel, c1, c2, c3]

theorem rel_finish (ext : Ext) (L : Layout) (f g : Fixer) (h : Rel f g) :
    RelE (finish ext L f) (finish ext L g) := by
  have hd := rel_fixDuplicates L.names0 f g h
  cases hdf : fixDuplicates L.names0 f with
  | mk names f1 =>
  cases hdg : fixDuplicates L.names0 g with
  | mk names' g1 =>
  rw [hdf, hdg] at hd
  obtain ⟨hn, hd⟩ := hd
  simp only at hn hd
  subst hn
  have hs := rel_fixShortRows L.rows0 names.length f1 g1 hd
  cases hsf : fixShortRows L.rows0 names.length f1 with
  | mk rows f2 =>
  cases hsg : fixShortRows L.rows0 names.length g1 with
  | mk rows' g2 =>
  rw [hsf, hsg] at hs
  obtain ⟨hr, hs⟩ := hs
  simp only at hr hs
  subst hr
  have hp := rel_parseColumns ext L.units (if rows.isEmpty = true then [] else transposeN rows names.length) f2 g2 hs
  unfold finish
  simp only [hdf, hdg, hsf, hsg, bind, Except.bind]
  cases hpf : parseColumns ext L.units (if rows.isEmpty = true then [] else transposeN rows names.length) f2 with
  | error e =>
    cases hpg : parseColumns ext L.units (if rows.isEmpty = true then [] else transposeN rows names.length) g2 with
    | error e' => rw [hpf, hpg] at hp; simpa [RelE] using hp
    | ok r => rw [hpf, hpg] at hp; simp [RelE] at hp
  | ok r =>
    obtain ⟨parsed, f3⟩ := r
    cases hpg : parseColumns ext L.units (if rows.isEmpty = true then [] else transposeN rows names.length) g2 with
    | error e' => rw [hpf, hpg] at hp; simp [RelE] at hp
    | ok r' =>
      obtain ⟨parsed', g3⟩ := r'
      rw [hpf, hpg] at hp
      obtain ⟨rfl, c1, c2, c3⟩ := hp
      simp only [Fixer.fixes, c1, c2, c3]
      simp only [gt_iff_lt, Bool.and_eq_true, decide_eq_true_eq]
      by_cases hc : 0 < g3.errors + g3.warnings ∧ g3.cfg.stopOnErrors = true <;>
        simp [hc, RelE, pure, Except.pure, Rel, c1, c2, c3]

theorem rel_makePrecursor (ext : Ext) (cells : List Row) (f g : Fixer) (h : Rel f g) :
    RelE (makePrecursor ext cells f) (makePrecursor ext cells g) := by
  unfold makePrecursor
  cases layout cells with
  | error e => simp [RelE, bind, Except.bind]
  | ok L => simpa [bind, Except.bind] using rel_finish ext L f g h

theorem rel_makeTable (ext : Ext) (cells : List Row) (f g : Fixer) (h : Rel f g) :
    RelE (makeTable ext cells f) (makeTable ext cells g) := by
  unfold makeTable
  have := rel_makePrecursor ext cells f g h
  cases hf : makePrecursor ext cells f with
  | error e =>
    cases hg : makePrecursor ext cells g with
    | error e' => simp_all [RelE, bind, Except.bind]
    | ok r => simp_all [RelE]
  | ok r =>
    obtain ⟨p, f1⟩ := r
    cases hg : makePrecursor ext cells g with
    | error e' => simp_all [RelE]
    | ok r' =>
      obtain ⟨q, g1⟩ := r'
      rw [hf, hg] at this
      obtain ⟨rfl, h1⟩ := this
      simp only [bind, Except.bind]
      cases hc : p.columns with
      | nil => exact ⟨rfl, h1⟩
      | cons c cs =>
        simp only []
        split
        · simp [RelE]
        · split
          · simp [RelE]
          · exact ⟨rfl, h1⟩

/-- the handler of a block type: same outcome for fixers that differ in their message logs only -/
theorem rel_handle (cfg : Config) (ty : BT) (cells : List Row) (f g : Fixer) (h : Rel f g) :
    RelE (handle cfg ty cells f) (handle cfg ty cells g) := by
  unfold handle
  cases ty with
  | table =>
    simp only []
    cases cfg.form with
    | pdtable =>
      have := rel_makeTable cfg.ext cells f g h
      simp only []
      cases hf : makeTable cfg.ext cells f <;> cases hg : makeTable cfg.ext cells g <;>
        simp_all [RelE, bind, Except.bind, pure, Except.pure]
    | jsondata =>
      have := rel_makePrecursor cfg.ext cells f g h
      simp only []
      cases hf : makePrecursor cfg.ext cells f <;> cases hg : makePrecursor cfg.ext cells g <;>
        simp_all [RelE, bind, Except.bind, pure, Except.pure]
    | cellgrid => exact ⟨rfl, h⟩
  | directive =>
    simp only []
    cases directive cells with
    | error e => simp [RelE, bind, Except.bind]
    | ok r => exact ⟨rfl, h⟩
  | metadata => exact ⟨rfl, h⟩
  | template => exact ⟨rfl, h⟩
  | blank => exact ⟨rfl, h⟩

/-- the handler does not look at the filter -/
theorem handle_filter_irrelevant (cfg : Config) (flt : Option (BT → Str → Bool)) :
    handle { cfg with filter := flt } = handle cfg := rfl

/-! ## 3. the fixer's configuration is never changed by a handler -/

theorem finish_cfg (ext : Ext) (L : Layout) (f0 : Fixer) (p : Precursor) (f3 : Fixer)
    (h : finish ext L f0 = .ok (p, f3)) : f3.cfg = f0.cfg ∧ p.name = L.name := by
  unfold finish at h
  have hd := C02.fixDuplicates_spec L.names0 f0
  cases hdup : fixDuplicates L.names0 f0 with
  | mk names f1 =>
  rw [hdup] at hd
  have hs := C02.fixShortRows_spec L.rows0 names.length f1
  cases hsh : fixShortRows L.rows0 names.length f1 with
  | mk rows f2 =>
  rw [hsh] at hs
  simp only [hdup, hsh, bind, Except.bind] at h
  cases hp : parseColumns ext L.units (if rows.isEmpty = true then [] else transposeN rows names.length) f2 with
  | error e => rw [hp] at h; simp at h
  | ok r =>
    obtain ⟨parsed, g3⟩ := r
    rw [hp] at h
    simp only [] at h
    have hcfg := (C02.parseColumns_local ext L.units _ f2 parsed g3 hp).1
    split at h
    · simp at h
    · simp only [pure, Except.pure] at h
      cases h
      exact ⟨by rw [hcfg, hs.1, hd.1], rfl⟩

theorem tableName_offered (cells : List Row) (n : Str) (t : Bool) (h : tableName cells = .ok (n, t)) :
    Blocks.offeredName cells = n := by
  unfold tableName at h
  unfold Blocks.offeredName
  split at h
  · simp at h
  · simp at h
  · rename_i s r0 rest
    simp only []
    by_cases hs : (s.drop 2).getLast? = some '*'
    · simp only [hs, if_true] at h ⊢
      cases h; rfl
    · simp only [hs, if_false] at h ⊢
      cases h; rfl
  · simp at h

theorem layout_name (cells : List Row) (L : Layout) (h : layout cells = .ok L) :
    Blocks.offeredName cells = L.name := by
  cases ht : tableName cells with
  | error e => simp [layout, ht, bind, Except.bind] at h
  | ok r =>
    obtain ⟨n, t⟩ := r
    rw [tableName_offered cells n t ht]
    unfold layout at h
    rw [ht] at h
    simp only [bind, Except.bind, pure, Except.pure, C02.throw_eq] at h
    repeat' split at h
    all_goals first
      | (cases h; rfl)
      | (exfalso; simp at h; done)

theorem makePrecursor_spec (ext : Ext) (cells : List Row) (f : Fixer) (p : Precursor) (f' : Fixer)
    (h : makePrecursor ext cells f = .ok (p, f')) : f'.cfg = f.cfg ∧ p.name = Blocks.offeredName cells := by
  unfold makePrecursor at h
  cases hl : layout cells with
  | error e => simp [hl, bind, Except.bind] at h
  | ok L =>
    rw [hl] at h
    simp only [bind, Except.bind] at h
    have := finish_cfg ext L f p f' h
    exact ⟨this.1, by rw [this.2, layout_name cells L hl]⟩

theorem makeTable_spec (ext : Ext) (cells : List Row) (f : Fixer) (p : Precursor) (f' : Fixer)
    (h : makeTable ext cells f = .ok (p, f')) : f'.cfg = f.cfg ∧ p.name = Blocks.offeredName cells := by
  unfold makeTable at h
  cases hm : makePrecursor ext cells f with
  | error e => simp [hm, bind, Except.bind] at h
  | ok r =>
    obtain ⟨q, g⟩ := r
    rw [hm] at h
    simp only [bind, Except.bind] at h
    have hq := makePrecursor_spec ext cells f q g hm
    repeat' split at h
    all_goals first
      | (exfalso; simp at h; done)
      | (simp only [pure, Except.pure, Except.ok.injEq, Prod.mk.injEq] at h; obtain ⟨rfl, rfl⟩ := h; exact hq)

/-- a handler never changes the fixer's configuration -/
theorem handle_cfg (cfg : Config) (ty : BT) (cells : List Row) (f : Fixer) (v : BlockVal) (f' : Fixer)
    (h : handle cfg ty cells f = .ok (v, f')) : f'.cfg = f.cfg := by
  unfold handle at h
  cases ty with
  | table =>
    simp only [] at h
    cases hform : cfg.form with
    | pdtable =>
      rw [hform] at h
      simp only [] at h
      cases hm : makeTable cfg.ext cells f with
      | error e => simp [hm, bind, Except.bind] at h
      | ok r =>
        obtain ⟨q, g⟩ := r
        simp [hm, bind, Except.bind, pure, Except.pure] at h
        obtain ⟨_, rfl⟩ := h
        exact (makeTable_spec cfg.ext cells f q g hm).1
    | jsondata =>
      rw [hform] at h
      simp only [] at h
      cases hm : makePrecursor cfg.ext cells f with
      | error e => simp [hm, bind, Except.bind] at h
      | ok r =>
        obtain ⟨q, g⟩ := r
        simp [hm, bind, Except.bind, pure, Except.pure] at h
        obtain ⟨_, rfl⟩ := h
        exact (makePrecursor_spec cfg.ext cells f q g hm).1
    | cellgrid => rw [hform] at h; simp at h; rw [h.2]
  | directive =>
    simp only [] at h
    cases hd : directive cells with
    | error e => simp [hd, bind, Except.bind] at h
    | ok r => simp [hd, bind, Except.bind, pure, Except.pure] at h; rw [h.2]
  | metadata => simp at h; rw [h.2]
  | template => simp at h; rw [h.2]
  | blank => simp at h; rw [h.2]

/-! ## 4. the name offered is the name reported -/

/-- **offered = reported**: whenever the handler of a block succeeds, the name the filter was offered
    (`Blocks.offeredName` of the raw first cell for a TABLE block, `""` otherwise — see `accepts`) is the name
    the delivered block reports (`Table.name`, JsonData `"name"`, or what the raw grid spells), in every form -/
theorem offered_is_reported (cfg : Config) (ty : BT) (cells : List Row) (f : Fixer) (v : BlockVal) (f' : Fixer)
    (first : Nat) (h : handle cfg ty cells f = .ok (v, f')) :
    Spec.offeredName ⟨ty, first, v⟩ = (if ty = .table then Blocks.offeredName cells else []) := by
  unfold Spec.offeredName
  by_cases hty : ty = .table
  · subst hty
    simp only [if_true]
    unfold handle at h
    simp only [] at h
    cases hform : cfg.form with
    | pdtable =>
      rw [hform] at h
      simp only [] at h
      cases hm : makeTable cfg.ext cells f with
      | error e => simp [hm, bind, Except.bind] at h
      | ok r =>
        obtain ⟨q, g⟩ := r
        simp [hm, bind, Except.bind, pure, Except.pure] at h
        obtain ⟨rfl, _⟩ := h
        exact (makeTable_spec cfg.ext cells f q g hm).2
    | jsondata =>
      rw [hform] at h
      simp only [] at h
      cases hm : makePrecursor cfg.ext cells f with
      | error e => simp [hm, bind, Except.bind] at h
      | ok r =>
        obtain ⟨q, g⟩ := r
        simp [hm, bind, Except.bind, pure, Except.pure] at h
        obtain ⟨rfl, _⟩ := h
        exact (makePrecursor_spec cfg.ext cells f q g hm).2
    | cellgrid =>
      rw [hform] at h
      simp at h
      obtain ⟨rfl, _⟩ := h
      rfl
  · simp [hty]

/-- the predicate's verdict on a block, as `parse_blocks` obtains it, is its verdict on (type, reported name) -/
theorem accepts_reported (cfg : Config) (p : BT → Str → Bool) (hp : cfg.filter = some p)
    (b : Block Row) (f : Fixer) (v : BlockVal) (f' : Fixer) (h : handle cfg b.ty b.rows f = .ok (v, f')) :
    accepts cfg b.ty b.rows = p b.ty (Spec.offeredName ⟨b.ty, b.first, v⟩) := by
  rw [offered_is_reported cfg b.ty b.rows f v f' b.first h]
  simp [accepts, hp]

/-! ## 5. the filter selects exactly -/

/-- the same read without its filter -/
def unfiltered (cfg : Config) : Config := { cfg with filter := none }

theorem accepts_unfiltered (cfg : Config) (ty : BT) (cells : List Row) :
    accepts (unfiltered cfg) ty cells = true := rfl

theorem handle_unfiltered (cfg : Config) : handle (unfiltered cfg) = handle cfg := rfl

theorem tracker_unfiltered (cfg : Config) : (unfiltered cfg).tracker = cfg.tracker := rfl

/-- everything a caller can observe of a read: delivered blocks, reported issues, how it ended
    (the fixer's configuration is carried along for the induction; its message log is not compared) -/
structure SameResult (r r' : Result) : Prop where
  blocks : r.blocks = r'.blocks
  issues : r.issues = r'.issues
  ending : r.ending = r'.ending
  cfg : r.fixer.cfg = r'.fixer.cfg

/-- **the filtered read is the unfiltered read of the accepted blocks alone** — for every block list, every
    predicate, tracker and form, without any hypothesis (also when some block fails to parse) -/
theorem filtered_is_unfiltered_on_accepted (cfg : Config) (bs : List (Block Row)) (f g : Fixer)
    (h : f.cfg = g.cfg) :
    SameResult (runBlocks cfg bs f)
      (runBlocks (unfiltered cfg) (bs.filter (fun b => accepts cfg b.ty b.rows)) g) := by
  induction bs generalizing f g with
  | nil => exact ⟨rfl, rfl, rfl, h⟩
  | cons b bs ih =>
    by_cases ha : accepts cfg b.ty b.rows = true
    · simp only [List.filter_cons, ha, if_true]
      simp only [runBlocks, ha, accepts_unfiltered, handle_unfiltered, tracker_unfiltered, Bool.not_true, Bool.false_eq_true, if_false]
      have hr := rel_handle cfg b.ty b.rows f.reset g.reset (rel_reset f g h)
      cases hf : handle cfg b.ty b.rows f.reset with
      | error e =>
        cases hg : handle cfg b.ty b.rows g.reset with
        | ok r => rw [hf, hg] at hr; exact hr.elim
        | error e' =>
          rw [hf, hg] at hr
          have he : e = e' := hr
          subst he
          simp only []
          by_cases hc : caught e = true
          · simp only [hc, if_true]
            cases htr : cfg.tracker with
            | raising => exact ⟨rfl, rfl, rfl, h⟩
            | collecting =>
              have := ih f.reset g.reset h
              exact ⟨this.blocks, by simp [this.issues], this.ending, this.cfg⟩
          · simp only [hc, if_false]
            exact ⟨rfl, rfl, rfl, h⟩
      | ok r =>
        obtain ⟨v, f'⟩ := r
        cases hg : handle cfg b.ty b.rows g.reset with
        | error e' => rw [hf, hg] at hr; exact hr.elim
        | ok r' =>
          obtain ⟨w, g'⟩ := r'
          rw [hf, hg] at hr
          obtain ⟨rfl, hr⟩ := hr
          have := ih f' g' hr.1
          exact ⟨by simp [this.blocks], this.issues, this.ending, this.cfg⟩
    · have ha' : accepts cfg b.ty b.rows = false := by simpa using ha
      simp only [List.filter_cons, ha', Bool.false_eq_true, if_false]
      simp only [runBlocks, ha', Bool.not_false, if_true]
      exact ih f.reset g h

/-- **filter_exact**: if the unfiltered read runs to the end, the filtered read delivers exactly those blocks of
    the unfiltered read, in order, for which the predicate accepts (block type, reported name) — the reported
    name being the parsed table's own name for TABLE blocks and `""` for any other block — and it runs to the end
    as well; its issues are among the unfiltered read's issues.  For every predicate, tracker, form, `ext`. -/
theorem filter_exact (cfg : Config) (p : BT → Str → Bool) (hp : cfg.filter = some p)
    (bs : List (Block Row)) (f g : Fixer) (h : f.cfg = g.cfg)
    (hex : (runBlocks (unfiltered cfg) bs g).ending = .exhausted) :
    (runBlocks cfg bs f).blocks =
      (runBlocks (unfiltered cfg) bs g).blocks.filter (fun d => p d.ty (Spec.offeredName d)) ∧
    (runBlocks cfg bs f).ending = .exhausted ∧
    (runBlocks cfg bs f).issues.Sublist (runBlocks (unfiltered cfg) bs g).issues ∧
    (runBlocks cfg bs f).fixer.cfg = (runBlocks (unfiltered cfg) bs g).fixer.cfg := by
  induction bs generalizing f g with
  | nil => exact ⟨rfl, rfl, List.Sublist.refl _, h⟩
  | cons b bs ih =>
    simp only [runBlocks, accepts_unfiltered, handle_unfiltered, tracker_unfiltered, Bool.not_true, Bool.false_eq_true, if_false] at hex ⊢
    cases hg : handle cfg b.ty b.rows g.reset with
    | error e =>
      rw [hg] at hex
      simp only [] at hex ⊢
      by_cases hc : caught e = true
      · simp only [hc, if_true] at hex ⊢
        cases htr : cfg.tracker with
        | raising => rw [htr] at hex; simp at hex
        | collecting =>
          rw [htr] at hex
          simp only [] at hex ⊢
          by_cases ha : accepts cfg b.ty b.rows = true
          · have hr := rel_handle cfg b.ty b.rows f.reset g.reset (rel_reset f g h)
            rw [hg] at hr
            cases hf : handle cfg b.ty b.rows f.reset with
            | ok r => rw [hf] at hr; exact hr.elim
            | error e' =>
              rw [hf] at hr
              have he : e' = e := hr
              subst he
              have := ih f.reset g.reset h hex
              simp only [ha, Bool.not_true, Bool.false_eq_true, if_false, hc, if_true, htr]
              exact ⟨this.1, this.2.1, List.Sublist.cons_cons _ this.2.2.1, this.2.2.2⟩
          · have ha' : accepts cfg b.ty b.rows = false := by simpa using ha
            have := ih f.reset g.reset h hex
            simp only [ha', Bool.not_false, if_true]
            exact ⟨this.1, this.2.1, List.Sublist.cons _ this.2.2.1, this.2.2.2⟩
      · simp only [hc, if_false] at hex
        simp at hex
    | ok r =>
      obtain ⟨w, g'⟩ := r
      rw [hg] at hex
      simp only [] at hex ⊢
      have hg' : g'.cfg = g.cfg := handle_cfg cfg b.ty b.rows g.reset w g' hg
      have hacc := accepts_reported cfg p hp b g.reset w g' hg
      by_cases ha : accepts cfg b.ty b.rows = true
      · have hr := rel_handle cfg b.ty b.rows f.reset g.reset (rel_reset f g h)
        rw [hg] at hr
        cases hf : handle cfg b.ty b.rows f.reset with
        | error e' => rw [hf] at hr; exact hr.elim
        | ok r' =>
          obtain ⟨v, f'⟩ := r'
          rw [hf] at hr
          obtain ⟨rfl, hr⟩ := hr
          have := ih f' g' hr.1 hex
          simp only [ha, Bool.not_true, Bool.false_eq_true, if_false]
          rw [ha] at hacc
          refine ⟨?_, this.2.1, this.2.2.1, this.2.2.2⟩
          simp only [List.filter_cons, ← hacc, if_true, this.1]
      · have ha' : accepts cfg b.ty b.rows = false := by simpa using ha
        have := ih f.reset g' (by rw [hg']; exact h) hex
        simp only [ha', Bool.not_false, if_true]
        rw [ha'] at hacc
        refine ⟨?_, this.2.1, this.2.2.1, this.2.2.2⟩
        simp only [List.filter_cons, ← hacc, Bool.false_eq_true, if_false, this.1]

/-- `filter_exact` for a row stream (`parse_blocks`) -/
theorem filter_exact_rows (cfg : Config) (p : BT → Str → Bool) (hp : cfg.filter = some p)
    (rows : List Row) (f : Fixer)
    (hex : (parseBlocks (unfiltered cfg) rows f).ending = .exhausted) :
    (parseBlocks cfg rows f).blocks =
      (parseBlocks (unfiltered cfg) rows f).blocks.filter (fun d => p d.ty (Spec.offeredName d)) ∧
    (parseBlocks cfg rows f).ending = .exhausted := by
  have := filter_exact cfg p hp (segment rows) f f rfl hex
  exact ⟨this.1, this.2.1⟩

/-! ## 6. a rejected block's content is never interpreted -/

/-- a rejected block is skipped without its handler being evaluated: only the fixer's counters are reset -/
theorem rejected_skipped (cfg : Config) (b : Block Row) (bs : List (Block Row)) (f : Fixer)
    (h : accepts cfg b.ty b.rows = false) : runBlocks cfg (b :: bs) f = runBlocks cfg bs f.reset := by
  simp [runBlocks, h]

theorem offeredName_firstCell (rows rows' : List Row)
    (h : rows.head?.bind List.head? = rows'.head?.bind List.head?) :
    Blocks.offeredName rows = Blocks.offeredName rows' := by
  have key : ∀ rs : List Row, Blocks.offeredName rs =
      match rs.head?.bind List.head? with
      | some (.str s) => if (s.drop 2).getLast? = some '*' then (s.drop 2).dropLast else s.drop 2
      | _ => [] := by
    intro rs
    unfold Blocks.offeredName
    cases rs with
    | nil => rfl
    | cons r rest =>
      cases r with
      | nil => rfl
      | cons c cs => cases c <;> rfl
  rw [key rows, key rows', h]

/-- the predicate's verdict depends on the block type and the first cell only -/
theorem accepts_first_cell (cfg : Config) (b b' : Block Row) (hty : b.ty = b'.ty)
    (hc : Spec.firstCell b = Spec.firstCell b') : accepts cfg b.ty b.rows = accepts cfg b'.ty b'.rows := by
  unfold accepts
  rw [hty, offeredName_firstCell b.rows b'.rows hc]

/-- two blocks the filter cannot tell apart: same type, same first cell, and identical if accepted -/
def SameForFilter (cfg : Config) (b b' : Block Row) : Prop :=
  b.ty = b'.ty ∧ Spec.firstCell b = Spec.firstCell b' ∧ (accepts cfg b.ty b.rows = true → b = b')

/-- two block lists of the same length whose blocks are pairwise `SameForFilter` -/
inductive Agree (cfg : Config) : List (Block Row) → List (Block Row) → Prop
  | nil : Agree cfg [] []
  | cons {b b' : Block Row} {bs bs' : List (Block Row)} :
      SameForFilter cfg b b' → Agree cfg bs bs' → Agree cfg (b :: bs) (b' :: bs')

/-- **rejected_content_irrelevant**: the complete result (delivered blocks, issues, ending, fixer) is a function
    of the accepted blocks and of the (type, first cell) of the rejected ones.  Replacing everything after the
    first cell of a rejected block — by malformed content, by more or fewer rows, at another origin row —
    changes nothing and raises nothing, in every form and with every tracker. -/
theorem rejected_content_irrelevant (cfg : Config) (bs bs' : List (Block Row)) (f : Fixer)
    (h : Agree cfg bs bs') : runBlocks cfg bs f = runBlocks cfg bs' f := by
  induction h generalizing f with
  | nil => rfl
  | @cons b b' bs bs' hb _ ih =>
    obtain ⟨hty, hc, hacc⟩ := hb
    have ha := accepts_first_cell cfg b b' hty hc
    by_cases hb : accepts cfg b.ty b.rows = true
    · have := hacc hb
      subst this
      simp only [runBlocks, hb, Bool.not_true, Bool.false_eq_true, if_false]
      cases handle cfg b.ty b.rows f.reset with
      | ok r => simp only [ih]
      | error e => simp only [ih]
    · have hb' : accepts cfg b.ty b.rows = false := by simpa using hb
      rw [rejected_skipped cfg b bs f hb', rejected_skipped cfg b' bs' f (by rw [← ha]; exact hb')]
      exact ih f.reset

/-- the same for a row stream: if two inputs are cut into blocks the filter cannot tell apart, the reads are equal.
    (Where the cuts fall is decided by the first cells of the rows alone: `C03.kind_only`.) -/
theorem rejected_content_irrelevant_rows (cfg : Config) (rows rows' : List Row) (f : Fixer)
    (h : Agree cfg (segment rows) (segment rows')) :
    parseBlocks cfg rows f = parseBlocks cfg rows' f :=
  rejected_content_irrelevant cfg _ _ f h

/-! ### the same on rows: an edit inside one rejected block -/

section
variable {R : Type} (kindOf : R → Kind)

/-- the block type a first-cell kind starts -/
def starter : Kind → Option BT
  | .tbl => some .table
  | .dir => some .directive
  | .tpl => some .template
  | _ => none

theorem go_append (i : Nat) (s : St R) (p q : List R) :
    go kindOf i s (p ++ q) =
      (emitted kindOf i s p).1 ++ go kindOf (i + p.length) (emitted kindOf i s p).2 q := by
  induction p generalizing i s with
  | nil => simp [emitted]
  | cons r rs ih => simp [go, emitted, ih, Nat.add_assoc, Nat.add_comm 1]

theorem go_plain (i : Nat) (s : St R) (body post : List R) (hb : ∀ r ∈ body, kindOf r = .plain) :
    go kindOf i s (body ++ post) = go kindOf (i + body.length) { s with grid := s.grid ++ body } post := by
  induction body generalizing i s with
  | nil => simp
  | cons r rs ih =>
    have hr := hb r (by simp)
    simp only [List.cons_append, go, step, hr, List.nil_append]
    rw [ih _ _ (fun x hx => hb x (List.mem_cons_of_mem _ hx))]
    simp [Nat.add_assoc, Nat.add_comm 1]

theorem step_start (s : St R) (i : Nat) (r : R) (ty : BT) (h : starter (kindOf r) = some ty) :
    step kindOf s i r = (⟨[r], ty, i⟩, emit s) := by
  unfold step switch
  cases hk : kindOf r <;> simp_all [starter]

/-- a row that is not a plain continuation row ends a TABLE / DIRECTIVE / TEMPLATE block; what comes next does not
    depend on what the block held -/
theorem step_end (grid : List R) (first i : Nat) (r : R) (k : Kind) (ty : BT) (hty : starter k = some ty)
    (hk : kindOf r ≠ .plain) :
    step kindOf ⟨grid, ty, first⟩ i r = ((step kindOf ⟨[], ty, 0⟩ i r).1, emit ⟨grid, ty, first⟩) := by
  have hne : ty ≠ .blank ∧ ty ≠ .metadata := by
    cases k <;> simp [starter] at hty <;> subst hty <;> exact ⟨by decide, by decide⟩
  unfold step switch
  cases h : kindOf r <;> simp_all

/-- the blocks after a block that ended at row `i` -/
def tailBlocks (ty : BT) (i : Nat) : List R → List (Block R)
  | [] => []
  | r :: rs => go kindOf (i + 1) (step kindOf ⟨[], ty, 0⟩ i r).1 rs

/-- `pre ++ block ++ post` is cut into the blocks of `pre`, the block itself, and blocks that depend only on where
    the block ended and on `post` -/
theorem block_split (pre : List R) (h : R) (body post : List R) (ty : BT) (hh : starter (kindOf h) = some ty)
    (hb : ∀ r ∈ body, kindOf r = .plain)
    (hpost : post = [] ∨ ∃ r rest, post = r :: rest ∧ kindOf r ≠ .plain) :
    run kindOf (pre ++ (h :: body) ++ post) =
      run kindOf pre ++ (⟨ty, h :: body, pre.length⟩ : Block R) ::
        tailBlocks kindOf ty (pre.length + 1 + body.length) post := by
  unfold run
  rw [List.append_assoc, go_append, C03.go_eq_emitted kindOf 0 initSt pre]
  simp only [List.cons_append, go, Nat.zero_add, step_start kindOf _ _ h ty hh]
  rw [go_plain kindOf _ _ body post hb]
  rcases hpost with rfl | ⟨r, rest, rfl, hr⟩
  · simp [go, emit, tailBlocks]
  · simp only [go, tailBlocks]
    rw [step_end kindOf ([h] ++ body) pre.length _ r (kindOf h) ty hh hr]
    simp [emit]

end

theorem sameForFilter_refl (cfg : Config) (b : Block Row) : SameForFilter cfg b b := ⟨rfl, rfl, fun _ => rfl⟩

theorem agree_refl (cfg : Config) (bs : List (Block Row)) : Agree cfg bs bs := by
  induction bs with
  | nil => exact .nil
  | cons b bs ih => exact .cons (sameForFilter_refl cfg b) ih

theorem agree_append (cfg : Config) (as as' bs bs' : List (Block Row)) (h1 : Agree cfg as as')
    (h2 : Agree cfg bs bs') : Agree cfg (as ++ bs) (as' ++ bs') := by
  induction h1 with
  | nil => exact h2
  | cons hb _ ih => exact .cons hb ih

/-- **an edit inside one rejected block, on rows**: two row streams that are equal except inside one TABLE /
    DIRECTIVE / TEMPLATE block — same first cell, same number of rows, the rows after the first still plain
    continuation rows (same `rowKind` per row) — are cut into blocks the filter cannot tell apart, provided the
    filter rejects that block.  The block is delimited by what follows it: nothing, or a row that is not a plain
    continuation row. -/
theorem agree_of_rowwise_edit (cfg : Config) (pre post : List Row) (c : Cell) (r r' : Row) (body body' : List Row)
    (ty : BT) (hh : starter (rowKind (c :: r)) = some ty) (hh' : rowKind (c :: r') = rowKind (c :: r))
    (hb : ∀ x ∈ body, rowKind x = .plain) (hb' : ∀ x ∈ body', rowKind x = .plain)
    (hlen : body'.length = body.length)
    (hpost : post = [] ∨ ∃ x rest, post = x :: rest ∧ rowKind x ≠ .plain)
    (hrej : accepts cfg ty ((c :: r) :: body) = false) :
    Agree cfg (segment (pre ++ ((c :: r) :: body) ++ post)) (segment (pre ++ ((c :: r') :: body') ++ post)) := by
  unfold segment
  rw [block_split rowKind pre (c :: r) body post ty hh hb hpost,
    block_split rowKind pre (c :: r') body' post ty (by rw [hh']; exact hh) hb' hpost, hlen]
  refine agree_append cfg _ _ _ _ (agree_refl cfg _) (.cons ⟨rfl, rfl, ?_⟩ (agree_refl cfg _))
  intro hacc
  rw [hrej] at hacc
  cases hacc

/-- **rejected_content_irrelevant on rows**: replacing everything after the first cell of a rejected block —
    keeping its number of rows and keeping its rows plain continuation rows — changes nothing and raises nothing -/
theorem rejected_content_irrelevant_edit (cfg : Config) (pre post : List Row) (c : Cell) (r r' : Row)
    (body body' : List Row) (ty : BT) (hh : starter (rowKind (c :: r)) = some ty)
    (hh' : rowKind (c :: r') = rowKind (c :: r))
    (hb : ∀ x ∈ body, rowKind x = .plain) (hb' : ∀ x ∈ body', rowKind x = .plain)
    (hlen : body'.length = body.length)
    (hpost : post = [] ∨ ∃ x rest, post = x :: rest ∧ rowKind x ≠ .plain)
    (hrej : accepts cfg ty ((c :: r) :: body) = false) (f : Fixer) :
    parseBlocks cfg (pre ++ ((c :: r) :: body) ++ post) f = parseBlocks cfg (pre ++ ((c :: r') :: body') ++ post) f :=
  rejected_content_irrelevant_rows cfg _ _ f
    (agree_of_rowwise_edit cfg pre post c r r' body body' ty hh hh' hb hb' hlen hpost hrej)

/-- when the number of rows of the rejected block changes, everything before it and the block's own verdict are
    unchanged, and the blocks after it are those of `post` read from the row where the block now ends: only their
    origin rows move -/
theorem rowwise_edit_any_length (pre post : List Row) (c : Cell) (r : Row) (body : List Row) (ty : BT)
    (hh : starter (rowKind (c :: r)) = some ty) (hb : ∀ x ∈ body, rowKind x = .plain)
    (hpost : post = [] ∨ ∃ x rest, post = x :: rest ∧ rowKind x ≠ .plain) :
    segment (pre ++ ((c :: r) :: body) ++ post) =
      segment pre ++ (⟨ty, (c :: r) :: body, pre.length⟩ : Block Row) ::
        tailBlocks rowKind ty (pre.length + 1 + body.length) post :=
  block_split rowKind pre (c :: r) body post ty hh hb hpost

/-! ### a rejected block replaced by one with another number of rows: equal up to the origin rows after it -/

theorem tailBlocks_shift (ty : BT) (k : Kind) (hty : starter k = some ty) (i d : Nat) (post : List Row)
    (hpost : post = [] ∨ ∃ x rest, post = x :: rest ∧ rowKind x ≠ .plain) :
    tailBlocks rowKind ty (i + d) post = (tailBlocks rowKind ty i post).map (C12.shiftB d) := by
  rcases hpost with rfl | ⟨x, rest, rfl, hx⟩
  · rfl
  · simp only [tailBlocks]
    have h1 := (C12.step_shift rowKind d i ⟨[], ty, 0⟩ x).1
    have h2 := congrArg Prod.fst (step_end rowKind [] (0 + d) (i + d) x k ty hty hx)
    simp only [C12.shiftS] at h1
    rw [h2] at h1
    rw [h1]
    have := C12.go_shift rowKind d (i + 1) (step rowKind ⟨[], ty, 0⟩ i x).1 rest
    rw [show i + d + 1 = i + 1 + d by omega]
    simpa [C12.shiftS] using this

/-- what a read delivers, reports and how it ends, with every origin row moved down by `n` -/
def shiftView (n : Nat) (v : List Delivered × List Nat × Ending) : List Delivered × List Nat × Ending :=
  (v.1.map (C12.shiftD n), v.2.1.map (· + n),
   match v.2.2 with
   | .exhausted => .exhausted
   | .inputError r => .inputError (r + n)
   | .escaped e => .escaped e)

/-- **a rejected block may grow**: if the rows after the first cell of a rejected block are replaced by `d` more
    (plain continuation) rows, the read is the read of `pre` followed by the read of what comes after the block with
    every origin row, issue row and error row moved down by `d` — and for `d = 0` that is the original read.  Nothing
    else changes, nothing inside the block is interpreted.  (Read right to left it covers a block that shrinks.) -/
theorem rejected_resize (cfg : Config) (pre post : List Row) (c : Cell) (r r' : Row) (body body' : List Row)
    (ty : BT) (hh : starter (rowKind (c :: r)) = some ty) (hh' : rowKind (c :: r') = rowKind (c :: r))
    (hb : ∀ x ∈ body, rowKind x = .plain) (hb' : ∀ x ∈ body', rowKind x = .plain) (d : Nat)
    (hlen : body'.length = body.length + d)
    (hpost : post = [] ∨ ∃ x rest, post = x :: rest ∧ rowKind x ≠ .plain)
    (hrej : accepts cfg ty ((c :: r) :: body) = false) (f : Fixer) :
    ∃ T : List (Block Row),
      C13.view (parseBlocks cfg (pre ++ ((c :: r) :: body) ++ post) f) =
        C13.runV cfg f.cfg (segment pre ++ T) ∧
      C13.view (parseBlocks cfg (pre ++ ((c :: r') :: body') ++ post) f) =
        C13.runV cfg f.cfg (segment pre ++ T.map (C12.shiftB d)) ∧
      C13.runV cfg f.cfg (T.map (C12.shiftB d)) = shiftView d (C13.runV cfg f.cfg T) := by
  refine ⟨tailBlocks rowKind ty (pre.length + 1 + body.length) post, ?_, ?_, C12.runV_shift cfg f.cfg d _⟩
  · unfold parseBlocks segment
    rw [(C13.runBlocks_eq_runV cfg _ f).1, block_split rowKind pre (c :: r) body post ty hh hb hpost,
      C12.runV_append, C12.runV_append, C12.runV_cons]
    have hv : C13.verdict cfg f.cfg ⟨ty, (c :: r) :: body, pre.length⟩ = none := by
      simp [C13.verdict, hrej]
    rw [hv]
  · unfold parseBlocks segment
    rw [(C13.runBlocks_eq_runV cfg _ f).1,
      block_split rowKind pre (c :: r') body' post ty (by rw [hh']; exact hh) hb' hpost,
      C12.runV_append, C12.runV_append, C12.runV_cons]
    have hacc : accepts cfg ty ((c :: r') :: body') = false := by
      have := accepts_first_cell cfg ⟨ty, (c :: r') :: body', 0⟩ ⟨ty, (c :: r) :: body, 0⟩ rfl rfl
      simpa [hrej] using this
    have hv : C13.verdict cfg f.cfg ⟨ty, (c :: r') :: body', pre.length⟩ = none := by
      simp [C13.verdict, hacc]
    rw [hv, hlen, show pre.length + 1 + (body.length + d) = pre.length + 1 + body.length + d by omega,
      tailBlocks_shift ty (rowKind (c :: r)) hh _ d post hpost]

/-- **the reported name of a raw grid**: if the grid parses as a table, the name its first cell spells
    (`Spec.gridName`, what a `to="cellgrid"` block reports) is the parsed table's name -/
theorem gridName_is_table_name (ext : Ext) (rows : List Row) (f : Fixer) (p : Precursor) (f' : Fixer)
    (h : makeTable ext rows f = .ok (p, f')) : Spec.gridName rows = p.name := by
  rw [(makeTable_spec ext rows f p f' h).2]
  unfold Spec.gridName Blocks.offeredName
  rfl

theorem gridName_is_precursor_name (ext : Ext) (rows : List Row) (f : Fixer) (p : Precursor) (f' : Fixer)
    (h : makePrecursor ext rows f = .ok (p, f')) : Spec.gridName rows = p.name := by
  rw [(makePrecursor_spec ext rows f p f' h).2]
  unfold Spec.gridName Blocks.offeredName
  rfl

/-- a decidable sufficient test for `Agree` (used for the concrete examples below) -/
def agreeB (cfg : Config) : List (Block Row) → List (Block Row) → Bool
  | [], [] => true
  | b :: bs, b' :: bs' =>
    (decide (b.ty = b'.ty) && decide (Spec.firstCell b = Spec.firstCell b') &&
      (!accepts cfg b.ty b.rows || (decide (b.rows = b'.rows) && decide (b.first = b'.first)))) &&
    agreeB cfg bs bs'
  | _, _ => false

theorem agree_of_agreeB (cfg : Config) (bs bs' : List (Block Row)) (h : agreeB cfg bs bs' = true) :
    Agree cfg bs bs' := by
  induction bs generalizing bs' with
  | nil =>
    cases bs' with
    | nil => exact .nil
    | cons b' bs' => simp [agreeB] at h
  | cons b bs ih =>
    cases bs' with
    | nil => simp [agreeB] at h
    | cons b' bs' =>
      simp only [agreeB, Bool.and_eq_true, decide_eq_true_eq, Bool.or_eq_true, Bool.not_eq_true'] at h
      obtain ⟨⟨⟨hty, hc⟩, hacc⟩, hrest⟩ := h
      refine .cons ⟨hty, hc, ?_⟩ (ih bs' hrest)
      intro ha
      rcases hacc with hacc | ⟨hr, hf⟩
      · rw [ha] at hacc; cases hacc
      · cases b; cases b'; simp_all

/-! ## 7. non-vacuity: a concrete multi-block input with a malformed table and a transposed table -/

def exRows (badContent : List Row) : List Row :=
  [[.str "author:".toList, .str "x".toList],
   [.str "**a".toList], [.str "all".toList], [.str "x".toList], [.str "m".toList], [.str "1.5".toList],
   [],
   [.str "**bad".toList]] ++ badContent ++
  [[],
   [.str "**c*".toList], [.str "all".toList], [.str "x".toList, .str "m".toList, .str "1.5".toList],
   [],
   [.str "***d".toList], [.str "l1".toList]]

/-- accept exactly the tables named `a` and `c` -/
def exFilter : BT → Str → Bool := fun ty n => ty = .table && (n = "a".toList || n = "c".toList)

def exCfg (form : Form) (flt : Option (BT → Str → Bool)) (tr : Tracker) : Config := ⟨form, flt, tr, C02.exampleExt⟩

def exFixer : Fixer := ⟨FixCfg.strict, 0, 0, []⟩

def Ending.isExhausted : Ending → Bool
  | .exhausted => true
  | _ => false

def summary (r : Result) : List (BT × Nat × Str) × List Nat × Bool :=
  (r.blocks.map (fun d => (d.ty, d.first, Spec.offeredName d)), r.issues, Ending.isExhausted r.ending)

/-- malformed content: no unit row -/
def badA : List Row := [[.str "all".toList], [.str "x".toList]]
/-- other malformed content of the same number of rows: a number where the destinations belong, no header -/
def badB : List Row := [[.int 5 "5.0".toList, .none], [.str "garbage".toList, .str "datetime".toList]]

/-- the unfiltered read stops at the malformed table `**bad` … -/
example : summary (parseBlocks (exCfg .pdtable none .raising) (exRows badA) exFixer) =
    ([(.metadata, 0, []), (.table, 1, "a".toList)], [7], false) := by decide

/-- … the filtered read does not: `**bad` is rejected, hence never parsed; the transposed table is offered as `c` -/
example : summary (parseBlocks (exCfg .pdtable (some exFilter) .raising) (exRows badA) exFixer) =
    ([(.table, 1, "a".toList), (.table, 11, "c".toList)], [], true) := by decide

example : summary (parseBlocks (exCfg .jsondata (some exFilter) .raising) (exRows badA) exFixer) =
    ([(.table, 1, "a".toList), (.table, 11, "c".toList)], [], true) := by decide

example : summary (parseBlocks (exCfg .cellgrid (some exFilter) .raising) (exRows badA) exFixer) =
    ([(.table, 1, "a".toList), (.table, 11, "c".toList)], [], true) := by decide

/-- the hypothesis of `filter_exact` is satisfiable on this input (collecting tracker: the read runs to the end) -/
example : summary (parseBlocks (unfiltered (exCfg .pdtable (some exFilter) .collecting)) (exRows badA) exFixer) =
    ([(.metadata, 0, []), (.table, 1, "a".toList), (.table, 11, "c".toList), (.directive, 15, [])], [7], true) := by
  decide

/-- the hypothesis of `rejected_content_irrelevant` is satisfiable: other malformed content inside the rejected
    table — the two reads are equal -/
example :
    parseBlocks (exCfg .pdtable (some exFilter) .raising) (exRows badA) exFixer =
    parseBlocks (exCfg .pdtable (some exFilter) .raising) (exRows badB) exFixer :=
  rejected_content_irrelevant_rows _ _ _ _ (agree_of_agreeB _ _ _ (by decide))

/-- the hypotheses of `rejected_content_irrelevant_edit` on the same input, given on rows: the rejected table
    `**bad` sits between `exPre` and `exPost`; its content is replaced keeping two plain rows -/
def exPre : List Row :=
  [[.str "author:".toList, .str "x".toList],
   [.str "**a".toList], [.str "all".toList], [.str "x".toList], [.str "m".toList], [.str "1.5".toList],
   []]

def exPost : List Row :=
  [[],
   [.str "**c*".toList], [.str "all".toList], [.str "x".toList, .str "m".toList, .str "1.5".toList],
   [],
   [.str "***d".toList], [.str "l1".toList]]

example : exRows badA = exPre ++ ([.str "**bad".toList] :: badA) ++ exPost := by decide

example :
    parseBlocks (exCfg .jsondata (some exFilter) .collecting) (exPre ++ ([.str "**bad".toList] :: badA) ++ exPost) exFixer =
    parseBlocks (exCfg .jsondata (some exFilter) .collecting)
      (exPre ++ ([.str "**bad".toList, .str "junk".toList] :: badB) ++ exPost) exFixer :=
  rejected_content_irrelevant_edit _ exPre exPost (.str "**bad".toList) [] [.str "junk".toList] badA badB .table
    (by decide) (by decide) (by decide) (by decide) (by decide) (Or.inr ⟨[], _, rfl, by decide⟩) (by decide) exFixer

/-- `gridName_is_table_name` is not vacuous: a grid that parses, and the name both ways -/
example : (makeTable C02.exampleExt [[.str "**c*".toList], [.str "all".toList],
      [.str "x".toList, .str "m".toList, .str "1.5".toList]] exFixer).toOption.map (·.1.name) = some "c".toList ∧
    Spec.gridName [[.str "**c*".toList], [.str "all".toList],
      [.str "x".toList, .str "m".toList, .str "1.5".toList]] = "c".toList := by decide

/-- the hypotheses of `rejected_resize` are satisfiable: the rejected table `**bad` grows by one row -/
example := rejected_resize (exCfg .pdtable (some exFilter) .collecting) exPre exPost (.str "**bad".toList) [] []
  badA (badA ++ [[.str "more".toList, .none]]) .table (by decide) (by decide) (by decide) (by decide) 1 (by decide)
  (Or.inr ⟨[], _, rfl, by decide⟩) (by decide) exFixer

end Pdt.C11
