/-
  Props/C01.lean — "CSV write-then-read preserves every well-formed table bundle".

  Main theorem `csv_roundtrip`: for every external float()/to_datetime behaviour `ext`, every separator
  `sep`, every missing-value representation that is itself a marker, and every finite sequence of tables
  well formed for them (`WF`, the Lean form of DESIGN.md §3),

      read_csv (write_csv ts)  delivers exactly  ts.map observe,  in order,  no issue,  no other block.

  Stages: (A) Lemmas/Write.lean — the rows read are the cell texts written; (B) Lemmas/SegmentChunks.lean —
  the splitter cuts them back into the written blocks; (C) here — `makeTable` on a written block returns
  the table (uses Lemmas/Roundtrip.lean: a rendered column parses back to its values).
-/
import PdtModel.Lemmas.Write
import PdtModel.Lemmas.SegmentChunks
import PdtModel.Lemmas.Roundtrip
import PdtModel.Lemmas.ListAux
set_option linter.unusedSimpArgs false
namespace Pdt.C01
open Pdt Pdt.Reader Pdt.Represent Pdt.Write

/-! ## 0. constants of the writer, pinned to the source -/

theorem writer_constants_pinned :
    Gen.sealant = "-".toList ∧ Gen.naRepDefault = "-".toList ∧ Gen.csvSep = ";".toList ∧
    Gen.sealantTest = "col == 0 and val == ''" := by decide

/-! ## 1. well-formed tables (DESIGN.md §3) -/

/-- a first-cell text that neither ends a block nor starts one -/
def PlainText (s : Str) : Prop := allSpace s = false ∧ classify s = none

/-- rendered text of value `i` of column `j` (position argument of the sealant test: the column index
    row-wise, the row index transposed — `_represent_col_elements` reuses the row code) -/
def cellAt (naRep : Str) (t : TableVal) (c : Column) (j i : Nat) : Str :=
  cellText naRep (if t.transposed then i else j) c.unit (c.values.getD i (.text []))

structure WF (ext : Ext) (sep : Char) (naRep : Str) (t : TableVal) : Prop where
  naRepOK : NaRepOK naRep
  sepOK : sep ≠ '\n'
  sepNoCR : sep ≠ '\r'
  /-- no separator / newline / carriage return in any written cell text (name, destinations, names, units, values) -/
  clean : CellsClean sep naRep t
  /-- `**name` / `**name*` is a table marker: the name does not start with `*`, and is not empty when transposed -/
  headerTable : leading '*' (header t) = 2
  nameNoStar : t.name.getLast? ≠ some '*'
  /-- the destination line reads back as the written tokens (non-empty, blank-free, distinct tokens) -/
  destsBack : destinations (.str (joinStr [' '] t.destinations)) = t.destinations
  destsPlain : PlainText (joinStr [' '] t.destinations)
  namesNodup : (t.columns.map (·.name)).Nodup
  namesOK : ∀ c ∈ t.columns, (Cell.str c.name).isBlank = false ∧ strip c.name = c.name
  unitsOK : ∀ c ∈ t.columns, strip c.unit = c.unit
  sameLen : ∀ c ∈ t.columns, c.values.length = t.nRows
  values : ∀ p ∈ t.columns.zipIdx, ∀ q ∈ p.1.values.zipIdx,
    ValOK ext p.1.unit (if t.transposed then q.2 else p.2) q.1
  /-- timestamps carry no UTC offset (a column mixing offsets is not a datetime64 column) -/
  dtNaive : ∀ c ∈ t.columns, ∀ v ∈ c.values, ∀ tok, v = .dt tok → tzOf tok = []
  /-- row-wise: first name, first unit and the first cell of every value row are plain first cells -/
  firstRowwise : t.transposed = false → ∀ c, t.columns.head? = some c →
    PlainText c.name ∧ PlainText c.unit ∧ ∀ i, i < t.nRows → PlainText (cellAt naRep t c 0 i)
  /-- transposed: every column name is a plain first cell -/
  firstTransposed : t.transposed = true → ∀ c ∈ t.columns, PlainText c.name
  /-- transposed: every value row has a non-blank rendered cell (the reader stops at the first all-blank row) -/
  rowsNonBlank : t.transposed = true → ∀ i, i < t.nRows →
    ∃ p ∈ t.columns.zipIdx, allSpace (cellAt naRep t p.1 p.2 i) = false

/-- what the reader reports for a table: header fields and, per column, the parsed values
    (no values at all for a table without rows) -/
def observe (t : TableVal) : Precursor :=
  ⟨t.name, t.transposed, t.destinations, t.columns.map (·.name), t.columns.map (·.unit),
   t.columns.map (fun c => if t.nRows = 0 then ColVals.raw else obsCol c.unit c.values)⟩

/-! ## 2. stage C helpers: a well-formed block needs no repair -/

theorem foldl_dupStep_nodup (ps : List (Str × Nat)) (acc : List Str × Fixer)
    (h1 : ∀ p ∈ ps, p.1 ∉ acc.1) (h2 : (ps.map (·.1)).Nodup) :
    ps.foldl dupStep acc = (acc.1 ++ ps.map (·.1), acc.2) := by
  induction ps generalizing acc with
  | nil => simp
  | cons p ps ih =>
    have hp : acc.1.contains p.1 = false := by
      simpa using h1 p (by simp)
    simp only [List.foldl_cons, dupStep, hp, Bool.not_false, if_true]
    simp only [List.map_cons, List.nodup_cons] at h2
    rw [ih]
    · simp
    · intro q hq
      simp only [List.mem_append, List.mem_singleton, not_or]
      refine ⟨h1 q (List.mem_cons_of_mem _ hq), ?_⟩
      intro e
      exact h2.1 (by rw [← e]; exact List.mem_map.2 ⟨q, hq, rfl⟩)
    · exact h2.2

theorem fixDuplicates_nodup (names : List Str) (f : Fixer) (h : names.Nodup) :
    fixDuplicates names f = (names, f) := by
  unfold fixDuplicates
  rw [foldl_dupStep_nodup names.zipIdx ([], f) (by simp) (by rw [C02.map_fst_zipIdx]; exact h)]
  simp [C02.map_fst_zipIdx]

theorem foldl_shortStep_full (n : Nat) (ps : List (Row × Nat)) (acc : List Row × Fixer)
    (h : ∀ p ∈ ps, ¬ p.1.length < n) :
    ps.foldl (shortStep n) acc = (acc.1 ++ ps.map (·.1), acc.2) := by
  induction ps generalizing acc with
  | nil => simp
  | cons p ps ih =>
    have hp := h p (by simp)
    simp only [List.foldl_cons, shortStep, hp, if_false]
    rw [ih _ (fun q hq => h q (List.mem_cons_of_mem _ hq))]
    simp

theorem fixShortRows_full (rows : List Row) (n : Nat) (f : Fixer) (h : ∀ r ∈ rows, ¬ r.length < n) :
    fixShortRows rows n f = (rows, f) := by
  unfold fixShortRows
  rw [foldl_shortStep_full n rows.zipIdx ([], f)]
  · simp [C02.map_fst_zipIdx]
  · intro p hp
    have : p.1 ∈ rows.zipIdx.map (·.1) := List.mem_map.2 ⟨p, hp, rfl⟩
    rw [C02.map_fst_zipIdx] at this
    exact h _ this

/-- columns that each parse without touching the fixer parse together without touching it -/
theorem parseColumns_all (ext : Ext) (us : List Str) (cs : List Row) (vs : List ColVals) (f : Fixer)
    (hl1 : us.length = cs.length) (hl2 : cs.length = vs.length)
    (h : ∀ k, k < us.length →
      parseColumn ext (us.getD k []) (cs.getD k []) f = .ok (vs.getD k .raw, f)) :
    parseColumns ext us cs f = .ok (vs, f) := by
  induction us generalizing cs vs with
  | nil =>
    cases cs with
    | nil => cases vs <;> simp_all [parseColumns]
    | cons c cs => simp at hl1
  | cons u us ih =>
    cases cs with
    | nil => simp at hl1
    | cons c cs =>
      cases vs with
      | nil => simp at hl2
      | cons v vs =>
        have h0 := h 0 (by simp)
        simp only [List.getD_cons_zero] at h0
        simp only [parseColumns, h0, bind, Except.bind]
        rw [ih cs vs (by simpa using hl1) (by simpa using hl2)
          (fun k hk => by have := h (k + 1) (by simp; omega); simpa using this)]
        rfl

theorem parseColumns_no_cols (ext : Ext) (us : List Str) (f : Fixer) : parseColumns ext us [] f = .ok ([], f) := by
  cases us <;> rfl

/-- the fixer-dependent half of the reader on a block that needs no repair -/
theorem finish_clean (ext : Ext) (L : Layout) (f : Fixer) (vs : List ColVals)
    (hn : L.names0.Nodup) (hr : ∀ r ∈ L.rows0, ¬ r.length < L.names0.length)
    (hf : f.errors = 0 ∧ f.warnings = 0)
    (hparse : L.rows0 ≠ [] →
      parseColumns ext L.units (transposeN L.rows0 L.names0.length) f = .ok (vs, f) ∧ vs.length = L.names0.length) :
    finish ext L f = .ok (⟨L.name, L.transposed, L.destinations, L.names0, L.units,
      if L.rows0 = [] then List.replicate L.names0.length ColVals.raw else vs⟩, f) := by
  unfold finish
  rw [fixDuplicates_nodup L.names0 f hn]
  simp only []
  rw [fixShortRows_full L.rows0 L.names0.length f hr]
  simp only []
  have hfix : ¬ ((decide (f.fixes > 0) && f.cfg.stopOnErrors) = true) := by
    unfold Fixer.fixes; simp [hf.1, hf.2]
  by_cases he : L.rows0 = []
  · simp only [he, List.isEmpty_nil, if_true, parseColumns_no_cols, bind, Except.bind, hfix,
      Bool.false_eq_true, if_false, pure, Except.pure]
    simp
  · have hne : L.rows0.isEmpty = false := by simpa using he
    obtain ⟨hp, hl⟩ := hparse he
    simp only [hne, Bool.false_eq_true, if_false, hp, bind, Except.bind, hfix, pure, Except.pure, he]
    simp [hl]

/-! ## 3. the raw columns of a written block and their parse -/

def dCol : Column := ⟨[], [], []⟩

/-- rendered cell `(i, j)` of the table as the reader sees it -/
def cellM (naRep : Str) (t : TableVal) (i j : Nat) : Cell :=
  .str (cellAt naRep t (t.columns.getD j dCol) j i)

/-- the raw column cells `zip(*data_rows)` hands to the column parsers -/
def colCellsOf (naRep : Str) (t : TableVal) : List Row :=
  (List.range t.columns.length).map (fun j => (List.range t.nRows).map (fun i => cellM naRep t i j))

theorem getD_map {α β} (l : List α) (g : α → β) (k : Nat) (d : α) (h : k < l.length) (d' : β) :
    (l.map g).getD k d' = g (l.getD k d) := by
  simp [List.getD_eq_getElem?_getD, h]

theorem getD_range (n k d : Nat) (h : k < n) : (List.range n).getD k d = k := by
  simp [List.getD_eq_getElem?_getD, h]

theorem mem_zipIdx_getD {α} (l : List α) (k : Nat) (d : α) (h : k < l.length) : (l.getD k d, k) ∈ l.zipIdx := by
  rw [List.mem_zipIdx_iff_getElem?]
  simp [List.getD_eq_getElem?_getD, h]

/-- **the written columns parse back to the table's values**, without touching the fixer -/
theorem parse_colCells (ext : Ext) (sep : Char) (naRep : Str) (t : TableVal) (hwf : WF ext sep naRep t)
    (f : Fixer) :
    parseColumns ext (t.columns.map (·.unit)) (colCellsOf naRep t) f =
      .ok (t.columns.map (fun c => obsCol c.unit c.values), f) := by
  apply parseColumns_all
  · simp [colCellsOf]
  · simp [colCellsOf]
  · intro k hk
    simp only [List.length_map] at hk
    have hmem := mem_zipIdx_getD t.columns k dCol hk
    have hcmem : t.columns.getD k dCol ∈ t.columns := by
      simp [List.getD_eq_getElem?_getD, hk]
    rw [getD_map t.columns (·.unit) k dCol hk, getD_map t.columns _ k dCol hk]
    have hcc : (colCellsOf naRep t).getD k [] =
        ((t.columns.getD k dCol).values.zipIdx.map
          (fun q => (q.1, if t.transposed then q.2 else k))).map
          (fun p => Cell.str (cellText naRep p.2 (t.columns.getD k dCol).unit p.1)) := by
      unfold colCellsOf
      rw [getD_map (List.range t.columns.length) _ k 0 (by simpa using hk), getD_range _ _ 0 hk,
        List.map_map, zipIdx_map_eq_range (t.columns.getD k dCol).values (.text []), hwf.sameLen _ hcmem]
      apply List.map_congr_left
      intro i _
      simp only [cellM, cellAt, Function.comp]
    rw [hcc]
    have := parse_rendered ext naRep hwf.naRepOK (t.columns.getD k dCol).unit
      ((t.columns.getD k dCol).values.zipIdx.map (fun q => (q.1, if t.transposed then q.2 else k))) f
      (by
        intro p hp
        obtain ⟨q, hq, rfl⟩ := List.mem_map.1 hp
        exact hwf.values _ hmem q hq)
    rw [this, List.map_map]
    have hfst : ((fun x : Val × Nat => x.1) ∘ fun q : Val × Nat => (q.1, if t.transposed = true then q.2 else k))
        = (fun q => q.1) := rfl
    rw [hfst, C02.map_fst_zipIdx]

/-! ## 4. stage C, row-wise tables -/

def hdrRow (t : TableVal) : Row := [.str (header t), .str []]
def destRow (t : TableVal) : Row := [.str (joinStr [' '] t.destinations)]
def dataRowsM (naRep : Str) (t : TableVal) : List Row :=
  (List.range t.nRows).map (fun i => (List.range t.columns.length).map (fun j => cellM naRep t i j))

theorem readCells_ne {cs : List Str} (h : cs ≠ []) : readCells cs = cs := by
  cases cs with
  | nil => exact absurd rfl h
  | cons x xs => rfl

theorem rowTexts_matrix (naRep : Str) (t : TableVal) (h : t.transposed = false) (i : Nat) :
    strRow (rowTexts naRep t.columns i) = (List.range t.columns.length).map (fun j => cellM naRep t i j) := by
  unfold strRow rowTexts
  rw [List.map_map, zipIdx_map_eq_range t.columns dCol]
  apply List.map_congr_left
  intro j _
  simp [cellM, cellAt, h, Function.comp]

theorem tableRows_rowwise (naRep : Str) (t : TableVal) (h : t.transposed = false) (hc : t.columns ≠ []) :
    tableRows naRep t = hdrRow t :: destRow t :: strRow (t.columns.map (·.name)) ::
      strRow (t.columns.map (·.unit)) :: dataRowsM naRep t := by
  have hn : t.columns.map (·.name) ≠ [] := by simpa using hc
  have hu : t.columns.map (·.unit) ≠ [] := by simpa using hc
  unfold tableRows tableCells
  simp only [h, Bool.false_eq_true, if_false, List.map_append, List.map_cons, List.map_nil,
    List.cons_append, List.nil_append, List.map_map]
  rw [readCells_ne hn, readCells_ne hu]
  simp only [hdrRow, destRow, strRow, readCells, List.map_cons, List.map_nil, dataRowsM]
  congr 4
  apply List.map_congr_left
  intro i _
  have hr : rowTexts naRep t.columns i ≠ [] := by
    unfold rowTexts
    cases hcc : t.columns with
    | nil => exact absurd hcc hc
    | cons c cs => simp [List.zipIdx_cons]
  simp only [Function.comp, readCells_ne hr]
  exact rowTexts_matrix naRep t h i

theorem header_drop (t : TableVal) (h : t.transposed = false) : (header t).drop 2 = t.name := by
  simp [header, h]

theorem transposeN_dataRowsM (naRep : Str) (t : TableVal) :
    transposeN (dataRowsM naRep t) t.columns.length = colCellsOf naRep t :=
  transposeN_matrix t.nRows t.columns.length (fun i j => cellM naRep t i j)

theorem obsCol_length (unit : Str) (vs : List Val) : (obsCol unit vs).length = vs.length := by
  unfold obsCol
  split
  · simp [ColVals.length]
  · split
    · simp [ColVals.length]
    · split <;> simp [ColVals.length]

theorem dtHomogeneous_of_naive (xs : List Str) (h : ∀ x ∈ xs, x ≠ NaT → tzOf x = []) :
    dtHomogeneous xs = true := by
  unfold dtHomogeneous
  have hall : ∀ z ∈ (xs.filter (· != NaT)).map tzOf, z = [] := by
    intro z hz
    obtain ⟨x, hx, rfl⟩ := List.mem_map.1 hz
    have := List.mem_filter.1 hx
    exact h x this.1 (by simpa using this.2)
  cases hm : (xs.filter (· != NaT)).map tzOf with
  | nil => rfl
  | cons z zs =>
    rw [hm] at hall
    have hz := hall z (by simp)
    simp only [List.all_eq_true]
    intro y hy
    have := hall y (List.mem_cons_of_mem _ hy)
    simp [this, hz]

/-- the table-level checks of `_make_table` pass for the observed columns of a well-formed table -/
theorem observed_columns_ok (ext : Ext) (sep : Char) (naRep : Str) (t : TableVal) (hwf : WF ext sep naRep t) :
    (match (observe t).columns with
     | [] => True
     | c :: cs => cs.all (fun d => d.length = c.length) = true ∧
        (c.length > 0 && (observe t).columns.any ColVals.dtInhomogeneous) = false) := by
  unfold observe
  simp only []
  cases hcols : t.columns with
  | nil => simp
  | cons c0 cs0 =>
    simp only [List.map_cons]
    constructor
    · simp only [List.all_eq_true, List.mem_map, decide_eq_true_eq]
      rintro d ⟨c, hc, rfl⟩
      by_cases h0 : t.nRows = 0
      · simp [h0, ColVals.length]
      · simp only [h0, if_false, obsCol_length]
        rw [hwf.sameLen c (by rw [hcols]; exact List.mem_cons_of_mem _ hc),
            hwf.sameLen c0 (by rw [hcols]; simp)]
    · have hany : ((if t.nRows = 0 then ColVals.raw else obsCol c0.unit c0.values) ::
          cs0.map (fun c => if t.nRows = 0 then ColVals.raw else obsCol c.unit c.values)).any
          ColVals.dtInhomogeneous = false := by
        rw [List.any_eq_false]
        intro d hd
        have : ∃ c ∈ t.columns, d = (if t.nRows = 0 then ColVals.raw else obsCol c.unit c.values) := by
          rw [hcols]
          rcases List.mem_cons.1 hd with rfl | hd
          · exact ⟨c0, by simp, rfl⟩
          · obtain ⟨c, hc, rfl⟩ := List.mem_map.1 hd
            exact ⟨c, List.mem_cons_of_mem _ hc, rfl⟩
        obtain ⟨c, hc, rfl⟩ := this
        by_cases h0 : t.nRows = 0
        · simp [h0, ColVals.dtInhomogeneous]
        · simp only [h0, if_false]
          unfold obsCol
          by_cases h1 : c.unit = uText
          · rw [if_pos h1]; simp [ColVals.dtInhomogeneous]
          · rw [if_neg h1]
            by_cases h2 : c.unit = uOnoff
            · rw [if_pos h2]; simp [ColVals.dtInhomogeneous]
            · rw [if_neg h2]
              by_cases h3 : c.unit = uDatetime
              · rw [if_pos h3]
                have := dtHomogeneous_of_naive (c.values.map dtOf) (by
                    intro x hx hne
                    obtain ⟨v, hv, rfl⟩ := List.mem_map.1 hx
                    cases v with
                    | dt tok => exact hwf.dtNaive c hc (.dt tok) hv tok rfl
                    | _ => simp [dtOf] at hne)
                simp [ColVals.dtInhomogeneous, this]
              · rw [if_neg h3]; simp [ColVals.dtInhomogeneous]
      simp [hany]

theorem dataRowsM_eq_nil (naRep : Str) (t : TableVal) : dataRowsM naRep t = [] ↔ t.nRows = 0 := by
  simp [dataRowsM]

/-- `_make_table` on top of a successful precursor whose columns pass the DataFrame checks -/
theorem makeTable_ok (ext : Ext) (cells : List Row) (f : Fixer) (p : Precursor) (f' : Fixer)
    (hp : makePrecursor ext cells f = .ok (p, f'))
    (hcols : match p.columns with
     | [] => True
     | c :: cs => cs.all (fun d => d.length = c.length) = true ∧
        (c.length > 0 && p.columns.any ColVals.dtInhomogeneous) = false) :
    makeTable ext cells f = .ok (p, f') := by
  unfold makeTable
  rw [hp]
  simp only [bind, Except.bind]
  split
  · rfl
  · rename_i c cs hcs
    rw [hcs] at hcols
    have h1 := hcols.1
    have h2 := hcols.2
    rw [← hcs] at h2
    simp only [h1, h2, Bool.not_true, Bool.false_eq_true, if_false]
    rfl

/-- once the header and grid slicing deliver the table's own names, units and rendered value matrix, the rest
    of the reader (no repair, column parsing, DataFrame checks) returns the table -/
theorem makeTable_of_layout (ext : Ext) (sep : Char) (naRep : Str) (t : TableVal) (hwf : WF ext sep naRep t)
    (f : Fixer) (hf : f.errors = 0 ∧ f.warnings = 0)
    (hlay : layout (tableRows naRep t) = .ok
      ⟨t.name, t.transposed, t.destinations, t.columns.map (·.name), t.columns.map (·.unit), dataRowsM naRep t⟩) :
    makeTable ext (tableRows naRep t) f = .ok (observe t, f) := by
  apply makeTable_ok _ _ _ _ _ _ (observed_columns_ok ext sep naRep t hwf)
  unfold makePrecursor
  rw [hlay]
  simp only [bind, Except.bind]
  rw [finish_clean ext _ f (t.columns.map (fun c => obsCol c.unit c.values))
    (by simpa using hwf.namesNodup)
    (by
      intro r hr
      obtain ⟨i, _, rfl⟩ := List.mem_map.1 hr
      simp)
    hf
    (by
      intro _
      simp only [List.length_map]
      rw [transposeN_dataRowsM]
      exact ⟨parse_colCells ext sep naRep t hwf f, by simp⟩)]
  congr 2
  unfold observe
  congr 1
  by_cases h0 : t.nRows = 0
  · simp [(dataRowsM_eq_nil naRep t).2 h0, h0, List.map_const']
  · have : dataRowsM naRep t ≠ [] := fun e => h0 ((dataRowsM_eq_nil naRep t).1 e)
    simp [this, h0]

/-- **stage C, row-wise**: the reader core returns a written row-wise table as it was -/
theorem makeTable_rowwise (ext : Ext) (sep : Char) (naRep : Str) (t : TableVal) (hwf : WF ext sep naRep t)
    (h : t.transposed = false) (hc : t.columns ≠ []) (f : Fixer) (hf : f.errors = 0 ∧ f.warnings = 0) :
    makeTable ext (tableRows naRep t) f = .ok (observe t, f) := by
  have hnames : parseColumnNames (strRow (t.columns.map (·.name))) = .ok (t.columns.map (·.name)) := by
    have := (C02.names_until_first_blank (t.columns.map (·.name)) .none []
      (by intro s hs; obtain ⟨c, hc', rfl⟩ := List.mem_map.1 hs; exact (hwf.namesOK c hc').1) rfl).2
    unfold strRow
    rw [this]
    congr 1
    rw [List.map_map]
    conv => rhs; rw [← List.map_id (t.columns.map (·.name))]
    rw [List.map_map]
    apply List.map_congr_left
    intro c hc'
    exact (hwf.namesOK c hc').2
  have hlay : layout (tableRows naRep t) = .ok
      ⟨t.name, false, t.destinations, t.columns.map (·.name), t.columns.map (·.unit), dataRowsM naRep t⟩ := by
    rw [tableRows_rowwise naRep t h hc]
    unfold hdrRow destRow
    rw [C02.layout_rowwise (header t) [.str []] (.str (joinStr [' '] t.destinations)) []
      (strRow (t.columns.map (·.name))) (strRow (t.columns.map (·.unit))) (dataRowsM naRep t)
      (by rw [header_drop t h]; exact hwf.nameNoStar), hnames]
    simp only [header_drop t h, hwf.destsBack, List.length_map]
    have htake : (strRow (t.columns.map (·.unit))).take t.columns.length = strRow (t.columns.map (·.unit)) := by
      apply List.take_of_length_le; simp [strRow]
    rw [htake]
    have hall : (strRow (t.columns.map (·.unit))).all Cell.isStr = true := by simp [strRow, Cell.isStr]
    rw [hall]
    simp only [if_true]
    have hunits : (strRow (t.columns.map (·.unit))).map stripOfStr = t.columns.map (·.unit) := by
      unfold strRow
      rw [List.map_map, List.map_map]
      apply List.map_congr_left
      intro c hc'
      simp [Function.comp, stripOfStr, hwf.unitsOK c hc']
    rw [hunits]
    have hdata : (dataRowsM naRep t).map (fun l => l.take t.columns.length) = dataRowsM naRep t := by
      conv => rhs; rw [← List.map_id (dataRowsM naRep t)]
      apply List.map_congr_left
      intro r hr
      obtain ⟨i, _, rfl⟩ := List.mem_map.1 hr
      exact List.take_of_length_le (by simp)
    rw [hdata]
    have hlen : ¬ (strRow (t.columns.map (·.unit))).length < t.columns.length := by simp [strRow]
    simp only [hlen, if_false]
  exact makeTable_of_layout ext sep naRep t hwf f hf (by rw [hlay, h])

/-! ## 5. stage C, transposed tables -/

/-- the value cells of line `j` of a transposed table in matrix form -/
def lineVals (naRep : Str) (t : TableVal) (j : Nat) : Row := (List.range t.nRows).map (fun i => cellM naRep t i j)

theorem colTexts_matrix (naRep : Str) (t : TableVal) (h : t.transposed = true) (j : Nat) (hj : j < t.columns.length)
    (hlen : (t.columns.getD j dCol).values.length = t.nRows) :
    strRow (colTexts naRep (t.columns.getD j dCol)) = lineVals naRep t j := by
  unfold strRow colTexts lineVals
  rw [List.map_map, zipIdx_map_eq_range _ (.text []), hlen]
  apply List.map_congr_left
  intro i _
  simp [cellM, cellAt, h, Function.comp]

/-- a transposed line as read: name, unit, then the values (one empty cell if there are none) -/
def lineRow (naRep : Str) (t : TableVal) (j : Nat) : Row :=
  .str (t.columns.getD j dCol).name :: .str (t.columns.getD j dCol).unit ::
    (if t.nRows = 0 then [.str []] else lineVals naRep t j)

theorem tableRows_transposed (naRep : Str) (t : TableVal) (h : t.transposed = true)
    (hlen : ∀ c ∈ t.columns, c.values.length = t.nRows) :
    tableRows naRep t = hdrRow t :: destRow t :: (List.range t.columns.length).map (lineRow naRep t) := by
  unfold tableRows tableCells
  simp only [h, if_true, List.map_append, List.map_cons, List.map_nil, List.cons_append, List.nil_append,
    List.map_map]
  simp only [hdrRow, destRow, strRow, readCells, List.map_cons, List.map_nil]
  congr 2
  rw [← zipIdx_map_eq_range t.columns dCol (fun p => lineRow naRep t p.2)]
  have : ∀ (l : List Column) (g : Column → Row) (g' : Column × Nat → Row),
      (∀ p ∈ l.zipIdx, g p.1 = g' p) → l.map g = l.zipIdx.map g' := by
    intro l g g' hg
    conv => lhs; rw [← C02.map_fst_zipIdx l 0]
    rw [List.map_map]
    exact List.map_congr_left hg
  apply this
  intro p hp
  have hp' := List.mem_zipIdx_iff_getElem?.1 hp
  have hj : p.2 < t.columns.length := by
    have := List.getElem?_eq_some_iff.1 hp'
    exact this.1
  have hget : t.columns.getD p.2 dCol = p.1 := by
    simp [List.getD_eq_getElem?_getD, hp']
  have hc : p.1 ∈ t.columns := by
    have := List.getElem?_eq_some_iff.1 hp'
    rw [← this.2]; exact List.getElem_mem _
  simp only [Function.comp, lineRow, hget]
  have hm := colTexts_matrix naRep t h p.2 hj (by rw [hget]; exact hlen p.1 hc)
  rw [hget] at hm
  by_cases h0 : t.nRows = 0
  · have hv : p.1.values = [] := by
      have := hlen p.1 hc; rw [h0] at this; exact List.length_eq_zero_iff.1 this
    simp [h0, colTexts, hv, readCells]
  · have hne : colTexts naRep p.1 ≠ [] := by
      intro e
      have := congrArg List.length hm
      simp [strRow, e, lineVals] at this
      exact h0 this.symm
    simp only [h0, if_false]
    cases hct : colTexts naRep p.1 with
    | nil => exact absurd hct hne
    | cons x xs =>
      simp only [readCells, List.map_cons]
      rw [hct] at hm
      simp only [strRow, List.map_cons] at hm
      rw [← hm]

theorem foldl_max_const (n : Nat) (lines : List Row) (m0 : Nat) (h : ∀ l ∈ lines, l.length = n) (hm : m0 ≤ n)
    (hne : lines ≠ []) : lines.foldl (fun m l => max m l.length) m0 = n := by
  induction lines generalizing m0 with
  | nil => exact absurd rfl hne
  | cons l ls ih =>
    simp only [List.foldl_cons]
    have hl := h l (by simp)
    cases ls with
    | nil => simp [hl]; omega
    | cons l2 ls2 =>
      exact ih (max m0 l.length) (fun x hx => h x (List.mem_cons_of_mem _ hx)) (by rw [hl]; omega) (by simp)

/-- the row-count detection runs through all `n` rows when each of them has a non-blank cell somewhere -/
theorem nRowLoop_full (lines : List Row) (n : Nat)
    (h : ∀ i, i < n → lines.any (fun l => i < l.length && !(getD0 l i).isBlank) = true) :
    ∀ fuel i, i + fuel = n → nRowLoop lines n i fuel = n := by
  intro fuel
  induction fuel with
  | zero => intro i hi; simp [nRowLoop]; omega
  | succ k ih =>
    intro i hi
    have hlt : i < n := by omega
    unfold nRowLoop
    simp only [hlt, decide_true, Bool.true_and, h i hlt, if_true]
    exact ih (i + 1) (by omega)

theorem names_parse (ext : Ext) (sep : Char) (naRep : Str) (t : TableVal) (hwf : WF ext sep naRep t) :
    parseColumnNames (strRow (t.columns.map (·.name))) = .ok (t.columns.map (·.name)) := by
  have := (C02.names_until_first_blank (t.columns.map (·.name)) .none []
    (by intro s hs; obtain ⟨c, hc', rfl⟩ := List.mem_map.1 hs; exact (hwf.namesOK c hc').1) rfl).2
  unfold strRow
  rw [this]
  congr 1
  rw [List.map_map]
  conv => rhs; rw [← List.map_id (t.columns.map (·.name))]
  rw [List.map_map]
  apply List.map_congr_left
  intro c hc'
  exact (hwf.namesOK c hc').2

theorem units_strip (ext : Ext) (sep : Char) (naRep : Str) (t : TableVal) (hwf : WF ext sep naRep t) :
    (strRow (t.columns.map (·.unit))).map stripOfStr = t.columns.map (·.unit) := by
  unfold strRow
  rw [List.map_map, List.map_map]
  apply List.map_congr_left
  intro c hc'
  simp [Function.comp, stripOfStr, hwf.unitsOK c hc']

theorem map_getD_col {β} (t : TableVal) (g : Column → β) :
    (List.range t.columns.length).map (fun j => g (t.columns.getD j dCol)) = t.columns.map g := by
  rw [← map_range_getD t.columns dCol g]

/-- the value lines of a written transposed table zip back into its value rows -/
theorem transposedRows_lines (ext : Ext) (sep : Char) (naRep : Str) (t : TableVal) (hwf : WF ext sep naRep t)
    (h : t.transposed = true) (hc : t.columns ≠ []) :
    transposedRows ((List.range t.columns.length).map
      (fun j => if t.nRows = 0 then [Cell.str []] else lineVals naRep t j)) = .ok (dataRowsM naRep t) := by
  have hpos : 0 < t.columns.length := List.length_pos_iff.2 hc
  have hne : (List.range t.columns.length).map
      (fun j => if t.nRows = 0 then [Cell.str []] else lineVals naRep t j) ≠ [] := by
    simp; omega
  unfold transposedRows
  split
  · rename_i heq; exact absurd heq hne
  · rename_i heq
    clear heq
    by_cases h0 : t.nRows = 0
    · simp only [h0, if_true]
      have hl : ((List.range t.columns.length).map (fun _ => [Cell.str []])).foldl
          (fun m l => max m l.length) 0 = 1 :=
        foldl_max_const 1 _ 0 (by intro l hl; obtain ⟨_, _, rfl⟩ := List.mem_map.1 hl; rfl) (by omega)
          (by simp; omega)
      rw [hl]
      have hloop : nRowLoop ((List.range t.columns.length).map (fun _ => [Cell.str []])) 1 0 1 = 0 := by
        unfold nRowLoop
        have : ((List.range t.columns.length).map (fun _ => [Cell.str []])).any
            (fun l => 0 < l.length && !(getD0 l 0).isBlank) = false := by
          rw [List.any_eq_false]
          intro l hl
          obtain ⟨_, _, rfl⟩ := List.mem_map.1 hl
          simp [getD0, Cell.isBlank, allSpace]
        simp [this]
      rw [hloop]
      simp [transposeN, dataRowsM, h0]
    · simp only [h0, if_false]
      have hlen : ∀ l ∈ (List.range t.columns.length).map (lineVals naRep t), l.length = t.nRows := by
        intro l hl; obtain ⟨j, _, rfl⟩ := List.mem_map.1 hl; simp [lineVals]
      have hl : ((List.range t.columns.length).map (lineVals naRep t)).foldl
          (fun m l => max m l.length) 0 = t.nRows :=
        foldl_max_const t.nRows _ 0 hlen (by omega) (by simp; omega)
      rw [hl]
      have hloop := nRowLoop_full ((List.range t.columns.length).map (lineVals naRep t)) t.nRows (by
        intro i hi
        obtain ⟨p, hp, hnb⟩ := hwf.rowsNonBlank h i hi
        have hp' := List.mem_zipIdx_iff_getElem?.1 hp
        have hj : p.2 < t.columns.length := (List.getElem?_eq_some_iff.1 hp').1
        have hget : t.columns.getD p.2 dCol = p.1 := by simp [List.getD_eq_getElem?_getD, hp']
        rw [List.any_eq_true]
        refine ⟨lineVals naRep t p.2, List.mem_map.2 ⟨p.2, by simpa using hj, rfl⟩, ?_⟩
        have hg : getD0 (lineVals naRep t p.2) i = cellM naRep t i p.2 := getD0_map_range t.nRows _ i hi
        simp only [lineVals, List.length_map, List.length_range, hi, decide_true, Bool.true_and]
        have : getD0 ((List.range t.nRows).map (fun i => cellM naRep t i p.2)) i = cellM naRep t i p.2 := hg
        rw [this]
        show (!(Cell.str (cellAt naRep t (t.columns.getD p.2 dCol) p.2 i)).isBlank) = true
        rw [hget]
        simp [Cell.isBlank, hnb]) t.nRows 0 (by omega)
      rw [hloop]
      have hpad : ((List.range t.columns.length).map (lineVals naRep t)).map (padOrTrim t.nRows) =
          (List.range t.columns.length).map (lineVals naRep t) := by
        conv => rhs; rw [← List.map_id ((List.range t.columns.length).map (lineVals naRep t))]
        apply List.map_congr_left
        intro l hl
        have := hlen l hl
        simp only [padOrTrim, this, ge_iff_le, Nat.le_refl, if_true, id]
        exact List.take_of_length_le (by omega)
      rw [hpad]
      exact congrArg Except.ok (transposeN_matrix t.columns.length t.nRows (fun j i => cellM naRep t i j))

theorem header_drop_transposed (t : TableVal) (h : t.transposed = true) :
    (header t).drop 2 = t.name ++ ['*'] := by
  simp [header, h]

/-- **stage C, transposed**: the reader core returns a written transposed table as it was -/
theorem makeTable_transposed (ext : Ext) (sep : Char) (naRep : Str) (t : TableVal) (hwf : WF ext sep naRep t)
    (h : t.transposed = true) (hc : t.columns ≠ []) (f : Fixer) (hf : f.errors = 0 ∧ f.warnings = 0) :
    makeTable ext (tableRows naRep t) f = .ok (observe t, f) := by
  apply makeTable_of_layout ext sep naRep t hwf f hf
  rw [tableRows_transposed naRep t h hwf.sameLen]
  have hpos : 0 < t.columns.length := List.length_pos_iff.2 hc
  obtain ⟨l0, lines, hls⟩ := List.exists_cons_of_ne_nil
    (show (List.range t.columns.length).map (lineRow naRep t) ≠ [] by simp; omega)
  rw [hls]
  unfold hdrRow destRow
  have hstar : ((header t).drop 2).getLast? = some '*' := by rw [header_drop_transposed t h]; simp
  rw [C02.layout_transposed (header t) [.str []] (.str (joinStr [' '] t.destinations)) [] l0 lines hstar, ← hls]
  have hany : ((List.range t.columns.length).map (lineRow naRep t)).any (fun l => decide (l.length < 2)) = false := by
    rw [List.any_eq_false]
    intro l hl
    obtain ⟨j, _, rfl⟩ := List.mem_map.1 hl
    simp [lineRow]
  have hn0 : ((List.range t.columns.length).map (lineRow naRep t)).map (fun l => getD0 l 0) =
      strRow (t.columns.map (·.name)) := by
    rw [List.map_map]
    unfold strRow
    rw [List.map_map, ← map_getD_col t (Cell.str ∘ fun c => c.name)]
    apply List.map_congr_left
    intro j _
    simp [Function.comp, lineRow, getD0]
  have hu0 : ((List.range t.columns.length).map (lineRow naRep t)).map (fun l => getD0 l 1) =
      strRow (t.columns.map (·.unit)) := by
    rw [List.map_map]
    unfold strRow
    rw [List.map_map, ← map_getD_col t (Cell.str ∘ fun c => c.unit)]
    apply List.map_congr_left
    intro j _
    simp [Function.comp, lineRow, getD0]
  have hd0 : ((List.range t.columns.length).map (lineRow naRep t)).map (fun l => l.drop 2) =
      (List.range t.columns.length).map
        (fun j => if t.nRows = 0 then [Cell.str []] else lineVals naRep t j) := by
    rw [List.map_map]
    apply List.map_congr_left
    intro j _
    simp [Function.comp, lineRow]
  have htk : ∀ {α} (l : List α), l.length = t.columns.length →
      l.take (t.columns.map (·.name)).length = l := by
    intro α l hl
    exact List.take_of_length_le (by simp [hl])
  simp only [hany, Bool.false_eq_true, if_false, hn0, names_parse ext sep naRep t hwf]
  rw [htk _ (by simp), hu0]
  have hall : (strRow (t.columns.map (·.unit))).all Cell.isStr = true := by simp [strRow, Cell.isStr]
  simp only [hall, if_true, hd0, transposedRows_lines ext sep naRep t hwf h hc,
    units_strip ext sep naRep t hwf, header_drop_transposed t h, hwf.destsBack, h]
  simp [strRow]

/-! ## 6. tables without columns, and the block / blank-tail decomposition of the written rows -/

/-- the rows that make up the block of a written table -/
def blockRows (naRep : Str) (t : TableVal) : List Row :=
  if t.columns = [] then [hdrRow t, destRow t] else tableRows naRep t

/-- the blank rows that follow it -/
def blanksAfter (t : TableVal) : List Row :=
  (if t.columns = [] ∧ t.transposed = false then [blankRow, blankRow] else []) ++ tailBlanks t

theorem rows_split (naRep : Str) (t : TableVal) :
    tableRows naRep t ++ tailBlanks t = blockRows naRep t ++ blanksAfter t := by
  unfold blockRows blanksAfter
  by_cases hc : t.columns = []
  · by_cases ht : t.transposed = true
    · simp [hc, ht, tableRows, tableCells, hdrRow, destRow, strRow, readCells]
    · have ht' : t.transposed = false := by simpa using ht
      simp [hc, ht', tableRows, tableCells, hdrRow, destRow, strRow, readCells, blankRow, TableVal.nRows]
  · simp [hc]

theorem blanksAfter_cons (t : TableVal) : ∃ bs, blanksAfter t = blankRow :: bs ∧ ∀ b ∈ bs, b = blankRow := by
  unfold blanksAfter tailBlanks
  by_cases h1 : t.columns = [] ∧ t.transposed = false <;> by_cases h2 : dataEmpty t = true <;>
    simp [h1, h2]

theorem makeTable_empty (ext : Ext) (naRep : Str) (t : TableVal) (hc : t.columns = [])
    (hstar : t.name.getLast? ≠ some '*') (hdest : destinations (.str (joinStr [' '] t.destinations)) = t.destinations)
    (f : Fixer) (hf : f.errors = 0 ∧ f.warnings = 0) :
    makeTable ext [hdrRow t, destRow t] f = .ok (observe t, f) := by
  have hname : tableName [hdrRow t, destRow t] = .ok (t.name, t.transposed) := by
    unfold hdrRow
    rw [C02.name_and_orientation]
    by_cases ht : t.transposed = true
    · simp [header, ht]
    · have ht' : t.transposed = false := by simpa using ht
      simp [header, ht', hstar]
  have hlay : layout [hdrRow t, destRow t] = .ok ⟨t.name, t.transposed, t.destinations, [], [], []⟩ := by
    unfold layout
    rw [hname]
    simp only [bind, Except.bind, pure, Except.pure, destRow, hdrRow, hdest]
    by_cases ht : t.transposed = true <;> simp [ht]
  have hobs : observe t = ⟨t.name, t.transposed, t.destinations, [], [], []⟩ := by
    simp [observe, hc]
  apply makeTable_ok
  · unfold makePrecursor
    rw [hlay]
    simp only [bind, Except.bind]
    rw [finish_clean ext _ f [] (by simp) (by simp) hf (by simp)]
    rw [hobs]
    simp
  · rw [hobs]; trivial

/-! ## 7. stage B applied: the written rows are good chunks -/

theorem rowKind_plain (s : Str) (rest : Row) (h : PlainText s) : rowKind (.str s :: rest) = .plain := by
  unfold rowKind
  simp [Cell.isBlank, h.1, h.2]

theorem rowKind_blankRow : rowKind blankRow = .blankRow false := by
  simp [rowKind, blankRow, Cell.isBlank, allSpace]

theorem header_not_blank (t : TableVal) : allSpace (header t) = false := by
  have hs : isSpace '*' = false := by decide
  simp [header, allSpace, hs]

theorem rowKind_hdr (ext : Ext) (sep : Char) (naRep : Str) (t : TableVal) (hwf : WF ext sep naRep t) :
    rowKind (hdrRow t) = .tbl := by
  unfold rowKind hdrRow
  have hc : classify (header t) = some .table := by
    unfold classify; simp [hwf.headerTable]
  simp [Cell.isBlank, header_not_blank, hc]

/-- every row of a written block after the `**` row starts with a plain first cell -/
theorem block_tail_plain (ext : Ext) (sep : Char) (naRep : Str) (t : TableVal) (hwf : WF ext sep naRep t) :
    ∃ ps, blockRows naRep t = hdrRow t :: ps ∧ ∀ p ∈ ps, rowKind p = .plain := by
  have hdest : rowKind (destRow t) = .plain := rowKind_plain _ [] hwf.destsPlain
  unfold blockRows
  by_cases hc : t.columns = []
  · exact ⟨[destRow t], by simp [hc], by simp [hdest]⟩
  · simp only [hc, if_false]
    by_cases ht : t.transposed = true
    · rw [tableRows_transposed naRep t ht hwf.sameLen]
      refine ⟨destRow t :: (List.range t.columns.length).map (lineRow naRep t), rfl, ?_⟩
      intro p hp
      rcases List.mem_cons.1 hp with rfl | hp
      · exact hdest
      · obtain ⟨j, hj, rfl⟩ := List.mem_map.1 hp
        have hj' : j < t.columns.length := by simpa using hj
        have hmem : t.columns.getD j dCol ∈ t.columns := by simp [List.getD_eq_getElem?_getD, hj']
        exact rowKind_plain _ _ (hwf.firstTransposed ht _ hmem)
    · have ht' : t.transposed = false := by simpa using ht
      rw [tableRows_rowwise naRep t ht' hc]
      refine ⟨destRow t :: strRow (t.columns.map (·.name)) :: strRow (t.columns.map (·.unit)) ::
        dataRowsM naRep t, rfl, ?_⟩
      obtain ⟨c0, cs0, hcs⟩ := List.exists_cons_of_ne_nil hc
      have hfirst := hwf.firstRowwise ht' c0 (by simp [hcs])
      intro p hp
      simp only [List.mem_cons] at hp
      rcases hp with rfl | rfl | rfl | hp
      · exact hdest
      · simp only [hcs, strRow, List.map_cons]; exact rowKind_plain _ _ hfirst.1
      · simp only [hcs, strRow, List.map_cons]; exact rowKind_plain _ _ hfirst.2.1
      · obtain ⟨i, hi, rfl⟩ := List.mem_map.1 hp
        have hi' : i < t.nRows := by simpa using hi
        have : (List.range t.columns.length).map (fun j => cellM naRep t i j) =
            cellM naRep t i 0 :: (List.range cs0.length).map (fun j => cellM naRep t i (j + 1)) := by
          simp [hcs, List.range_succ_eq_map, Function.comp]
        rw [this]
        have hc0 : cellM naRep t i 0 = .str (cellAt naRep t c0 0 i) := by simp [cellM, hcs]
        rw [hc0]
        exact rowKind_plain _ _ (hfirst.2.2 i hi')

/-- the chunk (block + blank tail) written for a table -/
def chunkOf (naRep : Str) (t : TableVal) : Chunk Row :=
  ⟨hdrRow t, (blockRows naRep t).tail, blankRow, (blanksAfter t).tail⟩

theorem chunkOf_spec (ext : Ext) (sep : Char) (naRep : Str) (t : TableVal) (hwf : WF ext sep naRep t) :
    (chunkOf naRep t).rows = tableRows naRep t ++ tailBlanks t ∧
    (chunkOf naRep t).block = blockRows naRep t ∧
    (chunkOf naRep t).Good rowKind := by
  obtain ⟨ps, hps, hplain⟩ := block_tail_plain ext sep naRep t hwf
  obtain ⟨bs, hbs, hblank⟩ := blanksAfter_cons t
  have e1 : (blockRows naRep t).tail = ps := by rw [hps]; rfl
  have e2 : (blanksAfter t).tail = bs := by rw [hbs]; rfl
  refine ⟨?_, ?_, ?_⟩
  · rw [rows_split, hps, hbs]
    simp [Chunk.rows, chunkOf, e1, e2]
  · simp [Chunk.block, chunkOf, e1, hps]
  · refine ⟨rowKind_hdr ext sep naRep t hwf, ?_, rowKind_blankRow, ?_⟩
    · simp only [chunkOf, e1]; exact hplain
    · simp only [chunkOf, e2]
      intro x hx
      rw [hblank x hx, rowKind_blankRow]; rfl

/-! ## 8. the round trip -/

theorem flatMap_congr' {α β} (l : List α) (f g : α → List β) (h : ∀ a ∈ l, f a = g a) :
    l.flatMap f = l.flatMap g := by
  induction l with
  | nil => rfl
  | cons a as ih =>
    simp only [List.flatMap_cons]
    rw [h a (by simp), ih (fun b hb => h b (List.mem_cons_of_mem _ hb))]

/-- stage C for any well-formed table -/
theorem makeTable_block (ext : Ext) (sep : Char) (naRep : Str) (t : TableVal) (hwf : WF ext sep naRep t)
    (f : Fixer) (hf : f.errors = 0 ∧ f.warnings = 0) :
    makeTable ext (blockRows naRep t) f = .ok (observe t, f) := by
  unfold blockRows
  by_cases hc : t.columns = []
  · simp only [hc, if_true]
    exact makeTable_empty ext naRep t hc hwf.nameNoStar hwf.destsBack f hf
  · simp only [hc, if_false]
    by_cases ht : t.transposed = true
    · exact makeTable_transposed ext sep naRep t hwf ht hc f hf
    · exact makeTable_rowwise ext sep naRep t hwf (by simpa using ht) hc f hf

def readCfg (ext : Ext) : Blocks.Config := ⟨.pdtable, none, .raising, ext⟩

theorem runBlocks_chunks (ext : Ext) (sep : Char) (naRep : Str) (ts : List TableVal)
    (hwf : ∀ t ∈ ts, WF ext sep naRep t) (i : Nat) (f : Fixer) :
    let r := Blocks.runBlocks (readCfg ext) (chunkBlocks i (ts.map (chunkOf naRep))) f
    r.blocks.map (fun d => (d.ty, d.val)) = ts.map (fun t => (BT.table, Blocks.BlockVal.table (observe t))) ∧
    r.issues = [] ∧ r.ending = .exhausted := by
  induction ts generalizing i f with
  | nil => simp [chunkBlocks, Blocks.runBlocks]
  | cons t ts ih =>
    have hspec := chunkOf_spec ext sep naRep t (hwf t (by simp))
    have hmk := makeTable_block ext sep naRep t (hwf t (by simp)) f.reset ⟨rfl, rfl⟩
    simp only [List.map_cons, chunkBlocks]
    unfold Blocks.runBlocks
    simp only [Blocks.accepts, readCfg, Bool.not_true, Bool.false_eq_true, if_false, Blocks.handle, hspec.2.1,
      hmk, bind, Except.bind, pure, Except.pure]
    have := ih (fun u hu => hwf u (List.mem_cons_of_mem _ hu)) (i + (chunkOf naRep t).rows.length) f.reset
    simp only [readCfg] at this
    simp [this]

/-- **C01 — CSV write-then-read preserves every well-formed table bundle.**
    For every `ext`, separator, marker-like missing-value representation and every finite sequence of tables
    well formed for them: reading the written text delivers exactly the observed tables, in order, as TABLE
    blocks and nothing else, reports no issue and ends normally. -/
theorem csv_roundtrip (ext : Ext) (sep : Char) (naRep : Str) (ts : List TableVal)
    (hwf : ∀ t ∈ ts, WF ext sep naRep t) :
    let r := readCsv ext sep (writeCsv sep naRep ts)
    r.blocks.map (fun d => (d.ty, d.val)) = ts.map (fun t => (BT.table, Blocks.BlockVal.table (observe t))) ∧
    r.issues = [] ∧ r.ending = .exhausted := by
  have hsep : sep ≠ '\n' ∨ ts = [] := by
    cases ts with
    | nil => exact Or.inr rfl
    | cons t _ => exact Or.inl (hwf t (by simp)).sepOK
  rcases hsep with hsep | rfl
  · have hrows : readRows sep (writeCsv sep naRep ts) = (ts.map (chunkOf naRep)).flatMap Chunk.rows := by
      rw [readRows_writeCsv sep naRep ts hsep (fun t ht => (hwf t ht).clean), List.flatMap_map]
      apply flatMap_congr'
      intro t ht
      exact (chunkOf_spec ext sep naRep t (hwf t ht)).1.symm
    have hseg : segment (readRows sep (writeCsv sep naRep ts)) = chunkBlocks 0 (ts.map (chunkOf naRep)) := by
      rw [hrows]
      apply run_chunks
      intro c hc
      obtain ⟨t, ht, rfl⟩ := List.mem_map.1 hc
      exact (chunkOf_spec ext sep naRep t (hwf t ht)).2.2
    unfold readCsv Blocks.parseBlocks
    rw [hseg]
    exact runBlocks_chunks ext sep naRep ts hwf 0 _
  · simp [readCsv, writeCsv, unlines, readRows, linesOf, splitOn, Blocks.parseBlocks, segment, run, go, emit,
      initSt, Blocks.runBlocks]

end Pdt.C01

namespace Pdt.C01
open Pdt Pdt.Reader Pdt.Represent Pdt.Write

/-! ## 8b. file paths versus text streams; explicit separator versus the package default -/

/-- a text without carriage returns passes the universal-newline translation unchanged -/
theorem univNL_id (s : Str) (h : '\r' ∉ s) : univNL s = s := by
  fun_induction univNL s <;> simp_all

theorem mem_unlines (c : Char) (ls : List Str) (h : c ∈ unlines ls) : c = '\n' ∨ ∃ l ∈ ls, c ∈ l := by
  unfold unlines at h
  simp only [List.mem_flatMap, List.mem_append, List.mem_singleton] at h
  obtain ⟨l, hl, hc | hc⟩ := h
  · exact Or.inr ⟨l, hl, hc⟩
  · exact Or.inl hc

/-- the written text of well-formed tables holds no carriage return -/
theorem writeCsv_no_cr (sep : Char) (naRep : Str) (ts : List TableVal) (hsep : sep ≠ '\r')
    (hc : ∀ t ∈ ts, CellsClean sep naRep t) : '\r' ∉ writeCsv sep naRep ts := by
  intro hmem
  unfold writeCsv at hmem
  rcases mem_unlines _ _ hmem with e | ⟨l, hl, hcl⟩
  · exact absurd e (by decide)
  · simp only [List.mem_flatMap] at hl
    obtain ⟨t, ht, hlt⟩ := hl
    rw [tableLines_eq] at hlt
    simp only [List.mem_append, List.mem_map] at hlt
    rcases hlt with (⟨cs, hcs, rfl⟩ | hlt) | hlt
    · rcases mem_joinWith sep '\r' cs hcl with e | ⟨x, hx, hxc⟩
      · exact hsep e.symm
      · exact (hc t ht cs hcs x hx).2.2 hxc
    · by_cases hd : dataEmpty t = true <;> simp [hd] at hlt
      subst hlt; simp at hcl
    · simp at hlt; subst hlt; simp at hcl

/-- **file paths and text streams, explicit separator and package default.**
    `write_csv` / `read_csv` resolve a missing `sep` argument to the package-wide `pdtable.CSV_SEP`, each on its own,
    at call time; a file opened by path is read with universal-newline translation.  For every package default,
    every pair of `sep` arguments that resolve to the same character, path or stream: the round trip of `csv_roundtrip`. -/
theorem csv_roundtrip_api (ext : Ext) (pkgSep : Char) (sepW sepR : Option Char) (byPath : Bool) (naRep : Str)
    (ts : List TableVal) (hsame : resolveSep pkgSep sepR = resolveSep pkgSep sepW)
    (hwf : ∀ t ∈ ts, WF ext (resolveSep pkgSep sepW) naRep t) :
    let r := readCsvApi ext pkgSep sepR byPath (writeCsvApi pkgSep sepW naRep ts)
    r.blocks.map (fun d => (d.ty, d.val)) = ts.map (fun t => (BT.table, Blocks.BlockVal.table (observe t))) ∧
    r.issues = [] ∧ r.ending = .exhausted := by
  have hstream := csv_roundtrip ext (resolveSep pkgSep sepW) naRep ts hwf
  unfold readCsvApi writeCsvApi
  rw [hsame]
  cases byPath with
  | false => simpa using hstream
  | true =>
    simp only [if_true, readCsvPath]
    rw [univNL_id]
    · exact hstream
    · cases ts with
      | nil => simp [writeCsv, unlines]
      | cons t rest =>
        exact writeCsv_no_cr _ naRep _ (hwf t (by simp)).sepNoCR (fun u hu => (hwf u hu).clean)

/-- the case the statement names: no `sep` argument on either side, the package default in force (`;` in the source,
    `writer_constants_pinned`), by path -/
theorem csv_roundtrip_package_default (ext : Ext) (byPath : Bool) (naRep : Str) (ts : List TableVal)
    (hwf : ∀ t ∈ ts, WF ext (Gen.csvSep.headD ';') naRep t) :
    let r := readCsvApi ext (Gen.csvSep.headD ';') none byPath (writeCsvApi (Gen.csvSep.headD ';') none naRep ts)
    r.blocks.map (fun d => (d.ty, d.val)) = ts.map (fun t => (BT.table, Blocks.BlockVal.table (observe t))) ∧
    r.issues = [] ∧ r.ending = .exhausted :=
  csv_roundtrip_api ext _ none none byPath naRep ts rfl hwf

/-- a carriage return inside a cell is where path and stream differ: the stream reads it back, the path does not
    (why `WF` excludes it) -/
example : univNL "x\ry".toList = "x\ny".toList ∧ univNL "a\r\nb".toList = "a\nb".toList := by decide

/- "writing leaves the written tables unmodified" has no counterpart in the model (its values are immutable):
   that clause is decided by the harness alone (snapshot of every written table before / after), see EXTRA. -/

end Pdt.C01

namespace Pdt.C01
open Pdt Pdt.Reader Pdt.Represent Pdt.Write

/-! ## 9. the executable well-formedness check is sound -/

theorem plainTextb_sound (s : Str) (h : plainTextb s = true) : PlainText s := by
  unfold plainTextb at h
  simp only [Bool.and_eq_true, Bool.not_eq_true', Option.isNone_iff_eq_none] at h
  exact ⟨h.1, h.2⟩

theorem naRepOKb_sound (naRep : Str) (h : naRepOKb naRep = true) : NaRepOK naRep := by
  unfold naRepOKb at h
  simp only [Bool.and_eq_true, Bool.not_eq_true', List.isEmpty_eq_false_iff] at h
  exact ⟨h.1.1, h.1.2, h.2⟩

theorem numOKb_sound (ext : Ext) (tok : Str) (h : numOKb ext tok = true) : NumOK ext tok := by
  unfold numOKb at h
  simp only [Bool.and_eq_true, bne_iff_ne, ne_eq, Bool.not_eq_true', beq_iff_eq] at h
  exact ⟨h.1.1, h.1.2, h.2⟩

theorem intOKb_sound (ext : Ext) (i : Int) (h : intOKb ext i = true) : IntOK ext i := by
  unfold intOKb at h
  simp only [Bool.and_eq_true, Bool.not_eq_true', beq_iff_eq] at h
  exact ⟨h.1, h.2⟩

theorem dtOKb_sound (ext : Ext) (tok : Str) (h : dtOKb ext tok = true) : DtOK ext tok := by
  unfold dtOKb at h
  simp only [Bool.and_eq_true, bne_iff_ne, ne_eq, beq_iff_eq, Bool.not_eq_true'] at h
  obtain ⟨⟨⟨⟨h1, h2⟩, h3⟩, h4⟩, h5⟩ := h
  refine ⟨h1, h2, ?_, h4, ?_⟩
  · cases hd : dtText tok with
    | nil => rw [hd] at h3; simp at h3
    | cons c cs => rw [hd] at h3; exact ⟨c, cs, rfl, h3⟩
  · cases hp : ext.parseDt (dtText tok) with
    | ok t => rw [hp] at h5; simp at h5; rw [h5]
    | valueError => rw [hp] at h5; simp at h5
    | raises n => rw [hp] at h5; simp at h5

theorem valOKb_sound (ext : Ext) (unit : Str) (pos : Nat) (v : Val) (h : valOKb ext unit pos v = true) :
    ValOK ext unit pos v := by
  unfold valOKb at h
  unfold ValOK
  by_cases h1 : unit = uText
  · rw [if_pos h1] at h ⊢
    cases v with
    | text s =>
      simp only [Bool.and_eq_true, Bool.not_eq_true', bne_iff_ne, ne_eq] at h
      refine ⟨s, rfl, ?_, h.2⟩
      intro hp hs
      simp [hp, hs] at h
    | _ => simp at h
  · rw [if_neg h1] at h ⊢
    by_cases h2 : unit = uOnoff
    · rw [if_pos h2] at h ⊢
      cases v with
      | bool b => exact ⟨b, rfl⟩
      | _ => simp at h
    · rw [if_neg h2] at h ⊢
      by_cases h3 : unit = uDatetime
      · rw [if_pos h3] at h ⊢
        cases v with
        | dt t =>
          refine ⟨t, rfl, ?_⟩
          simp only [Bool.or_eq_true, beq_iff_eq] at h
          rcases h with h | h
          · exact Or.inl h
          · exact Or.inr (dtOKb_sound ext t h)
        | _ => simp at h
      · rw [if_neg h3] at h ⊢
        cases v with
        | num t =>
          left
          refine ⟨t, rfl, ?_⟩
          simp only [Bool.or_eq_true, beq_iff_eq] at h
          rcases h with h | h
          · exact Or.inl h
          · exact Or.inr (numOKb_sound ext t h)
        | int i => right; exact ⟨i, rfl, intOKb_sound ext i h⟩
        | _ => simp at h

/-- **the executable check implies the predicate of the theorem** -/
theorem wfCheck_sound (ext : Ext) (sep : Char) (naRep : Str) (t : TableVal)
    (h : wfCheck ext sep naRep t = true) : WF ext sep naRep t := by
  unfold wfCheck at h
  simp only [Bool.and_eq_true] at h
  obtain ⟨⟨⟨⟨⟨⟨⟨⟨⟨⟨⟨⟨⟨⟨⟨⟨h1, h2⟩, h2r⟩, h3⟩, h4⟩, h5⟩, h6⟩, h7⟩, h8⟩, h9⟩, h10⟩, h11⟩, h12⟩, h13⟩, h14⟩, h15⟩, h16⟩ := h
  refine ⟨naRepOKb_sound naRep h1, by simpa using h2, by simpa using h2r, ?_, by simpa using h4, by simpa using h5,
    by simpa using h6, plainTextb_sound _ h7, by simpa using h8, ?_, ?_, ?_, ?_, ?_, ?_, ?_, ?_⟩
  · intro row hrow x hx
    simp only [List.all_eq_true] at h3
    have := h3 row hrow x hx
    simp only [Bool.and_eq_true, Bool.not_eq_true', List.contains_eq_mem, decide_eq_false_iff_not] at this
    exact ⟨this.1.1, this.1.2, this.2⟩
  · intro c hc
    simp only [List.all_eq_true] at h9
    have := h9 c hc
    simp only [Bool.and_eq_true, Bool.not_eq_true', beq_iff_eq] at this
    exact this
  · intro c hc
    simp only [List.all_eq_true] at h10
    simpa using h10 c hc
  · intro c hc
    simp only [List.all_eq_true] at h11
    simpa using h11 c hc
  · intro p hp q hq
    simp only [List.all_eq_true] at h12
    exact valOKb_sound ext _ _ _ (h12 p hp q hq)
  · intro c hc v hv tok hvt
    simp only [List.all_eq_true] at h13
    have := h13 c hc
    unfold dtNaiveb at this
    simp only [List.all_eq_true] at this
    have := this v hv
    subst hvt
    simpa using this
  · intro ht c hc
    simp only [ht, Bool.false_or] at h14
    rw [hc] at h14
    simp only [Bool.and_eq_true, List.all_eq_true, List.mem_range] at h14
    exact ⟨plainTextb_sound _ h14.1.1, plainTextb_sound _ h14.1.2,
      fun i hi => plainTextb_sound _ (h14.2 i hi)⟩
  · intro ht c hc
    simp only [ht, Bool.not_true, Bool.false_or, List.all_eq_true] at h15
    exact plainTextb_sound _ (h15 c hc)
  · intro ht i hi
    simp only [ht, Bool.not_true, Bool.false_or, List.all_eq_true, List.mem_range, List.any_eq_true,
      Bool.not_eq_true'] at h16
    exact h16 i hi

end Pdt.C01

namespace Pdt.C01
open Pdt Pdt.Reader Pdt.Represent Pdt.Write

/-! ## 10. non-vacuity: a concrete bundle inside the domain of the theorem -/

/-- a concrete `ext`: decimal numerals "1.5" / "3" and one fixed-width ISO timestamp -/
def exExt : Ext :=
  ⟨fun s => if s = "1.5".toList then some "1.5".toList else if s = "3".toList then some "3.0".toList else none,
   fun s => if s = "2020-01-02 03:04:05".toList then .ok "2020-01-02T03:04:05".toList else .valueError,
   fun c => '0' ≤ c && c ≤ '9'⟩

/-- row-wise: text, numeric (with a missing value), onoff, int -/
def exT1 : TableVal :=
  ⟨"farm animals".toList, ["your_farm".toList, "my_farm".toList], false,
   [⟨"species".toList, "text".toList, [.text "chicken".toList, .text "a b".toList]⟩,
    ⟨"weight".toList, "kg".toList, [.num "1.5".toList, .num "nan".toList]⟩,
    ⟨"alive".toList, "onoff".toList, [.bool true, .bool false]⟩,
    ⟨"n".toList, "-".toList, [.int 3, .int 3]⟩]⟩

/-- transposed: datetime (with NaT) and text whose later rows may be empty; and a table without rows -/
def exT2 : TableVal :=
  ⟨"t".toList, ["all".toList], true,
   [⟨"when".toList, "datetime".toList, [.dt "2020-01-02T03:04:05".toList, .dt "NaT".toList]⟩,
    ⟨"note".toList, "text".toList, [.text "x".toList, .text [] ]⟩]⟩

def exT3 : TableVal := ⟨"empty".toList, ["all".toList], false, [⟨"a".toList, "m".toList, []⟩]⟩

theorem example_bundle_wf : ∀ t ∈ [exT1, exT2, exT3], WF exExt ';' "-".toList t := by
  intro t ht
  apply wfCheck_sound
  simp only [List.mem_cons, List.mem_nil_iff, or_false] at ht
  rcases ht with rfl | rfl | rfl <;> decide

/-- the theorem applied to the concrete bundle: three tables come back -/
example :
    (readCsv exExt ';' (writeCsv ';' "-".toList [exT1, exT2, exT3])).blocks.map (fun d => (d.ty, d.val)) =
      [exT1, exT2, exT3].map (fun t => (BT.table, Blocks.BlockVal.table (observe t))) :=
  (csv_roundtrip exExt ';' "-".toList [exT1, exT2, exT3] example_bundle_wf).1

/-- and the text is what `write_csv` prints -/
example : writeCsv ';' "-".toList [exT3] = "**empty;\nall\na\nm\n\n\n".toList := by decide

end Pdt.C01

namespace Pdt.C01
open Pdt Pdt.Reader Pdt.Represent Pdt.Write

/-! ## 11. a syntactic sufficient condition for the destination clause of `WF` -/

theorem joinStr_single (sep : Char) (xs : List Str) : joinStr [sep] xs = joinWith sep xs := by
  induction xs with
  | nil => rfl
  | cons x rest ih =>
    cases rest with
    | nil => rfl
    | cons y ys => simp [joinStr, joinWith, ih]

theorem dedup_nodup (xs : List Str) (h : xs.Nodup) : dedup xs = xs := by
  induction xs with
  | nil => rfl
  | cons x rest ih =>
    simp only [List.nodup_cons] at h
    simp only [dedup, ih h.2]
    congr 1
    apply List.filter_eq_self.2
    intro y hy
    simp only [bne_iff_ne, ne_eq]
    intro e; subst e; exact h.1 hy

theorem lstrip_of_head (s : Str) (h : ∀ c, s.head? = some c → isSpace c = false) : lstrip s = s :=
  dropWhile_eq_self isSpace s h

theorem rstrip_of_last (s : Str) (h : ∀ c, s.getLast? = some c → isSpace c = false) : rstrip s = s := by
  unfold rstrip
  rw [dropWhile_eq_self isSpace s.reverse (by intro c hc; exact h c (by simpa [List.head?_reverse] using hc))]
  simp

theorem joinWith_ne_nil (toks : List Str) (hne : toks ≠ []) (h : ∀ t ∈ toks, t ≠ []) : joinWith ' ' toks ≠ [] := by
  cases toks with
  | nil => exact absurd rfl hne
  | cons t rest =>
    have ht := h t (by simp)
    cases rest with
    | nil => simpa [joinWith] using ht
    | cons y ys => simp [joinWith, ht]

theorem joinWith_last (toks : List Str) (hne : toks ≠ [])
    (htok : ∀ t ∈ toks, t ≠ [] ∧ ∀ c ∈ t, isSpace c = false) :
    ∀ c, (joinWith ' ' toks).getLast? = some c → isSpace c = false := by
  induction toks with
  | nil => exact absurd rfl hne
  | cons t rest ih =>
    intro c hc
    cases rest with
    | nil =>
      simp only [joinWith] at hc
      exact (htok t (by simp)).2 c (List.mem_of_getLast? hc)
    | cons y ys =>
      simp only [joinWith] at hc
      have hne' : joinWith ' ' (y :: ys) ≠ [] :=
        joinWith_ne_nil (y :: ys) (by simp) (fun u hu => (htok u (List.mem_cons_of_mem _ hu)).1)
      have : (t ++ ' ' :: joinWith ' ' (y :: ys)).getLast? = (joinWith ' ' (y :: ys)).getLast? := by
        rw [List.getLast?_append]
        cases hj : joinWith ' ' (y :: ys) with
        | nil => exact absurd hj hne'
        | cons a as =>
          rw [List.getLast?_cons_cons]
          cases hl : (a :: as).getLast? with
          | none => simp at hl
          | some z => simp
      rw [this] at hc
      exact ih (by simp) (fun u hu => htok u (List.mem_cons_of_mem _ hu)) c hc

theorem joinWith_first (toks : List Str) (hne : toks ≠ [])
    (htok : ∀ t ∈ toks, t ≠ [] ∧ ∀ c ∈ t, isSpace c = false) :
    ∀ c, (joinWith ' ' toks).head? = some c → isSpace c = false := by
  intro c hc
  cases toks with
  | nil => exact absurd rfl hne
  | cons t rest =>
    obtain ⟨ht, hall⟩ := htok t (by simp)
    cases t with
    | nil => exact absurd rfl ht
    | cons a as =>
      cases rest with
      | nil => simp [joinWith] at hc; subst hc; exact hall a (by simp)
      | cons y ys => simp [joinWith] at hc; subst hc; exact hall a (by simp)

/-- blank-free, non-empty, pairwise distinct destination tokens read back as written -/
theorem dests_back_of_tokens (toks : List Str) (hne : toks ≠ []) (hnd : toks.Nodup)
    (htok : ∀ t ∈ toks, t ≠ [] ∧ ∀ c ∈ t, isSpace c = false) :
    destinations (.str (joinStr [' '] toks)) = toks := by
  have hsp : ∀ t ∈ toks, ' ' ∉ t := by
    intro t ht hmem
    have := (htok t ht).2 ' ' hmem
    simp [isSpace] at this
  unfold destinations
  simp only [Cell.pyStr]
  rw [joinStr_single]
  unfold strip
  rw [lstrip_of_head _ (joinWith_first toks hne htok), rstrip_of_last _ (joinWith_last toks hne htok),
    splitOn_joinWith ' ' toks hne hsp, dedup_nodup toks hnd]

end Pdt.C01
