/-
  Props/C01.lean — "CSV write-then-read preserves every well-formed table bundle".

  Main theorem `csv_roundtrip`: for every external float()/to_datetime behaviour `ext`, every separator
  `sep`, every missing-value representation that is itself a marker, and every finite sequence of tables
  well formed for them (`WF`, the Lean form of DESIGN.md §3),

      read_csv (write_csv ts)  delivers exactly  ts.map observe,  in order,  no issue,  no other block.

  Stages: (A) Lemmas/Write.lean — the rows read are the cell texts written; (B) Lemmas/SegmentChunks.lean —
  the splitter cuts them back into the written blocks; (C) here — `makeTable` on a written block returns
  the table (uses Lemmas/Roundtrip.lean: a rendered column parses back to its values).
-/
import PdtModel.Lemmas.Write
import PdtModel.Lemmas.SegmentChunks
import PdtModel.Lemmas.Roundtrip
import PdtModel.Lemmas.ListAux
set_option linter.unusedSimpArgs false
namespace Pdt.C01
open Pdt Pdt.Reader Pdt.Represent Pdt.Write

/-! ## 0. constants of the writer, pinned to the source -/

theorem writer_constants_pinned :
    Gen.sealant = "-".toList ∧ Gen.naRepDefault = "-".toList ∧ Gen.csvSep = ";".toList ∧
    Gen.sealantTest = "val == '' and col == 0" := by decide

/-! ## 1. well-formed tables (DESIGN.md §3) -/

/-- a first-cell text that neither ends a block nor starts one -/
def PlainText (s : Str) : Prop := allSpace s = false ∧ classify s = none

/-- rendered text of value `i` of column `j` (position argument of the sealant test: the column index
    row-wise, the row index transposed — `_represent_col_elements` reuses the row code) -/
def cellAt (naRep : Str) (t : TableVal) (c : Column) (j i : Nat) : Str :=
  cellText naRep (if t.transposed then i else j) c.unit (c.values.getD i (.text []))

structure WF (ext : Ext) (sep : Char) (naRep : Str) (t : TableVal) : Prop where
  naRepOK : NaRepOK naRep
  sepOK : sep ≠ '\n'
  /-- no separator / newline in any written cell text (name, destinations, names, units, values) -/
  clean : CellsClean sep naRep t
  /-- `**name` / `**name*` is a table marker: the name does not start with `*`, and is not empty when transposed -/
  headerTable : leading '*' (header t) = 2
  nameNoStar : t.name.getLast? ≠ some '*'
  /-- the destination line reads back as the written tokens (non-empty, blank-free, distinct tokens) -/
  destsBack : destinations (.str (joinStr [' '] t.destinations)) = t.destinations
  destsPlain : PlainText (joinStr [' '] t.destinations)
  namesNodup : (t.columns.map (·.name)).Nodup
  namesOK : ∀ c ∈ t.columns, (Cell.str c.name).isBlank = false ∧ strip c.name = c.name
  unitsOK : ∀ c ∈ t.columns, strip c.unit = c.unit
  sameLen : ∀ c ∈ t.columns, c.values.length = t.nRows
  values : ∀ p ∈ t.columns.zipIdx, ∀ q ∈ p.1.values.zipIdx,
    ValOK ext p.1.unit (if t.transposed then q.2 else p.2) q.1
  /-- timestamps carry no UTC offset (a column mixing offsets is not a datetime64 column) -/
  dtNaive : ∀ c ∈ t.columns, ∀ v ∈ c.values, ∀ tok, v = .dt tok → tzOf tok = []
  /-- row-wise: first name, first unit and the first cell of every value row are plain first cells -/
  firstRowwise : t.transposed = false → ∀ c, t.columns.head? = some c →
    PlainText c.name ∧ PlainText c.unit ∧ ∀ i, i < t.nRows → PlainText (cellAt naRep t c 0 i)
  /-- transposed: every column name is a plain first cell -/
  firstTransposed : t.transposed = true → ∀ c ∈ t.columns, PlainText c.name
  /-- transposed: every value row has a non-blank rendered cell (the reader stops at the first all-blank row) -/
  rowsNonBlank : t.transposed = true → ∀ i, i < t.nRows →
    ∃ p ∈ t.columns.zipIdx, allSpace (cellAt naRep t p.1 p.2 i) = false

/-- what the reader reports for a table: header fields and, per column, the parsed values
    (no values at all for a table without rows) -/
def observe (t : TableVal) : Precursor :=
  ⟨t.name, t.transposed, t.destinations, t.columns.map (·.name), t.columns.map (·.unit),
   t.columns.map (fun c => if t.nRows = 0 then ColVals.raw else obsCol c.unit c.values)⟩

/-! ## 2. stage C helpers: a well-formed block needs no repair -/

theorem foldl_dupStep_nodup (ps : List (Str × Nat)) (acc : List Str × Fixer)
    (h1 : ∀ p ∈ ps, p.1 ∉ acc.1) (h2 : (ps.map (·.1)).Nodup) :
    ps.foldl dupStep acc = (acc.1 ++ ps.map (·.1), acc.2) := by
  induction ps generalizing acc with
  | nil => simp
  | cons p ps ih =>
    have hp : acc.1.contains p.1 = false := by
      simpa using h1 p (by simp)
    simp only [List.foldl_cons, dupStep, hp, Bool.not_false, if_true]
    simp only [List.map_cons, List.nodup_cons] at h2
    rw [ih]
    · simp
    · intro q hq
      simp only [List.mem_append, List.mem_singleton, not_or]
      refine ⟨h1 q (List.mem_cons_of_mem _ hq), ?_⟩
      intro e
      exact h2.1 (by rw [← e]; exact List.mem_map.2 ⟨q, hq, rfl⟩)
    · exact h2.2

theorem fixDuplicates_nodup (names : List Str) (f : Fixer) (h : names.Nodup) :
    fixDuplicates names f = (names, f) := by
  unfold fixDuplicates
  rw [foldl_dupStep_nodup names.zipIdx ([], f) (by simp) (by rw [C02.map_fst_zipIdx]; exact h)]
  simp [C02.map_fst_zipIdx]

theorem foldl_shortStep_full (n : Nat) (ps : List (Row × Nat)) (acc : List Row × Fixer)
    (h : ∀ p ∈ ps, ¬ p.1.length < n) :
    ps.foldl (shortStep n) acc = (acc.1 ++ ps.map (·.1), acc.2) := by
  induction ps generalizing acc with
  | nil => simp
  | cons p ps ih =>
    have hp := h p (by simp)
    simp only [List.foldl_cons, shortStep, hp, if_false]
    rw [ih _ (fun q hq => h q (List.mem_cons_of_mem _ hq))]
    simp

theorem fixShortRows_full (rows : List Row) (n : Nat) (f : Fixer) (h : ∀ r ∈ rows, ¬ r.length < n) :
    fixShortRows rows n f = (rows, f) := by
  unfold fixShortRows
  rw [foldl_shortStep_full n rows.zipIdx ([], f)]
  · simp [C02.map_fst_zipIdx]
  · intro p hp
    have : p.1 ∈ rows.zipIdx.map (·.1) := List.mem_map.2 ⟨p, hp, rfl⟩
    rw [C02.map_fst_zipIdx] at this
    exact h _ this

/-- columns that each parse without touching the fixer parse together without touching it -/
theorem parseColumns_all (ext : Ext) (us : List Str) (cs : List Row) (vs : List ColVals) (f : Fixer)
    (hl1 : us.length = cs.length) (hl2 : cs.length = vs.length)
    (h : ∀ k, k < us.length →
      parseColumn ext (us.getD k []) (cs.getD k []) f = .ok (vs.getD k .raw, f)) :
    parseColumns ext us cs f = .ok (vs, f) := by
  induction us generalizing cs vs with
  | nil =>
    cases cs with
    | nil => cases vs <;> simp_all [parseColumns]
    | cons c cs => simp at hl1
  | cons u us ih =>
    cases cs with
    | nil => simp at hl1
    | cons c cs =>
      cases vs with
      | nil => simp at hl2
      | cons v vs =>
        have h0 := h 0 (by simp)
        simp only [List.getD_cons_zero] at h0
        simp only [parseColumns, h0, bind, Except.bind]
        rw [ih cs vs (by simpa using hl1) (by simpa using hl2)
          (fun k hk => by have := h (k + 1) (by simp; omega); simpa using this)]
        rfl

theorem parseColumns_no_cols (ext : Ext) (us : List Str) (f : Fixer) : parseColumns ext us [] f = .ok ([], f) := by
  cases us <;> rfl

/-- the fixer-dependent half of the reader on a block that needs no repair -/
theorem finish_clean (ext : Ext) (L : Layout) (f : Fixer) (vs : List ColVals)
    (hn : L.names0.Nodup) (hr : ∀ r ∈ L.rows0, ¬ r.length < L.names0.length)
    (hf : f.errors = 0 ∧ f.warnings = 0)
    (hparse : L.rows0 ≠ [] →
      parseColumns ext L.units (transposeN L.rows0 L.names0.length) f = .ok (vs, f) ∧ vs.length = L.names0.length) :
    finish ext L f = .ok (⟨L.name, L.transposed, L.destinations, L.names0, L.units,
      if L.rows0 = [] then List.replicate L.names0.length ColVals.raw else vs⟩, f) := by
  unfold finish
  rw [fixDuplicates_nodup L.names0 f hn]
  simp only []
  rw [fixShortRows_full L.rows0 L.names0.length f hr]
  simp only []
  have hfix : ¬ ((decide (f.fixes > 0) && f.cfg.stopOnErrors) = true) := by
    unfold Fixer.fixes; simp [hf.1, hf.2]
  by_cases he : L.rows0 = []
  · simp only [he, List.isEmpty_nil, if_true, parseColumns_no_cols, bind, Except.bind, hfix,
      Bool.false_eq_true, if_false, pure, Except.pure]
    simp
  · have hne : L.rows0.isEmpty = false := by simpa using he
    obtain ⟨hp, hl⟩ := hparse he
    simp only [hne, Bool.false_eq_true, if_false, hp, bind, Except.bind, hfix, pure, Except.pure, he]
    simp [hl]

/-! ## 3. the raw columns of a written block and their parse -/

def dCol : Column := ⟨[], [], []⟩

/-- rendered cell `(i, j)` of the table as the reader sees it -/
def cellM (naRep : Str) (t : TableVal) (i j : Nat) : Cell :=
  .str (cellAt naRep t (t.columns.getD j dCol) j i)

/-- the raw column cells `zip(*data_rows)` hands to the column parsers -/
def colCellsOf (naRep : Str) (t : TableVal) : List Row :=
  (List.range t.columns.length).map (fun j => (List.range t.nRows).map (fun i => cellM naRep t i j))

theorem getD_map {α β} (l : List α) (g : α → β) (k : Nat) (d : α) (h : k < l.length) (d' : β) :
    (l.map g).getD k d' = g (l.getD k d) := by
  simp [List.getD_eq_getElem?_getD, h]

theorem getD_range (n k d : Nat) (h : k < n) : (List.range n).getD k d = k := by
  simp [List.getD_eq_getElem?_getD, h]

theorem mem_zipIdx_getD {α} (l : List α) (k : Nat) (d : α) (h : k < l.length) : (l.getD k d, k) ∈ l.zipIdx := by
  rw [List.mem_zipIdx_iff_getElem?]
  simp [List.getD_eq_getElem?_getD, h]

/-- **the written columns parse back to the table's values**, without touching the fixer -/
theorem parse_colCells (ext : Ext) (sep : Char) (naRep : Str) (t : TableVal) (hwf : WF ext sep naRep t)
    (f : Fixer) :
    parseColumns ext (t.columns.map (·.unit)) (colCellsOf naRep t) f =
      .ok (t.columns.map (fun c => obsCol c.unit c.values), f) := by
  apply parseColumns_all
  · simp [colCellsOf]
  · simp [colCellsOf]
  · intro k hk
    simp only [List.length_map] at hk
    have hmem := mem_zipIdx_getD t.columns k dCol hk
    have hcmem : t.columns.getD k dCol ∈ t.columns := by
      simp [List.getD_eq_getElem?_getD, hk]
    rw [getD_map t.columns (·.unit) k dCol hk, getD_map t.columns _ k dCol hk]
    have hcc : (colCellsOf naRep t).getD k [] =
        ((t.columns.getD k dCol).values.zipIdx.map
          (fun q => (q.1, if t.transposed then q.2 else k))).map
          (fun p => Cell.str (cellText naRep p.2 (t.columns.getD k dCol).unit p.1)) := by
      unfold colCellsOf
      rw [getD_map (List.range t.columns.length) _ k 0 (by simpa using hk), getD_range _ _ 0 hk,
        List.map_map, zipIdx_map_eq_range (t.columns.getD k dCol).values (.text []), hwf.sameLen _ hcmem]
      apply List.map_congr_left
      intro i _
      simp only [cellM, cellAt, Function.comp]
    rw [hcc]
    have := parse_rendered ext naRep hwf.naRepOK (t.columns.getD k dCol).unit
      ((t.columns.getD k dCol).values.zipIdx.map (fun q => (q.1, if t.transposed then q.2 else k))) f
      (by
        intro p hp
        obtain ⟨q, hq, rfl⟩ := List.mem_map.1 hp
        exact hwf.values _ hmem q hq)
    rw [this, List.map_map]
    have hfst : ((fun x : Val × Nat => x.1) ∘ fun q : Val × Nat => (q.1, if t.transposed = true then q.2 else k))
        = (fun q => q.1) := rfl
    rw [hfst, C02.map_fst_zipIdx]

/-! ## 4. stage C, row-wise tables -/

def hdrRow (t : TableVal) : Row := [.str (header t), .str []]
def destRow (t : TableVal) : Row := [.str (joinStr [' '] t.destinations)]
def dataRowsM (naRep : Str) (t : TableVal) : List Row :=
  (List.range t.nRows).map (fun i => (List.range t.columns.length).map (fun j => cellM naRep t i j))

theorem readCells_ne {cs : List Str} (h : cs ≠ []) : readCells cs = cs := by
  cases cs with
  | nil => exact absurd rfl h
  | cons x xs => rfl

theorem rowTexts_matrix (naRep : Str) (t : TableVal) (h : t.transposed = false) (i : Nat) :
    strRow (rowTexts naRep t.columns i) = (List.range t.columns.length).map (fun j => cellM naRep t i j) := by
  unfold strRow rowTexts
  rw [List.map_map, zipIdx_map_eq_range t.columns dCol]
  apply List.map_congr_left
  intro j _
  simp [cellM, cellAt, h, Function.comp]

theorem tableRows_rowwise (naRep : Str) (t : TableVal) (h : t.transposed = false) (hc : t.columns ≠ []) :
    tableRows naRep t = hdrRow t :: destRow t :: strRow (t.columns.map (·.name)) ::
      strRow (t.columns.map (·.unit)) :: dataRowsM naRep t := by
  have hn : t.columns.map (·.name) ≠ [] := by simpa using hc
  have hu : t.columns.map (·.unit) ≠ [] := by simpa using hc
  unfold tableRows tableCells
  simp only [h, Bool.false_eq_true, if_false, List.map_append, List.map_cons, List.map_nil,
    List.cons_append, List.nil_append, List.map_map]
  rw [readCells_ne hn, readCells_ne hu]
  simp only [hdrRow, destRow, strRow, readCells, List.map_cons, List.map_nil, dataRowsM]
  congr 4
  apply List.map_congr_left
  intro i _
  have hr : rowTexts naRep t.columns i ≠ [] := by
    unfold rowTexts
    cases hcc : t.columns with
    | nil => exact absurd hcc hc
    | cons c cs => simp [List.zipIdx_cons]
  simp only [Function.comp, readCells_ne hr]
  exact rowTexts_matrix naRep t h i

theorem header_drop (t : TableVal) (h : t.transposed = false) : (header t).drop 2 = t.name := by
  simp [header, h]

theorem transposeN_dataRowsM (naRep : Str) (t : TableVal) :
    transposeN (dataRowsM naRep t) t.columns.length = colCellsOf naRep t :=
  transposeN_matrix t.nRows t.columns.length (fun i j => cellM naRep t i j)

theorem obsCol_length (unit : Str) (vs : List Val) : (obsCol unit vs).length = vs.length := by
  unfold obsCol
  split
  · simp [ColVals.length]
  · split
    · simp [ColVals.length]
    · split <;> simp [ColVals.length]

theorem dtHomogeneous_of_naive (xs : List Str) (h : ∀ x ∈ xs, x ≠ NaT → tzOf x = []) :
    dtHomogeneous xs = true := by
  unfold dtHomogeneous
  have hall : ∀ z ∈ (xs.filter (· != NaT)).map tzOf, z = [] := by
    intro z hz
    obtain ⟨x, hx, rfl⟩ := List.mem_map.1 hz
    have := List.mem_filter.1 hx
    exact h x this.1 (by simpa using this.2)
  cases hm : (xs.filter (· != NaT)).map tzOf with
  | nil => rfl
  | cons z zs =>
    rw [hm] at hall
    have hz := hall z (by simp)
    simp only [List.all_eq_true]
    intro y hy
    have := hall y (List.mem_cons_of_mem _ hy)
    simp [this, hz]

/-- the table-level checks of `_make_table` pass for the observed columns of a well-formed table -/
theorem observed_columns_ok (ext : Ext) (sep : Char) (naRep : Str) (t : TableVal) (hwf : WF ext sep naRep t) :
    (match (observe t).columns with
     | [] => True
     | c :: cs => cs.all (fun d => d.length = c.length) = true ∧
        (c.length > 0 && (observe t).columns.any
          (fun d => match d with | .dt xs => !dtHomogeneous xs | _ => false)) = false) := by
  unfold observe
  simp only []
  cases hcols : t.columns with
  | nil => simp
  | cons c0 cs0 =>
    simp only [List.map_cons]
    constructor
    · simp only [List.all_eq_true, List.mem_map, decide_eq_true_eq]
      rintro d ⟨c, hc, rfl⟩
      by_cases h0 : t.nRows = 0
      · simp [h0, ColVals.length]
      · simp only [h0, if_false, obsCol_length]
        rw [hwf.sameLen c (by rw [hcols]; exact List.mem_cons_of_mem _ hc),
            hwf.sameLen c0 (by rw [hcols]; simp)]
    · have hany : ((if t.nRows = 0 then ColVals.raw else obsCol c0.unit c0.values) ::
          cs0.map (fun c => if t.nRows = 0 then ColVals.raw else obsCol c.unit c.values)).any
          (fun d => match d with | .dt xs => !dtHomogeneous xs | _ => false) = false := by
        rw [List.any_eq_false]
        intro d hd
        have : ∃ c ∈ t.columns, d = (if t.nRows = 0 then ColVals.raw else obsCol c.unit c.values) := by
          rw [hcols]
          rcases List.mem_cons.1 hd with rfl | hd
          · exact ⟨c0, by simp, rfl⟩
          · obtain ⟨c, hc, rfl⟩ := List.mem_map.1 hd
            exact ⟨c, List.mem_cons_of_mem _ hc, rfl⟩
        obtain ⟨c, hc, rfl⟩ := this
        by_cases h0 : t.nRows = 0
        · simp [h0]
        · simp only [h0, if_false]
          unfold obsCol
          by_cases h1 : c.unit = uText
          · rw [if_pos h1]; simp
          · rw [if_neg h1]
            by_cases h2 : c.unit = uOnoff
            · rw [if_pos h2]; simp
            · rw [if_neg h2]
              by_cases h3 : c.unit = uDatetime
              · rw [if_pos h3]
                have := dtHomogeneous_of_naive (c.values.map dtOf) (by
                    intro x hx hne
                    obtain ⟨v, hv, rfl⟩ := List.mem_map.1 hx
                    cases v with
                    | dt tok => exact hwf.dtNaive c hc (.dt tok) hv tok rfl
                    | _ => simp [dtOf] at hne)
                simp [this]
              · rw [if_neg h3]; simp
      simp [hany]

theorem dataRowsM_eq_nil (naRep : Str) (t : TableVal) : dataRowsM naRep t = [] ↔ t.nRows = 0 := by
  simp [dataRowsM]

/-- `_make_table` on top of a successful precursor whose columns pass the DataFrame checks -/
theorem makeTable_ok (ext : Ext) (cells : List Row) (f : Fixer) (p : Precursor) (f' : Fixer)
    (hp : makePrecursor ext cells f = .ok (p, f'))
    (hcols : match p.columns with
     | [] => True
     | c :: cs => cs.all (fun d => d.length = c.length) = true ∧
        (c.length > 0 && p.columns.any
          (fun d => match d with | .dt xs => !dtHomogeneous xs | _ => false)) = false) :
    makeTable ext cells f = .ok (p, f') := by
  unfold makeTable
  rw [hp]
  simp only [bind, Except.bind]
  cases hcs : p.columns with
  | nil => rfl
  | cons c cs =>
    rw [hcs] at hcols
    simp only [hcols.1, Bool.not_true, Bool.false_eq_true, if_false]
    have h2 := hcols.2
    simp only [h2, Bool.false_eq_true, if_false]
    rfl

/-- **stage C, row-wise**: the reader core returns a written row-wise table as it was -/
theorem makeTable_rowwise (ext : Ext) (sep : Char) (naRep : Str) (t : TableVal) (hwf : WF ext sep naRep t)
    (h : t.transposed = false) (hc : t.columns ≠ []) (f : Fixer) (hf : f.errors = 0 ∧ f.warnings = 0) :
    makeTable ext (tableRows naRep t) f = .ok (observe t, f) := by
  have hnames : parseColumnNames (strRow (t.columns.map (·.name))) = .ok (t.columns.map (·.name)) := by
    have := (C02.names_until_first_blank (t.columns.map (·.name)) .none []
      (by intro s hs; obtain ⟨c, hc', rfl⟩ := List.mem_map.1 hs; exact (hwf.namesOK c hc').1) rfl).2
    unfold strRow
    rw [this]
    congr 1
    rw [List.map_map]
    conv => rhs; rw [← List.map_id (t.columns.map (·.name))]
    rw [List.map_map]
    apply List.map_congr_left
    intro c hc'
    exact (hwf.namesOK c hc').2
  have hlay : layout (tableRows naRep t) = .ok
      ⟨t.name, false, t.destinations, t.columns.map (·.name), t.columns.map (·.unit), dataRowsM naRep t⟩ := by
    rw [tableRows_rowwise naRep t h hc]
    unfold hdrRow destRow
    rw [C02.layout_rowwise (header t) [.str []] (.str (joinStr [' '] t.destinations)) []
      (strRow (t.columns.map (·.name))) (strRow (t.columns.map (·.unit))) (dataRowsM naRep t)
      (by rw [header_drop t h]; exact hwf.nameNoStar), hnames]
    simp only [header_drop t h, hwf.destsBack, List.length_map]
    have htake : (strRow (t.columns.map (·.unit))).take t.columns.length = strRow (t.columns.map (·.unit)) := by
      apply List.take_of_length_le; simp [strRow]
    rw [htake]
    have hall : (strRow (t.columns.map (·.unit))).all Cell.isStr = true := by simp [strRow, Cell.isStr]
    rw [hall]
    simp only [if_true]
    have hunits : (strRow (t.columns.map (·.unit))).map stripOfStr = t.columns.map (·.unit) := by
      unfold strRow
      rw [List.map_map, List.map_map]
      apply List.map_congr_left
      intro c hc'
      simp [Function.comp, stripOfStr, hwf.unitsOK c hc']
    rw [hunits]
    have hdata : (dataRowsM naRep t).map (fun l => l.take t.columns.length) = dataRowsM naRep t := by
      conv => rhs; rw [← List.map_id (dataRowsM naRep t)]
      apply List.map_congr_left
      intro r hr
      obtain ⟨i, _, rfl⟩ := List.mem_map.1 hr
      exact List.take_of_length_le (by simp)
    rw [hdata]
  apply makeTable_ok _ _ _ _ _ _ (observed_columns_ok ext sep naRep t hwf)
  unfold makePrecursor
  rw [hlay]
  simp only [bind, Except.bind]
  rw [finish_clean ext _ f (t.columns.map (fun c => obsCol c.unit c.values))
    (by simpa using hwf.namesNodup)
    (by
      intro r hr
      obtain ⟨i, _, rfl⟩ := List.mem_map.1 hr
      simp)
    hf
    (by
      intro _
      simp only [List.length_map]
      rw [transposeN_dataRowsM]
      exact ⟨parse_colCells ext sep naRep t hwf f, by simp⟩)]
  congr 2
  unfold observe
  rw [h]
  congr 1
  by_cases h0 : t.nRows = 0
  · simp [(dataRowsM_eq_nil naRep t).2 h0, h0, List.map_const']
  · have : dataRowsM naRep t ≠ [] := fun e => h0 ((dataRowsM_eq_nil naRep t).1 e)
    simp [this, h0]

end Pdt.C01
