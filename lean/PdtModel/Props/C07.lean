/-
  Props/C07.lean — "The three output forms of a reader describe the same blocks".

  About `parseBlocks` (Model/Blocks.lean) with the table handler chosen by `to` ∈ {pdtable, jsondata, cellgrid},
  for every row sequence, every read filter, both issue trackers, every fixer configuration and every
  behaviour of the external `float()` / `to_datetime`:

    * segmentation is handler independent: all three forms run over the same `segment rows`
      (`parseBlocks_segment`; by C03 `kind_only` the blocks depend on the first-cell kinds only);
    * `forms_aligned_json`: whenever the `pdtable` read succeeds, the `jsondata` read is the same result with
      every Table replaced by the JsonData of the *same* precursor — same block types, same origin rows, same
      metadata / directive / template / blank blocks, same fixer state;
    * `forms_aligned_cellgrid`: whenever the `pdtable` read succeeds, the `cellgrid` read succeeds and delivers,
      block for block (`Aligned`), the same type and origin row, for a table block exactly the rows the splitter
      cut out (`cellgrid_is_raw`, with C03 `segment_origin_row`: a contiguous slice of the input), for every other
      block the identical value (`non_table_blocks_equal`); hence `same_types`;
    * `read_tables_commute`: the composition — at every position where the successful `pdtable` read delivers a
      Table, the `jsondata` read delivers the JsonData of the same precursor, equal as a Python value to
      `table_to_json_data` of that Table (`delivered_table_from_makePrecursor` + `jsondata_commutes_read`);
    * `jsondata_commutes`: the two serialisation paths agree — `make_table_json_data` on the precursor
      (numpy arrays through `to_json_serializable`) and `table_to_json_data` on the Table built from that
      precursor (`list(df[col])` through `to_json_serializable`) give equal JsonData (`PyEq`: Python dict
      equality, member order of the top level and of "destinations" ignored; the "columns" member identical
      *including* its order), for every column kind, missing values included, either orientation.

    * `unknown_form_rejected`: `to` given as text is looked up among the translated `TABLE_HANDLERS` keys
      (`Gen.tableHandlers`, pinned) before anything else; a text that is not one of the three keys is answered
      with ValueError whatever the rows are — the answer is the same for every row sequence, so no row can have
      been looked at.  That the Python generator really raises at the first `next()` without advancing the row
      iterator / the text stream is observed by the harness (recording iterator, recording stream).
-/
import PdtModel.Model.Blocks
import PdtModel.Model.Json
import PdtModel.Props.C03
import PdtModel.Props.C08
import PdtModel.Props.C13
set_option linter.unusedSimpArgs false
set_option linter.unusedVariables false
namespace Pdt.C07
open Pdt Pdt.Reader Pdt.Blocks Pdt.Represent Pdt.Json

/-- the same reader configuration with another output form -/
def withForm (cfg : Config) (fm : Form) : Config := { cfg with form := fm }

/-- the read delivered every accepted block: no issue reported, input exhausted -/
def succeeded (r : Result) : Bool :=
  r.issues.isEmpty && (match r.ending with | .exhausted => true | _ => false)

/-! ## 0. the output forms are the keys of TABLE_HANDLERS; anything else is rejected unread -/

/-- the *set* of output forms (keys of `TABLE_HANDLERS`, sorted by the translator: neither the order of the tuple nor
    the names of the private handler functions are pinned) and the class raised for any other key -/
theorem table_handlers_pinned :
    Gen.tableHandlerKeys = ["cellgrid".toList, "jsondata".toList, "pdtable".toList] ∧
    Gen.unknownFormRaises = "ValueError" := by decide

/-- `_table_handlers[to]` for a text `to`: exactly the three literal keys -/
theorem formOf_pinned (s : Str) :
    formOf s = if s = "pdtable".toList then some Form.pdtable
               else if s = "jsondata".toList then some Form.jsondata
               else if s = "cellgrid".toList then some Form.cellgrid else none := by
  unfold formOf
  rw [table_handlers_pinned.1]
  by_cases h1 : s = "pdtable".toList
  · subst h1; decide
  · by_cases h2 : s = "jsondata".toList
    · subst h2; decide
    · by_cases h3 : s = "cellgrid".toList
      · subst h3; decide
      · simp only [if_neg h1, if_neg h2, if_neg h3, ite_self]

theorem unknownFormExc_pinned : unknownFormExc = PyExc.valueError := by decide

/-- a known form: the read runs with that form -/
theorem known_form (cfg : Config) (rows : List Row) (f : Fixer) :
    parseBlocksStr cfg "pdtable".toList rows f = .running (parseBlocks (withForm cfg .pdtable) rows f) ∧
    parseBlocksStr cfg "jsondata".toList rows f = .running (parseBlocks (withForm cfg .jsondata) rows f) ∧
    parseBlocksStr cfg "cellgrid".toList rows f = .running (parseBlocks (withForm cfg .cellgrid) rows f) :=
  ⟨rfl, rfl, rfl⟩

/-- **unknown_form_rejected**: an output form that is not one of the three keys is rejected with ValueError, and
    the rejection is the same for every row sequence (and every fixer): nothing of the input is looked at -/
theorem unknown_form_rejected (cfg : Config) (to : Str) (f : Fixer)
    (h : to ≠ "pdtable".toList ∧ to ≠ "jsondata".toList ∧ to ≠ "cellgrid".toList) :
    (∀ rows, parseBlocksStr cfg to rows f = .rejected .valueError) ∧
    (∀ rows rows' f', parseBlocksStr cfg to rows f = parseBlocksStr cfg to rows' f') := by
  have hf : formOf to = none := by rw [formOf_pinned, if_neg h.1, if_neg h.2.1, if_neg h.2.2]
  have : ∀ rows g, parseBlocksStr cfg to rows g = .rejected .valueError := by
    intro rows g; unfold parseBlocksStr; rw [hf, unknownFormExc_pinned]
  exact ⟨fun rows => this rows f, fun rows rows' f' => by rw [this rows f, this rows' f']⟩

/-- non-vacuity: spellings close to a key are not keys -/
example : ("PDTABLE".toList ≠ "pdtable".toList ∧ "PDTABLE".toList ≠ "jsondata".toList ∧ "PDTABLE".toList ≠ "cellgrid".toList) ∧
    ("cellgrid ".toList ≠ "pdtable".toList ∧ "cellgrid ".toList ≠ "jsondata".toList ∧ "cellgrid ".toList ≠ "cellgrid".toList) ∧
    (([] : Str) ≠ "pdtable".toList ∧ ([] : Str) ≠ "jsondata".toList ∧ ([] : Str) ≠ "cellgrid".toList) := by decide

/-! ## 1. what does not depend on the form -/

/-- segmentation is handler independent: every form runs over the same blocks -/
theorem parseBlocks_segment (cfg : Config) (fm : Form) (rows : List Row) (f : Fixer) :
    parseBlocks (withForm cfg fm) rows f = runBlocks (withForm cfg fm) (segment rows) f := rfl

/-- …and those blocks (types, sizes, origin rows) are a function of the first-cell kinds of the rows alone -/
theorem segmentation_kinds_only (rows : List Row) :
    (segment rows).map (C03.Block.mapRows rowKind) = run id (rows.map rowKind) := C03.kind_only rowKind rows

theorem accepts_withForm (cfg : Config) (fm : Form) (ty : BT) (cells : List Row) :
    accepts (withForm cfg fm) ty cells = accepts cfg ty cells := rfl

/-- metadata, directive, template and blank blocks: the handler is the same function of the cells in every
    form, and it neither reads nor changes the fixer -/
theorem handle_non_table (cfg : Config) (fm : Form) (ty : BT) (cells : List Row) (f g : Fixer) (h : ty ≠ .table) :
    (handle (withForm cfg fm) ty cells f).map (·.1) = (handle cfg ty cells g).map (·.1) ∧
    ∀ v f', handle (withForm cfg fm) ty cells f = .ok (v, f') → f' = f := by
  cases ty with
  | table => exact absurd rfl h
  | metadata => exact ⟨rfl, by intro v f' e; cases e; rfl⟩
  | directive =>
    constructor
    · simp only [handle]; cases directive cells <;> rfl
    · intro v f' e
      simp only [handle] at e
      cases hd : directive cells with
      | error x => simp [hd, bind, Except.bind] at e
      | ok nl => simp [hd, bind, Except.bind, pure, Except.pure] at e; exact e.2.symm
  | template => exact ⟨rfl, by intro v f' e; cases e; rfl⟩
  | blank => exact ⟨rfl, by intro v f' e; cases e; rfl⟩

theorem handle_non_table_eq (cfg : Config) (fm : Form) (ty : BT) (cells : List Row) (f : Fixer) (h : ty ≠ .table) :
    handle (withForm cfg fm) ty cells f = handle cfg ty cells f := by
  cases ty with
  | table => exact absurd rfl h
  | _ => rfl

/-- a successful `_make_table` is a successful `make_table_json_precursor` with the same precursor and fixer -/
theorem makeTable_ok (ext : Ext) (cells : List Row) (f f' : Fixer) (p : Precursor)
    (h : makeTable ext cells f = .ok (p, f')) : makePrecursor ext cells f = .ok (p, f') := by
  unfold makeTable at h
  cases hp : makePrecursor ext cells f with
  | error e => simp [hp, bind, Except.bind] at h
  | ok r =>
    obtain ⟨q, g⟩ := r
    simp only [hp, bind, Except.bind] at h
    cases hc : q.columns with
    | nil => simp [hc, pure, Except.pure] at h; rw [h.1, h.2]
    | cons c cs =>
      simp only [hc] at h
      split at h
      · cases h
      · split at h
        · cases h
        · simp [pure, Except.pure] at h; rw [h.1, h.2]

/-! ## 2. the jsondata read is the pdtable read with each Table replaced by the JsonData of its precursor -/

def asJson (d : Delivered) : Delivered :=
  match d.val with
  | .table p => { d with val := .json p }
  | _ => d

theorem succeeded_cons (r : Result) (d : Delivered) :
    succeeded { r with blocks := d :: r.blocks } = succeeded r := rfl

theorem run_json_aligned (cfg : Config) (bs : List (Block Row)) (f : Fixer)
    (hok : succeeded (runBlocks (withForm cfg .pdtable) bs f) = true) :
    runBlocks (withForm cfg .jsondata) bs f =
      { runBlocks (withForm cfg .pdtable) bs f with
        blocks := (runBlocks (withForm cfg .pdtable) bs f).blocks.map asJson } := by
  induction bs generalizing f with
  | nil => rfl
  | cons b bs ih =>
    unfold runBlocks at hok ⊢
    simp only [accepts_withForm] at hok ⊢
    by_cases hacc : accepts cfg b.ty b.rows = true
    · simp only [hacc, Bool.not_true, Bool.false_eq_true, if_false] at hok ⊢
      by_cases hty : b.ty = .table
      · -- table block
        have hP : handle (withForm cfg .pdtable) b.ty b.rows f.reset =
            (makeTable cfg.ext b.rows f.reset).map (fun r => (BlockVal.table r.1, r.2)) := by
          rw [hty]; simp only [handle, withForm]
          cases makeTable cfg.ext b.rows f.reset <;> rfl
        have hJ : handle (withForm cfg .jsondata) b.ty b.rows f.reset =
            (makePrecursor cfg.ext b.rows f.reset).map (fun r => (BlockVal.json r.1, r.2)) := by
          rw [hty]; simp only [handle, withForm]
          cases makePrecursor cfg.ext b.rows f.reset <;> rfl
        rw [hP] at hok ⊢
        rw [hJ]
        cases hm : makeTable cfg.ext b.rows f.reset with
        | error e =>
          exfalso
          simp only [hm, Except.map] at hok
          by_cases hc : caught e = true
          · simp only [hc, if_true] at hok
            cases htr : (withForm cfg .pdtable).tracker with
            | raising => simp [htr, succeeded] at hok
            | collecting => simp [htr, succeeded] at hok
          · simp only [hc, Bool.false_eq_true, if_false] at hok
            simp [succeeded] at hok
        | ok r =>
          obtain ⟨p, f'⟩ := r
          have hpre := makeTable_ok cfg.ext b.rows f.reset f' p hm
          simp only [hm, hpre, Except.map] at hok ⊢
          rw [succeeded_cons] at hok
          rw [ih f' hok]
          rfl
      · -- any other block: same handler
        rw [handle_non_table_eq cfg .jsondata b.ty b.rows f.reset hty]
        rw [handle_non_table_eq cfg .pdtable b.ty b.rows f.reset hty] at hok ⊢
        cases hh : handle cfg b.ty b.rows f.reset with
        | error e =>
          exfalso
          simp only [hh] at hok
          by_cases hc : caught e = true
          · simp only [hc, if_true] at hok
            cases htr : (withForm cfg .pdtable).tracker with
            | raising => simp [htr, succeeded] at hok
            | collecting => simp [htr, succeeded] at hok
          · simp only [hc, Bool.false_eq_true, if_false] at hok
            simp [succeeded] at hok
        | ok r =>
          obtain ⟨v, f'⟩ := r
          simp only [hh] at hok ⊢
          rw [succeeded_cons] at hok
          rw [ih f' hok]
          have hv : ∀ p, v ≠ .table p := by
            intro p e
            subst e
            cases hb : b.ty with
            | table => exact hty hb
            | metadata => rw [hb] at hh; cases hh
            | directive =>
              rw [hb] at hh
              simp only [handle] at hh
              cases hd : directive b.rows with
              | error x => simp [hd, bind, Except.bind] at hh
              | ok nl => simp [hd, bind, Except.bind, pure, Except.pure] at hh
            | template => rw [hb] at hh; cases hh
            | blank => rw [hb] at hh; cases hh
          have : asJson ⟨b.ty, b.first, v⟩ = ⟨b.ty, b.first, v⟩ := by
            unfold asJson
            cases v with
            | table p => exact absurd rfl (hv p)
            | _ => rfl
          simp only [List.map_cons, this]
    · simp only [hacc, Bool.not_false, if_true] at hok ⊢
      exact ih f.reset hok

/-- **forms_aligned_json** -/
theorem forms_aligned_json (cfg : Config) (rows : List Row) (f : Fixer)
    (hok : succeeded (parseBlocks (withForm cfg .pdtable) rows f) = true) :
    parseBlocks (withForm cfg .jsondata) rows f =
      { parseBlocks (withForm cfg .pdtable) rows f with
        blocks := (parseBlocks (withForm cfg .pdtable) rows f).blocks.map asJson } :=
  run_json_aligned cfg (segment rows) f hok

/-! ## 3. the cellgrid read: same blocks, tables as the raw rows of the block -/

/-- block-for-block correspondence between the accepted blocks of the splitter, what the `pdtable` read
    delivered and what the `cellgrid` read delivered -/
inductive Aligned : List (Block Row) → List Delivered → List Delivered → Prop
  | nil : Aligned [] [] []
  | table (b : Block Row) (p : Precursor) {rest dps dcs} : b.ty = .table → Aligned rest dps dcs →
      Aligned (b :: rest) (⟨.table, b.first, .table p⟩ :: dps) (⟨.table, b.first, .grid b.rows⟩ :: dcs)
  | other (b : Block Row) (v : BlockVal) {rest dps dcs} : b.ty ≠ .table → Aligned rest dps dcs →
      Aligned (b :: rest) (⟨b.ty, b.first, v⟩ :: dps) (⟨b.ty, b.first, v⟩ :: dcs)

theorem run_cellgrid_aligned (cfg : Config) (bs : List (Block Row)) (f g : Fixer)
    (hok : succeeded (runBlocks (withForm cfg .pdtable) bs f) = true) :
    succeeded (runBlocks (withForm cfg .cellgrid) bs g) = true ∧
    Aligned (bs.filter (fun b => accepts cfg b.ty b.rows))
      (runBlocks (withForm cfg .pdtable) bs f).blocks (runBlocks (withForm cfg .cellgrid) bs g).blocks := by
  induction bs generalizing f g with
  | nil => exact ⟨rfl, Aligned.nil⟩
  | cons b bs ih =>
    unfold runBlocks at hok ⊢
    simp only [accepts_withForm] at hok ⊢
    by_cases hacc : accepts cfg b.ty b.rows = true
    · simp only [hacc, Bool.not_true, Bool.false_eq_true, if_false, List.filter_cons, if_true] at hok ⊢
      by_cases hty : b.ty = .table
      · have hP : handle (withForm cfg .pdtable) b.ty b.rows f.reset =
            (makeTable cfg.ext b.rows f.reset).map (fun r => (BlockVal.table r.1, r.2)) := by
          rw [hty]; simp only [handle, withForm]
          cases makeTable cfg.ext b.rows f.reset <;> rfl
        have hC : handle (withForm cfg .cellgrid) b.ty b.rows g.reset = .ok (.grid b.rows, g.reset) := by
          rw [hty]; rfl
        rw [hP] at hok ⊢
        rw [hC]
        cases hm : makeTable cfg.ext b.rows f.reset with
        | error e =>
          exfalso
          simp only [hm, Except.map] at hok
          by_cases hc : caught e = true
          · simp only [hc, if_true] at hok
            cases htr : (withForm cfg .pdtable).tracker with
            | raising => simp [htr, succeeded] at hok
            | collecting => simp [htr, succeeded] at hok
          · simp only [hc, Bool.false_eq_true, if_false] at hok
            simp [succeeded] at hok
        | ok r =>
          obtain ⟨p, f'⟩ := r
          simp only [hm, Except.map] at hok ⊢
          rw [succeeded_cons] at hok ⊢
          obtain ⟨h1, h2⟩ := ih f' g.reset hok
          refine ⟨h1, ?_⟩
          have := Aligned.table b p hty h2
          simp only [hty]
          exact this
      · rw [handle_non_table_eq cfg .cellgrid b.ty b.rows g.reset hty]
        rw [handle_non_table_eq cfg .pdtable b.ty b.rows f.reset hty] at hok ⊢
        have hfg := (handle_non_table cfg .pdtable b.ty b.rows f.reset g.reset hty).1
        rw [handle_non_table_eq cfg .pdtable b.ty b.rows f.reset hty] at hfg
        have hg2 := (handle_non_table cfg .pdtable b.ty b.rows g.reset g.reset hty).2
        rw [handle_non_table_eq cfg .pdtable b.ty b.rows g.reset hty] at hg2
        cases hh : handle cfg b.ty b.rows f.reset with
        | error e =>
          exfalso
          simp only [hh] at hok
          by_cases hc : caught e = true
          · simp only [hc, if_true] at hok
            cases htr : (withForm cfg .pdtable).tracker with
            | raising => simp [htr, succeeded] at hok
            | collecting => simp [htr, succeeded] at hok
          · simp only [hc, Bool.false_eq_true, if_false] at hok
            simp [succeeded] at hok
        | ok r =>
          obtain ⟨v, f'⟩ := r
          rw [hh] at hfg
          cases hh2 : handle cfg b.ty b.rows g.reset with
          | error e => rw [hh2] at hfg; cases hfg
          | ok r2 =>
            obtain ⟨v2, g'⟩ := r2
            rw [hh2] at hfg
            have hv : v = v2 := by simpa [Except.map] using hfg
            subst hv
            have hg' : g' = g.reset := hg2 v g' hh2
            subst hg'
            simp only [hh, hh2] at hok ⊢
            rw [succeeded_cons] at hok ⊢
            obtain ⟨h1, h2⟩ := ih f' g.reset hok
            exact ⟨h1, Aligned.other b v hty h2⟩
    · have hacc' : accepts cfg b.ty b.rows = false := by simpa using hacc
      simp only [hacc', Bool.not_false, if_true, List.filter_cons, Bool.false_eq_true, if_false] at hok ⊢
      exact ih f.reset g.reset hok

/-- **forms_aligned_cellgrid** -/
theorem forms_aligned_cellgrid (cfg : Config) (rows : List Row) (f g : Fixer)
    (hok : succeeded (parseBlocks (withForm cfg .pdtable) rows f) = true) :
    succeeded (parseBlocks (withForm cfg .cellgrid) rows g) = true ∧
    Aligned ((segment rows).filter (fun b => accepts cfg b.ty b.rows))
      (parseBlocks (withForm cfg .pdtable) rows f).blocks (parseBlocks (withForm cfg .cellgrid) rows g).blocks :=
  run_cellgrid_aligned cfg (segment rows) f g hok

/-! ## 4. the clauses of the property, read off the alignments -/

theorem aligned_types {acc : List (Block Row)} {dps dcs : List Delivered} (h : Aligned acc dps dcs) :
    dps.map (fun d => (d.ty, d.first)) = acc.map (fun b => (b.ty, b.first)) ∧
    dcs.map (fun d => (d.ty, d.first)) = acc.map (fun b => (b.ty, b.first)) := by
  induction h with
  | nil => exact ⟨rfl, rfl⟩
  | table b p hty _ ih => simp [ih.1, ih.2, hty]
  | other b v hty _ ih => simp [ih.1, ih.2]

theorem asJson_ty (d : Delivered) : ((asJson d).ty, (asJson d).first) = (d.ty, d.first) := by
  unfold asJson; cases d.val <;> rfl

/-- **same_types**: whenever the `pdtable` read succeeds, the three reads deliver the same sequence of block
    types (and origin rows): that of the accepted blocks of the splitter -/
theorem same_types (cfg : Config) (rows : List Row) (f g : Fixer)
    (hok : succeeded (parseBlocks (withForm cfg .pdtable) rows f) = true) :
    let want := ((segment rows).filter (fun b => accepts cfg b.ty b.rows)).map (fun b => (b.ty, b.first))
    (parseBlocks (withForm cfg .pdtable) rows f).blocks.map (fun d => (d.ty, d.first)) = want ∧
    (parseBlocks (withForm cfg .jsondata) rows f).blocks.map (fun d => (d.ty, d.first)) = want ∧
    (parseBlocks (withForm cfg .cellgrid) rows g).blocks.map (fun d => (d.ty, d.first)) = want := by
  have hc := (forms_aligned_cellgrid cfg rows f g hok).2
  have ht := aligned_types hc
  refine ⟨ht.1, ?_, ht.2⟩
  rw [forms_aligned_json cfg rows f hok]
  simp only [List.map_map, Function.comp_def, asJson_ty]
  exact ht.1

theorem aligned_tables {acc : List (Block Row)} {dps dcs : List Delivered} (h : Aligned acc dps dcs) :
    (dcs.filter (fun d => d.ty = .table)).map (·.val) =
      (acc.filter (fun b => b.ty = .table)).map (fun b => BlockVal.grid b.rows) := by
  induction h with
  | nil => rfl
  | table b p hty _ ih => simp [List.filter_cons, hty, ih]
  | other b v hty _ ih => simp [List.filter_cons, hty, ih]

/-- **cellgrid_is_raw**: each `cellgrid` table is exactly the rows the splitter emitted for that block — by
    C03 a contiguous slice of the input starting at the block's origin row -/
theorem cellgrid_is_raw (cfg : Config) (rows : List Row) (f g : Fixer)
    (hok : succeeded (parseBlocks (withForm cfg .pdtable) rows f) = true) :
    ((parseBlocks (withForm cfg .cellgrid) rows g).blocks.filter (fun d => d.ty = .table)).map (·.val) =
      (((segment rows).filter (fun b => accepts cfg b.ty b.rows)).filter (fun b => b.ty = .table)).map
        (fun b => BlockVal.grid b.rows) ∧
    ∀ b ∈ segment rows, b.ty = .table → (rows.drop b.first).take b.rows.length = b.rows :=
  ⟨aligned_tables (forms_aligned_cellgrid cfg rows f g hok).2,
   fun b hb hty => (C03.segment_origin_row rows b hb).1 (by rw [hty]; decide)⟩

theorem aligned_non_tables {acc : List (Block Row)} {dps dcs : List Delivered} (h : Aligned acc dps dcs) :
    dps.filter (fun d => d.ty != .table) = dcs.filter (fun d => d.ty != .table) := by
  induction h with
  | nil => rfl
  | table b p hty _ ih => simp [List.filter_cons, ih]
  | other b v hty _ ih => simp [List.filter_cons, hty, ih]

theorem asJson_non_table (d : Delivered) (h : d.ty ≠ .table) (hv : ∀ p, d.val ≠ .table p) : asJson d = d := by
  unfold asJson
  cases hd : d.val with
  | table p => exact absurd hd (hv p)
  | _ => rfl

/-- **non_table_blocks_equal**: metadata, directive, template and blank blocks are the same — same value, same
    position among the non-table blocks — in all three forms -/
theorem non_table_blocks_equal (cfg : Config) (rows : List Row) (f g : Fixer)
    (hok : succeeded (parseBlocks (withForm cfg .pdtable) rows f) = true) :
    (parseBlocks (withForm cfg .pdtable) rows f).blocks.filter (fun d => d.ty != .table) =
      (parseBlocks (withForm cfg .cellgrid) rows g).blocks.filter (fun d => d.ty != .table) ∧
    ((parseBlocks (withForm cfg .jsondata) rows f).blocks.filter (fun d => d.ty != .table)).map (·.ty) =
      ((parseBlocks (withForm cfg .pdtable) rows f).blocks.filter (fun d => d.ty != .table)).map (·.ty) ∧
    (∀ d ∈ (parseBlocks (withForm cfg .pdtable) rows f).blocks, (∀ p, d.val ≠ .table p) →
      asJson d ∈ (parseBlocks (withForm cfg .jsondata) rows f).blocks ∧ asJson d = d) := by
  have hc := (forms_aligned_cellgrid cfg rows f g hok).2
  refine ⟨aligned_non_tables hc, ?_, ?_⟩
  · rw [forms_aligned_json cfg rows f hok]
    simp only [List.filter_map, List.map_map]
    congr 1
    · funext d; simp only [Function.comp_def]; exact congrArg Prod.fst (asJson_ty d)
    · congr 1
      funext d
      simp only [Function.comp_def]
      have := congrArg Prod.fst (asJson_ty d)
      simp only at this
      rw [this]
  · intro d hd hv
    have : asJson d = d := by
      unfold asJson
      cases hdv : d.val with
      | table p => exact absurd hdv (hv p)
      | _ => rfl
    refine ⟨?_, this⟩
    rw [forms_aligned_json cfg rows f hok]
    exact List.mem_map.2 ⟨d, hd, rfl⟩

/-! ## 5. jsondata_commutes: the two serialisation paths agree -/

/-- Python `==` on plain JSON data, as far as needed here: the members of a dict may come in any order -/
inductive PyEq : JVal → JVal → Prop
  | refl (v : JVal) : PyEq v v
  | perm {a b : List (Str × JVal)} : a.Perm b → PyEq (.obj a) (.obj b)
  | member {pre post : List (Str × JVal)} {k : Str} {v w : JVal} :
      PyEq v w → PyEq (.obj (pre ++ (k, v) :: post)) (.obj (pre ++ (k, w) :: post))
  | trans {a b c : JVal} : PyEq a b → PyEq b c → PyEq a c

theorem toJson_colPVal (c : ColVals) : toJson (colPVal c) = .arr ((colVals c).map C08.Spec.leaf) := by
  cases c with
  | text xs => simp [colPVal, colVals, toJson, C08.toJsonList_eq_map, List.map_map, Function.comp_def, C08.Spec.leaf]
  | onoff xs => simp [colPVal, colVals, toJson, C08.toJsonList_eq_map, List.map_map, Function.comp_def, C08.Spec.leaf]
  | num xs =>
    simp only [colPVal, colVals, toJson, List.map_map]
    congr 1
  | dt xs =>
    simp only [colPVal, colVals, toJson, C08.toJsonList_eq_map, List.map_map]
    congr 1
  | raw => rfl

/-- one column, both paths -/
theorem column_commutes (n u : Str) (c : ColVals) :
    (fun kv : Str × PVal => (kv.1, toJson kv.2)) (colEntry (n, u, colPVal c)) =
      C08.Spec.colJson ⟨n, u, colVals c⟩ := by
  simp [colEntry, toJson, toJsonKvs, C08.Spec.colJson, toJson_colPVal, sUnit, sValues]

theorem columns_commute (p : Precursor) (dests : List Str) :
    toJsonKvs (dictOfList (precursorColumns p)) = dictOfList ((tableOf p dests).columns.map C08.Spec.colJson) := by
  rw [C08.toJsonKvs_eq_map, C08.dictOfList_map toJson]
  congr 1
  simp only [precursorColumns, tableOf, List.map_map]
  apply List.map_congr_left
  intro nuc _
  exact column_commutes nuc.1 nuc.2.1 nuc.2.2

/-- **jsondata_commutes**: for a precursor `p` (one unit and one array per column name) and the Table built
    from it (destinations as the set iterates them), `make_table_json_data` and `table_to_json_data` return
    equal JsonData; the "columns" member is identical including its order and lists every column.
    `hnd`, `hu`, `hc`, `hn` are shape facts of every precursor a reader delivers (`makePrecursor_shape`; see
    `jsondata_commutes_read`, which needs only `hperm`: the Table holds the destinations as a set).
    (`hu`: a unit row shorter than the name row is an input error — /repo commit 7179188, `Reader.layout` —
    so every precursor a reader produces has one unit per name; before that fix a table without rows slipped
    through as a Table whose column register was shorter than its frame, on which `table_to_json_data` raised
    IndexError while `make_table_json_data` silently dropped the columns beyond the units.) -/
theorem jsondata_commutes (p : Precursor) (dests : List Str)
    (hperm : dests.Perm p.destinations) (hnd : p.destinations.Nodup)
    (hu : p.units.length = p.names.length) (hc : p.columns.length = p.names.length) (hn : p.names.Nodup) :
    ∃ jp jt, ofPrecursor p = .ok jp ∧ ofTable (tableOf p dests) = .ok jt ∧ PyEq jp jt ∧
      member "columns".toList jp = member "columns".toList jt ∧ C08.columnKeys jp = p.names := by
  have hnd' : dests.Nodup := hperm.nodup_iff.2 hnd
  have hD : dictOfList (dests.map (fun d => (d, JVal.null))) = dests.map (fun d => (d, JVal.null)) :=
    C08.dictOfList_nodup _ (by simpa [List.map_map, Function.comp_def] using hnd')
  have hDp : toJsonKvs (p.destinations.map (fun d => (d, PVal.none))) = p.destinations.map (fun d => (d, JVal.null)) := by
    rw [C08.toJsonKvs_eq_map]; simp [List.map_map, Function.comp_def, toJson]
  have hkeys : (tableOf p dests).columns.map (·.name) = p.names := by
    simp only [tableOf, List.map_map, Function.comp_def]
    have : ∀ (a : List Str) (b : List (Str × ColVals)), a.length ≤ b.length → (a.zip b).map (fun x => x.1) = a := by
      intro a b hab
      rw [← List.unzip_fst, List.unzip_zip_left hab]
    exact this _ _ (by simp [List.length_zip, hu, hc])
  have hkeys' : ((tableOf p dests).columns.map C08.Spec.colJson).map (·.1) = p.names := by
    rw [List.map_map]; exact hkeys
  have hC : dictOfList ((tableOf p dests).columns.map C08.Spec.colJson) = (tableOf p dests).columns.map C08.Spec.colJson :=
    C08.dictOfList_nodup _ (by rw [hkeys']; exact hn)
  have hjp : toJson (precursorPVal p) = JVal.obj [(sName, .str p.name),
      (sColumns, .obj ((tableOf p dests).columns.map C08.Spec.colJson)),
      (sDestinations, .obj (p.destinations.map (fun d => (d, JVal.null))))] := by
    simp only [precursorPVal, toJson, toJsonKvs]
    rw [hDp, columns_commute p dests, hC]
  have hjt : ofTable (tableOf p dests) = .ok (JVal.obj [(sName, .str p.name),
      (sDestinations, .obj (dests.map (fun d => (d, JVal.null)))),
      (sColumns, .obj ((tableOf p dests).columns.map C08.Spec.colJson))]) := by
    rw [C08.ofTable_general]
    show Except.ok (JVal.obj [("name".toList, JVal.str p.name),
      ("destinations".toList, JVal.obj (dictOfList (dests.map (fun d => (d, JVal.null))))),
      ("columns".toList, JVal.obj (dictOfList ((tableOf p dests).columns.map C08.Spec.colJson)))]) = _
    rw [hD, hC]; rfl
  refine ⟨_, _, (C08.ofPrecursor_total p).trans (congrArg Except.ok hjp), hjt, ?_, ?_, ?_⟩
  · -- equal as Python values: the "destinations" members are permutations, then two members swap
    have h1 : PyEq
        (.obj ([(sName, JVal.str p.name), (sColumns, JVal.obj ((tableOf p dests).columns.map C08.Spec.colJson))] ++
          (sDestinations, JVal.obj (p.destinations.map (fun d => (d, JVal.null)))) :: []))
        (.obj ([(sName, JVal.str p.name), (sColumns, JVal.obj ((tableOf p dests).columns.map C08.Spec.colJson))] ++
          (sDestinations, JVal.obj (dests.map (fun d => (d, JVal.null)))) :: [])) :=
      PyEq.member (PyEq.perm ((hperm.map _).symm))
    refine PyEq.trans h1 (PyEq.perm ?_)
    exact List.Perm.cons _ (List.Perm.swap _ _ _)
  · rfl
  · show (match member sColumns (JVal.obj [(sName, .str p.name),
        (sColumns, .obj ((tableOf p dests).columns.map C08.Spec.colJson)),
        (sDestinations, .obj (p.destinations.map (fun d => (d, JVal.null))))]) with
      | .ok (.obj kvs) => kvs.map (·.1)
      | _ => []) = p.names
    have : member sColumns (JVal.obj [(sName, .str p.name),
        (sColumns, .obj ((tableOf p dests).columns.map C08.Spec.colJson)),
        (sDestinations, .obj (p.destinations.map (fun d => (d, JVal.null))))]) =
        .ok (.obj ((tableOf p dests).columns.map C08.Spec.colJson)) := rfl
    rw [this]
    exact hkeys'

/-- the destinations of every precursor are pairwise distinct (`hnd` of `jsondata_commutes` holds for whatever
    `make_table_json_precursor` reads from the destination cell: dict keys) -/
theorem dedup_is_nodup (l : List Str) : (dedup l).Nodup := by
  induction l with
  | nil => simp [dedup]
  | cons x xs ih =>
    simp only [dedup, List.nodup_cons]
    exact ⟨by simp, ih.filter _⟩

theorem destinations_nodup (c : Cell) : (destinations c).Nodup := dedup_is_nodup _

/-- non-vacuity of `jsondata_commutes`: the precursor of a two-column table with a missing number; the
    destination set iterates in the other order -/
def examplePrecursor : Precursor :=
  ⟨"t".toList, false, ["a".toList, "b".toList], ["n".toList, "s".toList], ["m".toList, "text".toList],
   [.num ["nan".toList, "1.5".toList], .text ["é".toList, []]]⟩

example : ["b".toList, "a".toList].Perm examplePrecursor.destinations ∧ examplePrecursor.destinations.Nodup ∧
    examplePrecursor.units.length = examplePrecursor.names.length ∧
    examplePrecursor.columns.length = examplePrecursor.names.length ∧ examplePrecursor.names.Nodup :=
  ⟨List.Perm.swap _ _ _, by decide, rfl, rfl, by decide⟩

theorem layout_destinations (cells : List Row) (L : Layout) (h : layout cells = .ok L) : L.destinations.Nodup := by
  unfold layout at h
  simp only [bind, Except.bind, pure, Except.pure] at h
  repeat' (split at h <;> try (simp at h))
  all_goals (try (subst h; exact destinations_nodup _))

theorem foldl_dupStep_length (ps : List (Str × Nat)) (acc : List Str × Fixer) :
    (ps.foldl dupStep acc).1.length = acc.1.length + ps.length := by
  induction ps generalizing acc with
  | nil => simp
  | cons p ps ih =>
    simp only [List.foldl_cons, ih, List.length_cons]
    have : (dupStep acc p).1.length = acc.1.length + 1 := by
      unfold dupStep; split <;> simp
    omega

theorem fixDuplicates_length (names : List Str) (f : Fixer) : (fixDuplicates names f).1.length = names.length := by
  unfold fixDuplicates
  rw [foldl_dupStep_length]; simp

theorem parseColumns_length (ext : Ext) (us : List Str) (cols : List Row) (f : Fixer) (vs : List ColVals) (f' : Fixer)
    (h : parseColumns ext us cols f = .ok (vs, f')) : vs.length ≤ us.length := by
  induction us generalizing cols f vs f' with
  | nil => simp [parseColumns] at h; simp [h.1]
  | cons u us ih =>
    cases cols with
    | nil => simp [parseColumns] at h; simp [h.1]
    | cons c cs =>
      simp only [parseColumns] at h
      cases h1 : parseColumn ext u c f with
      | error e => simp [h1, bind, Except.bind] at h
      | ok r1 =>
        obtain ⟨v1, g1⟩ := r1
        simp only [h1, bind, Except.bind] at h
        cases h2 : parseColumns ext us cs g1 with
        | error e => simp [h2] at h
        | ok r2 =>
          obtain ⟨v2, g2⟩ := r2
          simp [h2, pure, Except.pure] at h
          have := ih cs g1 v2 g2 h2
          rw [← h.1]; simp; omega

/-- shape of every precursor `make_table_json_precursor` delivers: one unit and one array per column name,
    pairwise distinct destinations -/
theorem makePrecursor_shape (ext : Ext) (cells : List Row) (f0 f : Fixer) (p : Precursor)
    (h : makePrecursor ext cells f0 = .ok (p, f)) :
    p.units.length = p.names.length ∧ p.columns.length = p.names.length ∧ p.destinations.Nodup ∧
    p.names.Nodup := by
  unfold makePrecursor at h
  cases hl : layout cells with
  | error e => simp [hl, bind, Except.bind] at h
  | ok L =>
    simp only [hl, bind, Except.bind] at h
    have hu := C02.layout_shape cells L hl
    have hd := layout_destinations cells L hl
    unfold finish at h
    have hlen := fixDuplicates_length L.names0 f0
    cases hdup : fixDuplicates L.names0 f0 with
    | mk names f1 =>
    rw [hdup] at hlen
    simp only at hlen
    cases hsh : fixShortRows L.rows0 names.length f1 with
    | mk rows f2 =>
    simp only [hdup, hsh, bind, Except.bind] at h
    cases hp : parseColumns ext L.units (if rows.isEmpty = true then [] else transposeN rows names.length) f2 with
    | error e => rw [hp] at h; simp at h
    | ok r =>
      obtain ⟨parsed, g3⟩ := r
      rw [hp] at h
      simp only [] at h
      have hpl := parseColumns_length ext L.units _ f2 parsed g3 hp
      split at h
      · simp at h
      · simp only [pure, Except.pure, Except.ok.injEq, Prod.mk.injEq] at h
        obtain ⟨rfl, _⟩ := h
        refine ⟨by simp only; omega, ?_, hd, ?_⟩
        · simp only [List.length_append, List.length_replicate]
          omega
        · -- column names: `_fix_duplicate_column_names` makes them pairwise distinct (C13 `names_unique`)
          have hnames : names = C13.repairedNames L.names0 := by
            have := C13.fixDuplicates_closed L.names0 f0
            rw [hdup] at this
            exact congrArg Prod.fst this
          simp only
          rw [hnames]
          exact C13.names_unique L.names0

/-- **jsondata_commutes, for what a reader produces**: for every precursor `make_table_json_precursor` delivers
    (any grid, any fixer, any `ext`) — its column names are pairwise distinct by C13 `names_unique` — and the
    Table built from it, whose destination set iterates in some permutation `dests` -/
theorem jsondata_commutes_read (ext : Ext) (cells : List Row) (f0 f : Fixer) (p : Precursor)
    (h : makePrecursor ext cells f0 = .ok (p, f)) (dests : List Str) (hperm : dests.Perm p.destinations) :
    ∃ jp jt, ofPrecursor p = .ok jp ∧ ofTable (tableOf p dests) = .ok jt ∧ PyEq jp jt ∧
      member "columns".toList jp = member "columns".toList jt ∧ C08.columnKeys jp = p.names :=
  have hs := makePrecursor_shape ext cells f0 f p h
  jsondata_commutes p dests hperm hs.2.2.1 hs.1 hs.2.1 hs.2.2.2

/-- every Table the `pdtable` read delivers comes from a successful `make_table_json_precursor` of the rows of one of
    the blocks (no hypothesis on how the read ends) -/
theorem delivered_table_from_makePrecursor (cfg : Config) (bs : List (Block Row)) (f : Fixer) :
    ∀ d ∈ (runBlocks (withForm cfg .pdtable) bs f).blocks, ∀ p, d.val = .table p →
      ∃ b ∈ bs, ∃ g g', makePrecursor cfg.ext b.rows g = .ok (p, g') := by
  induction bs generalizing f with
  | nil => intro d hd; simp [runBlocks] at hd
  | cons b bs ih =>
    intro d hd p hp
    unfold runBlocks at hd
    simp only [accepts_withForm] at hd
    by_cases hacc : accepts cfg b.ty b.rows = true
    · simp only [hacc, Bool.not_true, Bool.false_eq_true, if_false] at hd
      cases hh : handle (withForm cfg .pdtable) b.ty b.rows f.reset with
      | error e =>
        simp only [hh] at hd
        by_cases hc : caught e = true
        · simp only [hc, if_true] at hd
          cases htr : (withForm cfg .pdtable).tracker with
          | raising => simp [htr] at hd
          | collecting =>
            simp only [htr] at hd
            obtain ⟨b', hb', r⟩ := ih f.reset d hd p hp
            exact ⟨b', List.mem_cons_of_mem _ hb', r⟩
        · simp only [hc, Bool.false_eq_true, if_false] at hd
          simp at hd
      | ok r =>
        obtain ⟨v, f'⟩ := r
        simp only [hh] at hd
        rcases List.mem_cons.1 hd with rfl | hd'
        · -- the block just handled
          simp only at hp
          subst hp
          cases hb : b.ty with
          | table =>
            rw [hb] at hh
            simp only [handle, withForm] at hh
            cases hm : makeTable cfg.ext b.rows f.reset with
            | error e => simp [hm, bind, Except.bind] at hh
            | ok r2 =>
              obtain ⟨q, g'⟩ := r2
              simp [hm, bind, Except.bind, pure, Except.pure] at hh
              obtain ⟨rfl, _⟩ := hh
              exact ⟨b, by simp, f.reset, g', makeTable_ok cfg.ext b.rows f.reset g' q hm⟩
          | metadata => rw [hb] at hh; cases hh
          | directive =>
            rw [hb] at hh
            simp only [handle] at hh
            cases hd2 : directive b.rows with
            | error x => simp [hd2, bind, Except.bind] at hh
            | ok nl => simp [hd2, bind, Except.bind, pure, Except.pure] at hh
          | template => rw [hb] at hh; cases hh
          | blank => rw [hb] at hh; cases hh
        · obtain ⟨b', hb', r⟩ := ih f' d hd' p hp
          exact ⟨b', List.mem_cons_of_mem _ hb', r⟩
    · have hacc' : accepts cfg b.ty b.rows = false := by simpa using hacc
      simp only [hacc', Bool.not_false, if_true] at hd
      obtain ⟨b', hb', r⟩ := ih f.reset d hd p hp
      exact ⟨b', List.mem_cons_of_mem _ hb', r⟩

/-- **the composition**: whenever the `pdtable` read succeeds, at every position where it delivers a Table (built
    from precursor `p`) the `jsondata` read delivers the JsonData of the same `p`, and that JsonData equals, as a
    Python value, `table_to_json_data` of the Table (whatever order `dests` its destination set iterates in), with
    the "columns" member identical in order.  (This is about `parse_blocks`; that `read_csv` / `read_excel` feed it
    the rows of the text / of each worksheet is compared by the harness only.) -/
theorem read_tables_commute (cfg : Config) (rows : List Row) (f : Fixer)
    (hok : succeeded (parseBlocks (withForm cfg .pdtable) rows f) = true) (i : Nat) (d : Delivered) (p : Precursor)
    (hi : (parseBlocks (withForm cfg .pdtable) rows f).blocks[i]? = some d) (hp : d.val = .table p) :
    (parseBlocks (withForm cfg .jsondata) rows f).blocks[i]? = some { d with val := .json p } ∧
    ∀ dests : List Str, dests.Perm p.destinations →
      ∃ jp jt, ofPrecursor p = .ok jp ∧ ofTable (tableOf p dests) = .ok jt ∧ PyEq jp jt ∧
        member "columns".toList jp = member "columns".toList jt ∧ C08.columnKeys jp = p.names := by
  constructor
  · rw [forms_aligned_json cfg rows f hok]
    simp only [List.getElem?_map, hi, Option.map_some]
    unfold asJson
    rw [hp]
  · intro dests hperm
    have hmem : d ∈ (parseBlocks (withForm cfg .pdtable) rows f).blocks := List.mem_of_getElem? hi
    obtain ⟨b, _, g, g', hmk⟩ := delivered_table_from_makePrecursor cfg (segment rows) f d hmem p hp
    exact jsondata_commutes_read cfg.ext b.rows g g' p hmk dests hperm

/-- what a `jsondata` block stands for: the JsonData of its precursor -/
def jsonOf : BlockVal → Option (Except PyExc JVal)
  | .json p => some (ofPrecursor p)
  | _ => none

/-! ## 6. non-vacuity: a stream with metadata, a row-wise and a transposed table, a directive, a template row and
   a comment reads successfully in the `pdtable` form -/

def exampleCfg : Config := ⟨.pdtable, none, .raising, C08.exampleExt⟩

def exampleRows : List Row :=
  [[.str "author:".toList, .str "x".toList], [],
   [.str "**t".toList], [.str "a b".toList], [.str "n".toList, .str "s".toList], [.str "m".toList, .str "text".toList],
   [.str "-".toList, .str "é".toList], [],
   [.str "***include".toList], [.str "f.csv".toList], [],
   [.str "**u*".toList], [.str "all".toList], [.str "o".toList, .str "onoff".toList, .str "1".toList, .str "0".toList], [],
   [.str ":::tpl".toList], [.str "comment".toList]]

example : succeeded (parseBlocks (withForm exampleCfg .pdtable) exampleRows freshFixer) = true := by decide

example : (parseBlocks (withForm exampleCfg .cellgrid) exampleRows freshFixer).blocks.map (fun d => (d.ty, d.first)) =
    [(.metadata, 0), (.table, 2), (.directive, 8), (.table, 11), (.template, 15)] := by decide

end Pdt.C07
