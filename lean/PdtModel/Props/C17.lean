/-
  Props/C17.lean — "With a root folder set, nothing outside it is ever opened".

  Statement (properties.jsonl C17): for every root item or include specification, when a root folder is
  configured `load_files` never opens a file or lists a folder outside that folder: such a specification is
  reported as a load error before any such access; specifications that resolve inside the root are loaded
  normally.

  Shape of the proof.  The loader model (Model/PathRes.lean) takes `Path.resolve()` as a parameter `R`.
    * lexical part, for EVERY resolver, specification, source, world, work-list, fuel:
        `contained`, `no_access_before_check`, `trace_inside`, `outside_reported`,
        `inside_loaded_normally`, `inside_is_read`;
    * on-disk part: an accepted path is a fixpoint of `R` (fix dbe9598), so under the resolver law
      `FixpointCanonical` ("a path that `R` maps to itself has no symlink component and no dot segment")
      it *is* the location the operating system reaches: `accepted_canonical`, `trace_inside_on_disk`.
      The law is PROVED for the specified resolver `FS.resolve` (`spec_resolver_lawful`,
      `resolve_idempotent`) and is an explicit hypothesis for any other resolver; for CPython 3.12's
      real algorithm (`FS.py312Resolve`) it is proved only on the branch where no symlink loop is met
      (`py312_lawful`, by a divergence argument for the give-up branch) — both instances are compared with the
      real `Path.resolve()` by the harness on every run.
    * `noncanonical_root_refuses_all`: a root that is not canonical refuses everything (safe).
    * negation witness for the code BEFORE the fix: `prefix_escape_witness`.
  Trusted / outside: the real `Path.resolve()` and the OS; races between the check and the open.
-/
import PdtModel.Model.PathRes
import PdtModel.Gen.Consts
set_option linter.unusedSimpArgs false
set_option linter.unusedVariables false
namespace Pdt.C17
open Pdt Pdt.PathRes

deriving instance DecidableEq for Except

/-! ## tie to the source text -/

theorem leading_slash_pinned : Gen.leadingSlashPattern = "re.compile('/|\\\\\\\\')" := by decide
theorem ignore_protocol_pinned : Gen.ignoreProtocol = "file:".toList := by decide

/-! ## declarative vocabulary -/

namespace Spec

/-- a segment that names a directory entry -/
def plain (s : Str) : Prop := isDot s = false ∧ isDotDot s = false

/-- canonical absolute path over a symlink map: only naming segments, and no non-empty prefix is a symlink -/
def Canon (fs : FS) (p : Segs) : Prop :=
  (∀ s ∈ p, plain s) ∧ ∀ q, q <+: p → q ≠ [] → readlink fs q = none

/-- `p` is `root` or below it -/
def Inside (root p : Segs) : Prop := root <+: p

/-- a root folder as the property's quantifier wants it: absolute (single slash) and canonical -/
def CanonicalRoot (fs : FS) (r : PPath) : Prop := r.anchor = 1 ∧ Canon fs r.segs

/-- an event that opens a file, lists a folder or stats a location -/
def isAccess (e : Ev) (p : Segs) : Prop := e.accessPath = some p

/-- the path a specification denotes (documented rule, literal constants): an ignored `file:` prefix in any
    letter case; a leading `/` or `\` anchors the remainder at the root folder; anything else is relative to
    the folder of the including location; a root item without leading slash denotes nothing.
    `parsePath` / `join` are pathlib's `Path(str)` and `/`. -/
def target (root : PPath) (spec : Str) (src : Option PPath) : Option PPath :=
  let s := match spec with
    | c1 :: c2 :: c3 :: c4 :: c5 :: rest =>
      if lowerAscii [c1, c2, c3, c4, c5] = ['f', 'i', 'l', 'e', ':'] then rest else spec
    | _ => spec
  match s with
  | '/' :: rest => some (join root (parsePath rest))
  | '\\' :: rest => some (join root (parsePath rest))
  | _ => match src with
    | none => none
    | some folder => some (join folder (parsePath s))

end Spec
open Spec

/-- resolver law: a path the resolver maps to itself is canonical -/
def FixpointCanonical (fs : FS) (R : Resolver) : Prop := ∀ p, R ⟨1, p⟩ = .ok p → Canon fs p

/-! ## the specified resolver returns canonical paths and is idempotent -/

theorem canon_nil (fs : FS) : Canon fs [] := by
  refine ⟨by simp, ?_⟩
  intro q hq hne
  exact absurd (List.prefix_nil.mp hq) hne

theorem canon_prefix {fs : FS} {p q : Segs} (h : Canon fs p) (hq : q <+: p) : Canon fs q := by
  refine ⟨fun s hs => h.1 s (hq.subset hs), ?_⟩
  intro q' hq' hne
  exact h.2 q' (hq'.trans hq) hne

theorem canon_snoc {fs : FS} {acc : Segs} {s : Str} (h : Canon fs acc)
    (h1 : isDot s = false) (h2 : isDotDot s = false) (h3 : readlink fs (acc ++ [s]) = none) :
    Canon fs (acc ++ [s]) := by
  refine ⟨?_, ?_⟩
  · intro x hx
    rcases List.mem_append.mp hx with hx | hx
    · exact h.1 x hx
    · simp at hx; subst hx; exact ⟨h1, h2⟩
  · intro q hq hne
    rcases List.prefix_concat_iff.mp hq with rfl | hq
    · exact h3
    · exact h.2 q hq hne

/-- every path the walk returns is canonical when it starts from a canonical prefix -/
theorem walk_canon (fs : FS) : ∀ (n : Nat) (acc todo p : Segs),
    Canon fs acc → walk fs n acc todo = some p → Canon fs p := by
  intro n
  induction n with
  | zero =>
    intro acc todo p hc h
    cases todo with
    | nil => simp [walk] at h; subst h; exact hc
    | cons s rest => simp [walk] at h
  | succ n ih =>
    intro acc todo p hc h
    cases todo with
    | nil => simp [walk] at h; subst h; exact hc
    | cons s rest =>
      simp only [walk] at h
      by_cases h1 : isDot s = true
      · simp [h1] at h; exact ih _ _ _ hc h
      · by_cases h2 : isDotDot s = true
        · simp [h1, h2] at h
          exact ih _ _ _ (canon_prefix hc (List.dropLast_prefix acc)) h
        · simp only [h1, h2] at h
          cases hl : readlink fs (acc ++ [s]) with
          | none =>
            simp [hl] at h
            exact ih _ _ _ (canon_snoc hc (by simpa using h1) (by simpa using h2) hl) h
          | some t =>
            simp [hl] at h
            by_cases ha : t.isAbsolute = true
            · simp [ha] at h; exact ih _ _ _ (canon_nil fs) h
            · simp [ha] at h; exact ih _ _ _ hc h

/-- the walk adds at most one segment per unit of fuel -/
theorem walk_len (fs : FS) : ∀ (n : Nat) (acc todo p : Segs),
    walk fs n acc todo = some p → todo ≠ [] → p.length ≤ acc.length + n := by
  intro n
  induction n with
  | zero =>
    intro acc todo p h hne
    cases todo with
    | nil => exact absurd rfl hne
    | cons s rest => simp [walk] at h
  | succ n ih =>
    intro acc todo p h hne
    cases todo with
    | nil => exact absurd rfl hne
    | cons s rest =>
      have key : ∀ (acc' todo' : Segs), walk fs n acc' todo' = some p → acc'.length ≤ acc.length + 1 →
          p.length ≤ acc.length + (n + 1) := by
        intro acc' todo' h' hl
        cases todo' with
        | nil => simp [walk] at h'; subst h'; omega
        | cons s' r' =>
          have := ih acc' (s' :: r') p h' (by simp)
          omega
      simp only [walk] at h
      by_cases h1 : isDot s = true
      · simp [h1] at h; exact key _ _ h (by omega)
      · by_cases h2 : isDotDot s = true
        · simp [h1, h2] at h
          exact key _ _ h (by simp; omega)
        · simp only [h1, h2] at h
          cases hl : readlink fs (acc ++ [s]) with
          | none => simp [hl] at h; exact key _ _ h (by simp)
          | some t =>
            simp [hl] at h
            by_cases ha : t.isAbsolute = true
            · simp [ha] at h; exact key _ _ h (by simp)
            · simp [ha] at h; exact key _ _ h (by omega)

/-- a canonical remainder is walked through unchanged -/
theorem walk_fixed (fs : FS) : ∀ (todo acc : Segs) (n : Nat),
    Canon fs (acc ++ todo) → todo.length ≤ n → walk fs n acc todo = some (acc ++ todo) := by
  intro todo
  induction todo with
  | nil => intro acc n _ _; cases n <;> simp [walk]
  | cons s rest ih =>
    intro acc n hc hn
    cases n with
    | zero => simp at hn
    | succ n =>
      have hs : plain s := hc.1 s (by simp)
      have hl : readlink fs (acc ++ [s]) = none :=
        hc.2 (acc ++ [s]) (by simp) (by simp)
      have hc' : Canon fs ((acc ++ [s]) ++ rest) := by simpa using hc
      have := ih (acc ++ [s]) n hc' (by simpa using hn)
      simp [walk, hs.1, hs.2, hl, this]

/-- **the specified resolver returns canonical paths** -/
theorem resolve_ok_iff (fs : FS) (c : PPath) (p : Segs) :
    fs.resolve c = .ok p ↔
      (if c.isAbsolute then c.segs else fs.cwd ++ c.segs).any hasNul = false ∧
      walk fs fs.fuel [] (if c.isAbsolute then c.segs else fs.cwd ++ c.segs) = some p ∧ p.any hasNul = false := by
  unfold FS.resolve
  generalize (if c.isAbsolute then c.segs else fs.cwd ++ c.segs) = start
  by_cases h1 : start.any hasNul = true
  · simp [h1]
  · cases hw : walk fs fs.fuel [] start with
    | none => simp [h1, hw]
    | some q =>
      by_cases h2 : q.any hasNul = true
      · simp only [h1, hw, h2]
        constructor
        · intro h; simp at h
        · rintro ⟨_, h, h'⟩; simp at h; subst h; simp [h2] at h'
      · simp only [h1, hw, h2]
        constructor
        · intro h; simp at h; subst h; exact ⟨by simp [h1], rfl, by simp [h2]⟩
        · rintro ⟨_, h, _⟩; simp at h; subst h; simp

theorem resolve_canonical (fs : FS) (c : PPath) (p : Segs) (h : fs.resolve c = .ok p) : Canon fs p :=
  walk_canon fs _ _ _ _ (canon_nil fs) ((resolve_ok_iff fs c p).mp h).2.1

/-- **the specified resolver is idempotent** -/
theorem resolve_idempotent (fs : FS) (c : PPath) (p : Segs) (h : fs.resolve c = .ok p) :
    fs.resolve ⟨1, p⟩ = .ok p := by
  have hc := resolve_canonical fs c p h
  obtain ⟨_, h, hnul⟩ := (resolve_ok_iff fs c p).mp h
  have hlen : p.length ≤ fs.fuel := by
    by_cases hne : (if c.isAbsolute = true then c.segs else fs.cwd ++ c.segs) = []
    · rw [hne] at h; cases hf : fs.fuel <;> simp [hf, walk] at h <;> subst h <;> simp
    · have := walk_len fs _ _ _ _ h hne
      simpa using this
  have := walk_fixed fs p [] fs.fuel (by simpa using hc) hlen
  refine (resolve_ok_iff fs ⟨1, p⟩ p).mpr ?_
  simpa [PPath.isAbsolute, hnul] using this

/-- a canonical path is a fixpoint of the specified resolver (given fuel for its length) -/
theorem resolve_of_canonical (fs : FS) (p : Segs) (hc : Canon fs p) (hf : p.length ≤ fs.fuel)
    (hnul : p.any hasNul = false) :
    fs.resolve ⟨1, p⟩ = .ok p := by
  have := walk_fixed fs p [] fs.fuel (by simpa using hc) hf
  refine (resolve_ok_iff fs ⟨1, p⟩ p).mpr ?_
  simpa [PPath.isAbsolute, hnul] using this

/-- the specified resolver satisfies the resolver law -/
theorem spec_resolver_lawful (fs : FS) : FixpointCanonical fs fs.resolve :=
  fun p h => resolve_canonical fs ⟨1, p⟩ p h

/-! ## `_resolve_load_item_path` -/

theorem relativeTo_iff (p : Segs) (r : PPath) :
    relativeTo ⟨1, p⟩ r = true ↔ r.anchor = 1 ∧ r.segs <+: p := by
  unfold relativeTo
  simp only [Bool.and_eq_true, beq_iff_eq, List.isPrefixOf_iff_prefix]
  constructor
  · rintro ⟨h1, h2⟩; exact ⟨h1.symm, h2⟩
  · rintro ⟨h1, h2⟩; exact ⟨h1.symm, h2⟩

theorem candidate_error {root spec src e} (h : candidate root spec src = .error e) : e = .loadError := by
  unfold candidate at h
  by_cases hh : (parsePath spec).isAbsolute = false
  all_goals (split at h <;> split at h <;> simp_all)

/-- every outcome of `_resolve_load_item_path` when a root folder is configured -/
theorem resolveLoadItem_shape (cfg : Cfg) (R : Resolver) (spec : Str) (src : Option PPath) (r : PPath)
    (hr : cfg.root = some r) :
    resolveLoadItem cfg R spec src = ([], .error .loadError)
    ∨ (∃ c e, resolveLoadItem cfg R spec src = ([.resolve c], .error e))
    ∨ (∃ c p e, resolveLoadItem cfg R spec src = ([.resolve c, .resolve ⟨1, p⟩], .error e))
    ∨ (∃ c p, resolveLoadItem cfg R spec src = ([.resolve c, .resolve ⟨1, p⟩, .check p false], .error .loadError)
        ∧ relativeTo ⟨1, p⟩ r = false)
    ∨ (∃ c p, resolveLoadItem cfg R spec src = ([.resolve c, .resolve ⟨1, p⟩, .check p true], .ok p)
        ∧ relativeTo ⟨1, p⟩ r = true ∧ candidate cfg.root (stripProto cfg.proto spec) src = .ok c
        ∧ R c = .ok p ∧ R ⟨1, p⟩ = .ok p) := by
  cases hc : candidate cfg.root (stripProto cfg.proto spec) src with
  | error e => have := candidate_error hc; subst this; left; simp [resolveLoadItem, hc]
  | ok c =>
    have hc' := hc
    rw [hr] at hc'
    cases h1 : R c with
    | error e =>
      right; left
      cases e
      case valueError => exact ⟨c, .loadError, by simp [resolveLoadItem, hc, h1]⟩
      case loadError => exact ⟨c, .loadError, by simp [resolveLoadItem, hc, h1]⟩
      case inputError => exact ⟨c, .inputError, by simp [resolveLoadItem, hc, h1]⟩
      case runtimeError => exact ⟨c, .runtimeError, by simp [resolveLoadItem, hc, h1]⟩
      case fileNotFound => exact ⟨c, .fileNotFound, by simp [resolveLoadItem, hc, h1]⟩
      case typeError => exact ⟨c, .typeError, by simp [resolveLoadItem, hc, h1]⟩
    | ok p =>
      cases h2 : R ⟨1, p⟩ with
      | error e => right; right; left; exact ⟨c, p, e, by simp [resolveLoadItem, hc, h1, h2]⟩
      | ok p2 =>
        by_cases hne : p2 = p
        · subst hne
          by_cases hrel : relativeTo ⟨1, p2⟩ r = true
          · right; right; right; right
            exact ⟨c, p2, by simp [resolveLoadItem, hc, hc', h1, h2, hr, hrel], hrel, rfl, h1, h2⟩
          · right; right; right; left
            exact ⟨c, p2, by simp [resolveLoadItem, hc, hc', h1, h2, hr, hrel], by simpa using hrel⟩
        · right; right; left; exact ⟨c, p, .loadError, by simp [resolveLoadItem, hc, h1, h2, hne]⟩

/-- **contained**: with a root folder configured, every accepted specification resolves to a path that has
    the root as segment prefix (and the root is then anchored at `/`), whatever the specification, the
    source, the resolver.  The accepted path is moreover a fixpoint of the resolver. -/
theorem contained (cfg : Cfg) (R : Resolver) (spec : Str) (src : Option PPath) (r : PPath)
    (hr : cfg.root = some r) (tr : List Ev) (p : Segs)
    (h : resolveLoadItem cfg R spec src = (tr, .ok p)) :
    r.anchor = 1 ∧ Inside r.segs p ∧ R ⟨1, p⟩ = .ok p := by
  rcases resolveLoadItem_shape cfg R spec src r hr with h' | ⟨c, e, h'⟩ | ⟨c, q, e, h'⟩ | ⟨c, q, h', _⟩ |
      ⟨c, q, h', hrel, _, _, hfix⟩
  all_goals (rw [h'] at h; simp at h)
  obtain ⟨_, rfl⟩ := h
  exact ⟨((relativeTo_iff q r).mp hrel).1, ((relativeTo_iff q r).mp hrel).2, hfix⟩

/-- under the resolver law the accepted path is the canonical location itself -/
theorem accepted_canonical (fs : FS) (cfg : Cfg) (R : Resolver) (hR : FixpointCanonical fs R)
    (spec : Str) (src : Option PPath) (r : PPath) (hr : cfg.root = some r) (tr : List Ev) (p : Segs)
    (h : resolveLoadItem cfg R spec src = (tr, .ok p)) :
    Canon fs p ∧ Inside r.segs p :=
  have hc := contained cfg R spec src r hr tr p h
  ⟨hR p hc.2.2, hc.2.1⟩

/-- **a root that is not canonical refuses everything** (safe; the property assumes a canonical root) -/
theorem noncanonical_root_refuses_all (fs : FS) (cfg : Cfg) (R : Resolver) (hR : FixpointCanonical fs R)
    (r : PPath) (hr : cfg.root = some r) (hbad : ¬ CanonicalRoot fs r)
    (spec : Str) (src : Option PPath) :
    ∃ e, (resolveLoadItem cfg R spec src).2 = .error e := by
  cases hres : resolveLoadItem cfg R spec src with
  | mk tr res =>
    cases res with
    | error e => exact ⟨e, rfl⟩
    | ok p =>
      have hc := accepted_canonical fs cfg R hR spec src r hr tr p hres
      have h1 := (contained cfg R spec src r hr tr p hres).1
      exact absurd ⟨h1, canon_prefix hc.1 hc.2⟩ hbad

/-- **inside_loaded_normally** (resolver level): a specification whose candidate path resolves, to a
    fixpoint of the resolver, inside a root anchored at `/` is accepted with exactly that path -/
theorem inside_accepted (cfg : Cfg) (R : Resolver) (spec : Str) (src : Option PPath) (r : PPath)
    (hr : cfg.root = some r) (hanchor : r.anchor = 1) (c : PPath) (p : Segs)
    (hc : candidate cfg.root (stripProto cfg.proto spec) src = .ok c)
    (h1 : R c = .ok p) (h2 : R ⟨1, p⟩ = .ok p) (hin : Inside r.segs p) :
    resolveLoadItem cfg R spec src = ([.resolve c, .resolve ⟨1, p⟩, .check p true], .ok p) := by
  have hrel : relativeTo ⟨1, p⟩ r = true := (relativeTo_iff p r).mpr ⟨hanchor, hin⟩
  rw [hr] at hc
  simp [resolveLoadItem, hc, h1, h2, hr, hrel]

/-- … and one whose path resolves outside the root is refused with `LoadError` after the check, -/
theorem outside_refused (cfg : Cfg) (R : Resolver) (spec : Str) (src : Option PPath) (r : PPath)
    (hr : cfg.root = some r) (c : PPath) (p : Segs)
    (hc : candidate cfg.root (stripProto cfg.proto spec) src = .ok c)
    (h1 : R c = .ok p) (h2 : R ⟨1, p⟩ = .ok p) (hout : ¬ Inside r.segs p) :
    resolveLoadItem cfg R spec src = ([.resolve c, .resolve ⟨1, p⟩, .check p false], .error .loadError) := by
  have hrel : ¬ relativeTo ⟨1, p⟩ r = true := fun h => hout ((relativeTo_iff p r).mp h).2
  rw [hr] at hc
  simp [resolveLoadItem, hc, h1, h2, hr, hrel]

/-! ## one loop iteration (`step`) and the whole work-list run (`run`, `loadFiles`) -/

/-- trace monitor used in the proofs (the theorems below are stated without it): scanning a trace left to
    right, `ok` collects the successfully checked paths, `dead` says a check has failed; an access event is
    allowed only on a checked path and never after a failed check -/
def monitor : List Ev → List Segs → Bool → Bool
  | [], _, _ => true
  | .check p true :: es, ok, dead => monitor es (p :: ok) dead
  | .check _ false :: es, ok, _ => monitor es ok true
  | .stat p :: es, ok, dead => !dead && ok.contains p && monitor es ok dead
  | .listdir p :: es, ok, dead => !dead && ok.contains p && monitor es ok dead
  | .open p :: es, ok, dead => !dead && ok.contains p && monitor es ok dead
  | .resolve _ :: es, ok, dead => monitor es ok dead
  | .report :: es, ok, dead => monitor es ok dead

theorem monitor_sound : ∀ (tr : List Ev) (ok : List Segs) (dead : Bool), monitor tr ok dead = true →
    ∀ (pre : List Ev) (e : Ev) (post : List Ev) (p : Segs), tr = pre ++ e :: post → e.accessPath = some p →
      dead = false ∧ (p ∈ ok ∨ Ev.check p true ∈ pre) ∧ ∀ q, Ev.check q false ∉ pre := by
  intro tr
  induction tr with
  | nil => intro ok dead _ pre e post p h; simp at h
  | cons a tr ih =>
    intro ok dead hm pre e post p h hacc
    cases pre with
    | nil =>
      simp at h
      obtain ⟨rfl, rfl⟩ := h
      cases a <;> simp [Ev.accessPath] at hacc <;> subst hacc <;> simp [monitor] at hm <;> simp [hm]
    | cons b pre =>
      simp at h
      obtain ⟨rfl, rfl⟩ := h
      cases a with
      | check q b =>
        cases b with
        | true =>
          simp [monitor] at hm
          obtain ⟨h1, h2, h3⟩ := ih _ _ hm pre e post p rfl hacc
          refine ⟨h1, ?_, ?_⟩
          · rcases h2 with h2 | h2
            · simp at h2
              rcases h2 with rfl | h2
              · right; simp
              · left; exact h2
            · right; simp [h2]
          · intro q'; simp; exact h3 q'
        | false =>
          simp [monitor] at hm
          obtain ⟨h1, _, _⟩ := ih _ _ hm pre e post p rfl hacc
          simp at h1
      | stat q =>
        simp [monitor] at hm
        obtain ⟨h1, h2, h3⟩ := ih _ _ hm.2 pre e post p rfl hacc
        exact ⟨h1, by rcases h2 with h2 | h2 <;> simp [h2], by intro q'; simp; exact h3 q'⟩
      | listdir q =>
        simp [monitor] at hm
        obtain ⟨h1, h2, h3⟩ := ih _ _ hm.2 pre e post p rfl hacc
        exact ⟨h1, by rcases h2 with h2 | h2 <;> simp [h2], by intro q'; simp; exact h3 q'⟩
      | «open» q =>
        simp [monitor] at hm
        obtain ⟨h1, h2, h3⟩ := ih _ _ hm.2 pre e post p rfl hacc
        exact ⟨h1, by rcases h2 with h2 | h2 <;> simp [h2], by intro q'; simp; exact h3 q'⟩
      | resolve q =>
        simp [monitor] at hm
        obtain ⟨h1, h2, h3⟩ := ih _ _ hm pre e post p rfl hacc
        exact ⟨h1, by rcases h2 with h2 | h2 <;> simp [h2], by intro q'; simp; exact h3 q'⟩
      | report =>
        simp [monitor] at hm
        obtain ⟨h1, h2, h3⟩ := ih _ _ hm pre e post p rfl hacc
        exact ⟨h1, by rcases h2 with h2 | h2 <;> simp [h2], by intro q'; simp; exact h3 q'⟩

theorem step_monitored (cfg : Cfg) (w : World) (r : PPath) (hr : cfg.root = some r)
    (it : Item) (stack : List Item) (visited ok : List Segs) :
    (∀ e, (step cfg w it stack visited).2 = .error e → monitor (step cfg w it stack visited).1 ok false = true) ∧
    (∀ x, (step cfg w it stack visited).2 = .ok x → ∀ rest, (∀ ok', monitor rest ok' false = true) →
        monitor ((step cfg w it stack visited).1 ++ rest) ok false = true) := by
  rcases resolveLoadItem_shape cfg w.resolve it.spec it.src r hr with h | ⟨c, e, h⟩ | ⟨c, q, e, h⟩ |
      ⟨c, q, h, _⟩ | ⟨c, q, h, _⟩
  · simp [step, loaderResolve, h, monitor]
  · cases e <;> simp [step, loaderResolve, h, monitor]
  · cases e <;> simp [step, loaderResolve, h, monitor]
  · simp [step, loaderResolve, h, monitor]
  · cases hk : w.kind q <;> by_cases hv : q ∈ visited <;> cases ht : cfg.trackerRaises <;>
      simp [step, loaderResolve, h, hk, hv, ht, monitor] <;> (try (intro rest hrest; exact hrest _))

theorem run_monitored (cfg : Cfg) (w : World) (r : PPath) (hr : cfg.root = some r) :
    ∀ (n : Nat) (stack : List Item) (visited ok : List Segs),
      monitor (run cfg w n stack visited).1 ok false = true := by
  intro n
  induction n with
  | zero => intro stack visited ok; cases stack <;> simp [run, monitor]
  | succ n ih =>
    intro stack visited ok
    cases stack with
    | nil => simp [run, monitor]
    | cons it stack =>
      have hs := step_monitored cfg w r hr it stack visited ok
      simp only [run]
      cases hstep : step cfg w it stack visited with
      | mk tr res =>
        rw [hstep] at hs
        cases res with
        | error e => simpa using hs.1 e rfl
        | ok x =>
          obtain ⟨s', v'⟩ := x
          simp
          exact hs.2 _ rfl _ (fun ok' => ih s' v' ok')

/-- a per-event property of every loop iteration holds for the whole run -/
theorem run_forall (cfg : Cfg) (w : World) (G : Ev → Prop)
    (hstep : ∀ it stack visited, ∀ e ∈ (step cfg w it stack visited).1, G e) :
    ∀ (n : Nat) (stack : List Item) (visited : List Segs), ∀ e ∈ (run cfg w n stack visited).1, G e := by
  intro n
  induction n with
  | zero => intro stack visited e he; cases stack <;> simp [run] at he
  | succ n ih =>
    intro stack visited e he
    cases stack with
    | nil => simp [run] at he
    | cons it stack =>
      have hs := hstep it stack visited
      simp only [run] at he
      cases hstep' : step cfg w it stack visited with
      | mk tr res =>
        rw [hstep'] at hs he
        cases res with
        | error err => exact hs e (by simpa using he)
        | ok x =>
          obtain ⟨s', v'⟩ := x
          simp at he
          rcases he with he | he
          · exact hs e he
          · exact ih s' v' e he

/-- every successful containment check of a loop iteration is about a path inside the root that is a
    fixpoint of the resolver (uses `contained` through the shape lemma) -/
theorem step_checks (cfg : Cfg) (w : World) (r : PPath) (hr : cfg.root = some r)
    (it : Item) (stack : List Item) (visited : List Segs) :
    ∀ e ∈ (step cfg w it stack visited).1, ∀ p, e = Ev.check p true →
      r.anchor = 1 ∧ Inside r.segs p ∧ w.resolve ⟨1, p⟩ = .ok p := by
  rcases resolveLoadItem_shape cfg w.resolve it.spec it.src r hr with h | ⟨c, e, h⟩ | ⟨c, q, e, h⟩ |
      ⟨c, q, h, _⟩ | ⟨c, q, h, hrel, _, _, hfix⟩
  · simp [step, loaderResolve, h]
  · cases e <;> simp [step, loaderResolve, h]
  · cases e <;> simp [step, loaderResolve, h]
  · simp [step, loaderResolve, h]
  · have hq := (relativeTo_iff q r).mp hrel
    cases hk : w.kind q <;> by_cases hv : q ∈ visited <;> cases ht : cfg.trackerRaises <;>
      simp [step, loaderResolve, h, hk, hv, ht] <;> exact ⟨hq.1, hq.2, hfix⟩

/-- the order-free envelope `runAll` (the loop that drops a failing item instead of stopping; what the harness
    compares a real run with) extends the model's run: same events up to the point where `run` stops, and the
    exception `run` stops with is one the envelope meets -/
theorem run_prefix_runAll (cfg : Cfg) (w : World) :
    ∀ (n : Nat) (stack : List Item) (visited : List Segs),
      (run cfg w n stack visited).1 <+: (runAll cfg w n stack visited).1 ∧
      ∀ e, (run cfg w n stack visited).2 = .aborted e → e ∈ (runAll cfg w n stack visited).2.1 := by
  intro n
  induction n with
  | zero => intro stack visited; cases stack <;> simp [run, runAll]
  | succ n ih =>
    intro stack visited
    cases stack with
    | nil => simp [run, runAll]
    | cons it stack =>
      simp only [run, runAll]
      cases hstep : step cfg w it stack visited with
      | mk tr res =>
        cases res with
        | error e => simp
        | ok x =>
          obtain ⟨s', v'⟩ := x
          obtain ⟨h1, h2⟩ := ih s' v'
          simp
          exact ⟨h1, h2⟩

/-! ## the property -/

/-- **no_access_before_check** — over a whole work-list run with a root folder configured: every event that
    stats, lists or opens a path `p` is preceded by a *successful* containment check of that very path, and
    no such event comes after a failed check (for every world, resolver, stack, visited set and fuel). -/
theorem no_access_before_check (cfg : Cfg) (w : World) (r : PPath) (hr : cfg.root = some r)
    (n : Nat) (stack : List Item) (visited : List Segs)
    (pre : List Ev) (e : Ev) (post : List Ev) (p : Segs)
    (h : (run cfg w n stack visited).1 = pre ++ e :: post) (hacc : isAccess e p) :
    Ev.check p true ∈ pre ∧ ∀ q, Ev.check q false ∉ pre := by
  have hm := run_monitored cfg w r hr n stack visited [] 
  obtain ⟨_, h2, h3⟩ := monitor_sound _ _ _ hm pre e post p h hacc
  exact ⟨by simpa using h2, h3⟩

/-- **trace_inside** — every stat / listdir / open event of a whole run is on a path that has the root as
    segment prefix (induction over the work-list; `contained` per item) and is a fixpoint of the resolver. -/
theorem trace_inside (cfg : Cfg) (w : World) (r : PPath) (hr : cfg.root = some r)
    (n : Nat) (stack : List Item) (visited : List Segs) (e : Ev) (p : Segs)
    (he : e ∈ (run cfg w n stack visited).1) (hacc : isAccess e p) :
    r.anchor = 1 ∧ Inside r.segs p ∧ w.resolve ⟨1, p⟩ = .ok p := by
  obtain ⟨pre, post, hsplit⟩ := List.append_of_mem he
  have hchk := (no_access_before_check cfg w r hr n stack visited pre e post p hsplit hacc).1
  have hmem : Ev.check p true ∈ (run cfg w n stack visited).1 := by
    rw [hsplit]; exact List.mem_append_left _ hchk
  exact run_forall cfg w (fun e => ∀ p, e = Ev.check p true →
      r.anchor = 1 ∧ Inside r.segs p ∧ w.resolve ⟨1, p⟩ = .ok p)
    (step_checks cfg w r hr) n stack visited _ hmem p rfl

/-- on disk: under the resolver law, every accessed path is canonical (no symlink component, no dot segment),
    so the location the operating system reaches is that path itself, inside the canonical root -/
theorem trace_inside_on_disk (fs : FS) (cfg : Cfg) (w : World) (hR : FixpointCanonical fs w.resolve)
    (r : PPath) (hr : cfg.root = some r)
    (n : Nat) (stack : List Item) (visited : List Segs) (e : Ev) (p : Segs)
    (he : e ∈ (run cfg w n stack visited).1) (hacc : isAccess e p) :
    Canon fs p ∧ Inside r.segs p ∧ CanonicalRoot fs r := by
  obtain ⟨h1, h2, h3⟩ := trace_inside cfg w r hr n stack visited e p he hacc
  exact ⟨hR p h3, h2, h1, canon_prefix (hR p h3) h2⟩

/-- the same for `load_files` itself (roots given or defaulting to `["/"]`) -/
theorem loadFiles_trace_inside (cfg : Cfg) (w : World) (r : PPath) (hr : cfg.root = some r)
    (fuel : Nat) (roots : Option (List Str)) (e : Ev) (p : Segs)
    (he : e ∈ (loadFiles cfg w fuel roots).1) (hacc : isAccess e p) :
    r.anchor = 1 ∧ Inside r.segs p ∧ w.resolve ⟨1, p⟩ = .ok p := by
  unfold loadFiles at he
  cases roots with
  | none => simp [hr] at he; exact trace_inside cfg w r hr _ _ _ e p he hacc
  | some rs => simp at he; exact trace_inside cfg w r hr _ _ _ e p he hacc

theorem loadFiles_no_access_before_check (cfg : Cfg) (w : World) (r : PPath) (hr : cfg.root = some r)
    (fuel : Nat) (roots : Option (List Str)) (pre : List Ev) (e : Ev) (post : List Ev) (p : Segs)
    (h : (loadFiles cfg w fuel roots).1 = pre ++ e :: post) (hacc : isAccess e p) :
    Ev.check p true ∈ pre ∧ ∀ q, Ev.check q false ∉ pre := by
  unfold loadFiles at h
  cases roots with
  | none => simp [hr] at h; exact no_access_before_check cfg w r hr _ _ _ pre e post p h hacc
  | some rs => simp at h; exact no_access_before_check cfg w r hr _ _ _ pre e post p h hacc

/-- **outside_reported** — a specification whose path resolves outside the root: the loop iteration consists
    of the two `resolve()` calls, the failed check and the report to the issue tracker; nothing is
    stat'ed, listed or opened; the run aborts with `LoadError` (`InputError` from a raising tracker). -/
theorem outside_reported (cfg : Cfg) (w : World) (r : PPath) (hr : cfg.root = some r)
    (it : Item) (stack : List Item) (visited : List Segs) (c : PPath) (p : Segs)
    (hc : candidate cfg.root (stripProto cfg.proto it.spec) it.src = .ok c)
    (h1 : w.resolve c = .ok p) (h2 : w.resolve ⟨1, p⟩ = .ok p) (hout : ¬ Inside r.segs p) :
    step cfg w it stack visited =
      ([.resolve c, .resolve ⟨1, p⟩, .check p false, .report],
       .error (if cfg.trackerRaises then .inputError else .loadError)) := by
  have := outside_refused cfg w.resolve it.spec it.src r hr c p hc h1 h2 hout
  simp [step, loaderResolve, this]

/-- a specification the operating system rejects as a path (`resolve()` raises `ValueError`: an embedded NUL
    character) is reported as a load error; nothing is stat'ed, listed or opened (fix 7b14439) -/
theorem invalid_path_reported (cfg : Cfg) (w : World) (it : Item) (stack : List Item) (visited : List Segs)
    (c : PPath) (hc : candidate cfg.root (stripProto cfg.proto it.spec) it.src = .ok c)
    (h1 : w.resolve c = .error .valueError) :
    step cfg w it stack visited =
      ([.resolve c, .report], .error (if cfg.trackerRaises then .inputError else .loadError)) := by
  have : resolveLoadItem cfg w.resolve it.spec it.src = ([.resolve c], .error .loadError) := by
    simp [resolveLoadItem, hc, h1]
  simp [step, loaderResolve, this]

/-- a root item that is not root-anchored denotes nothing and is reported without any file-system access -/
theorem unanchored_root_item_reported (cfg : Cfg) (w : World) (r : PPath) (hr : cfg.root = some r)
    (spec : Str) (stack : List Item) (visited : List Segs)
    (h : leadingSlash (stripProto cfg.proto spec) = false) :
    step cfg w ⟨spec, none⟩ stack visited =
      ([.report], .error (if cfg.trackerRaises then .inputError else .loadError)) := by
  have hrel : (parsePath (stripProto cfg.proto spec)).isAbsolute = false := by
    generalize stripProto cfg.proto spec = s at h
    cases s with
    | nil => rfl
    | cons ch t =>
      have hne : ch ≠ '/' := by intro heq; subst heq; simp [leadingSlash] at h
      simp [parsePath, PPath.isAbsolute]
      unfold parseAnchor
      split <;> simp_all
  have : resolveLoadItem cfg w.resolve spec none = ([], .error .loadError) := by
    simp [resolveLoadItem, candidate, h, hrel]
  simp [step, loaderResolve, this]

/-- **inside_loaded_normally** — a specification whose path resolves (to a fixpoint of the resolver) inside
    a root anchored at `/` is accepted and its location is read: a folder is listed and its entries pushed
    with the folder as source; a file is opened and its include lines pushed with the file's folder as source -/
theorem inside_loaded_normally (cfg : Cfg) (w : World) (r : PPath) (hr : cfg.root = some r)
    (hanchor : r.anchor = 1) (it : Item) (stack : List Item) (visited : List Segs) (c : PPath) (p : Segs)
    (hc : candidate cfg.root (stripProto cfg.proto it.spec) it.src = .ok c)
    (h1 : w.resolve c = .ok p) (h2 : w.resolve ⟨1, p⟩ = .ok p) (hin : Inside r.segs p)
    (hnew : p ∉ visited) :
    (w.kind p = .dir → step cfg w it stack visited =
      ([.resolve c, .resolve ⟨1, p⟩, .check p true, .stat p, .listdir p],
       .ok (pushAll (w.entries p) ⟨1, p⟩ stack, p :: visited))) ∧
    (w.kind p = .file → step cfg w it stack visited =
      ([.resolve c, .resolve ⟨1, p⟩, .check p true, .stat p, .stat p, .open p],
       .ok (pushAll (w.entries p) ⟨1, parent p⟩ stack, p :: visited))) := by
  have := inside_accepted cfg w.resolve it.spec it.src r hr hanchor c p hc h1 h2 hin
  constructor <;> intro hk <;> simp [step, loaderResolve, this, hk, hnew]

/-- for the specified resolver the two resolver hypotheses collapse to "the path resolves to `p`" -/
theorem inside_loaded_normally_spec (fs : FS) (cfg : Cfg) (w : World) (hw : w.resolve = fs.resolve)
    (r : PPath) (hr : cfg.root = some r) (hanchor : r.anchor = 1)
    (it : Item) (stack : List Item) (visited : List Segs) (c : PPath) (p : Segs)
    (hc : candidate cfg.root (stripProto cfg.proto it.spec) it.src = .ok c)
    (h1 : fs.resolve c = .ok p) (hin : Inside r.segs p) (hnew : p ∉ visited) (hk : w.kind p = .file) :
    step cfg w it stack visited =
      ([.resolve c, .resolve ⟨1, p⟩, .check p true, .stat p, .stat p, .open p],
       .ok (pushAll (w.entries p) ⟨1, parent p⟩ stack, p :: visited)) :=
  (inside_loaded_normally cfg w r hr hanchor it stack visited c p hc (hw ▸ h1)
    (hw ▸ resolve_idempotent fs c p h1) hin hnew).2 hk

/-! ## the model's candidate path is the documented target (`Spec.target`, literal constants) -/

theorem not_leading_relative (s : Str) (h : leadingSlash s = false) : (parsePath s).isAbsolute = false := by
  cases s with
  | nil => rfl
  | cons ch t =>
    have hne : ch ≠ '/' := by intro heq; subst heq; simp [leadingSlash] at h
    simp [parsePath, PPath.isAbsolute]
    unfold parseAnchor
    split <;> simp_all

theorem strip_file_prefix (spec : Str) :
    stripProto Gen.ignoreProtocol spec =
      match spec with
      | c1 :: c2 :: c3 :: c4 :: c5 :: rest =>
        if lowerAscii [c1, c2, c3, c4, c5] = ['f', 'i', 'l', 'e', ':'] then rest else spec
      | _ => spec := by
  have hp : Gen.ignoreProtocol = ['f', 'i', 'l', 'e', ':'] := by decide
  rw [hp]
  match spec with
  | [] => simp [stripProto, startsWith, lowerAscii]
  | [_] => simp [stripProto, startsWith, lowerAscii]
  | [_, _] => simp [stripProto, startsWith, lowerAscii]
  | [_, _, _] => simp [stripProto, startsWith, lowerAscii]
  | [_, _, _, _] => simp [stripProto, startsWith, lowerAscii]
  | c1 :: c2 :: c3 :: c4 :: c5 :: rest =>
    simp only [stripProto, startsWith, lowerAscii, List.map, List.isPrefixOf]
    by_cases h : (lowerChar c1 == 'f' && (lowerChar c2 == 'i' && (lowerChar c3 == 'l' &&
        (lowerChar c4 == 'e' && (lowerChar c5 == ':' && true))))) = true
    · have h' := h
      simp only [Bool.and_eq_true, beq_iff_eq, Bool.and_true] at h'
      obtain ⟨a1, a2, a3, a4, a5⟩ := h'
      simp [a1, a2, a3, a4, a5]
    · have h' := h
      simp only [Bool.and_eq_true, beq_iff_eq, Bool.and_true] at h'
      have : ¬ ([lowerChar c1, lowerChar c2, lowerChar c3, lowerChar c4, lowerChar c5] = ['f', 'i', 'l', 'e', ':']) := by
        intro heq; simp at heq; exact h' heq
      simp [this]
      intro a1 a2 a3 a4 a5
      exact absurd ⟨a1.symm, a2.symm, a3.symm, a4.symm, a5.symm⟩ h'

/-- **the path handed to `resolve()` is the documented target of the specification**; a specification that
    denotes nothing (root item without leading slash) is a `LoadError` before any file-system access -/
theorem candidate_refines_spec (r : PPath) (spec : Str) (src : Option PPath) :
    candidate (some r) (stripProto Gen.ignoreProtocol spec) src =
      match Spec.target r spec src with
      | some c => .ok c
      | none => .error .loadError := by
  unfold Spec.target
  rw [← strip_file_prefix spec]
  generalize stripProto Gen.ignoreProtocol spec = s
  cases s with
  | nil => cases src <;> simp [candidate, leadingSlash, parsePath, PPath.isAbsolute, parseAnchor]
  | cons ch t =>
    by_cases h1 : ch = '/'
    · subst h1; simp [candidate, leadingSlash]
    · by_cases h2 : ch = '\\'
      · subst h2; simp [candidate, leadingSlash]
      · have hl : leadingSlash (ch :: t) = false := by simp [leadingSlash, h1, h2]
        have hrel := not_leading_relative _ hl
        cases src with
        | none =>
          simp only [candidate, hl, hrel]
          split <;> simp_all
        | some f =>
          simp only [candidate, hl]
          split <;> simp_all

/-! ## pathlib facts the loader depends on (each also compared with CPython by the harness) -/

example : parsePath "//x".toList = ⟨2, ["x".toList]⟩ := by decide
example : parsePath "///x//y/./".toList = ⟨1, ["x".toList, "y".toList]⟩ := by decide
example : parsePath "\\x".toList = ⟨0, ["\\x".toList]⟩ := by decide           -- a backslash is no separator
example : parsePath "a/../b".toList = ⟨0, ["a".toList, "..".toList, "b".toList]⟩ := by decide
example : parsePath "".toList = ⟨0, []⟩ := by decide
example : join ⟨1, ["r".toList]⟩ (parsePath "/etc".toList) = ⟨1, ["etc".toList]⟩ := by decide   -- absolute right operand wins
example : relativeTo ⟨1, ["r2".toList, "e".toList]⟩ ⟨1, ["r".toList]⟩ = false := by decide      -- `/r2` is not inside `/r`
example : relativeTo ⟨1, ["r".toList]⟩ ⟨2, ["r".toList]⟩ = false := by decide                   -- `//r` is another anchor

/-! ## non-vacuity and the negation witness

  `/r` is the root folder; `/r/l -> ../o` points out of it, `/r/i -> s` points inward, `/r/k -> k` loops;
  `/o` is outside. -/

def exFS : FS :=
  ⟨[(["r".toList, "l".toList], ⟨0, ["..".toList, "o".toList]⟩),
    (["r".toList, "i".toList], ⟨0, ["s".toList]⟩),
    (["r".toList, "k".toList], ⟨0, ["k".toList]⟩)], ["r".toList], 40⟩

def exRoot : PPath := ⟨1, ["r".toList]⟩
def exCfg : Cfg := ⟨some exRoot, "file:".toList, false⟩

/-- both resolver models raise `ValueError` for a NUL character in a segment that is reached -/
example : exFS.py312Resolve ⟨1, ["r".toList, ['a', Char.ofNat 0, 'b']]⟩ = .error .valueError := by decide
example : exFS.resolve ⟨1, ["r".toList, ['a', Char.ofNat 0, 'b']]⟩ = .error .valueError := by decide
example : (resolveLoadItem exCfg exFS.py312Resolve ['/', 'a', Char.ofNat 0] none) =
    ([.resolve ⟨1, ["r".toList, ['a', Char.ofNat 0]]⟩], .error .loadError) := by decide

/-- accepted, inside (hypotheses of `contained`, `inside_accepted`, `inside_loaded_normally`):
    `FILE:\i/../s//a.csv` placed in `/r/s` is `/r/s/a.csv` -/
example : resolveLoadItem exCfg exFS.resolve "FILE:\\i/../s//a.csv".toList none =
    ([.resolve ⟨1, ["r".toList, "i".toList, "..".toList, "s".toList, "a.csv".toList]⟩,
      .resolve ⟨1, ["r".toList, "s".toList, "a.csv".toList]⟩,
      .check ["r".toList, "s".toList, "a.csv".toList] true], .ok ["r".toList, "s".toList, "a.csv".toList]) := by
  decide
example : resolveLoadItem exCfg exFS.py312Resolve "../i/a.csv".toList (some ⟨1, ["r".toList, "s".toList]⟩) =
    ([.resolve ⟨1, ["r".toList, "s".toList, "..".toList, "i".toList, "a.csv".toList]⟩,
      .resolve ⟨1, ["r".toList, "s".toList, "a.csv".toList]⟩,
      .check ["r".toList, "s".toList, "a.csv".toList] true], .ok ["r".toList, "s".toList, "a.csv".toList]) := by
  decide
/-- refused, outside (hypotheses of `outside_refused`, `outside_reported`): through the outward symlink,
    through `..`, through a doubled slash that makes the remainder absolute -/
example : (resolveLoadItem exCfg exFS.resolve "/l/secret.csv".toList none).2 = .error .loadError := by decide
example : (resolveLoadItem exCfg exFS.resolve "file:/../o/secret.csv".toList none).2 = .error .loadError := by
  decide
example : (resolveLoadItem exCfg exFS.resolve "//o/secret.csv".toList none).2 = .error .loadError := by decide
example : (resolveLoadItem exCfg exFS.resolve "a.csv".toList none).2 = .error .loadError := by decide
/-- `exRoot` is a canonical root; `/r/i` (a symlink) and `//r` are not (hypothesis of `noncanonical_root_refuses_all`) -/
example : exFS.resolve exRoot = .ok exRoot.segs := by decide
example : exFS.resolve ⟨1, ["r".toList, "i".toList]⟩ ≠ .ok ["r".toList, "i".toList] := by decide
example : (resolveLoadItem ⟨some ⟨1, ["r".toList, "i".toList]⟩, "file:".toList, false⟩ exFS.resolve
    "/a.csv".toList none).2 = .error .loadError := by decide
/-- a plain symlink loop is a `RuntimeError` for both resolvers (nothing is opened) -/
example : (resolveLoadItem exCfg exFS.resolve "/k".toList none) =
    ([.resolve ⟨1, ["r".toList, "k".toList]⟩], .error .runtimeError) := by decide
example : (resolveLoadItem exCfg exFS.py312Resolve "/k/x".toList none).2 = .error .runtimeError := by decide

/-- NEGATION WITNESS for the code BEFORE fix dbe9598 (kept as a regression example; the harness replays this
    input on the real code every run).  CPython 3.12's `resolve()` gives up at the loop `/r/k`, `k/..` is
    collapsed lexically and `l` stays unresolved: the pre-fix resolver accepts `/r/l/secret.csv`, a path
    that passes the prefix test but that the operating system resolves to `/o/secret.csv`, outside the root. -/
theorem prefix_escape_witness :
    resolveLoadItemPreFix exCfg exFS.py312Resolve "/k/../l/secret.csv".toList none
      = .ok ["r".toList, "l".toList, "secret.csv".toList]
    ∧ exFS.resolve ⟨1, ["r".toList, "l".toList, "secret.csv".toList]⟩ = .ok ["o".toList, "secret.csv".toList]
    ∧ ¬ Inside exRoot.segs ["o".toList, "secret.csv".toList] := by
  refine ⟨by decide, by decide, ?_⟩
  intro h
  have := List.isPrefixOf_iff_prefix.mpr h
  revert this
  decide

/-- CPython 3.12's resolver does not return canonical paths … -/
theorem py312_output_not_canonical :
    exFS.py312Resolve ⟨1, ["r".toList, "k".toList, "..".toList, "l".toList, "x".toList]⟩
      = .ok ["r".toList, "l".toList, "x".toList]
    ∧ readlink exFS ["r".toList, "l".toList] ≠ none := by
  constructor <;> decide

/-- … and the fixed code refuses the witness: the second `resolve()` is not a fixpoint -/
theorem fixed_code_refuses_witness :
    resolveLoadItem exCfg exFS.py312Resolve "/k/../l/secret.csv".toList none =
      ([.resolve ⟨1, ["r".toList, "k".toList, "..".toList, "l".toList, "secret.csv".toList]⟩,
        .resolve ⟨1, ["r".toList, "l".toList, "secret.csv".toList]⟩], .error .loadError) := by
  decide

/-! ## CPython 3.12's resolver satisfies the resolver law

  Three facts about `joinReal` (the model of `posixpath._joinrealpath`), each by induction on its fuel:
    * `joinReal_ok_canon`  — when it does not give up, the result is canonical (cache entries included);
    * `joinReal_ok_sim`    — when it does not give up, the plain walk from the same state reaches the same
                              resolved prefix (or runs out of fuel), cache hits included;
    * `joinReal_loop_div`  — when it gives up at a symlink loop, the plain walk over the same input returns
                              `none` for every fuel (it comes back to the same link with less fuel, forever).
  A fixpoint of `py312Resolve` reached through the give-up branch would be a path on which `stat()` (= the plain
  walk) succeeds although `joinReal` gave up on that very path: impossible by the third fact. -/

/-- every finished entry of the realpath cache is canonical -/
def SeenCanon (fs : FS) (seen : Seen) : Prop := ∀ k v, (k, some v) ∈ seen → Canon fs v

theorem seenLookup_mem {seen : Seen} {k : Segs} {v : Option Segs} (h : seenLookup seen k = some v) :
    (k, v) ∈ seen := by
  unfold seenLookup at h
  cases hf : seen.find? (fun kv => kv.1 == k) with
  | none => simp [hf] at h
  | some kv =>
    simp [hf] at h
    have hm := List.mem_of_find?_eq_some hf
    have hk := List.find?_some hf
    simp at hk
    obtain ⟨a, b⟩ := kv
    simp at hk h
    subst hk; subst h
    exact hm

theorem seenLookup_cons (k0 : Segs) (v0 : Option Segs) (seen : Seen) (k : Segs) :
    seenLookup ((k0, v0) :: seen) k = if k0 = k then some v0 else seenLookup seen k := by
  unfold seenLookup
  by_cases h : k0 = k
  · simp [List.find?, h]
  · have hb : (k0 == k) = false := by simpa using h
    simp [List.find?, hb, h]

/-- when CPython's `_joinrealpath` does not give up, it returns a canonical path -/
theorem joinReal_ok_canon (fs : FS) : ∀ (n : Nat) (acc todo : Segs) (seen : Seen) (q : Segs) (seen' : Seen),
    Canon fs acc → SeenCanon fs seen → joinReal fs n acc todo seen = (q, .ok, seen') →
    Canon fs q ∧ SeenCanon fs seen' := by
  intro n
  induction n with
  | zero =>
    intro acc todo seen q seen' hc hs h
    cases todo with
    | nil => simp [joinReal] at h; obtain ⟨rfl, rfl⟩ := h; exact ⟨hc, hs⟩
    | cons s rest => simp [joinReal] at h
  | succ n ih =>
    intro acc todo seen q seen' hc hs h
    cases todo with
    | nil => simp [joinReal] at h; obtain ⟨rfl, rfl⟩ := h; exact ⟨hc, hs⟩
    | cons s rest =>
      simp only [joinReal] at h
      by_cases h1 : isDot s = true
      · simp [h1] at h; exact ih _ _ _ _ _ hc hs h
      · by_cases h2 : isDotDot s = true
        · simp [h1, h2] at h
          exact ih _ _ _ _ _ (canon_prefix hc (List.dropLast_prefix acc)) hs h
        · by_cases h3 : hasNul s = true
          · simp [h1, h2, h3] at h
          · simp only [h1, h2, h3] at h
            cases hl : readlink fs (acc ++ [s]) with
            | none =>
              simp [hl] at h
              exact ih _ _ _ _ _ (canon_snoc hc (by simpa using h1) (by simpa using h2) hl) hs h
            | some t =>
              simp [hl] at h
              cases hk : seenLookup seen (acc ++ [s]) with
              | none =>
                simp [hk] at h
                have hs1 : SeenCanon fs ((acc ++ [s], none) :: seen) := by
                  intro k v hm
                  simp at hm
                  exact hs k v hm
                cases hj : joinReal fs n (if t.isAbsolute = true then [] else acc) t.segs
                    ((acc ++ [s], none) :: seen) with
                | mk p rest2 =>
                  obtain ⟨b, seen2⟩ := rest2
                  cases b with
                  | ok =>
                    simp [hj] at h
                    have hstart : Canon fs (if t.isAbsolute = true then [] else acc) := by
                      by_cases ha : t.isAbsolute = true <;> simp [ha, hc, canon_nil]
                    obtain ⟨hp, hs2⟩ := ih _ _ _ _ _ hstart hs1 hj
                    have hs3 : SeenCanon fs ((acc ++ [s], some p) :: seen2) := by
                      intro k v hm
                      simp at hm
                      rcases hm with ⟨_, rfl⟩ | hm
                      · exact hp
                      · exact hs2 k v hm
                    exact ih _ _ _ _ _ hp hs3 h
                  | loop => simp [hj] at h
                  | fuel => simp [hj] at h
                  | nul => simp [hj] at h
              | some o =>
                cases o with
                | none => simp [hk] at h
                | some cached =>
                  simp [hk] at h
                  exact ih _ _ _ _ _ (hs _ _ (seenLookup_mem hk)) hs h

theorem normSegs_canon_aux (fs : FS) : ∀ (q acc : Segs), (∀ s ∈ q, plain s) →
    q.foldl (fun acc s => if isDot s then acc else if isDotDot s then acc.dropLast else acc ++ [s]) acc = acc ++ q := by
  intro q
  induction q with
  | nil => intro acc _; simp
  | cons s rest ih =>
    intro acc h
    have hs : plain s := h s (by simp)
    simp [List.foldl, hs.1, hs.2]
    rw [ih _ (fun x hx => h x (by simp [hx]))]
    simp

/-- the plain walk from `(a, t ++ more)` runs out of fuel or arrives at `(b, more)` with no more fuel than before -/
def Sim (fs : FS) (a t b : Segs) : Prop :=
  ∀ m more, walk fs m a (t ++ more) = none ∨ ∃ m', m' ≤ m ∧ walk fs m a (t ++ more) = walk fs m' b more

/-- … or arrives at the link `aL ++ [sL]` with no more fuel than before -/
def Reach (fs : FS) (a t aL : Segs) (sL : Str) : Prop :=
  ∀ m more, walk fs m a (t ++ more) = none ∨
    ∃ m' more', m' ≤ m ∧ walk fs m a (t ++ more) = walk fs m' aL (sL :: more')

/-- the plain walk from `(a, t ++ more)` never ends -/
def Div (fs : FS) (a t : Segs) : Prop := ∀ m more, walk fs m a (t ++ more) = none

/-- every finished cache entry is a shortcut the plain walk also takes -/
def SeenSound (fs : FS) (seen : Seen) : Prop :=
  ∀ a s v, (a ++ [s], some v) ∈ seen → Sim fs a [s] v

theorem sim_nil (fs : FS) (a : Segs) : Sim fs a [] a := by
  intro m more; right; exact ⟨m, Nat.le_refl _, by simp⟩

/-- one step of the plain walk in front of a simulation -/
theorem sim_step {fs : FS} {a a' : Segs} {s : Str} {rest b : Segs}
    (hstep : ∀ k more, walk fs (k + 1) a (s :: (rest ++ more)) = walk fs k a' (rest ++ more))
    (h : Sim fs a' rest b) : Sim fs a (s :: rest) b := by
  intro m more
  cases m with
  | zero => left; simp [walk]
  | succ k =>
    have := h k more
    simp only [List.cons_append]
    rw [hstep k more]
    rcases this with h0 | ⟨m', hm, h1⟩
    · left; exact h0
    · right; exact ⟨m', by omega, h1⟩

theorem reach_step {fs : FS} {a a' : Segs} {s : Str} {rest aL : Segs} {sL : Str}
    (hstep : ∀ k more, walk fs (k + 1) a (s :: (rest ++ more)) = walk fs k a' (rest ++ more))
    (h : Reach fs a' rest aL sL) : Reach fs a (s :: rest) aL sL := by
  intro m more
  cases m with
  | zero => left; simp [walk]
  | succ k =>
    have := h k more
    simp only [List.cons_append]
    rw [hstep k more]
    rcases this with h0 | ⟨m', more', hm, h1⟩
    · left; exact h0
    · right; exact ⟨m', more', by omega, h1⟩

theorem div_step {fs : FS} {a a' : Segs} {s : Str} {rest : Segs}
    (hstep : ∀ k more, walk fs (k + 1) a (s :: (rest ++ more)) = walk fs k a' (rest ++ more))
    (h : Div fs a' rest) : Div fs a (s :: rest) := by
  intro m more
  cases m with
  | zero => simp [walk]
  | succ k => simp only [List.cons_append]; rw [hstep k more]; exact h k more

/-- a simulation of the first part in front of a simulation / reach / divergence of the rest -/
theorem sim_trans {fs : FS} {a b c : Segs} {t1 t2 : Segs} (h1 : Sim fs a t1 b) (h2 : Sim fs b t2 c) :
    Sim fs a (t1 ++ t2) c := by
  intro m more
  rcases h1 m (t2 ++ more) with h0 | ⟨m', hm, he⟩
  · left; simpa using h0
  · rcases h2 m' more with h0 | ⟨m'', hm', he'⟩
    · left; simp only [List.append_assoc]; rw [he]; exact h0
    · right; exact ⟨m'', by omega, by simp only [List.append_assoc]; rw [he, he']⟩

theorem sim_reach {fs : FS} {a b : Segs} {t1 t2 aL : Segs} {sL : Str} (h1 : Sim fs a t1 b)
    (h2 : Reach fs b t2 aL sL) : Reach fs a (t1 ++ t2) aL sL := by
  intro m more
  rcases h1 m (t2 ++ more) with h0 | ⟨m', hm, he⟩
  · left; simpa using h0
  · rcases h2 m' more with h0 | ⟨m'', more', hm', he'⟩
    · left; simp only [List.append_assoc]; rw [he]; exact h0
    · right; exact ⟨m'', more', by omega, by simp only [List.append_assoc]; rw [he, he']⟩

theorem sim_div {fs : FS} {a b : Segs} {t1 t2 : Segs} (h1 : Sim fs a t1 b) (h2 : Div fs b t2) :
    Div fs a (t1 ++ t2) := by
  intro m more
  rcases h1 m (t2 ++ more) with h0 | ⟨m', hm, he⟩
  · simpa using h0
  · simp only [List.append_assoc]; rw [he]; exact h2 m' more

/-- the step of the plain walk at a symlink -/
theorem walk_link (fs : FS) (a : Segs) (s : Str) (t : PPath) (h1 : isDot s = false) (h2 : isDotDot s = false)
    (hl : readlink fs (a ++ [s]) = some t) (k : Nat) (todo : Segs) :
    walk fs (k + 1) a (s :: todo) = walk fs k (if t.isAbsolute = true then [] else a) (t.segs ++ todo) := by
  simp [walk, h1, h2, hl]

/-- a link whose target leads the plain walk back to the link itself never resolves -/
theorem link_diverges (fs : FS) (a : Segs) (s : Str) (t : PPath) (h1 : isDot s = false) (h2 : isDotDot s = false)
    (hl : readlink fs (a ++ [s]) = some t)
    (hr : Reach fs (if t.isAbsolute = true then [] else a) t.segs a s) :
    ∀ m more, walk fs m a (s :: more) = none := by
  intro m
  induction m using Nat.strongRecOn with
  | ind m ih =>
    intro more
    cases m with
    | zero => simp [walk]
    | succ k =>
      rw [walk_link fs a s t h1 h2 hl]
      rcases hr k more with h0 | ⟨m', more', hm, he⟩
      · exact h0
      · rw [he]; exact ih m' (by omega) more'

/-- when `_joinrealpath` does not give up, the plain walk follows it; the cache stays sound; no link is left
    "in progress" that was not already so before -/
theorem joinReal_ok_sim (fs : FS) : ∀ (n : Nat) (acc todo : Segs) (seen : Seen) (q : Segs) (seen' : Seen),
    SeenSound fs seen → joinReal fs n acc todo seen = (q, .ok, seen') →
    Sim fs acc todo q ∧ SeenSound fs seen' ∧
      (∀ k, seenLookup seen' k = some none → seenLookup seen k = some none) := by
  intro n
  induction n with
  | zero =>
    intro acc todo seen q seen' hs h
    cases todo with
    | nil => simp [joinReal] at h; obtain ⟨rfl, rfl⟩ := h; exact ⟨sim_nil fs _, hs, fun _ h => h⟩
    | cons s rest => simp [joinReal] at h
  | succ n ih =>
    intro acc todo seen q seen' hs h
    cases todo with
    | nil => simp [joinReal] at h; obtain ⟨rfl, rfl⟩ := h; exact ⟨sim_nil fs _, hs, fun _ h => h⟩
    | cons s rest =>
      simp only [joinReal] at h
      by_cases h1 : isDot s = true
      · simp [h1] at h
        obtain ⟨a, b, c⟩ := ih _ _ _ _ _ hs h
        exact ⟨sim_step (by intro k more; simp [walk, h1]) a, b, c⟩
      · by_cases h2 : isDotDot s = true
        · simp [h1, h2] at h
          obtain ⟨a, b, c⟩ := ih _ _ _ _ _ hs h
          exact ⟨sim_step (by intro k more; simp [walk, h1, h2]) a, b, c⟩
        · by_cases h3 : hasNul s = true
          · simp [h1, h2, h3] at h
          · simp only [h1, h2, h3] at h
            have h1' : isDot s = false := by simpa using h1
            have h2' : isDotDot s = false := by simpa using h2
            cases hl : readlink fs (acc ++ [s]) with
            | none =>
              simp [hl] at h
              obtain ⟨a, b, c⟩ := ih _ _ _ _ _ hs h
              exact ⟨sim_step (by intro k more; simp [walk, h1, h2, hl]) a, b, c⟩
            | some t =>
              simp [hl] at h
              cases hk : seenLookup seen (acc ++ [s]) with
              | none =>
                simp [hk] at h
                have hs1 : SeenSound fs ((acc ++ [s], none) :: seen) := by
                  intro a' s' v hm
                  simp at hm
                  exact hs a' s' v hm
                cases hj : joinReal fs n (if t.isAbsolute = true then [] else acc) t.segs
                    ((acc ++ [s], none) :: seen) with
                | mk p rest2 =>
                  obtain ⟨b, seen2⟩ := rest2
                  cases b with
                  | ok =>
                    simp [hj] at h
                    obtain ⟨hsim1, hs2, hp2⟩ := ih _ _ _ _ _ hs1 hj
                    -- the finished entry for this link is a sound shortcut
                    have hentry : Sim fs acc [s] p := by
                      intro m more
                      cases m with
                      | zero => left; simp [walk]
                      | succ k =>
                        have := hsim1 k more
                        simp only [List.cons_append, List.nil_append]
                        rw [walk_link fs acc s t h1' h2' hl]
                        rcases this with h0 | ⟨m', hm, he⟩
                        · left; exact h0
                        · right; exact ⟨m', by omega, he⟩
                    have hs3 : SeenSound fs ((acc ++ [s], some p) :: seen2) := by
                      intro a' s' v hm
                      simp at hm
                      rcases hm with ⟨hkey, rfl⟩ | hm
                      · obtain ⟨rfl, rfl⟩ := hkey
                        exact hentry
                      · exact hs2 a' s' v hm
                    obtain ⟨hsim2, hs4, hp4⟩ := ih _ _ _ _ _ hs3 h
                    refine ⟨?_, hs4, ?_⟩
                    · have := sim_trans hentry hsim2
                      simpa using this
                    · intro k hk'
                      have h3' := hp4 k hk'
                      rw [seenLookup_cons] at h3'
                      by_cases hkk : acc ++ [s] = k
                      · simp [hkk] at h3'
                      · simp [hkk] at h3'
                        have h2'' := hp2 k h3'
                        rw [seenLookup_cons] at h2''
                        simpa [hkk] using h2''
                  | loop => simp [hj] at h
                  | fuel => simp [hj] at h
                  | nul => simp [hj] at h
              | some o =>
                cases o with
                | none => simp [hk] at h
                | some cached =>
                  simp [hk] at h
                  obtain ⟨a, b, c⟩ := ih _ _ _ _ _ hs h
                  have hcache : Sim fs acc [s] cached := hs acc s cached (seenLookup_mem hk)
                  exact ⟨by simpa using sim_trans hcache a, b, c⟩

/-- when `_joinrealpath` gives up at a symlink loop, the plain walk over the same input never ends, or it arrives
    (with no more fuel) at a link that was already being resolved when this call started -/
theorem joinReal_loop_div (fs : FS) : ∀ (n : Nat) (acc todo : Segs) (seen : Seen) (q : Segs) (seen' : Seen),
    SeenSound fs seen → joinReal fs n acc todo seen = (q, .loop, seen') →
    Div fs acc todo ∨ ∃ aL sL, seenLookup seen (aL ++ [sL]) = some none ∧ Reach fs acc todo aL sL := by
  intro n
  induction n with
  | zero =>
    intro acc todo seen q seen' hs h
    cases todo <;> simp [joinReal] at h
  | succ n ih =>
    intro acc todo seen q seen' hs h
    cases todo with
    | nil => simp [joinReal] at h
    | cons s rest =>
      simp only [joinReal] at h
      by_cases h1 : isDot s = true
      · simp [h1] at h
        have hstep : ∀ k more, walk fs (k + 1) acc (s :: (rest ++ more)) = walk fs k acc (rest ++ more) := by
          intro k more; simp [walk, h1]
        rcases ih _ _ _ _ _ hs h with hd | ⟨aL, sL, hin, hre⟩
        · left; exact div_step hstep hd
        · right; exact ⟨aL, sL, hin, reach_step hstep hre⟩
      · by_cases h2 : isDotDot s = true
        · simp [h1, h2] at h
          have hstep : ∀ k more, walk fs (k + 1) acc (s :: (rest ++ more)) = walk fs k acc.dropLast (rest ++ more) := by
            intro k more; simp [walk, h1, h2]
          rcases ih _ _ _ _ _ hs h with hd | ⟨aL, sL, hin, hre⟩
          · left; exact div_step hstep hd
          · right; exact ⟨aL, sL, hin, reach_step hstep hre⟩
        · by_cases h3 : hasNul s = true
          · simp [h1, h2, h3] at h
          · simp only [h1, h2, h3] at h
            have h1' : isDot s = false := by simpa using h1
            have h2' : isDotDot s = false := by simpa using h2
            cases hl : readlink fs (acc ++ [s]) with
            | none =>
              simp [hl] at h
              have hstep : ∀ k more, walk fs (k + 1) acc (s :: (rest ++ more)) = walk fs k (acc ++ [s]) (rest ++ more) := by
                intro k more; simp [walk, h1, h2, hl]
              rcases ih _ _ _ _ _ hs h with hd | ⟨aL, sL, hin, hre⟩
              · left; exact div_step hstep hd
              · right; exact ⟨aL, sL, hin, reach_step hstep hre⟩
            | some t =>
              simp [hl] at h
              cases hk : seenLookup seen (acc ++ [s]) with
              | none =>
                simp [hk] at h
                have hs1 : SeenSound fs ((acc ++ [s], none) :: seen) := by
                  intro a' s' v hm
                  simp at hm
                  exact hs a' s' v hm
                cases hj : joinReal fs n (if t.isAbsolute = true then [] else acc) t.segs
                    ((acc ++ [s], none) :: seen) with
                | mk p rest2 =>
                  obtain ⟨b, seen2⟩ := rest2
                  cases b with
                  | ok =>
                    simp [hj] at h
                    obtain ⟨hsim1, hs2, hp2⟩ := joinReal_ok_sim fs _ _ _ _ _ _ hs1 hj
                    have hentry : Sim fs acc [s] p := by
                      intro m more
                      cases m with
                      | zero => left; simp [walk]
                      | succ k =>
                        have := hsim1 k more
                        simp only [List.cons_append, List.nil_append]
                        rw [walk_link fs acc s t h1' h2' hl]
                        rcases this with h0 | ⟨m', hm, he⟩
                        · left; exact h0
                        · right; exact ⟨m', by omega, he⟩
                    have hs3 : SeenSound fs ((acc ++ [s], some p) :: seen2) := by
                      intro a' s' v hm
                      simp at hm
                      rcases hm with ⟨hkey, rfl⟩ | hm
                      · obtain ⟨rfl, rfl⟩ := hkey
                        exact hentry
                      · exact hs2 a' s' v hm
                    rcases ih _ _ _ _ _ hs3 h with hd | ⟨aL, sL, hin, hre⟩
                    · left; simpa using sim_div hentry hd
                    · right
                      refine ⟨aL, sL, ?_, by simpa using sim_reach hentry hre⟩
                      rw [seenLookup_cons] at hin
                      by_cases hkk : acc ++ [s] = aL ++ [sL]
                      · simp [hkk] at hin
                      · simp [hkk] at hin
                        have h2'' := hp2 _ hin
                        rw [seenLookup_cons] at h2''
                        simpa [hkk] using h2''
                  | loop =>
                    simp [hj] at h
                    rcases ih _ _ _ _ _ hs1 hj with hd | ⟨aL, sL, hin, hre⟩
                    · -- the target itself never resolves
                      left
                      intro m more
                      cases m with
                      | zero => simp [walk]
                      | succ k =>
                        simp only [List.cons_append]
                        rw [walk_link fs acc s t h1' h2' hl]
                        have := hd k (rest ++ more)
                        simpa using this
                    · rw [seenLookup_cons] at hin
                      by_cases hkk : acc ++ [s] = aL ++ [sL]
                      · -- the loop closes at this very link
                        obtain ⟨rfl, hss⟩ := List.append_inj' hkk rfl
                        simp at hss; subst hss
                        left
                        intro m more
                        simp only [List.cons_append]
                        exact link_diverges fs acc s t h1' h2' hl hre m (rest ++ more)
                      · simp [hkk] at hin
                        right
                        refine ⟨aL, sL, hin, ?_⟩
                        intro m more
                        cases m with
                        | zero => left; simp [walk]
                        | succ k =>
                          simp only [List.cons_append]
                          rw [walk_link fs acc s t h1' h2' hl]
                          rcases hre k (rest ++ more) with h0 | ⟨m', more', hm, he⟩
                          · left; simpa using h0
                          · right; exact ⟨m', more', by omega, by simpa using he⟩
                  | fuel => simp [hj] at h
                  | nul => simp [hj] at h
              | some o =>
                cases o with
                | none =>
                  simp [hk] at h
                  right
                  refine ⟨acc, s, hk, ?_⟩
                  intro m more
                  right
                  exact ⟨m, rest ++ more, Nat.le_refl _, by simp⟩
                | some cached =>
                  simp [hk] at h
                  have hcache : Sim fs acc [s] cached := hs acc s cached (seenLookup_mem hk)
                  rcases ih _ _ _ _ _ hs h with hd | ⟨aL, sL, hin, hre⟩
                  · left; simpa using sim_div hcache hd
                  · right; exact ⟨aL, sL, hin, by simpa using sim_reach hcache hre⟩

/-- **CPython 3.12's `resolve()` satisfies the resolver law**: a path it maps to itself is canonical.
    (On the branch that meets no symlink loop the result is canonical outright; a fixpoint through the give-up
    branch would be a path on which the final `stat()` succeeds although the resolution of that very path gave
    up at a loop — `joinReal_loop_div` excludes it.) -/
theorem py312_lawful (fs : FS) : FixpointCanonical fs fs.py312Resolve := by
  intro p h
  unfold FS.py312Resolve at h
  simp only [PPath.isAbsolute] at h
  have h11 : ((1 : Nat) != 0) = true := by decide
  simp only [h11, if_true] at h
  cases hj : joinReal fs fs.fuel [] p [] with
  | mk q rest2 =>
    obtain ⟨b, seen2⟩ := rest2
    cases b with
    | ok =>
      simp [hj] at h
      have hq := (joinReal_ok_canon fs _ _ _ _ _ _ (canon_nil fs) (by intro k v hm; simp at hm) hj).1
      have hn : normSegs q = q := by
        have := normSegs_canon_aux fs q [] hq.1
        simpa [normSegs] using this
      rw [hn] at h; subst h; exact hq
    | loop =>
      exfalso
      simp only [hj] at h
      have hdiv := joinReal_loop_div fs _ _ _ _ _ _ (by intro a s v hm; simp at hm) hj
      rcases hdiv with hd | ⟨aL, sL, hin, _⟩
      · by_cases hnul : (normSegs q).any hasNul = true
        · simp [hnul] at h
        · simp only [hnul] at h
          cases hw : walk fs fs.fuel [] (normSegs q) with
          | none => simp [hw] at h
          | some z =>
            simp [hw] at h
            rw [h] at hw
            have := hd fs.fuel []
            simp [hw] at this
      · simp [seenLookup] at hin
    | fuel => simp [hj] at h
    | nul => simp [hj] at h

/-- with it, the on-disk reading of the loader theorems holds for the resolver the running interpreter uses -/
theorem trace_inside_on_disk_py312 (fs : FS) (cfg : Cfg) (w : World) (hw : w.resolve = fs.py312Resolve)
    (r : PPath) (hr : cfg.root = some r)
    (n : Nat) (stack : List Item) (visited : List Segs) (e : Ev) (p : Segs)
    (he : e ∈ (run cfg w n stack visited).1) (hacc : isAccess e p) :
    Canon fs p ∧ Inside r.segs p ∧ CanonicalRoot fs r :=
  trace_inside_on_disk fs cfg w (hw ▸ py312_lawful fs) r hr n stack visited e p he hacc

end Pdt.C17
