/-
  Props/C09.lean — "Excel write-then-read preserves tables across sheets, styles and spacing".

  Model: Model/Grid.lean (writer layout, the openpyxl law `store`, style index arithmetic, sheet loop of
  read_excel) on top of Represent / Segment / Reader / Blocks.  Helper lemmas: Lemmas/Grid.lean.

    excel_roundtrip           for every sheet map of Excel-well-formed tables, every sep_lines ≥ 1, styles on or
                              off, every sheet-name predicate, every external float()/to_datetime behaviour:
                              write_excel succeeds, read_excel ends normally, and the tables it yields are the
                              written tables of the accepted sheets — sheet order, then table order, each with its
                              sheet name, with the same name / destinations / orientation / column names / units /
                              values.
    sep_lines_irrelevant      the tables read do not depend on the number of separator lines (≥ 1)
    style_touches_no_value    for *every* table shape (no well-formedness needed; zero rows, zero columns,
                              transposed, any mix in a sheet) styling raises nothing and every styled cell lies in
                              the rows of its own table and inside the sheet.  That values are untouched rests on
                              the pin `style_writes_pinned` (the loop assigns font / fill / alignment only) and on
                              the harness comparing the saved value grids with and without styles; in the model
                              the equality is by construction
    pattern_selects           a sheet-name pattern reads exactly the matching sheets, in order
    written_cells_representable  everything a well-formed table appends lies in the domain of the openpyxl law

  Not in Lean: "writing to a path versus a binary stream" — the model has no notion of a target; the harness writes
  every case to both and compares the saved value grids (harness-only evidence).
  Partial by design (DESIGN §4): `Grid.store` is the stated external law of openpyxl, sampled against the library
  by the harness on every run; how openpyxl applies a style object to a cell is outside the model.
-/
import PdtModel.Lemmas.Grid
set_option linter.unusedSimpArgs false
namespace Pdt.C09
open Pdt Pdt.Reader Pdt.Represent Pdt.Blocks Pdt.Grid

/-! ## 0. what is pinned from the source, and what is not

  Pinned (theorems over the regenerated `Gen.*`, a change breaks the build): only what neither the Lean side nor the
  saved files can show — which cell attributes the style loop assigns, and that nothing in the module assigns
  `.value` — plus the two constants of `_represent_row_elements`.
  Not pinned (informational fingerprints in the translator output / evidence only): `Gen.excelAppended`,
  `Gen.excelInts`, `Gen.excelStyleStmts`, `Gen.excelHeaders`, `Gen.excelDest`, `Gen.excelWriteLoops`,
  `Gen.excelReadIters`, `Gen.excelReadYields`, `Gen.excelPatternCalls`.  What they describe is decided on every run by
  the correspondence (saved value grid cell by cell against `Grid.store (Grid.layoutSheet …)`, every block of
  `read_excel` against `Grid.readExcel`) and by the round-trip oracle (header cells, sheet order, origin sheets,
  `match` versus `search` patterns), so equivalent rewrites (`"**" + name`, `re.match(pattern, name)`, `ws.values`,
  helper generators, swapped if/else arms) raise no alarm. -/

/-- no attribute the Excel writer module assigns on an object (the style loop's `cell.font = …`, in whichever function
    it lives; bookkeeping on the worksheet) is a cell's value — `value`, `_value`, `internal_value`, `data_type` — and
    nothing in the module assigns `.value` / `._value` of anything -/
theorem style_writes_pinned :
    ["value", "_value", "internal_value", "data_type"].all (fun a => !Gen.excelStyleWrites.contains a) = true ∧
    Gen.excelValueWrites = [] := by decide

theorem represent_consts_pinned : Gen.sealant = "-".toList ∧ Gen.naRepDefault = "-".toList := by decide

/-! ## 1. specification -/

namespace Spec

/-- the table as the reader delivers it: same name, destinations (as written), orientation, column names, units,
    and per column the values typed by the unit (`raw` placeholders when the table has no rows) -/
def readBack (t : TableVal) : Precursor := expected t

theorem readBack_fields (t : TableVal) :
    (readBack t).name = t.name ∧ (readBack t).transposed = t.transposed ∧
    (readBack t).destinations = t.destinations ∧ (readBack t).names = t.columns.map (fun c => c.name) ∧
    (readBack t).units = t.columns.map (fun c => c.unit) ∧
    (readBack t).columns = (if t.nRows = 0 then List.replicate t.columns.length ColVals.raw
                            else t.columns.map colVals) := ⟨rfl, rfl, rfl, rfl, rfl, rfl⟩

/-- values come back unchanged: text as text, onoff as booleans, timestamps as timestamps (NaT stays NaT), numbers
    by value (integers as floats, NaN stays NaN, the sign of a zero is not kept) -/
theorem colVals_cases (c : Column) :
    (c.unit = uText → colVals c = .text (c.values.map textOf)) ∧
    (c.unit = uOnoff → colVals c = .onoff (c.values.map boolOf)) ∧
    (c.unit = uDatetime → colVals c = .dt (c.values.map dtOf)) ∧
    (numericUnit c.unit = true → colVals c = .num (c.values.map numOf)) := by
  obtain ⟨h12, h13, h23⟩ := units_distinct
  refine ⟨?_, ?_, ?_, ?_⟩
  · intro h; simp [colVals, h]
  · intro h; simp [colVals, h, h12.symm]
  · intro h; simp [colVals, h, h13.symm, h23.symm]
  · intro h
    obtain ⟨u1, u2, u3⟩ := (numericUnit_iff _).1 h
    simp [colVals, u1, u2, u3]

theorem value_cases (s t : Str) (b : Bool) (i : Int) :
    textOf (.text s) = s ∧ boolOf (.bool b) = b ∧ dtOf (.dt t) = t ∧
    numOf (.num t) = (if t = "-0.0".toList then "0.0".toList else t) ∧ numOf (.int i) = intToStr i ++ ".0".toList :=
  ⟨rfl, rfl, rfl, rfl, rfl⟩

/-- what C09 expects read_excel to yield: the tables of the sheets whose name the pattern accepts, in sheet order
    then table order, each with the name of its sheet as origin -/
def expectedRead (pattern : Str → Bool) (sheets : List (Str × List TableVal)) : List (Str × Precursor) :=
  (sheets.filter (fun s => pattern s.1)).flatMap (fun s => s.2.map (fun t => (s.1, readBack t)))

/-- `R` holds between the elements of two lists position by position (and the lists are equally long) -/
def Aligned {α β : Type} (R : α → β → Prop) : List α → List β → Prop
  | [], [] => True
  | a :: as, b :: bs => R a b ∧ Aligned R as bs
  | _, _ => False

/-- a styled cell lies in the rows of the table it belongs to (`i` = sheet row of that table's header, `k` = its
    index in the sheet), inside the `N` rows and `W` columns of the sheet -/
def InOwnTable (naRep : Str) (sep N W : Nat) : Nat → Nat → List TableVal → Target → Prop
  | _, _, [], _ => False
  | i, k, t :: rest, x =>
    (x.table = k ∧ i ≤ x.row ∧ x.row < i + (layoutTable naRep t).length ∧ x.row < N ∧ x.col < W) ∨
      InOwnTable naRep sep N W (i + (layoutTable naRep t).length + sep) (k + 1) rest x

end Spec

/-! ## 2. Excel-well-formedness is decidable and inhabited -/

def exRowwise : TableVal :=
  ⟨"farm 1".toList, ["all".toList, "your_farm".toList], false,
   [⟨"species".toList, "text".toList, [.text "chicken".toList, .text "k: é".toList]⟩,
    ⟨"n legs".toList, "-".toList, [.num "2.0".toList, .num "nan".toList]⟩,
    ⟨"avg".toList, "kg".toList, [.int 3, .int (-4)]⟩,
    ⟨"ok".toList, "onoff".toList, [.bool true, .bool false]⟩,
    ⟨"born".toList, "datetime".toList, [.dt "2020-01-02T03:04:05".toList, .dt "NaT".toList]⟩]⟩

/-- tab and line feed inside text, astral characters, the first and the last representable timestamps -/
def exControl : TableVal :=
  ⟨"t\nb".toList, ["all".toList], false,
   [⟨"a\tb😀".toList, "text".toList, [.text "a\nb".toList, .text " lead\n".toList, .text "𝔸𠀀".toList]⟩,
    ⟨"d".toList, "datetime".toList, [.dt "1900-01-01T00:00:00".toList, .dt "1900-02-28T23:59:59".toList,
      .dt "9999-12-31T23:59:59".toList]⟩]⟩

def exTransposed : TableVal := { exRowwise with name := "t".toList, transposed := true }
def exNoColumns : TableVal := ⟨"z".toList, ["all".toList], false, []⟩
def exNoRows : TableVal := ⟨"r0".toList, ["all".toList], true, [⟨"a".toList, "m".toList, []⟩]⟩

example : excelWF exRowwise = true ∧ excelWF exTransposed = true ∧ excelWF exNoColumns = true ∧
    excelWF exNoRows = true ∧ excelWF exControl = true ∧ naRepOK "-".toList = true := by decide

/-- sheet names: legal and distinct ignoring case; the two shapes the real code mishandles are outside
    (`"a/b"`: openpyxl raises ValueError; `"A"`, `"a"`: the second sheet is renamed `a1`) -/
example :
    sheetNamesOK ["Sheet1".toList, "in put".toList, "résumé".toList, "Sheet".toList] = true ∧
    sheetNamesOK ["a/b".toList] = false ∧ sheetNamesOK ["A".toList, "a".toList] = false ∧
    sheetNamesOK [[]] = false ∧ sheetNamesOK [List.replicate 32 'x'] = false ∧ sheetNamesOK [] = false := by decide

/-! ### sizes: outside the domain the real stack alters or fails, and the model says how -/

/-- a cell text longer than 32767 characters does not survive the workbook: openpyxl cuts it (observed: 32768 ↦ 32767
    characters; a 40000-character table name loses its tail, for a transposed table the `*` with it) -/
theorem long_text_is_cut (s : Str) (hne : s ≠ []) (heq : s.head? ≠ some '=') (hlong : maxCellChars < s.length) :
    storeCell (.str s) = .str (s.take maxCellChars) ∧ storeCell (.str s) ≠ .str s := by
  have hst : storeCell (.str s) = .str (s.take maxCellChars) := by
    cases s with
    | nil => exact absurd rfl hne
    | cons c cs =>
      have hc : c ≠ '=' := by simpa using heq
      unfold storeCell
      split <;> simp_all
  refine ⟨hst, ?_⟩
  rw [hst]
  intro e
  have := congrArg (fun c => match c with | Cell.str x => x.length | _ => 0) e
  simp only [List.length_take] at this
  omega

/-- … and such a text, name or unit is outside the well-formedness predicate -/
theorem long_text_not_wf (u s : Str) (h : maxCellChars < s.length) : valOK u (.text s) = false := by
  have : decide (s.length ≤ maxCellChars) = false := by simp; omega
  simp [valOK, textOK, strRepresentable, this]

theorem long_name_not_wf (t : TableVal) (h : maxCellChars < t.name.length + 3) : excelWF t = false := by
  have : decide (t.name.length + 3 ≤ maxCellChars) = false := by simp; omega
  simp [excelWF, sizeOK, this]

/-- a table occupying more than 18278 sheet columns (its columns, or rows + 2 when transposed) is outside the
    predicate … -/
theorem too_wide_not_wf (t : TableVal) (h : maxColumns < (dimOf t).trueCols) : excelWF t = false := by
  simp only [dimOf, Dim.trueCols] at h
  cases ht : t.transposed <;> simp only [ht, if_true, if_false, Bool.false_eq_true] at h <;>
    simp [excelWF, sizeOK, ht] <;> omega

/-- … and writing a sheet that wide raises ValueError (openpyxl: `Invalid column index`), styled or not -/
theorem too_wide_raises (naRep : Str) (sep : Nat) (styles : Bool) (name : Str) (tables : List TableVal)
    (h : maxColumns < width (layoutSheet naRep sep tables)) :
    writeSheet naRep sep styles name tables = .error .valueError := by
  simp [writeSheet, h]

example : maxCellChars = 32767 ∧ maxColumns = 18278 ∧ maxRows = 1048576 := ⟨rfl, rfl, rfl⟩

/-- no clause is idle: one violated clause each -/
example :
    excelWF { exRowwise with name := "x*".toList } = false ∧
    excelWF { exTransposed with name := [] } = false ∧
    excelWF { exRowwise with destinations := [] } = false ∧
    excelWF { exRowwise with destinations := ["a:".toList] } = false ∧
    excelWF { exRowwise with columns := [⟨"a".toList, "text".toList, [.text "".toList]⟩] } = false ∧
    excelWF { exRowwise with columns := [⟨"a".toList, "text".toList, [.text "=1".toList]⟩] } = false ∧
    excelWF { exRowwise with columns := [⟨"a".toList, "text".toList, [.text "a\rb".toList]⟩] } = false ∧
    excelWF { exRowwise with columns := [⟨"a".toList, "text".toList, [.text "k:".toList]⟩] } = false ∧
    excelWF { exRowwise with columns := [⟨" a".toList, "m".toList, [.num "1.0".toList]⟩] } = false ∧
    excelWF { exTransposed with columns := [⟨"a:".toList, "m".toList, [.num "1.0".toList]⟩] } = false ∧
    excelWF { exRowwise with columns := [⟨"a".toList, "m".toList, [.num "0.12345678901234568".toList]⟩] } = false ∧
    excelWF { exRowwise with columns := [⟨"a".toList, "datetime".toList, [.dt "1899-12-31T00:00:00".toList]⟩] } = false ∧
    excelWF { exRowwise with columns := [⟨"a".toList, "m".toList, [.num "1.0".toList]⟩,
                                          ⟨"a".toList, "m".toList, [.num "1.0".toList]⟩] } = false := by decide

/-! ## 3. styling: the index arithmetic, for every table shape -/

theorem inOwn_to_spec (naRep : Str) (sep N W : Nat) (tables : List TableVal) (i k : Nat) (x : Target)
    (h : InOwn N W sep i k (tables.map dimOf) x) : Spec.InOwnTable naRep sep N W i k tables x := by
  induction tables generalizing i k with
  | nil => exact h
  | cons t rest ih =>
    simp only [List.map_cons, InOwn] at h
    simp only [Spec.InOwnTable, layoutTable_length]
    rcases h with h | h
    · left
      obtain ⟨h1, h2, h3, h4, h5, _⟩ := h
      exact ⟨h1, h2, h3, h4, h5⟩
    · right; exact ih _ _ h

theorem store_length (rows : List Row) : (store rows).length = (dropTrailingEmpty rows).length := by
  simp [store]

/-- **one sheet, any tables**: styling raises nothing, the value grid is `store` of the appended rows whether or not
    styles are applied, and every styled cell lies in the rows of its own table, inside the sheet -/
theorem writeSheet_styles (naRep : Str) (sep : Nat) (name : Str) (tables : List TableVal)
    (hw : width (layoutSheet naRep sep tables) ≤ maxColumns) :
    ∃ ts w, writeSheet naRep sep true name tables = .ok ⟨name, store (layoutSheet naRep sep tables), ts, w⟩ ∧
      writeSheet naRep sep false name tables = .ok ⟨name, store (layoutSheet naRep sep tables), [], []⟩ ∧
      ∀ x ∈ ts, Spec.InOwnTable naRep sep (store (layoutSheet naRep sep tables)).length
        (width (layoutSheet naRep sep tables)) 0 0 tables x := by
  have hfit : Fits (dropTrailingEmpty (layoutSheet naRep sep tables)).length (width (layoutSheet naRep sep tables))
      sep 0 (tables.map dimOf) := by
    apply fits_layout naRep sep tables
    · rw [dropTrailingEmpty_layoutSheet]; omega
    · intro t ht r hr
      apply le_width
      simp only [layoutSheet, List.mem_flatMap]
      exact ⟨t, ht, List.mem_append_left _ hr⟩
  obtain ⟨ts, hts, hin⟩ := styleTargets_ok _ _ sep (tables.map dimOf) 0 0 hfit
  have hnw : ¬ width (layoutSheet naRep sep tables) > maxColumns := by omega
  refine ⟨ts, widenedColumns (tables.map dimOf), ?_, ?_, ?_⟩
  · simp [writeSheet, hnw, hts, bind, Except.bind, pure, Except.pure]
  · simp [writeSheet, hnw, pure, Except.pure]
  · intro x hx
    rw [store_length]
    exact inOwn_to_spec naRep sep _ _ tables 0 0 x (hin x hx)

/-- the saved sheet is a rectangle: every row has exactly the sheet width (so a coordinate inside `N × W` is a cell) -/
theorem store_rectangular (rows : List Row) : ∀ r ∈ store rows, r.length = width rows := by
  intro r hr
  simp only [store, List.mem_map] at hr
  obtain ⟨r0, hr0, rfl⟩ := hr
  have hsub : r0 ∈ rows := by
    have : ∀ (l : List Row) (y : Row), y ∈ dropTrailingEmpty l → y ∈ l := by
      intro l
      induction l with
      | nil => intro y hy; simp [dropTrailingEmpty] at hy
      | cons a as ih =>
        intro y hy
        simp only [dropTrailingEmpty] at hy
        cases hd : dropTrailingEmpty as with
        | nil =>
          rw [hd] at hy
          by_cases he : a.isEmpty = true
          · simp [he] at hy
          · simp [he] at hy; subst hy; simp
        | cons z zs =>
          rw [hd] at hy
          simp only [List.mem_cons] at hy
          rcases hy with rfl | hy
          · simp
          · exact List.mem_cons_of_mem _ (ih y (by rw [hd]; simpa using hy))
    exact this rows r0 hr0
  have := le_width rows r0 hsub
  simp [storeRow, padTo]
  omega

/-- the whole workbook: what is written, sheet by sheet -/
theorem writeExcel_sheets (naRep : Str) (sep : Nat) (styles : Bool) (sheets : List (Str × List TableVal))
    (hw : ∀ s ∈ sheets, width (layoutSheet naRep sep s.2) ≤ maxColumns) :
    ∃ wb, writeExcel naRep sep styles sheets = .ok wb ∧
      readSheets wb = sheets.map (fun s => (s.1, store (layoutSheet naRep sep s.2))) := by
  induction sheets with
  | nil => exact ⟨[], rfl, rfl⟩
  | cons s rest ih =>
    obtain ⟨n, ts⟩ := s
    obtain ⟨wb, hwb, hr⟩ := ih (fun x hx => hw x (List.mem_cons_of_mem _ hx))
    obtain ⟨st, w, h1, h2, _⟩ := writeSheet_styles naRep sep n ts (hw (n, ts) (by simp))
    cases styles
    · refine ⟨⟨n, store (layoutSheet naRep sep ts), [], []⟩ :: wb, ?_, ?_⟩
      · simp [writeExcel, h2, hwb, bind, Except.bind, pure, Except.pure]
      · simp only [readSheets, List.map_cons] at hr ⊢; rw [hr]
    · refine ⟨⟨n, store (layoutSheet naRep sep ts), st, w⟩ :: wb, ?_, ?_⟩
      · simp [writeExcel, h1, hwb, bind, Except.bind, pure, Except.pure]
      · simp only [readSheets, List.map_cons] at hr ⊢; rw [hr]

/-- **styling never fails and stays inside its own table** — for every sheet map, whatever the tables look like (no
    well-formedness hypothesis): `write_excel` with styles succeeds exactly like without, and in the styled workbook
    every cell handed to `_style_cells` lies in the rows of its own table and inside the sheet's rows and columns (so
    styling indexes no cell that does not exist and creates none beyond the sheet width); the unstyled workbook has an
    empty style layer.
    What this does *not* prove by itself: that a styled cell keeps its value.  In the model the value grid has no
    field a style could touch (`readSheets wbS = readSheets wbU` below holds by construction of `writeSheet`).  That
    the real style loop assigns only `font` / `fill` / `alignment` and nothing in the module assigns `.value` is the
    translator pin `style_writes_pinned`; that the saved cell values are identical with and without styles is
    checked by the harness on every styled case (value grid of the two saved files, cell by cell). -/
theorem style_touches_no_value (naRep : Str) (sep : Nat) (sheets : List (Str × List TableVal))
    (hw : ∀ s ∈ sheets, width (layoutSheet naRep sep s.2) ≤ maxColumns) :
    ∃ wbS wbU, writeExcel naRep sep true sheets = .ok wbS ∧ writeExcel naRep sep false sheets = .ok wbU ∧
      readSheets wbS = readSheets wbU ∧ (∀ s ∈ wbU, s.styled = []) ∧
      Spec.Aligned (fun (s : SheetOut) (inp : Str × List TableVal) =>
        s.name = inp.1 ∧ s.rows = store (layoutSheet naRep sep inp.2) ∧
        ∀ x ∈ s.styled, Spec.InOwnTable naRep sep s.rows.length (width (layoutSheet naRep sep inp.2)) 0 0 inp.2 x)
        wbS sheets := by
  induction sheets with
  | nil => exact ⟨[], [], rfl, rfl, rfl, by simp, trivial⟩
  | cons s rest ih =>
    obtain ⟨n, ts⟩ := s
    obtain ⟨wbS, wbU, hS, hU, hrs, hun, hall⟩ := ih (fun x hx => hw x (List.mem_cons_of_mem _ hx))
    obtain ⟨st, w, h1, h2, hin⟩ := writeSheet_styles naRep sep n ts (hw (n, ts) (by simp))
    refine ⟨⟨n, store (layoutSheet naRep sep ts), st, w⟩ :: wbS, ⟨n, store (layoutSheet naRep sep ts), [], []⟩ :: wbU,
      by simp [writeExcel, h1, hS, bind, Except.bind, pure, Except.pure],
      by simp [writeExcel, h2, hU, bind, Except.bind, pure, Except.pure], ?_, ?_, ?_⟩
    · simp only [readSheets, List.map_cons] at hrs ⊢
      rw [hrs]
    · intro s hs
      rcases List.mem_cons.1 hs with rfl | hs
      · rfl
      · exact hun s hs
    · exact ⟨⟨rfl, rfl, hin⟩, hall⟩

/-- non-vacuity of the shape coverage: a sheet ending in a column-less row-wise table (the shape that used to raise
    IndexError), a transposed table without rows, a column-less transposed one -/
example :
    (writeSheet "-".toList 1 true "S".toList [exTransposed, exNoRows, exNoColumns]).toOption.map (·.styled.length) =
      some 50 ∧
    (writeSheet "-".toList 2 true "S".toList [{ exNoColumns with transposed := true }, exNoColumns,
      exNoColumns]).toOption.map (·.styled.length) = some 2 := by decide

/-! ## 4. the sheet-name pattern -/

/-- **a sheet-name pattern selects exactly the matching sheets**: reading with a pattern is reading the workbook
    reduced to the sheets whose name it accepts, in workbook order (every workbook, every reader configuration) -/
theorem pattern_selects (cfg : Config) (pattern : Str → Bool) (f0 : Fixer) (wb : List (Str × List Row)) :
    readExcel cfg pattern f0 wb = readExcel cfg (fun _ => true) f0 (wb.filter (fun s => pattern s.1)) := by
  induction wb with
  | nil => rfl
  | cons s rest ih =>
    obtain ⟨n, rows⟩ := s
    by_cases hp : pattern n = true
    · simp only [readExcel, hp, Bool.not_true, Bool.false_eq_true, if_false, List.filter_cons, if_true, ih]
    · simp only [Bool.not_eq_true] at hp
      simp only [readExcel, hp, Bool.not_false, if_true, List.filter_cons, Bool.false_eq_true, if_false, ih]

/-- sheets that all read to the end: the blocks are the blocks of the accepted sheets, sheet by sheet, each tagged
    with its sheet name -/
theorem readExcel_all_exhausted (cfg : Config) (pattern : Str → Bool) (f0 : Fixer) (wb : List (Str × List Row))
    (h : ∀ s ∈ wb, pattern s.1 = true → (parseBlocks cfg s.2 f0).ending = Ending.exhausted) :
    (readExcel cfg pattern f0 wb).ending = Ending.exhausted ∧
    (readExcel cfg pattern f0 wb).blocks =
      (wb.filter (fun s => pattern s.1)).flatMap (fun s => (parseBlocks cfg s.2 f0).blocks.map (fun b => (s.1, b))) := by
  induction wb with
  | nil => exact ⟨rfl, rfl⟩
  | cons s rest ih =>
    obtain ⟨n, rows⟩ := s
    have ih' := ih (fun x hx => h x (List.mem_cons_of_mem _ hx))
    by_cases hp : pattern n = true
    · have he := h (n, rows) (by simp) hp
      simp only at he
      simp only [readExcel, hp, Bool.not_true, Bool.false_eq_true, if_false, he, List.filter_cons, if_true,
        List.flatMap_cons, ih'.1, ih'.2]
      exact ⟨trivial, trivial⟩
    · simp only [Bool.not_eq_true] at hp
      simp only [readExcel, hp, Bool.not_false, if_true, List.filter_cons, Bool.false_eq_true, if_false]
      exact ih'

/-! ## 5. the round trip -/

theorem tablesOf_pairs (n : Str) (ps : List (Block Row × BlockVal)) :
    tablesOf ((ps.map (fun p => (⟨p.1.ty, p.1.first, p.2⟩ : Delivered))).map (fun b => (n, b))) =
      (ps.filterMap pairTable).map (fun q => (n, q)) := by
  induction ps with
  | nil => rfl
  | cons p ps ih =>
    obtain ⟨b, v⟩ := p
    unfold tablesOf at ih ⊢
    cases v <;> simp only [List.map_cons, List.filterMap_cons, ih, pairTable]

theorem tablesOf_sheet (naRep : Str) (W sep : Nat) (n : Str) (tables : List TableVal) :
    tablesOf (((sheetPairs naRep W sep 0 tables).map (fun p => (⟨p.1.ty, p.1.first, p.2⟩ : Delivered))).map
      (fun b => (n, b))) = tables.map (fun t => (n, Spec.readBack t)) := by
  rw [tablesOf_pairs, sheetPairs_tables, List.map_map]
  rfl

theorem flatMap_congr' {α β : Type} (l : List α) (f g : α → List β) (h : ∀ a ∈ l, f a = g a) :
    l.flatMap f = l.flatMap g := by
  induction l with
  | nil => rfl
  | cons a as ih =>
    simp only [List.flatMap_cons, h a (by simp), ih (fun x hx => h x (List.mem_cons_of_mem _ hx))]

theorem tablesOf_append (a b : List (Str × Delivered)) : tablesOf (a ++ b) = tablesOf a ++ tablesOf b := by
  simp [tablesOf, List.filterMap_append]

theorem tablesOf_flatMap {α : Type} (l : List α) (g : α → List (Str × Delivered)) :
    tablesOf (l.flatMap g) = l.flatMap (fun a => tablesOf (g a)) := by
  induction l with
  | nil => rfl
  | cons a as ih => simp [List.flatMap_cons, tablesOf_append, ih]

/-- **C09, the round trip.**  For every mapping of sheet names to Excel-well-formed tables, every number of
    separator lines ≥ 1, with or without styles, every predicate on sheet names, every tracker, every behaviour of
    the external `float()` / `to_datetime`, every missing-value text that is a marker:
    `write_excel` succeeds, `read_excel` on the saved workbook reads to the end, and the tables it yields are exactly
    the written tables of the accepted sheets — in sheet order, then table order, each carrying the name of its sheet
    as origin, with identical name, destinations, orientation, column names, units and values (`Spec.readBack`).
    The sheet names must be legal and distinct ignoring case (`sheetNamesOK`): creating and titling sheets is
    openpyxl's business, the model writes the names as given, and outside that domain the real code raises
    (`"a/b"`) or renames (`"A"`, `"a"` ↦ `"A"`, `"a1"`) — see the negative examples below and in the harness.
    Sizes are part of the domain (`sizeOK` inside `excelWF`, `strRepresentable`): a cell text longer than 32767
    characters is cut by openpyxl (`long_text_is_cut`), a sheet wider than 18278 columns makes `write_excel` raise
    (`too_wide_raises`); `sheetRowsOK` keeps a sheet within the 1048576 rows of the format (openpyxl itself was
    observed to write and read 1048577 rows, so this clause is conservative). -/
theorem excel_roundtrip (ext : Ext) (tracker : Tracker) (naRep : Str) (hna : naRepOK naRep = true)
    (sep : Nat) (hsep : 1 ≤ sep) (styles : Bool) (sheets : List (Str × List TableVal))
    (_hnames : sheetNamesOK (sheets.map (fun s => s.1)) = true)
    (_hrows : ∀ s ∈ sheets, sheetRowsOK naRep sep s.2 = true)
    (hwf : ∀ s ∈ sheets, ∀ t ∈ s.2, excelWF t = true) (pattern : Str → Bool) (f0 : Fixer) :
    ∃ wb, writeExcel naRep sep styles sheets = .ok wb ∧
      (readExcel ⟨.pdtable, none, tracker, ext⟩ pattern f0 (readSheets wb)).ending = Ending.exhausted ∧
      tablesOf (readExcel ⟨.pdtable, none, tracker, ext⟩ pattern f0 (readSheets wb)).blocks =
        Spec.expectedRead pattern sheets := by
  obtain ⟨wb, hwb, hrs⟩ := writeExcel_sheets naRep sep styles sheets
    (fun s hs => width_layoutSheet_le naRep sep s.2 (hwf s hs))
  refine ⟨wb, hwb, ?_⟩
  rw [hrs]
  have hall := readExcel_all_exhausted ⟨.pdtable, none, tracker, ext⟩ pattern f0
    (sheets.map (fun s => (s.1, store (layoutSheet naRep sep s.2)))) (by
      intro s hs _
      obtain ⟨s0, hs0, rfl⟩ := List.mem_map.1 hs
      exact (parseBlocks_sheet ext tracker naRep hna sep hsep s0.2 (hwf s0 hs0) f0).2.2)
  refine ⟨hall.1, ?_⟩
  rw [hall.2, tablesOf_flatMap]
  unfold Spec.expectedRead
  rw [List.filter_map, List.flatMap_map]
  apply flatMap_congr'
  intro s hs
  have hs' : s ∈ sheets := (List.mem_filter.1 hs).1
  simp only [Function.comp]
  rw [(parseBlocks_sheet ext tracker naRep hna sep hsep s.2 (hwf s hs') f0).1]
  exact tablesOf_sheet naRep _ sep s.1 s.2

/-- **the number of separator lines (at least one) is irrelevant** to what is read back -/
theorem sep_lines_irrelevant (ext : Ext) (tracker : Tracker) (naRep : Str) (hna : naRepOK naRep = true)
    (sep1 sep2 : Nat) (h1 : 1 ≤ sep1) (h2 : 1 ≤ sep2) (st1 st2 : Bool) (sheets : List (Str × List TableVal))
    (hnames : sheetNamesOK (sheets.map (fun s => s.1)) = true)
    (hrows1 : ∀ s ∈ sheets, sheetRowsOK naRep sep1 s.2 = true)
    (hrows2 : ∀ s ∈ sheets, sheetRowsOK naRep sep2 s.2 = true)
    (hwf : ∀ s ∈ sheets, ∀ t ∈ s.2, excelWF t = true) (pattern : Str → Bool) (f0 : Fixer) :
    ∃ wb1 wb2, writeExcel naRep sep1 st1 sheets = .ok wb1 ∧ writeExcel naRep sep2 st2 sheets = .ok wb2 ∧
      tablesOf (readExcel ⟨.pdtable, none, tracker, ext⟩ pattern f0 (readSheets wb1)).blocks =
      tablesOf (readExcel ⟨.pdtable, none, tracker, ext⟩ pattern f0 (readSheets wb2)).blocks := by
  obtain ⟨wb1, hw1, _, ht1⟩ := excel_roundtrip ext tracker naRep hna sep1 h1 st1 sheets hnames hrows1 hwf pattern f0
  obtain ⟨wb2, hw2, _, ht2⟩ := excel_roundtrip ext tracker naRep hna sep2 h2 st2 sheets hnames hrows2 hwf pattern f0
  exact ⟨wb1, wb2, hw1, hw2, by rw [ht1, ht2]⟩

/-- non-vacuity: the model round trip of a three-table sheet map (mixed columns, both orientations, a table without
    columns, a table without rows), two separator lines, styles on, a pattern rejecting the second sheet -/
example :
    let sheets := [("A".toList, [exRowwise, exNoColumns, exTransposed]), ("B".toList, [exNoRows])]
    let ext : Ext := ⟨fun _ => none, fun _ => .valueError, fun _ => false⟩
    (match writeExcel "-".toList 2 true sheets with
     | .ok wb => (tablesOf (readExcel ⟨.pdtable, none, .raising, ext⟩ (fun n => n = "A".toList)
          ⟨FixCfg.strict, 0, 0, []⟩ (readSheets wb)).blocks).map (fun p => (p.1, p.2.name, p.2.names.length))
     | .error _ => []) =
    [("A".toList, "farm 1".toList, 5), ("A".toList, "z".toList, 0), ("A".toList, "t".toList, 5)] := by decide

/-! ## 6. the written cells are inside the domain of the openpyxl law -/

theorem charOK_joinWith (ds : List Str) (h : ∀ d ∈ ds, d.all charOK = true) : (joinWith ' ' ds).all charOK = true := by
  induction ds with
  | nil => rfl
  | cons x rest ih =>
    cases rest with
    | nil => simpa [joinWith] using h x (by simp)
    | cons y ys =>
      have hx := h x (by simp)
      have := ih (fun d hd => h d (List.mem_cons_of_mem _ hd))
      simp only [joinWith, List.all_append, List.all_cons, hx, this, Bool.and_true, Bool.true_and]
      decide

theorem writtenCell_representable (naRep u : Str) (hna : naRepOK naRep = true) (v : Val) (h : valOK u v = true) :
    cellRepresentable (writtenCell naRep v) = true := by
  have hn : strRepresentable naRep = true := by
    simp only [naRepOK, Bool.and_eq_true] at hna; exact hna.1.1.2
  cases v with
  | text s =>
    simp only [valOK, textOK, Bool.and_eq_true] at h
    exact h.2.1
  | bool b => cases b <;> simp [writtenCell, cellRepresentable]
  | dt t =>
    simp only [valOK, Bool.and_eq_true, Bool.or_eq_true, beq_iff_eq] at h
    by_cases ht : t = NaT
    · simp [writtenCell, ht, cellRepresentable, hn]
    · rcases h.2 with e | e
      · exact absurd e ht
      · simp [writtenCell, ht, cellRepresentable, e]
  | num t =>
    simp only [valOK, Bool.and_eq_true, Bool.or_eq_true, beq_iff_eq] at h
    by_cases ht : t = NaN
    · simp [writtenCell, ht, cellRepresentable, hn]
    · rcases h.2 with e | e
      · exact absurd e ht
      · simp only [writtenCell, ht, if_false, cellRepresentable, Bool.and_eq_true]
        exact e
  | int i =>
    simp only [valOK, intOK, Bool.and_eq_true] at h
    simp only [writtenCell, cellRepresentable, Bool.and_eq_true]
    exact h.2

/-- **every cell a well-formed table appends to the worksheet is representable** (non-empty legal text that is no
    formula, integers and floats of at most 15 significant digits, naive whole-second timestamps from 1900-01-01):
    the round trip theorem uses the openpyxl law `Grid.store` only inside its stated domain -/
theorem written_cells_representable (naRep : Str) (hna : naRepOK naRep = true) (t : TableVal)
    (h : excelWF t = true) : ∀ r ∈ layoutTable naRep t, ∀ c ∈ r, cellRepresentable c = true := by
  obtain ⟨_, _, _, w4, w5, _, _, w8, _, _⟩ := excelWF_facts t h
  have hname : t.name.all charOK = true := by
    simp only [excelWF, excelWFCore, Bool.and_eq_true] at h
    exact h.2.1.1.1.1.1.1.1.1.1
  have hsz := excelWF_size t h
  have hcf := fun c hc => columnOK_facts t.nRows c (w8 c hc)
  have hhdr : cellRepresentable (.str (header t)) = true := by
    have hl : (header t).length ≤ maxCellChars := Nat.le_trans (header_length_le t) hsz.1
    simp only [cellRepresentable, strRepresentable, Bool.and_eq_true, decide_eq_true_eq]
    refine ⟨⟨⟨by simp [header], by simp [header]⟩, ?_⟩, hl⟩
    simp only [header, List.all_cons, List.all_append, hname, Bool.and_true, Bool.true_and]
    cases t.transposed <;> decide
  have hdst : cellRepresentable (.str (destCell t)) = true := by
    obtain ⟨e, _⟩ := destCell_facts t w4 w5 hsz.2.1
    have hne : destCell t ≠ [] := joinWith_ne_nil _ w4 (fun d hd => (destOK_facts d (w5 d hd)).1)
    have hch : (destCell t).all charOK = true := by
      apply charOK_joinWith
      intro d hd
      have := w5 d hd
      simp only [destOK, Bool.and_eq_true, List.all_eq_true] at this
      rw [List.all_eq_true]
      intro c hc
      exact (this.1.1.2 c hc).2
    have hhead : (destCell t).head? ≠ some '=' := by
      intro e'
      cases hd : destCell t with
      | nil => exact hne hd
      | cons a as =>
        rw [hd] at e e'
        simp at e'
        subst e'
        simp [storeCell] at e
    simp only [cellRepresentable, strRepresentable, Bool.and_eq_true, Bool.not_eq_true', bne_iff_ne, ne_eq,
      decide_eq_true_eq]
    exact ⟨⟨⟨by cases hd : destCell t <;> simp_all, hhead⟩, hch⟩, hsz.2.1⟩
  have htext : ∀ s, textOK s = true → cellRepresentable (.str s) = true := by
    intro s hs
    simp only [textOK, Bool.and_eq_true] at hs
    exact hs.1
  intro r hr c hc
  simp only [layoutTable, List.mem_cons] at hr
  rcases hr with rfl | rfl | hr
  · simp only [List.mem_singleton] at hc; subst hc; exact hhdr
  · simp only [List.mem_singleton] at hc; subst hc; exact hdst
  · cases ht : t.transposed
    · simp only [ht, Bool.false_eq_true, if_false, List.mem_cons, List.mem_map, List.mem_range] at hr
      rcases hr with rfl | rfl | ⟨i, hi, rfl⟩
      · obtain ⟨col, hcol, rfl⟩ := List.mem_map.1 hc
        exact htext _ (hcf col hcol).1
      · obtain ⟨col, hcol, rfl⟩ := List.mem_map.1 hc
        exact htext _ (hcf col hcol).2.2.1
      · have hrow : ∀ (cols : List Column) (j : Nat), (∀ d ∈ cols, d ∈ t.columns) →
            ∀ c ∈ reprRow naRep i j cols, cellRepresentable c = true := by
          intro cols
          induction cols with
          | nil => intro j _ c hc; simp [reprRow] at hc
          | cons d ds ih =>
            intro j hsub c hc
            simp only [reprRow, List.mem_cons] at hc
            rcases hc with rfl | hc
            · obtain ⟨_, _, _, _, d5, d6⟩ := hcf d (hsub d (by simp))
              have hv : valOK d.unit (valAt d i) = true := by
                rw [valAt_eq d i (by omega)]; exact d6 _ (List.getElem_mem _)
              rw [represent_wf naRep d.unit j _ hv]
              exact writtenCell_representable naRep d.unit hna _ hv
            · exact ih (j + 1) (fun e he => hsub e (List.mem_cons_of_mem _ he)) c hc
        exact hrow t.columns 0 (fun d hd => hd) c hc
    · simp only [ht, if_true, List.mem_map] at hr
      obtain ⟨col, hcol, rfl⟩ := hr
      obtain ⟨c1, _, c3, _, _, c6⟩ := hcf col hcol
      simp only [List.mem_cons] at hc
      rcases hc with rfl | rfl | hc
      · exact htext _ c1
      · exact htext _ c3
      · have hcolm : ∀ (vals : List Val) (j : Nat), (∀ v ∈ vals, valOK col.unit v = true) →
            ∀ c ∈ reprCol naRep col.unit j vals, cellRepresentable c = true := by
          intro vals
          induction vals with
          | nil => intro j _ c hc; simp [reprCol] at hc
          | cons v vs ih =>
            intro j hv c hc
            simp only [reprCol, List.mem_cons] at hc
            rcases hc with rfl | hc
            · rw [represent_wf naRep col.unit j v (hv v (by simp))]
              exact writtenCell_representable naRep col.unit hna v (hv v (by simp))
            · exact ih (j + 1) (fun w hw => hv w (List.mem_cons_of_mem _ hw)) c hc
        exact hcolm col.values 0 c6 c hc

end Pdt.C09
