/-
  Props/C12.lean — "Malformed input is reported as a located input error, never an internal crash".

  Theorems about `parseBlocks` / `readCsv` (Model/Blocks.lean, Model/Errors.lean) for EVERY sequence of rows of
  arbitrary native cells — so for every corruption of every input: truncation, emptied / mistyped / retyped cells,
  cells replaced by block markers, deleted / duplicated / shortened rows need no operator of their own.

    handleR_errors          totality analysis: which exception classes a handler can raise, and from where
    only_input_error        a read ends exhausted or (raising tracker) with the InputError of one block; the only
                            other class that can leave the reader is one `pandas.to_datetime` itself raises
                            outside ValueError (`Residual`) — excluded by the external law `DtLaw`
    located                 the row of the error (and of every collected issue) is the origin row of a TABLE block,
                            i.e. (C03) the index of its `**` row in the input
    earlier_blocks_delivered  blocks cut from a common prefix of two inputs are delivered identically, first
    segment_resync / collecting_resync   a marker row cuts the stream: the blocks of p ++ q (q starting `**`, `***`,
                            `:`) are those of p followed by those of q read alone, origin rows shifted — undamaged
                            blocks after the damage are delivered too
    collecting_continues    with a collecting tracker: every block's own verdict, in order; one issue per failing
                            block; reading goes on to the end
    raising_stops_at_first  with the default tracker: the deliveries up to the first failing block, then its error
-/
import PdtModel.Props.C03
import PdtModel.Props.C13
import PdtModel.Model.Errors
set_option linter.unusedSimpArgs false
set_option linter.unusedVariables false
namespace Pdt.C12
open Pdt Pdt.Reader Pdt.Blocks Pdt.C02 Pdt.C13 Pdt.Errors

/-! ## 0. constants pinned -/

theorem csv_sep_pinned : Gen.csvSep = [';'] := by decide

/-- the exception classes `block_output` turns into an issue: ValueError (and subclasses) and
    ColumnUnitException -/
theorem caught_classes (e : PyExc) : caught e = true ↔ e = .valueError ∨ e = .columnUnit := by
  cases e <;> simp [caught]

/-! ## 1. a TABLE / DIRECTIVE block starts with its marker row -/

section
variable {R : Type} (kindOf : R → Kind)

def HeadOK (ty : BT) (grid : List R) : Prop :=
  (ty = .table → ∃ r rest, grid = r :: rest ∧ kindOf r = .tbl) ∧
  (ty = .directive → ∃ r rest, grid = r :: rest ∧ kindOf r = .dir)

theorem head_emit (s : St R) (h : HeadOK kindOf s.state s.grid) : ∀ b ∈ emit s, HeadOK kindOf b.ty b.rows := by
  intro b hb
  unfold emit at hb
  split at hb
  · simp at hb
  · rename_i x xs hg
    simp only [List.mem_singleton] at hb
    subst hb
    exact h

theorem head_append (ty : BT) (grid : List R) (r : R) (h : HeadOK kindOf ty grid) : HeadOK kindOf ty (grid ++ [r]) := by
  constructor
  · intro ht
    obtain ⟨r0, rest, hg, hk⟩ := h.1 ht
    exact ⟨r0, rest ++ [r], by simp [hg], hk⟩
  · intro ht
    obtain ⟨r0, rest, hg, hk⟩ := h.2 ht
    exact ⟨r0, rest ++ [r], by simp [hg], hk⟩

theorem head_step (s : St R) (i : Nat) (r : R) (h : HeadOK kindOf s.state s.grid) :
    HeadOK kindOf (step kindOf s i r).1.state (step kindOf s i r).1.grid ∧
    ∀ b ∈ (step kindOf s i r).2, HeadOK kindOf b.ty b.rows := by
  have he := head_emit kindOf s h
  have ha := head_append kindOf s.state s.grid r h
  unfold step switch
  cases hk : kindOf r with
  | plain => exact ⟨ha, by simp⟩
  | mta =>
    by_cases hs : s.state = .metadata
    · simp only [hs, if_true]; exact ⟨by simpa [hs] using ha, by simp⟩
    · simp only [hs, if_false]; exact ⟨by simp [HeadOK], he⟩
  | blankRow keep =>
    by_cases hs : s.state = .blank
    · simp only [hs, if_true]; exact ⟨by simpa [hs] using h, by simp⟩
    · simp only [hs, if_false]; exact ⟨by simp [HeadOK], he⟩
  | tbl => exact ⟨by simp [HeadOK, hk], he⟩
  | dir => exact ⟨by simp [HeadOK, hk], he⟩
  | tpl => exact ⟨by simp [HeadOK], he⟩

theorem head_go (i : Nat) (s : St R) (rs : List R) (h : HeadOK kindOf s.state s.grid) :
    ∀ b ∈ go kindOf i s rs, HeadOK kindOf b.ty b.rows := by
  induction rs generalizing i s with
  | nil => simpa [go] using head_emit kindOf s h
  | cons r rs ih =>
    intro b hb
    simp only [go, List.mem_append] at hb
    have hs := head_step kindOf s i r h
    rcases hb with hb | hb
    · exact hs.2 b hb
    · exact ih (i + 1) _ hs.1 b hb

/-- every TABLE block starts with a row whose first cell is a `**` marker, every DIRECTIVE block with a `***` row -/
theorem block_heads (rows : List R) : ∀ b ∈ run kindOf rows, HeadOK kindOf b.ty b.rows :=
  head_go kindOf 0 initSt rows (by simp [HeadOK, initSt])

end

theorem rowKind_tbl (r : Row) (h : rowKind r = .tbl) : ∃ s rest, r = .str s :: rest ∧ classify s = some .table := by
  cases r with
  | nil => simp [rowKind] at h
  | cons c rest =>
    simp only [rowKind] at h
    by_cases hb : c.isBlank = true
    · simp [hb] at h
    · simp only [hb, if_false] at h
      cases c with
      | str s =>
        refine ⟨s, rest, rfl, ?_⟩
        cases hc : classify s with
        | none => simp [hc] at h
        | some m => cases m <;> simp [hc] at h ⊢
      | _ => simp at h

theorem rowKind_dir (r : Row) (h : rowKind r = .dir) : ∃ s rest, r = .str s :: rest := by
  cases r with
  | nil => simp [rowKind] at h
  | cons c rest =>
    simp only [rowKind] at h
    by_cases hb : c.isBlank = true
    · simp [hb] at h
    · simp only [hb, if_false] at h
      cases c with
      | str s => exact ⟨s, rest, rfl⟩
      | _ => simp at h

/-- the splitter only starts a TABLE (DIRECTIVE) block on a text first cell -/
theorem segment_heads (rows : List Row) (b : Block Row) (hb : b ∈ segment rows) :
    (b.ty = .table → ∃ s r0 rest, b.rows = (.str s :: r0) :: rest ∧ classify s = some .table) ∧
    (b.ty = .directive → ∃ s r0 rest, b.rows = (.str s :: r0) :: rest) := by
  have h := block_heads rowKind rows b hb
  constructor
  · intro ht
    obtain ⟨r, rest, hg, hk⟩ := h.1 ht
    obtain ⟨s, r0, hr, hc⟩ := rowKind_tbl r hk
    exact ⟨s, r0, rest, by rw [hg, hr], hc⟩
  · intro ht
    obtain ⟨r, rest, hg, hk⟩ := h.2 ht
    obtain ⟨s, r0, hr⟩ := rowKind_dir r hk
    exact ⟨s, r0, rest, by rw [hg, hr]⟩

/-! ## 2. totality analysis: which exception classes a handler can raise -/

/-- the residual class: an exception class that `pandas.to_datetime` itself raised, for some string, outside
    ValueError and its subclasses -/
def Residual (ext : Ext) (e : PyExc) : Prop := ∃ n s, e = .other n ∧ ext.parseDt s = .raises n

/-- the external law "to_datetime fails only with ValueError (or a subclass)" — checked by the harness on every
    generated string, never assumed silently -/
def DtLaw (ext : Ext) : Prop := ∀ s n, ext.parseDt s ≠ .raises n

theorem no_residual (ext : Ext) (law : DtLaw ext) (e : PyExc) : ¬ Residual ext e := by
  rintro ⟨n, s, _, h⟩; exact law s n h

theorem dtCell_raises (ext : Ext) (c : Cell) (n : Str) (h : dtCell ext c = .raises n) :
    ∃ s, ext.parseDt s = .raises n := by
  cases c with
  | str s =>
    simp only [dtCell] at h
    repeat' split at h
    all_goals (try cases h)
    all_goals exact ⟨_, by assumption⟩
  | _ => simp [dtCell] at h

theorem dtValues_errors (ext : Ext) (rep : Str) (cells : List Cell) (e : PyExc)
    (h : dtValues ext rep cells = .error e) : e = .valueError ∨ Residual ext e := by
  induction cells with
  | nil => simp [dtValues] at h
  | cons c cs ih =>
    unfold dtValues at h
    cases hc : dtCell ext c with
    | ok t =>
      simp only [hc] at h
      cases hr : dtValues ext rep cs with
      | error e' => simp [hr, Except.map] at h; subst h; exact ih hr
      | ok r => simp [hr, Except.map] at h
    | fix =>
      simp only [hc] at h
      cases hr : dtValues ext rep cs with
      | error e' => simp [hr, Except.map] at h; subst h; exact ih hr
      | ok r => simp [hr, Except.map] at h
    | raises n =>
      simp [hc] at h
      obtain ⟨s, hs⟩ := dtCell_raises ext c n hc
      right; exact ⟨n, s, h.symm, hs⟩

theorem typeColumn_errors (ext : Ext) (cfg : FixCfg) (u : Str) (cells : List Cell) (e : PyExc)
    (h : C02.Spec.typeColumn ext cfg u cells = .error e) : e = .valueError ∨ Residual ext e := by
  unfold C02.Spec.typeColumn at h
  split at h
  · cases h
  · split at h
    · cases h
    · split at h
      · cases hr : dtValues ext cfg.repDt cells with
        | error e' => simp [hr, Except.map] at h; subst h; exact dtValues_errors ext _ _ _ hr
        | ok r => simp [hr, Except.map] at h
      · cases h

theorem typeColumns_errors (ext : Ext) (cfg : FixCfg) (us : List Str) (cols : List (List Cell)) (e : PyExc)
    (h : Spec.typeColumns ext cfg us cols = .error e) : e = .valueError ∨ Residual ext e := by
  induction us generalizing cols with
  | nil => simp [Spec.typeColumns] at h
  | cons u us ih =>
    cases cols with
    | nil => simp [Spec.typeColumns] at h
    | cons c cs =>
      simp only [Spec.typeColumns] at h
      cases h1 : C02.Spec.typeColumn ext cfg u c with
      | error e' => simp [h1] at h; subst h; exact typeColumn_errors ext cfg u c _ h1
      | ok v =>
        simp only [h1] at h
        cases h2 : Spec.typeColumns ext cfg us cs with
        | error e' => simp [h2, Except.map] at h; subst h; exact ih cs h2
        | ok vs => simp [h2, Except.map] at h

/-- the fixer-dependent part of the table reader raises ValueError (a column that cannot be typed, or `report()`)
    or the residual class — nothing else -/
theorem finishR_errors (ext : Ext) (fcfg : FixCfg) (n : Nat) (L : Layout) (e : PyExc)
    (h : finishR ext fcfg n L = .error e) : e = .valueError ∨ Residual ext e := by
  unfold finishR Spec.tableOf at h
  cases ht : Spec.typeColumns ext fcfg L.units (Spec.rawColumns L.rows0 L.names0.length) with
  | error e' =>
    simp [ht, Except.map] at h; subst h
    exact typeColumns_errors ext fcfg _ _ _ ht
  | ok parsed =>
    simp only [ht, Except.map] at h
    split at h
    · cases h; left; rfl
    · cases h

theorem parseColumnNames_errors (raw : List Cell) (e : PyExc) (h : parseColumnNames raw = .error e) :
    e = .valueError := by
  simp only [parseColumnNames] at h
  split at h
  · cases h
  · cases h; rfl

theorem transposedRows_errors (lines : List Row) (e : PyExc) (h : transposedRows lines = .error e) :
    e = .valueError := by
  unfold transposedRows at h
  split at h
  · cases h; rfl
  · cases h

/-- header interpretation and grid slicing raise ValueError, or what `cells[0][0][2:]` raises -/
theorem layout_errors (cells : List Row) (e : PyExc) (h : layout cells = .error e) :
    e = .valueError ∨ tableName cells = .error e := by
  unfold layout at h
  cases hn : tableName cells with
  | error e' => simp [hn, bind, Except.bind] at h; right; rw [h]
  | ok nt =>
    left
    obtain ⟨name, transposed⟩ := nt
    simp only [hn, bind, Except.bind, pure, Except.pure, throw_eq] at h
    repeat' split at h
    all_goals (try cases h)
    all_goals (try rfl)
    all_goals (try (apply parseColumnNames_errors; assumption))
    all_goals (try (apply transposedRows_errors; assumption))

theorem frameCheck_errors (p : Precursor) (e : PyExc) (h : frameCheck p = .error e) :
    e = .valueError ∨ e = .columnUnit := by
  unfold frameCheck at h
  repeat' split at h
  all_goals (try cases h)
  · left; rfl
  · right; rfl

/-- **what a handler can raise**: only the TABLE and DIRECTIVE handlers can raise at all; the table handlers raise
    ValueError / ColumnUnitException (turned into a located issue), the residual class, or what
    `cells[0][0][2:]` raises on a grid that does not start with a text cell; the directive handler only the latter -/
theorem handleR_errors (cfg : Config) (fcfg : FixCfg) (n : Nat) (ty : BT) (cells : List Row) (e : PyExc)
    (h : handleR cfg fcfg n ty cells = .error e) :
    (ty = .table ∧ (e = .valueError ∨ e = .columnUnit ∨ Residual cfg.ext e ∨ tableName cells = .error e)) ∨
    (ty = .directive ∧ directive cells = .error e) := by
  unfold handleR at h
  cases ty with
  | metadata => cases h
  | directive =>
    right
    refine ⟨rfl, ?_⟩
    cases hd : directive cells with
    | error e' => simp [hd, Except.map] at h; rw [h]
    | ok r => simp [hd, Except.map] at h
  | table =>
    left
    refine ⟨rfl, ?_⟩
    cases hf : cfg.form with
    | pdtable =>
      simp only [hf] at h
      cases hl : layout cells with
      | error e' =>
        simp [hl, Except.bind] at h; subst h
        rcases layout_errors cells _ hl with h1 | h1
        · exact Or.inl h1
        · exact Or.inr (Or.inr (Or.inr h1))
      | ok L =>
        simp only [hl, Except.bind] at h
        cases hr : finishR cfg.ext fcfg n L with
        | error e' =>
          simp [hr] at h; subst h
          rcases finishR_errors _ _ _ _ _ hr with h1 | h1
          · exact Or.inl h1
          · exact Or.inr (Or.inr (Or.inl h1))
        | ok r =>
          simp only [hr] at h
          cases hc : frameCheck r.1 with
          | error e' =>
            simp [hc] at h; subst h
            rcases frameCheck_errors _ _ hc with h1 | h1
            · exact Or.inl h1
            · exact Or.inr (Or.inl h1)
          | ok u => simp [hc] at h
    | jsondata =>
      simp only [hf] at h
      cases hl : layout cells with
      | error e' =>
        simp [hl, Except.bind] at h; subst h
        rcases layout_errors cells _ hl with h1 | h1
        · exact Or.inl h1
        · exact Or.inr (Or.inr (Or.inr h1))
      | ok L =>
        simp only [hl, Except.bind] at h
        cases hr : finishR cfg.ext fcfg n L with
        | error e' =>
          simp [hr] at h; subst h
          rcases finishR_errors _ _ _ _ _ hr with h1 | h1
          · exact Or.inl h1
          · exact Or.inr (Or.inr (Or.inl h1))
        | ok r => simp [hr] at h
    | cellgrid => simp [hf] at h
  | template => cases h
  | blank => cases h

/-- **for blocks cut by the splitter** the `cells[0][0][2:]` failures cannot happen (the splitter only starts a
    TABLE / DIRECTIVE block on a text cell): a failing block is a TABLE block and its exception is one
    `block_output` catches, or the residual class -/
theorem verdict_errors (cfg : Config) (fcfg : FixCfg) (rows : List Row) (b : Block Row) (hb : b ∈ segment rows)
    (e : PyExc) (h : verdict cfg fcfg b = some (.error e)) :
    b.ty = .table ∧ (caught e = true ∨ Residual cfg.ext e) := by
  unfold verdict at h
  split at h
  · cases h
  · simp only [Option.some.injEq] at h
    cases hh : handleR cfg fcfg 0 b.ty b.rows with
    | ok r => simp [hh, Except.map] at h
    | error e' =>
      simp [hh, Except.map] at h; subst h
      have heads := segment_heads rows b hb
      rcases handleR_errors _ _ _ _ _ _ hh with ⟨ht, hc⟩ | ⟨ht, hd⟩
      · refine ⟨ht, ?_⟩
        rcases hc with h1 | h1 | h1 | h1
        · left; rw [h1]; rfl
        · left; rw [h1]; rfl
        · right; exact h1
        · exfalso
          obtain ⟨s, r0, rest, hr, _⟩ := heads.1 ht
          rw [hr, name_and_orientation] at h1
          cases h1
      · exfalso
        obtain ⟨s, r0, rest, hr⟩ := heads.2 ht
        rw [hr] at hd
        simp [directive] at hd

/-! ## 3. how a read ends -/

/-- a block fails with a class `block_output` catches -/
def fails (cfg : Config) (fcfg : FixCfg) (b : Block Row) : Prop :=
  ∃ e, verdict cfg fcfg b = some (.error e) ∧ caught e = true

theorem runV_ending (cfg : Config) (fcfg : FixCfg) (bs : List (Block Row))
    (hb : ∀ b ∈ bs, ∀ e, verdict cfg fcfg b = some (.error e) → caught e = true ∨ Residual cfg.ext e) :
    (match (runV cfg fcfg bs).2.2 with
     | .exhausted => True
     | .inputError r => cfg.tracker = .raising ∧ ∃ b ∈ bs, b.first = r ∧ fails cfg fcfg b
     | .escaped e => Residual cfg.ext e) ∧
    (∀ r ∈ (runV cfg fcfg bs).2.1, ∃ b ∈ bs, b.first = r ∧ fails cfg fcfg b) := by
  induction bs with
  | nil => simp [runV]
  | cons b bs ih =>
    have ih' := ih (fun b' hb' => hb b' (List.mem_cons_of_mem _ hb'))
    have lift : ∀ r, (∃ b' ∈ bs, b'.first = r ∧ fails cfg fcfg b') → ∃ b' ∈ b :: bs, b'.first = r ∧ fails cfg fcfg b' := by
      rintro r ⟨b', hm, h1, h2⟩; exact ⟨b', List.mem_cons_of_mem _ hm, h1, h2⟩
    unfold runV
    cases hv : verdict cfg fcfg b with
    | none =>
      simp only []
      refine ⟨?_, fun r hr => lift r (ih'.2 r hr)⟩
      have := ih'.1
      cases he : (runV cfg fcfg bs).2.2 with
      | exhausted => trivial
      | inputError r => rw [he] at this; exact ⟨this.1, lift r this.2⟩
      | escaped e => rw [he] at this; exact this
    | some res =>
      cases res with
      | ok v =>
        simp only []
        refine ⟨?_, fun r hr => lift r (ih'.2 r hr)⟩
        have := ih'.1
        cases he : (runV cfg fcfg bs).2.2 with
        | exhausted => trivial
        | inputError r => rw [he] at this; exact ⟨this.1, lift r this.2⟩
        | escaped e => rw [he] at this; exact this
      | error e =>
        simp only []
        by_cases hc : caught e = true
        · simp only [hc, if_true]
          have hf : fails cfg fcfg b := ⟨e, hv, hc⟩
          cases ht : cfg.tracker with
          | raising =>
            simp only []
            refine ⟨⟨by first | trivial | exact ht, b, List.mem_cons_self, rfl, hf⟩, ?_⟩
            intro r hr
            simp at hr; subst hr
            exact ⟨b, List.mem_cons_self, rfl, hf⟩
          | collecting =>
            simp only []
            constructor
            · have := ih'.1
              cases he : (runV cfg fcfg bs).2.2 with
              | exhausted => trivial
              | inputError r => rw [he] at this; rw [ht] at this; exact absurd this.1 (by simp)
              | escaped e => rw [he] at this; exact this
            · intro r hr
              rcases List.mem_cons.1 hr with rfl | hr
              · exact ⟨b, List.mem_cons_self, rfl, hf⟩
              · exact lift r (ih'.2 r hr)
        · simp only [hc]
          refine ⟨?_, by simp⟩
          rcases hb b List.mem_cons_self e hv with h1 | h1
          · exact absurd h1 hc
          · exact h1

/-- **only InputError**: for every sequence of rows of arbitrary native cells, every output form, filter and
    fixer: the read ends exhausted, or — only with the raising (default) tracker — with the InputError of a block
    that failed with ValueError / ColumnUnitException, or with an exception class that `pandas.to_datetime` itself
    raised outside ValueError. No IndexError, TypeError, AttributeError, KeyError, AssertionError can leave. -/
theorem only_input_error (cfg : Config) (rows : List Row) (f : Fixer) :
    match (parseBlocks cfg rows f).ending with
    | .exhausted => True
    | .inputError r => cfg.tracker = .raising ∧ ∃ b ∈ segment rows, b.first = r ∧ b.ty = .table ∧ fails cfg f.cfg b
    | .escaped e => Residual cfg.ext e := by
  have hv := (runBlocks_eq_runV cfg (segment rows) f).1
  have hb : ∀ b ∈ segment rows, ∀ e, verdict cfg f.cfg b = some (.error e) → caught e = true ∨ Residual cfg.ext e :=
    fun b hb e he => (verdict_errors cfg f.cfg rows b hb e he).2
  have := (runV_ending cfg f.cfg (segment rows) hb).1
  have he : (parseBlocks cfg rows f).ending = (runV cfg f.cfg (segment rows)).2.2 := by
    have := congrArg (fun x => x.2.2) hv; simpa [view, parseBlocks] using this
  rw [he]
  cases hr : (runV cfg f.cfg (segment rows)).2.2 with
  | exhausted => trivial
  | inputError r =>
    rw [hr] at this
    obtain ⟨ht, b, hm, h1, e, h2, h3⟩ := this
    exact ⟨ht, b, hm, h1, (verdict_errors cfg f.cfg rows b hm e h2).1, e, h2, h3⟩
  | escaped e => rw [hr] at this; exact this

/-- under the external law nothing but InputError leaves the reader; with a collecting tracker nothing does -/
theorem never_escapes (cfg : Config) (rows : List Row) (f : Fixer) (law : DtLaw cfg.ext) :
    (parseBlocks cfg rows f).ending = .exhausted ∨
    (cfg.tracker = .raising ∧ ∃ r, (parseBlocks cfg rows f).ending = .inputError r) := by
  have := only_input_error cfg rows f
  cases he : (parseBlocks cfg rows f).ending with
  | exhausted => left; rfl
  | inputError r => rw [he] at this; right; exact ⟨this.1, r, rfl⟩
  | escaped e => rw [he] at this; exact absurd this (no_residual _ law e)

/-- text input: every cell `read_csv` hands over is a `str` (so the native-type faults cannot come from a CSV) -/
theorem readCsv_cells_are_text (sep : Char) (text : Str) :
    ∀ r ∈ readCsvRows sep text, ∀ c ∈ r, c.isStr = true := by
  intro r hr c hc
  simp only [readCsvRows, List.mem_map] at hr
  obtain ⟨l, _, rfl⟩ := hr
  simp only [List.mem_map] at hc
  obtain ⟨s, _, rfl⟩ := hc
  rfl

theorem readCsv_only_input_error (cfg : Config) (sep : Char) (text : Str) (f : Fixer) (law : DtLaw cfg.ext) :
    (readCsv cfg sep text f).ending = .exhausted ∨
    (cfg.tracker = .raising ∧ ∃ r, (readCsv cfg sep text f).ending = .inputError r) :=
  never_escapes cfg _ f law

/-! ## 4. located -/

/-- **located**: the row of the InputError, and of every issue a collecting tracker receives, is the origin row
    of a TABLE block of the input that failed, and that row of the input is the block's `**` row (C03: a TABLE
    block is the contiguous slice of the input starting at its origin row) -/
theorem located (cfg : Config) (rows : List Row) (f : Fixer) :
    (∀ r, (parseBlocks cfg rows f).ending = .inputError r ∨ r ∈ (parseBlocks cfg rows f).issues →
      ∃ b ∈ segment rows, b.first = r ∧ b.ty = .table ∧ fails cfg f.cfg b ∧
        (rows.drop r).take b.rows.length = b.rows ∧
        ∃ s r0, rows[r]? = some (.str s :: r0) ∧ classify s = some .table) := by
  intro r hr
  have hv := (runBlocks_eq_runV cfg (segment rows) f).1
  have hb : ∀ b ∈ segment rows, ∀ e, verdict cfg f.cfg b = some (.error e) → caught e = true ∨ Residual cfg.ext e :=
    fun b hb e he => (verdict_errors cfg f.cfg rows b hb e he).2
  have hend := runV_ending cfg f.cfg (segment rows) hb
  have he : (parseBlocks cfg rows f).ending = (runV cfg f.cfg (segment rows)).2.2 := by
    have := congrArg (fun x => x.2.2) hv; simpa [view, parseBlocks] using this
  have hi : (parseBlocks cfg rows f).issues = (runV cfg f.cfg (segment rows)).2.1 := by
    have := congrArg (fun x => x.2.1) hv; simpa [view, parseBlocks] using this
  have key : ∃ b ∈ segment rows, b.first = r ∧ fails cfg f.cfg b := by
    rcases hr with hr | hr
    · rw [he] at hr
      have := hend.1
      rw [hr] at this
      exact this.2
    · rw [hi] at hr
      exact hend.2 r hr
  obtain ⟨b, hm, h1, e, h2, h3⟩ := key
  have hty := (verdict_errors cfg f.cfg rows b hm e h2).1
  have hok := C03.segment_origin_row rows b hm
  have hslice := hok.1 (by rw [hty]; decide)
  obtain ⟨s, r0, rest, hrows, hcl⟩ := (segment_heads rows b hm).1 hty
  refine ⟨b, hm, h1, hty, ⟨e, h2, h3⟩, by rw [← h1]; exact hslice, s, r0, ?_, hcl⟩
  rw [h1] at hslice
  rw [hrows] at hslice
  have : (rows.drop r)[0]? = some (.str s :: r0) := by
    have h0 : ((rows.drop r).take ((Cell.str s :: r0) :: rest).length)[0]? = some (.str s :: r0) := by
      rw [hslice]; rfl
    simpa [List.getElem?_take] using h0
  simpa [List.getElem?_drop] using this

/-! ## 5. blocks that end before the damage are delivered unchanged, first -/

theorem runV_cons (cfg : Config) (fcfg : FixCfg) (b : Block Row) (bs : List (Block Row)) :
    runV cfg fcfg (b :: bs) =
      match verdict cfg fcfg b with
      | none => runV cfg fcfg bs
      | some (.ok v) => (⟨b.ty, b.first, v⟩ :: (runV cfg fcfg bs).1, (runV cfg fcfg bs).2.1, (runV cfg fcfg bs).2.2)
      | some (.error e) =>
        if caught e then
          match cfg.tracker with
          | .raising => ([], [b.first], .inputError b.first)
          | .collecting => ((runV cfg fcfg bs).1, b.first :: (runV cfg fcfg bs).2.1, (runV cfg fcfg bs).2.2)
        else ([], [], .escaped e) := by
  rw [runV]
  cases verdict cfg fcfg b with
  | none => rfl
  | some r => cases r <;> rfl

theorem runV_append (cfg : Config) (fcfg : FixCfg) (xs ys : List (Block Row)) :
    runV cfg fcfg (xs ++ ys) =
      match (runV cfg fcfg xs).2.2 with
      | .exhausted => ((runV cfg fcfg xs).1 ++ (runV cfg fcfg ys).1,
                       (runV cfg fcfg xs).2.1 ++ (runV cfg fcfg ys).2.1, (runV cfg fcfg ys).2.2)
      | _ => runV cfg fcfg xs := by
  induction xs with
  | nil => simp [runV]
  | cons b xs ih =>
    simp only [List.cons_append, runV_cons]
    cases hv : verdict cfg fcfg b with
    | none => simpa using ih
    | some res =>
      cases res with
      | ok v =>
        simp only [ih]
        cases hx : (runV cfg fcfg xs).2.2 <;> simp [hx]
      | error e =>
        simp only []
        by_cases hc : caught e = true
        · simp only [hc, if_true]
          cases cfg.tracker with
          | raising => rfl
          | collecting =>
            simp only [ih]
            cases hx : (runV cfg fcfg xs).2.2 <;> simp [hx]
        · simp [hc]

/-- **earlier blocks delivered**: take any split `rows = p ++ q` (the damage lies in `q`). The blocks the splitter
    completes inside `p` — all but the last block of `segment p`, by C03 prefix stability — are judged first and
    exactly as they are judged on their own: if none of them stops the read, their deliveries (and issues) are an
    initial segment of what the whole read delivers; if one of them stops the read, the whole read ends there,
    identically. Nothing in `q` can change them. -/
theorem earlier_blocks_delivered (cfg : Config) (p q : List Row) (f : Fixer) :
    ((runV cfg f.cfg (segment p).dropLast).2.2 = .exhausted →
      (runV cfg f.cfg (segment p).dropLast).1 <+: (parseBlocks cfg (p ++ q) f).blocks ∧
      (runV cfg f.cfg (segment p).dropLast).2.1 <+: (parseBlocks cfg (p ++ q) f).issues) ∧
    ((runV cfg f.cfg (segment p).dropLast).2.2 ≠ .exhausted →
      view (parseBlocks cfg (p ++ q) f) = runV cfg f.cfg (segment p).dropLast) := by
  obtain ⟨t, ht⟩ := C03.segment_prefix_stable p q
  have hv : view (parseBlocks cfg (p ++ q) f) = runV cfg f.cfg ((segment p).dropLast ++ t) := by
    rw [ht]; exact (runBlocks_eq_runV cfg (segment (p ++ q)) f).1
  rw [runV_append] at hv
  constructor
  · intro he
    rw [he] at hv
    simp only [view] at hv
    have h1 : (parseBlocks cfg (p ++ q) f).blocks = _ := congrArg (fun x => x.1) hv
    have h2 : (parseBlocks cfg (p ++ q) f).issues = _ := congrArg (fun x => x.2.1) hv
    simp only [] at h1 h2
    rw [h1, h2]
    exact ⟨List.prefix_append _ _, List.prefix_append _ _⟩
  · intro he
    cases hx : (runV cfg f.cfg (segment p).dropLast).2.2 with
    | exhausted => exact absurd hx he
    | inputError r => rw [hx] at hv; exact hv
    | escaped e => rw [hx] at hv; exact hv

/-- the same statement for an undamaged input `p ++ q` and a damaged one `p ++ q'` sharing the prefix `p`: both
    reads start with the same deliveries from the blocks completed inside `p` -/
theorem damaged_and_undamaged_agree_on_prefix (cfg : Config) (p q q' : List Row) (f : Fixer)
    (he : (runV cfg f.cfg (segment p).dropLast).2.2 = .exhausted) :
    ∃ pre : List Delivered,
      pre <+: (parseBlocks cfg (p ++ q) f).blocks ∧ pre <+: (parseBlocks cfg (p ++ q') f).blocks :=
  ⟨_, ((earlier_blocks_delivered cfg p q f).1 he).1, ((earlier_blocks_delivered cfg p q' f).1 he).1⟩

/-! ## 6. collecting tracker: reading continues; raising tracker: stops at the first failing block -/

/-- what a block contributes to the output, from its own verdict -/
def deliveredOf (cfg : Config) (fcfg : FixCfg) (b : Block Row) : Option Delivered :=
  match verdict cfg fcfg b with
  | some (.ok v) => some ⟨b.ty, b.first, v⟩
  | _ => none

def issueOf (cfg : Config) (fcfg : FixCfg) (b : Block Row) : Option Nat :=
  match verdict cfg fcfg b with
  | some (.error e) => if caught e then some b.first else none
  | _ => none

def failsB (cfg : Config) (fcfg : FixCfg) (b : Block Row) : Bool :=
  match verdict cfg fcfg b with
  | some (.error e) => caught e
  | _ => false

theorem runV_collecting (cfg : Config) (fcfg : FixCfg) (bs : List (Block Row)) (ht : cfg.tracker = .collecting)
    (hb : ∀ b ∈ bs, ∀ e, verdict cfg fcfg b = some (.error e) → caught e = true) :
    runV cfg fcfg bs = (bs.filterMap (deliveredOf cfg fcfg), bs.filterMap (issueOf cfg fcfg), .exhausted) := by
  induction bs with
  | nil => simp [runV]
  | cons b bs ih =>
    have ih' := ih (fun b' hb' => hb b' (List.mem_cons_of_mem _ hb'))
    rw [runV_cons]
    cases hv : verdict cfg fcfg b with
    | none => simp [ih', List.filterMap_cons, deliveredOf, issueOf, hv]
    | some res =>
      cases res with
      | ok v => simp [ih', List.filterMap_cons, deliveredOf, issueOf, hv]
      | error e =>
        have hc := hb b List.mem_cons_self e hv
        simp [ih', List.filterMap_cons, deliveredOf, issueOf, hv, hc, ht]

theorem runV_raising (cfg : Config) (fcfg : FixCfg) (bs : List (Block Row)) (ht : cfg.tracker = .raising)
    (hb : ∀ b ∈ bs, ∀ e, verdict cfg fcfg b = some (.error e) → caught e = true) :
    runV cfg fcfg bs =
      match bs.dropWhile (fun b => !failsB cfg fcfg b) with
      | [] => (bs.filterMap (deliveredOf cfg fcfg), [], .exhausted)
      | b :: _ => ((bs.takeWhile (fun b => !failsB cfg fcfg b)).filterMap (deliveredOf cfg fcfg), [b.first],
                   .inputError b.first) := by
  induction bs with
  | nil => simp [runV]
  | cons b bs ih =>
    have ih' := ih (fun b' hb' => hb b' (List.mem_cons_of_mem _ hb'))
    rw [runV_cons]
    cases hv : verdict cfg fcfg b with
    | none =>
      have hf : failsB cfg fcfg b = false := by simp [failsB, hv]
      simp only [List.dropWhile_cons, List.takeWhile_cons, hf, Bool.not_false, if_true, ih']
      cases bs.dropWhile (fun b => !failsB cfg fcfg b) <;> simp [List.filterMap_cons, deliveredOf, hv]
    | some res =>
      cases res with
      | ok v =>
        have hf : failsB cfg fcfg b = false := by simp [failsB, hv]
        simp only [List.dropWhile_cons, List.takeWhile_cons, hf, Bool.not_false, if_true, ih']
        cases bs.dropWhile (fun b => !failsB cfg fcfg b) <;> simp [List.filterMap_cons, deliveredOf, hv]
      | error e =>
        have hc := hb b List.mem_cons_self e hv
        have hf : failsB cfg fcfg b = true := by simp [failsB, hv, hc]
        simp [List.dropWhile_cons, List.takeWhile_cons, hf, hc, ht]

/-- **collecting continues**: with a tracker that collects instead of raising (and the external law), the read
    always runs to the end; it delivers exactly the blocks whose own verdict is a value, in input order, and
    reports exactly one issue per failing block, at that block's origin row. A block's verdict is a function of
    the block alone (and the fixer's configuration): an undamaged block after the damage is delivered exactly as
    it is in the undamaged input. -/
theorem collecting_continues (cfg : Config) (rows : List Row) (f : Fixer) (ht : cfg.tracker = .collecting)
    (law : DtLaw cfg.ext) :
    view (parseBlocks cfg rows f) =
      ((segment rows).filterMap (deliveredOf cfg f.cfg), (segment rows).filterMap (issueOf cfg f.cfg), .exhausted) := by
  rw [show view (parseBlocks cfg rows f) = runV cfg f.cfg (segment rows) from (runBlocks_eq_runV cfg _ f).1]
  apply runV_collecting cfg f.cfg _ ht
  intro b hb e he
  rcases (verdict_errors cfg f.cfg rows b hb e he).2 with h | h
  · exact h
  · exact absurd h (no_residual _ law e)

/-- **raising stops at the first**: with the default tracker the read delivers the blocks before the first failing
    block — each exactly as with the collecting tracker — and then raises the InputError of that block -/
theorem raising_stops_at_first (cfg : Config) (rows : List Row) (f : Fixer) (ht : cfg.tracker = .raising)
    (law : DtLaw cfg.ext) :
    view (parseBlocks cfg rows f) =
      match (segment rows).dropWhile (fun b => !failsB cfg f.cfg b) with
      | [] => ((segment rows).filterMap (deliveredOf cfg f.cfg), [], .exhausted)
      | b :: _ => (((segment rows).takeWhile (fun b => !failsB cfg f.cfg b)).filterMap (deliveredOf cfg f.cfg),
                   [b.first], .inputError b.first) := by
  rw [show view (parseBlocks cfg rows f) = runV cfg f.cfg (segment rows) from (runBlocks_eq_runV cfg _ f).1]
  apply runV_raising cfg f.cfg _ ht
  intro b hb e he
  rcases (verdict_errors cfg f.cfg rows b hb e he).2 with h | h
  · exact h
  · exact absurd h (no_residual _ law e)

/-- the tracker does not influence any block's verdict -/
theorem verdict_tracker_free (form : Form) (filter : Option (BT → Str → Bool)) (ext : Ext) (fcfg : FixCfg)
    (b : Block Row) :
    verdict ⟨form, filter, .raising, ext⟩ fcfg b = verdict ⟨form, filter, .collecting, ext⟩ fcfg b := rfl

/-! ## 6b. re-synchronisation: a marker row cuts the stream; what follows is read as if it stood alone -/

section
variable {R : Type} (kindOf : R → Kind)

/-- the same block, `n` rows further down -/
def shiftB (n : Nat) (b : Block R) : Block R := { b with first := b.first + n }
def shiftS (n : Nat) (s : St R) : St R := { s with first := s.first + n }

/-- a row that always starts a new block of its own: `**table`, `***directive`, `:template` -/
def IsMarker (k : Kind) : Prop := k = .tbl ∨ k = .dir ∨ k = .tpl

theorem emit_shift (n : Nat) (s : St R) : emit (shiftS n s) = (emit s).map (shiftB n) := by
  unfold emit shiftS shiftB
  cases s.grid <;> simp

theorem step_shift (n i : Nat) (s : St R) (r : R) :
    (step kindOf (shiftS n s) (i + n) r).1 = shiftS n (step kindOf s i r).1 ∧
    (step kindOf (shiftS n s) (i + n) r).2 = (step kindOf s i r).2.map (shiftB n) := by
  have he := emit_shift n s
  unfold step switch
  cases hk : kindOf r with
  | plain => simp [shiftS]
  | mta =>
    by_cases hs : s.state = .metadata
    · simp [shiftS, hs]
    · simp only [show (shiftS n s).state = s.state from rfl, hs, if_false, he]; simp [shiftS]
  | blankRow keep =>
    by_cases hs : s.state = .blank
    · simp [shiftS, hs]
    · simp only [show (shiftS n s).state = s.state from rfl, hs, if_false, he]; simp [shiftS]
  | tbl => simp only [he]; simp [shiftS]
  | dir => simp only [he]; simp [shiftS]
  | tpl => simp only [he]; simp [shiftS]

theorem go_shift (n i : Nat) (s : St R) (rs : List R) :
    go kindOf (i + n) (shiftS n s) rs = (go kindOf i s rs).map (shiftB n) := by
  induction rs generalizing i s with
  | nil => simp [go, emit_shift]
  | cons r rs ih =>
    have hs := step_shift kindOf n i s r
    simp only [go, hs.1, hs.2, List.map_append]
    have := ih (i + 1) (step kindOf s i r).1
    rw [show i + 1 + n = i + n + 1 by omega] at this
    rw [this]

theorem go_append (i : Nat) (s : St R) (p q : List R) :
    go kindOf i s (p ++ q) =
      (emitted kindOf i s p).1 ++ go kindOf (i + p.length) (emitted kindOf i s p).2 q := by
  induction p generalizing i s with
  | nil => simp [emitted]
  | cons r rs ih =>
    simp only [List.cons_append, go, emitted, ih, List.append_assoc, List.length_cons]
    rw [show i + 1 + rs.length = i + (rs.length + 1) by omega]

/-- a marker row ends whatever block is open and starts its own, whatever the state -/
theorem go_marker (i : Nat) (s : St R) (r : R) (rs : List R) (hm : IsMarker (kindOf r)) :
    ∃ nxt, go kindOf i s (r :: rs) = emit s ++ go kindOf (i + 1) ⟨[r], nxt, i⟩ rs := by
  rcases hm with h | h | h
  · exact ⟨.table, by simp [go, step, switch, h]⟩
  · exact ⟨.directive, by simp [go, step, switch, h]⟩
  · exact ⟨.template, by simp [go, step, switch, h]⟩

theorem go_marker_state (i j : Nat) (s s' : St R) (r : R) (rs : List R) (hm : IsMarker (kindOf r)) :
    ∃ nxt, go kindOf i s (r :: rs) = emit s ++ go kindOf (i + 1) ⟨[r], nxt, i⟩ rs ∧
           go kindOf j s' (r :: rs) = emit s' ++ go kindOf (j + 1) ⟨[r], nxt, j⟩ rs := by
  rcases hm with h | h | h
  · exact ⟨.table, by simp [go, step, switch, h], by simp [go, step, switch, h]⟩
  · exact ⟨.directive, by simp [go, step, switch, h], by simp [go, step, switch, h]⟩
  · exact ⟨.template, by simp [go, step, switch, h], by simp [go, step, switch, h]⟩

/-- **re-synchronisation**: if the rows `q` begin with a marker row, the blocks of `p ++ q` are the blocks of `p`
    followed by the blocks of `q` read on its own, moved down by the length of `p`. Nothing in `p` — however
    damaged — reaches past that marker row. -/
theorem run_resync (p : List R) (r : R) (qs : List R) (hm : IsMarker (kindOf r)) :
    run kindOf (p ++ r :: qs) = run kindOf p ++ (run kindOf (r :: qs)).map (shiftB p.length) := by
  unfold run
  rw [go_append, C03.go_eq_emitted kindOf 0 initSt p]
  obtain ⟨nxt, h1, h2⟩ := go_marker_state kindOf (0 + p.length) 0 (emitted kindOf 0 initSt p).2 initSt r qs hm
  rw [h1, h2]
  have he : emit (initSt : St R) = [] := rfl
  rw [he, List.nil_append, List.append_assoc]
  congr 2
  have := go_shift kindOf p.length (0 + 1) ⟨[r], nxt, 0⟩ qs
  simp only [shiftS] at this
  rw [← this]
  congr 1
  omega

end

/-- the marker rows of native input: a text first cell classified `**`, `***` or `:`-template -/
theorem segment_resync (p : List Row) (r : Row) (qs : List Row) (hm : IsMarker (rowKind r)) :
    segment (p ++ r :: qs) = segment p ++ (segment (r :: qs)).map (shiftB p.length) :=
  run_resync rowKind p r qs hm

def shiftD (n : Nat) (d : Delivered) : Delivered := { d with first := d.first + n }

theorem verdict_shift (cfg : Config) (fcfg : FixCfg) (n : Nat) (b : Block Row) :
    verdict cfg fcfg (shiftB n b) = verdict cfg fcfg b := rfl

theorem runV_shift (cfg : Config) (fcfg : FixCfg) (n : Nat) (bs : List (Block Row)) :
    runV cfg fcfg (bs.map (shiftB n)) =
      ((runV cfg fcfg bs).1.map (shiftD n), (runV cfg fcfg bs).2.1.map (· + n),
       match (runV cfg fcfg bs).2.2 with
       | .exhausted => .exhausted
       | .inputError r => .inputError (r + n)
       | .escaped e => .escaped e) := by
  induction bs with
  | nil => simp [runV]
  | cons b bs ih =>
    simp only [List.map_cons, runV_cons, verdict_shift, ih]
    cases hv : verdict cfg fcfg b with
    | none => rfl
    | some res =>
      cases res with
      | ok v => simp [shiftD, shiftB]
      | error e =>
        simp only []
        by_cases hc : caught e = true
        · simp only [hc, if_true]
          cases cfg.tracker <;> simp [shiftB]
        · simp [hc]

/-- **undamaged blocks after the damage are delivered too** (collecting tracker, external law): split the input
    at any marker row, `rows = p ++ q` with `q` starting `**…`, `***…` or `:…`. The read delivers what reading `p`
    alone delivers, followed by exactly what reading `q` alone delivers — same block types, same values, origin
    rows moved down by the length of `p` — and likewise for the issues. So whatever is damaged inside `p`, every
    block from that marker row on comes out as in the undamaged input. -/
theorem collecting_resync (cfg : Config) (p : List Row) (r : Row) (qs : List Row) (f : Fixer)
    (hm : IsMarker (rowKind r)) (ht : cfg.tracker = .collecting) (law : DtLaw cfg.ext) :
    (parseBlocks cfg (p ++ r :: qs) f).blocks =
      (parseBlocks cfg p f).blocks ++ (parseBlocks cfg (r :: qs) f).blocks.map (shiftD p.length) ∧
    (parseBlocks cfg (p ++ r :: qs) f).issues =
      (parseBlocks cfg p f).issues ++ (parseBlocks cfg (r :: qs) f).issues.map (· + p.length) := by
  have h0 := (runBlocks_eq_runV cfg (segment (p ++ r :: qs)) f).1
  have h1 := (runBlocks_eq_runV cfg (segment p) f).1
  have h2 := (runBlocks_eq_runV cfg (segment (r :: qs)) f).1
  have e1 := collecting_continues cfg p f ht law
  have hp : (runV cfg f.cfg (segment p)).2.2 = .exhausted := by
    have : view (parseBlocks cfg p f) = runV cfg f.cfg (segment p) := h1
    rw [← this, e1]
  have hr : runV cfg f.cfg (segment (p ++ r :: qs)) =
      ((runV cfg f.cfg (segment p)).1 ++ (runV cfg f.cfg (segment (r :: qs))).1.map (shiftD p.length),
       (runV cfg f.cfg (segment p)).2.1 ++ (runV cfg f.cfg (segment (r :: qs))).2.1.map (· + p.length),
       match (runV cfg f.cfg (segment (r :: qs))).2.2 with
       | .exhausted => .exhausted
       | .inputError r => .inputError (r + p.length)
       | .escaped e => .escaped e) := by
    rw [segment_resync p r qs hm, runV_append, runV_shift, hp]
  rw [hr] at h0
  simp only [view, parseBlocks] at h0 h1 h2 ⊢
  have b0 := congrArg (fun x => x.1) h0
  have i0 := congrArg (fun x => x.2.1) h0
  have b1 := congrArg (fun x => x.1) h1
  have i1 := congrArg (fun x => x.2.1) h1
  have b2 := congrArg (fun x => x.1) h2
  have i2 := congrArg (fun x => x.2.1) h2
  simp only [] at b0 i0 b1 i1 b2 i2
  rw [b0, i0, b1, i1, b2, i2]
  exact ⟨rfl, rfl⟩

/-! ## 7. non-vacuity -/

theorem exampleExt_law : DtLaw exampleExt := by
  intro s n h; simp [exampleExt] at h

def exRows : List Row :=
  [[.str "**a".toList], [.str "all".toList], [.str "x".toList], [.str "-".toList], [.str "1.5".toList], [],
   [.str "**b".toList], [.str "all".toList], [.str "y".toList], [.str "-".toList], [.str "oops".toList], [],
   [.str "**c".toList], [.str "all".toList], [.str "z".toList], [.str "-".toList], [.str "1.5".toList]]

def endCode : Ending → Nat × Nat
  | .exhausted => (0, 0)
  | .inputError r => (1, r)
  | .escaped _ => (2, 0)

/-- three tables, the second damaged: default tracker delivers the first and raises InputError at row 6;
    a collecting tracker delivers the first and the third and records one issue at row 6 -/
example :
    let r := parseBlocks ⟨.pdtable, none, .raising, exampleExt⟩ exRows ⟨FixCfg.strict, 0, 0, []⟩
    (r.blocks.map (fun d => d.first), r.issues, endCode r.ending) = ([0], [6], (1, 6)) := by decide

example :
    let r := parseBlocks ⟨.pdtable, none, .collecting, exampleExt⟩ exRows ⟨FixCfg.strict, 0, 0, []⟩
    (r.blocks.map (fun d => d.first), r.issues, endCode r.ending) = ([0, 12], [6], (0, 0)) := by decide

/-- a table cut after its first row, a table whose header holds native cells, a one-cell transposed line:
    located input errors, not crashes -/
example :
    (endCode (parseBlocks ⟨.pdtable, none, .raising, exampleExt⟩ [[.str "**t".toList]] ⟨FixCfg.strict, 0, 0, []⟩).ending,
     endCode (parseBlocks ⟨.pdtable, none, .raising, exampleExt⟩
       [[], [.str "**t".toList], [.str "all".toList], [.int 5 "5.0".toList, .str "a".toList], [.none, .float "1.5".toList]]
       ⟨FixCfg.strict, 0, 0, []⟩).ending,
     endCode (parseBlocks ⟨.jsondata, none, .raising, exampleExt⟩
       [[.str "**t*".toList], [.str "all".toList], [.str "x".toList]] ⟨FixCfg.strict, 0, 0, []⟩).ending) =
    ((1, 0), (1, 1), (1, 0)) := by decide

/-- re-synchronisation on the example: the third table starts at a marker row -/
example : IsMarker (rowKind [.str "**c".toList]) := Or.inl (by decide)

example : readCsvRows ';' "**t;\nall\n\na;b".toList =
    [[.str "**t".toList, .str [] ], [.str "all".toList], [.str [] ], [.str "a".toList, .str "b".toList]] := by decide

end Pdt.C12
