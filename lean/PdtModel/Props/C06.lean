/-
  Props/C06.lean — "Unit conversion changes values and unit labels together, or neither".

  Statement (properties.jsonl C06): for every table, every form of target specification (per-column
  mapping, positional list, callable, 'base') and every converter, convert_units returns a new table in
  which each targeted convertible column holds exactly the converter's output for that column's
  original values, row for row whatever the row index, and carries the requested unit (for 'base', the
  base unit the converter reported), while untargeted columns, row order, index, name and destinations
  are unchanged and the original table is not modified.  Columns with unit text, onoff or datetime are
  skipped by 'base' and refused when a different unit is requested for them, and when a conversion
  fails the caller gets the error rather than a partly relabelled table.

  The pandas primitive behind the values setter is a parameter (`assign : Assign`); the clauses about the
  converted values assume the law `Positional assign` (what `df[name] = ndarray` does), `positionalAssign`
  satisfies it, and an example at the end shows that a label-aligned primitive on a permuted index breaks
  `Converted`.  `convert_succeeds` states when the call returns; `first_failure_error` that the caller gets
  exactly the error of the first failing column.

  Structure: `convertUnits_refines` relates the heap-writing model (`Convert.convertUnits`) to the pure
  column-by-column fold `Spec.convCols`; the property clauses are then read off per column
  (`Spec.Converted`) for tables with any number of columns and rows, any row index, any converter
  (stateful ones included: the converter sees its call number).
-/
import PdtModel.Model.Convert
import PdtModel.Gen.Consts
set_option linter.unusedSimpArgs false
namespace Pdt.C06
open Pdt Pdt.Convert

/-- tie to source: proxy.py `INCONVERTIBLE_UNIT_INDICATORS` as translated on this run (the translator sorts the
    literal: only membership is used by the code) -/
theorem inconvertible_pinned :
    Gen.inconvertibleUnits = ["datetime".toList, "onoff".toList, "text".toList] := by decide

namespace Spec

/-- unit text, datetime or onoff -/
def special (u : Str) : Bool := u == "datetime".toList || u == "onoff".toList || u == "text".toList

/-- the column is asked for a unit other than the one it has -/
def targeted (c : Col) : Option Str → Bool
  | none => false
  | some u => u != c.unit

/-- the per-column target spellings -/
def origin : Str := "__origin__".toList
def base : Str := "__base__".toList

/-- the argument the converter receives as target: none for the two-argument "base" call -/
def convArg (u : Str) : Option Str := if u = base then none else some u

/-- the unit label a converted column carries: requested, or for base what the converter reported -/
def newUnit (u reported : Str) : Str := if u = base then reported else u

/-- what column `c` must have become (`c'`) when its target is `tgt` and `k` converter calls preceded -/
def Converted (conv : Conv) (k nrows : Nat) (c : Col) (tgt : Option Str) (c' : Col) : Prop :=
  if targeted c tgt = false then c' = c
  else ∃ u vs reported, tgt = some u ∧ special c.unit = false ∧ u ≠ origin ∧
    conv k c.vals c.unit (convArg u) = .ok (vs, reported) ∧ vs.length = nrows ∧
    c' = { name := c.name, vals := vs, unit := newUnit u reported }

/-- number of converter calls made for the first `j` of the columns `cols` (first one at position `p`) -/
def callsBefore (tgt : Nat → Col → Option Str) : Nat → List Col → Nat → Nat
  | _, [], _ => 0
  | _, _ :: _, 0 => 0
  | p, c :: cs, j + 1 => (if targeted c (tgt p c) then 1 else 0) + callsBefore tgt (p + 1) cs j

/-- the dispatcher forms as per-column targets, with literal constants -/
def target (to : To) (ncols : Nat) : Except Err (Nat → Col → Option Str) :=
  let positional : List (Option Str) → Except Err (Nat → Col → Option Str) := fun xs =>
    if xs.length ≠ ncols then Except.error Err.valueError else .ok (fun j _ => (xs[j]?).join)
  match to with
  | .str s =>
    if s = "origin".toList then .ok (fun _ c => if special c.unit then none else some origin)
    else if s = "base".toList then .ok (fun _ c => if special c.unit then none else some base)
    else positional (s.map (fun ch => some [ch]))
  | .seq xs => positional xs
  | .dict m => .ok (fun _ c => dictGet m c.name)
  | .fn f => .ok (fun _ c => f c.name)
  | .other => .error .typeError

/-- column-by-column conversion as a pure fold: `k` calls so far, first column at position `p` -/
def convCols (assign : Assign) (conv : Conv) (tgt : Nat → Col → Option Str) (idx : List Val) :
    Nat → Nat → List Col → Except Err (List Col × Nat)
  | k, _, [] => .ok ([], k)
  | k, p, c :: cs =>
    match convertCol assign conv k idx c (tgt p c) with
    | .error e => .error e
    | .ok (c', k') =>
      match convCols assign conv tgt idx k' (p + 1) cs with
      | .error e => .error e
      | .ok (cs', k'') => .ok (c' :: cs', k'')

end Spec
open Spec

/- the assignment primitive of the values setter: arbitrary; the clauses that speak about the converted
   values assume `Positional assign` (`hpos`) -/
variable {assign : Assign}

/-- the primitive pandas 3 provides satisfies the law (non-vacuity of `hpos`) -/
theorem positionalAssign_positional : Positional positionalAssign := fun _ _ _ _ => rfl

/-! ## one column -/

theorem isSpecial_eq (u : Str) : isSpecial u = special u := by
  simp only [isSpecial, inconvertible_pinned, special, List.contains_cons, List.contains_nil, Bool.or_false, Bool.or_assoc]

theorem originTok_lit : originTok = origin := rfl
theorem baseTok_lit : baseTok = base := rfl

/-- `Converted` before the law of the assignment primitive is used: the column is whatever `assign` made of
    the converter's output -/
def ConvertedRaw (assign : Assign) (conv : Conv) (k : Nat) (idx : List Val) (c : Col) (tgt : Option Str)
    (c' : Col) : Prop :=
  if targeted c tgt = false then c' = c
  else ∃ u vs reported, tgt = some u ∧ special c.unit = false ∧ u ≠ origin ∧
    conv k c.vals c.unit (convArg u) = .ok (vs, reported) ∧ vs.length = idx.length ∧
    c' = { assign idx c vs with unit := newUnit u reported }

theorem convertCol_raw (conv : Conv) (k : Nat) (idx : List Val) (c : Col)
    (tgt : Option Str) (c' : Col) (k' : Nat)
    (h : convertCol assign conv k idx c tgt = .ok (c', k')) :
    ConvertedRaw assign conv k idx c tgt c' ∧ k' = k + (if targeted c tgt then 1 else 0) := by
  cases tgt with
  | none =>
    simp [convertCol] at h
    obtain ⟨rfl, rfl⟩ := h
    simp [ConvertedRaw, targeted]
  | some u =>
    unfold convertCol at h
    simp only [originTok_lit, baseTok_lit, isSpecial_eq] at h
    split at h
    · rename_i h1
      simp only [Except.ok.injEq, Prod.mk.injEq] at h
      obtain ⟨rfl, rfl⟩ := h
      simp [ConvertedRaw, targeted, h1]
    · rename_i h1
      have ht : targeted c (some u) = true := by simp [targeted, h1]
      cases hs : special c.unit with
      | true => simp [hs] at h
      | false =>
        simp only [hs, Bool.false_eq_true, if_false] at h
        by_cases h2 : u = origin
        · simp [h2] at h
        · simp only [h2, if_false] at h
          by_cases h3 : u = base
          · simp only [h3, if_true] at h
            cases hc : conv k c.vals c.unit none with
            | error e => simp [hc] at h
            | ok r =>
              obtain ⟨vs, ur⟩ := r
              simp only [hc] at h
              by_cases hl : vs.length = idx.length
              · simp only [hl, ne_eq, not_true_eq_false, if_false, Except.ok.injEq, Prod.mk.injEq] at h
                obtain ⟨rfl, rfl⟩ := h
                refine ⟨?_, by simp [ht]⟩
                simp only [ConvertedRaw, ht, Bool.true_eq_false, if_false]
                exact ⟨u, vs, ur, rfl, hs, h2, by simp [convArg, h3, hc], hl, by simp [newUnit, h3]⟩
              · simp [hl] at h
          · simp only [h3, if_false] at h
            cases hc : conv k c.vals c.unit (some u) with
            | error e => simp [hc] at h
            | ok r =>
              obtain ⟨vs, ur⟩ := r
              simp only [hc] at h
              by_cases hl : vs.length = idx.length
              · simp only [hl, ne_eq, not_true_eq_false, if_false, Except.ok.injEq, Prod.mk.injEq] at h
                obtain ⟨rfl, rfl⟩ := h
                refine ⟨?_, by simp [ht]⟩
                simp only [ConvertedRaw, ht, Bool.true_eq_false, if_false]
                exact ⟨u, vs, ur, rfl, hs, h2, by simp [convArg, h3, hc], hl, by simp [newUnit, h3]⟩
              · simp [hl] at h
/-- `Column.convert_units` succeeds only in the ways `Converted` lists (given a positional assignment
    primitive), and makes one converter call exactly for a targeted column -/
theorem convertCol_ok (hpos : Positional assign) (conv : Conv) (k : Nat) (idx : List Val) (c : Col)
    (tgt : Option Str) (c' : Col) (k' : Nat)
    (h : convertCol assign conv k idx c tgt = .ok (c', k')) :
    Converted conv k idx.length c tgt c' ∧ k' = k + (if targeted c tgt then 1 else 0) := by
  obtain ⟨h1, h2⟩ := convertCol_raw conv k idx c tgt c' k' h
  refine ⟨?_, h2⟩
  unfold ConvertedRaw at h1
  unfold Converted
  split
  · rename_i ht; simpa [ht] using h1
  · rename_i ht
    simp only [ht, if_false] at h1
    obtain ⟨u, vs, rep, hu, hs, ho, hc, hl, hc'⟩ := h1
    exact ⟨u, vs, rep, hu, hs, ho, hc, hl, by rw [hc', hpos idx c vs hl]⟩

/-- the guard precedes the converter: a special column asked for another unit is refused, whatever
    the converter is -/
theorem convertCol_special (conv : Conv) (k : Nat) (idx : List Val) (c : Col) (u : Str)
    (hs : special c.unit = true) (hu : u ≠ c.unit) :
    convertCol assign conv k idx c (some u) = .error .unitConversionNotDefined := by
  unfold convertCol
  simp only [hu, if_false, isSpecial_eq, hs, if_true]

/-- a column that is not targeted is returned as it is, without a converter call -/
theorem convertCol_untargeted (conv : Conv) (k : Nat) (idx : List Val) (c : Col) (tgt : Option Str)
    (h : targeted c tgt = false) : convertCol assign conv k idx c tgt = .ok (c, k) := by
  cases tgt with
  | none => rfl
  | some u => simp [targeted] at h; simp [convertCol, h]

/-- a converter failure is the column's failure, with the converter's own exception -/
theorem convertCol_conv_error (conv : Conv) (k : Nat) (idx : List Val) (c : Col) (u : Str) (e : Str)
    (hu : u ≠ c.unit) (hs : special c.unit = false) (ho : u ≠ origin)
    (hc : conv k c.vals c.unit (convArg u) = .error e) :
    convertCol assign conv k idx c (some u) = .error (.conv e) := by
  unfold convertCol
  simp only [originTok_lit, baseTok_lit, isSpecial_eq, hu, hs, ho, if_false, Bool.false_eq_true]
  by_cases hb : u = base
  · simp only [convArg, hb, if_true] at hc
    simp only [hb, if_true, hc]
  · simp only [convArg, hb, if_false] at hc
    simp only [hb, if_false, hc]

/-! ## the pure fold -/

theorem convCols_pointwise (hpos : Positional assign) (conv : Conv) (tgt : Nat → Col → Option Str) (idx : List Val)
    (cols : List Col) : ∀ (k p : Nat) (cs' : List Col) (k' : Nat),
    convCols assign conv tgt idx k p cols = .ok (cs', k') →
    cs'.length = cols.length ∧
    ∀ j c, cols[j]? = some c → ∃ c', cs'[j]? = some c' ∧
      Converted conv (k + callsBefore tgt p cols j) idx.length c (tgt (p + j) c) c' := by
  induction cols with
  | nil =>
    intro k p cs' k' h
    simp only [convCols, Except.ok.injEq, Prod.mk.injEq] at h
    obtain ⟨rfl, rfl⟩ := h
    exact ⟨rfl, fun j c hc => by simp at hc⟩
  | cons c cs ih =>
    intro k p cs' k' h
    unfold convCols at h
    cases h1 : convertCol assign conv k idx c (tgt p c) with
    | error e => simp [h1] at h
    | ok r1 =>
      obtain ⟨c1, k1⟩ := r1
      simp only [h1] at h
      cases h2 : convCols assign conv tgt idx k1 (p + 1) cs with
      | error e => simp [h2] at h
      | ok r2 =>
        obtain ⟨cs2, k2⟩ := r2
        simp only [h2, Except.ok.injEq, Prod.mk.injEq] at h
        obtain ⟨hcs, -⟩ := h
        subst hcs
        obtain ⟨hconv, hk1⟩ := convertCol_ok hpos conv k idx c (tgt p c) c1 k1 h1
        obtain ⟨hlen, hpt⟩ := ih k1 (p + 1) cs2 k2 h2
        refine ⟨by simp [hlen], ?_⟩
        intro j d hd
        cases j with
        | zero =>
          simp at hd; subst hd
          exact ⟨c1, by simp, by simpa [callsBefore] using hconv⟩
        | succ j =>
          simp only [List.getElem?_cons_succ] at hd ⊢
          obtain ⟨c', hc', hC⟩ := hpt j d hd
          refine ⟨c', hc', ?_⟩
          have e1 : k + callsBefore tgt p (c :: cs) (j + 1) = k1 + callsBefore tgt (p + 1) cs j := by
            simp [callsBefore, hk1]; omega
          have e2 : p + (j + 1) = p + 1 + j := by omega
          rw [e1, e2]; exact hC

/-- if any column's own conversion fails (at its place in the call sequence), the fold fails -/
theorem convCols_error_of_col (conv : Conv) (tgt : Nat → Col → Option Str) (idx : List Val)
    (cols : List Col) : ∀ (k p j : Nat) (c : Col), cols[j]? = some c →
    (∃ e, convertCol assign conv (k + callsBefore tgt p cols j) idx c (tgt (p + j) c) = .error e) →
    ∃ e, convCols assign conv tgt idx k p cols = .error e := by
  induction cols with
  | nil => intro k p j c h; simp at h
  | cons c0 cs ih =>
    intro k p j c hj ⟨e, he⟩
    unfold convCols
    cases h1 : convertCol assign conv k idx c0 (tgt p c0) with
    | error e1 => exact ⟨e1, rfl⟩
    | ok r1 =>
      obtain ⟨c1, k1⟩ := r1
      cases j with
      | zero =>
        simp at hj; subst hj
        simp [callsBefore] at he
        rw [he] at h1; cases h1
      | succ j =>
        simp only [List.getElem?_cons_succ] at hj
        have hk1 := (convertCol_raw conv k idx c0 (tgt p c0) c1 k1 h1).2
        have e1 : k + callsBefore tgt p (c0 :: cs) (j + 1) = k1 + callsBefore tgt (p + 1) cs j := by
          simp [callsBefore, hk1]; omega
        have e2 : p + (j + 1) = p + 1 + j := by omega
        rw [e1, e2] at he
        obtain ⟨e', he'⟩ := ih k1 (p + 1) j c hj ⟨e, he⟩
        simp [he']

/-! ## the heap-writing loop refines the fold -/

theorem write_other (w : World) (r j i : Nat) (c : Col) (h : i ≠ r) : (write w r j c)[i]? = w[i]? := by
  unfold write
  cases hr : w[r]? with
  | none => rfl
  | some t => simp [List.getElem?_set_ne (Ne.symm h)]

theorem write_length (w : World) (r j : Nat) (c : Col) : (write w r j c).length = w.length := by
  unfold write
  cases hr : w[r]? <;> simp

theorem loop_frame (conv : Conv) (tgt : Nat → Col → Option Str) (r : Nat) (js : List Nat) :
    ∀ (w : World) (k : Nat), (loop assign conv tgt r w k js).1.length = w.length ∧
      ∀ i, i ≠ r → (loop assign conv tgt r w k js).1[i]? = w[i]? := by
  induction js with
  | nil => intro w k; simp [loop]
  | cons j js ih =>
    intro w k
    unfold loop
    cases h1 : readCol w r j with
    | none => simp only [h1]; exact ih w k
    | some p =>
      obtain ⟨idx, c⟩ := p
      simp only [h1]
      cases h2 : convertCol assign conv k idx c (tgt j c) with
      | error e => simp
      | ok q =>
        obtain ⟨c', k'⟩ := q
        simp only
        obtain ⟨hl, hf⟩ := ih (write w r j c') k'
        exact ⟨by rw [hl, write_length], fun i hi => by rw [hf i hi, write_other w r j i c' hi]⟩

theorem set_append_mid {α} (pre : List α) (c c' : α) (rest : List α) :
    (pre ++ c :: rest).set pre.length c' = pre ++ c' :: rest := by
  induction pre with
  | nil => rfl
  | cons x pre ih => simp [List.set, ih]

theorem loop_spec (conv : Conv) (tgt : Nat → Col → Option Str) (r : Nat)
    (nm : Str) (ds : List Str) (idx : List Val) (rest : List Col) :
    ∀ (pre : List Col) (w : World) (k : Nat),
    w[r]? = some ⟨nm, ds, idx, pre ++ rest⟩ →
    match convCols assign conv tgt idx k pre.length rest with
    | .error e => (loop assign conv tgt r w k (List.range' pre.length rest.length)).2 = .error e
    | .ok (cs', _) =>
      (loop assign conv tgt r w k (List.range' pre.length rest.length)).2 = .ok () ∧
      (loop assign conv tgt r w k (List.range' pre.length rest.length)).1[r]? = some ⟨nm, ds, idx, pre ++ cs'⟩ := by
  induction rest with
  | nil => intro pre w k hw; simp [convCols, loop, hw]
  | cons c rest ih =>
    intro pre w k hw
    have hread : readCol w r pre.length = some (idx, c) := by
      simp [readCol, hw]
    simp only [List.length_cons, List.range'_succ, loop, hread, convCols]
    cases h1 : convertCol assign conv k idx c (tgt pre.length c) with
    | error e => simp
    | ok q =>
      obtain ⟨c', k'⟩ := q
      simp only
      have hw' : (write w r pre.length c')[r]? = some ⟨nm, ds, idx, (pre ++ [c']) ++ rest⟩ := by
        have hlt : r < w.length := by
          rcases Nat.lt_or_ge r w.length with h | h
          · exact h
          · rw [List.getElem?_eq_none h] at hw; cases hw
        simp [write, hw, List.getElem?_set_self hlt, set_append_mid]
      have := ih (pre ++ [c']) (write w r pre.length c') k' hw'
      simp only [List.length_append, List.length_cons, List.length_nil, Nat.zero_add] at this
      cases h2 : convCols assign conv tgt idx k' (pre.length + 1) rest with
      | error e => simpa [h2] using this
      | ok q2 =>
        obtain ⟨cs2, k2⟩ := q2
        simp only [h2] at this
        simpa using this

/-! ## the dispatcher -/

theorem form_spec (to : To) (ncols : Nat) :
    Spec.target to ncols = match form to with
      | .typeError => .error .typeError
      | .positional xs => if xs.length ≠ ncols then .error .valueError else .ok (fun j _ => (xs[j]?).join)
      | .each tgt => .ok tgt := by
  have hsp : isSpecial = special := funext isSpecial_eq
  cases to with
  | str s =>
    simp only [Spec.target, form, hsp, originTok_lit, baseTok_lit]
    by_cases h1 : s = "origin".toList
    · rw [if_pos h1, if_pos h1]
    · rw [if_neg h1, if_neg h1]
      by_cases h2 : s = "base".toList
      · rw [if_pos h2, if_pos h2]
      · rw [if_neg h2, if_neg h2]
  | seq xs => simp [Spec.target, form]
  | dict m => simp [Spec.target, form]
  | fn f => simp [Spec.target, form]
  | other => simp [Spec.target, form]

theorem runLoop_spec (w : World) (self : Nat) (h : self < w.length) (conv : Conv)
    (tgt : Nat → Col → Option Str) :
    let res := runLoop assign conv tgt (w ++ [w[self]]) w.length w[self].cols.length
    (∀ i, i < w.length → res.1[i]? = w[i]?) ∧
    match convCols assign conv tgt w[self].index 0 0 w[self].cols with
    | .error e => res.2 = .error e
    | .ok (cs', _) => res.2 = .ok w.length ∧ res.1[w.length]? = some { w[self] with cols := cs' } := by
  intro res
  have hpre : ∀ i, i < w.length → (w ++ [w[self]])[i]? = w[i]? :=
    fun i hi => List.getElem?_append_left hi
  have hw : (w ++ [w[self]])[w.length]? =
      some ⟨w[self].name, w[self].dests, w[self].index, [] ++ w[self].cols⟩ := by simp
  have hs := loop_spec (assign := assign) conv tgt w.length w[self].name w[self].dests w[self].index w[self].cols []
    (w ++ [w[self]]) 0 hw
  have hf := loop_frame (assign := assign) conv tgt w.length (List.range w[self].cols.length) (w ++ [w[self]]) 0
  simp only [List.length_nil, ← List.range_eq_range', List.nil_append] at hs
  simp only [res, runLoop]
  generalize loop assign conv tgt w.length (w ++ [w[self]]) 0 (List.range w[self].cols.length) = l at hs hf
  obtain ⟨w2, r2⟩ := l
  have hfr : ∀ i, i < w.length → w2[i]? = w[i]? := fun i hi => by
    rw [← hpre i hi]; exact hf.2 i (Nat.ne_of_lt hi)
  cases hcc : convCols assign conv tgt w[self].index 0 0 w[self].cols with
  | error e =>
    simp only [hcc] at hs
    cases r2 with
    | error e2 => cases hs; exact ⟨hfr, rfl⟩
    | ok u => cases hs
  | ok q =>
    obtain ⟨cs', k'⟩ := q
    simp only [hcc] at hs
    obtain ⟨h1, h2⟩ := hs
    cases r2 with
    | error e2 => cases h1
    | ok u => exact ⟨hfr, rfl, h2⟩

/-- **Refinement.**  `Table.convert_units` = choose the converter, read the dispatcher form as
    per-column targets, run the fold over the columns of a fresh copy; older frames are never written. -/
theorem convertUnits_refines (w : World) (self : Nat) (h : self < w.length) (to : To)
    (converter dflt : Option Conv) :
    let res := convertUnits assign w self h to converter dflt
    (∀ i, i < w.length → res.1[i]? = w[i]?) ∧
    match choose converter dflt with
    | none => res.2 = .error .missingConverter
    | some conv =>
      match Spec.target to w[self].cols.length with
      | .error e => res.2 = .error e
      | .ok tgt =>
        match convCols assign conv tgt w[self].index 0 0 w[self].cols with
        | .error e => res.2 = .error e
        | .ok (cs', _) => res.2 = .ok w.length ∧
            res.1[w.length]? = some { w[self] with cols := cs' } := by
  intro res
  have hpre : ∀ i, i < w.length → (w ++ [w[self]])[i]? = w[i]? :=
    fun i hi => List.getElem?_append_left hi
  simp only [res, convertUnits]
  cases hch : choose converter dflt with
  | none => exact ⟨fun i _ => rfl, rfl⟩
  | some conv =>
    simp only [form_spec, dispatch]
    cases hf : form to with
    | typeError => exact ⟨hpre, by simp⟩
    | positional xs =>
      by_cases hl : xs.length = w[self].cols.length
      · simp only [hl, ne_eq, not_true_eq_false, if_false]
        exact runLoop_spec w self h conv _
      · simp only [hl, ne_eq, not_false_eq_true, if_true]; exact ⟨hpre, trivial⟩
    | each tgt => exact runLoop_spec w self h conv tgt

/-! ## the property, clause by clause -/

namespace Spec
/-- `t'` is `t` converted: same name, destinations, row index and number of columns; column by column
    `Converted` (values = the converter's output for the original values, position by position, unit =
    requested / reported base unit; or the very same column when it is not targeted) -/
def Result (conv : Conv) (tgt : Nat → Col → Option Str) (t t' : Tbl) : Prop :=
  t'.name = t.name ∧ t'.dests = t.dests ∧ t'.index = t.index ∧ t'.cols.length = t.cols.length ∧
  ∀ j c, t.cols[j]? = some c → ∃ c', t'.cols[j]? = some c' ∧
    Converted conv (callsBefore tgt 0 t.cols j) t.index.length c (tgt j c) c'
end Spec

theorem converted_name {conv : Conv} {k nrows : Nat} {c c' : Col} {tgt : Option Str}
    (h : Converted conv k nrows c tgt c') : c'.name = c.name := by
  unfold Converted at h
  split at h
  · rw [h]
  · obtain ⟨u, vs, rep, -, -, -, -, -, rfl⟩ := h; rfl

/-- **values and label together.**  Whenever `convert_units` returns, it returns the reference of a
    fresh frame, and that frame is `Result`: every targeted convertible column holds exactly the
    converter's output for the column's original values (as a list: position by position, the row index
    plays no part and is kept), labelled with the requested unit — for `__base__` with the unit the
    converter reported —, the converter having been called once per such column, in column order. -/
theorem convert_values_and_label (hpos : Positional assign) (w : World) (self : Nat) (h : self < w.length) (to : To)
    (converter dflt : Option Conv) (w' : World) (r : Nat)
    (hres : convertUnits assign w self h to converter dflt = (w', .ok r)) :
    ∃ conv tgt t', choose converter dflt = some conv ∧
      Spec.target to w[self].cols.length = .ok tgt ∧
      r = w.length ∧ w'[r]? = some t' ∧ Spec.Result conv tgt w[self] t' := by
  have href := convertUnits_refines (assign := assign) w self h to converter dflt
  simp only [hres] at href
  obtain ⟨-, h2⟩ := href
  cases hch : choose converter dflt with
  | none => simp [hch] at h2
  | some conv =>
    simp only [hch] at h2
    cases htg : Spec.target to w[self].cols.length with
    | error e => simp [htg] at h2
    | ok tgt =>
      simp only [htg] at h2
      cases hcc : convCols assign conv tgt w[self].index 0 0 w[self].cols with
      | error e => simp [hcc] at h2
      | ok q =>
        obtain ⟨cs', k'⟩ := q
        simp only [hcc, Except.ok.injEq] at h2
        obtain ⟨hr, hw'⟩ := h2
        obtain ⟨hlen, hpt⟩ := convCols_pointwise hpos conv tgt w[self].index w[self].cols 0 0 cs' k' hcc
        refine ⟨conv, tgt, { w[self] with cols := cs' }, rfl, rfl, hr, by rw [hr]; exact hw', rfl, rfl, rfl, hlen, ?_⟩
        intro j c hc
        obtain ⟨c', h1, h2⟩ := hpt j c hc
        exact ⟨c', h1, by simpa using h2⟩

/-- **untargeted columns, row order, index, name and destinations are unchanged**, and so are the
    column names and their order -/
theorem untargeted_unchanged (conv : Conv) (tgt : Nat → Col → Option Str) (t t' : Tbl)
    (hR : Spec.Result conv tgt t t') :
    t'.name = t.name ∧ t'.dests = t.dests ∧ t'.index = t.index ∧
    t'.cols.map (·.name) = t.cols.map (·.name) ∧
    ∀ j c, t.cols[j]? = some c → targeted c (tgt j c) = false → t'.cols[j]? = some c := by
  obtain ⟨h1, h2, h3, h4, h5⟩ := hR
  refine ⟨h1, h2, h3, ?_, ?_⟩
  · apply List.ext_getElem?
    intro i
    simp only [List.getElem?_map]
    cases hc : t.cols[i]? with
    | none =>
      have : t.cols.length ≤ i := List.getElem?_eq_none_iff.mp hc
      rw [List.getElem?_eq_none_iff.mpr (by omega)]
    | some c =>
      obtain ⟨c', hc', hC⟩ := h5 i c hc
      simp [hc', converted_name hC]
  · intro j c hc ht
    obtain ⟨c', hc', hC⟩ := h5 j c hc
    simp only [Converted, ht, if_true] at hC
    rw [hc', hC]

/-- **the original table is not modified** — nor any other frame that existed before the call,
    whether the call returns a table or raises -/
theorem original_unchanged (w : World) (self : Nat) (h : self < w.length) (to : To)
    (converter dflt : Option Conv) :
    ∀ i, i < w.length → (convertUnits assign w self h to converter dflt).1[i]? = w[i]? :=
  (convertUnits_refines w self h to converter dflt).1

theorem target_base (n : Nat) : Spec.target (.str "base".toList) n =
    .ok (fun _ c => if special c.unit then none else some base) := by
  simp only [Spec.target]
  rw [if_neg (by decide)]
  exact if_pos trivial

theorem target_origin (n : Nat) : Spec.target (.str "origin".toList) n =
    .ok (fun _ c => if special c.unit then none else some origin) := by
  simp only [Spec.target]
  exact if_pos trivial

/-- **text / onoff / datetime columns are skipped by 'base'**: not targeted (so: no converter call,
    no refusal), and returned as they are -/
theorem special_skipped_by_base (hpos : Positional assign) (w : World) (self : Nat) (h : self < w.length)
    (converter dflt : Option Conv) (w' : World) (r : Nat)
    (hres : convertUnits assign w self h (.str "base".toList) converter dflt = (w', .ok r))
    (j : Nat) (c : Col) (hc : w[self].cols[j]? = some c) (hs : special c.unit = true) :
    ∃ t', w'[r]? = some t' ∧ t'.cols[j]? = some c := by
  obtain ⟨conv, tgt, t', -, htg, -, hw', hR⟩ :=
    convert_values_and_label hpos w self h _ converter dflt w' r hres
  rw [target_base] at htg
  cases htg
  exact ⟨t', hw', (untargeted_unchanged conv _ _ t' hR).2.2.2.2 j c hc (by simp [targeted, hs])⟩

/-- if the conversion of any one column fails at its place in the call sequence, `convert_units`
    raises: no table is returned (and, by `original_unchanged`, nothing the caller holds was written) -/
theorem column_failure_fails_call (w : World) (self : Nat) (h : self < w.length) (to : To)
    (converter dflt : Option Conv) (conv : Conv) (tgt : Nat → Col → Option Str)
    (hch : choose converter dflt = some conv) (htg : Spec.target to w[self].cols.length = .ok tgt)
    (j : Nat) (c : Col) (hc : w[self].cols[j]? = some c)
    (hfail : ∃ e, convertCol assign conv (callsBefore tgt 0 w[self].cols j) w[self].index c (tgt j c)
      = .error e) :
    ∃ e, (convertUnits assign w self h to converter dflt).2 = .error e := by
  have href := (convertUnits_refines (assign := assign) w self h to converter dflt).2
  simp only [hch, htg] at href
  obtain ⟨e, he⟩ := convCols_error_of_col conv tgt w[self].index w[self].cols 0 0 j c hc
    (by simpa using hfail)
  simp only [he] at href
  exact ⟨e, href⟩

/-- **text / onoff / datetime columns are refused when a different unit is requested**: whatever the
    dispatcher form, the converter and the other columns, the call raises (at the column itself the
    exception is UnitConversionNotDefinedError, raised before the converter is consulted:
    `convertCol_special`) -/
theorem special_refused (w : World) (self : Nat) (h : self < w.length) (to : To)
    (converter dflt : Option Conv) (conv : Conv) (tgt : Nat → Col → Option Str)
    (hch : choose converter dflt = some conv) (htg : Spec.target to w[self].cols.length = .ok tgt)
    (j : Nat) (c : Col) (u : Str) (hc : w[self].cols[j]? = some c) (hs : special c.unit = true)
    (hu : tgt j c = some u) (hne : u ≠ c.unit) :
    ∃ e, (convertUnits assign w self h to converter dflt).2 = .error e :=
  column_failure_fails_call w self h to converter dflt conv tgt hch htg j c hc
    ⟨_, by rw [hu]; exact convertCol_special conv _ _ c u hs hne⟩

/-- … and nothing happens when the unit it already has is requested -/
theorem special_same_unit_ok (conv : Conv) (k : Nat) (idx : List Val) (c : Col) :
    convertCol assign conv k idx c (some c.unit) = .ok (c, k) := by
  simp [convertCol]

/-- **when a conversion fails the caller gets the error rather than a partly relabelled table**: if the
    converter raises for a targeted column (at that column's call), `convert_units` raises, and every
    frame that existed before the call is as it was -/
theorem failure_is_atomic (w : World) (self : Nat) (h : self < w.length) (to : To)
    (converter dflt : Option Conv) (conv : Conv) (tgt : Nat → Col → Option Str)
    (hch : choose converter dflt = some conv) (htg : Spec.target to w[self].cols.length = .ok tgt)
    (j : Nat) (c : Col) (u e : Str) (hc : w[self].cols[j]? = some c)
    (hu : tgt j c = some u) (hne : u ≠ c.unit)
    (hfail : conv (callsBefore tgt 0 w[self].cols j) c.vals c.unit (convArg u) = .error e) :
    (∃ e', (convertUnits assign w self h to converter dflt).2 = .error e') ∧
    ∀ i, i < w.length → (convertUnits assign w self h to converter dflt).1[i]? = w[i]? := by
  refine ⟨?_, original_unchanged w self h to converter dflt⟩
  apply column_failure_fails_call w self h to converter dflt conv tgt hch htg j c hc
  rw [hu]
  cases hs : special c.unit with
  | true => exact ⟨_, convertCol_special conv _ _ c u hs hne⟩
  | false =>
    by_cases ho : u = origin
    · subst ho
      refine ⟨.notImplemented, ?_⟩
      unfold convertCol
      simp only [hne, if_false, isSpecial_eq, hs, Bool.false_eq_true, originTok_lit, if_true]
    · exact ⟨_, convertCol_conv_error conv _ _ c u e hne hs ho hfail⟩

/-- the error the caller gets is the failing column's own error when no earlier column fails:
    one-column tables make this exact -/
theorem single_column_error (conv : Conv) (tgt : Nat → Col → Option Str) (idx : List Val) (c : Col) (e : Err)
    (h : convertCol assign conv 0 idx c (tgt 0 c) = .error e) :
    convCols assign conv tgt idx 0 0 [c] = .error e := by
  simp [convCols, h]

/-! ## success, and the exact error of the first failing column -/

namespace Spec
/-- column `c` with target `tgt` can be converted when `k` converter calls preceded: it is not targeted, or
    it is convertible, the target is not `__origin__`, and the converter returns one value per row -/
def ColOK (conv : Conv) (k nrows : Nat) (c : Col) (tgt : Option Str) : Prop :=
  targeted c tgt = false ∨ ∃ u vs reported, tgt = some u ∧ special c.unit = false ∧ u ≠ origin ∧
    conv k c.vals c.unit (convArg u) = .ok (vs, reported) ∧ vs.length = nrows
end Spec

theorem convertCol_succeeds (conv : Conv) (k : Nat) (idx : List Val) (c : Col) (tgt : Option Str)
    (h : ColOK conv k idx.length c tgt) :
    ∃ c', convertCol assign conv k idx c tgt = .ok (c', k + (if targeted c tgt then 1 else 0)) := by
  rcases h with ht | ⟨u, vs, rep, rfl, hs, ho, hc, hl⟩
  · exact ⟨c, by simp [convertCol_untargeted conv k idx c tgt ht, ht]⟩
  · by_cases hu : u = c.unit
    · have ht : targeted c (some u) = false := by simp [targeted, hu]
      exact ⟨c, by simp [convertCol_untargeted conv k idx c _ ht, ht]⟩
    · have ht : targeted c (some u) = true := by simp [targeted, hu]
      unfold convertCol
      simp only [hu, if_false, isSpecial_eq, hs, Bool.false_eq_true, originTok_lit, ho, baseTok_lit, ht,
        if_true]
      by_cases hb : u = base
      · simp only [convArg, hb, if_true] at hc
        simp only [hb, if_true, hc, hl, ne_eq, not_true_eq_false, if_false]
        exact ⟨_, rfl⟩
      · simp only [convArg, hb, if_false] at hc
        simp only [hb, if_false, hc, hl, ne_eq, not_true_eq_false]
        exact ⟨_, rfl⟩

theorem convCols_succeeds (conv : Conv) (tgt : Nat → Col → Option Str) (idx : List Val)
    (cols : List Col) : ∀ (k p : Nat),
    (∀ j c, cols[j]? = some c → ColOK conv (k + callsBefore tgt p cols j) idx.length c (tgt (p + j) c)) →
    ∃ r, convCols assign conv tgt idx k p cols = .ok r := by
  induction cols with
  | nil => intro k p _; exact ⟨_, rfl⟩
  | cons c cs ih =>
    intro k p h
    obtain ⟨c1, h1⟩ := convertCol_succeeds (assign := assign) conv k idx c (tgt p c)
      (by simpa [callsBefore] using h 0 c rfl)
    obtain ⟨r, hr⟩ := ih (k + (if targeted c (tgt p c) then 1 else 0)) (p + 1) (fun j d hd => by
      have := h (j + 1) d (by simpa using hd)
      have e1 : k + callsBefore tgt p (c :: cs) (j + 1) =
          k + (if targeted c (tgt p c) then 1 else 0) + callsBefore tgt (p + 1) cs j := by
        simp [callsBefore]; omega
      have e2 : p + (j + 1) = p + 1 + j := by omega
      rwa [e1, e2] at this)
    unfold convCols
    simp only [h1, hr]
    exact ⟨_, rfl⟩

theorem convCols_first_error (conv : Conv) (tgt : Nat → Col → Option Str) (idx : List Val)
    (cols : List Col) : ∀ (k p j : Nat) (c : Col) (e : Err), cols[j]? = some c →
    (∀ i ci, i < j → cols[i]? = some ci →
      ColOK conv (k + callsBefore tgt p cols i) idx.length ci (tgt (p + i) ci)) →
    convertCol assign conv (k + callsBefore tgt p cols j) idx c (tgt (p + j) c) = .error e →
    convCols assign conv tgt idx k p cols = .error e := by
  induction cols with
  | nil => intro k p j c e h; simp at h
  | cons c0 cs ih =>
    intro k p j c e hj hbefore hfail
    unfold convCols
    cases j with
    | zero =>
      simp at hj; subst hj
      simp only [callsBefore, Nat.add_zero] at hfail
      simp only [hfail]
    | succ j =>
      simp only [List.getElem?_cons_succ] at hj
      obtain ⟨c1, h1⟩ := convertCol_succeeds (assign := assign) conv k idx c0 (tgt p c0)
        (by simpa [callsBefore] using hbefore 0 c0 (Nat.succ_pos j) rfl)
      have e1 : ∀ i, k + callsBefore tgt p (c0 :: cs) (i + 1) =
          k + (if targeted c0 (tgt p c0) then 1 else 0) + callsBefore tgt (p + 1) cs i := by
        intro i; simp [callsBefore]; omega
      have e2 : ∀ i, p + (i + 1) = p + 1 + i := by intro i; omega
      rw [e1 j, e2 j] at hfail
      have := ih (k + (if targeted c0 (tgt p c0) then 1 else 0)) (p + 1) j c e hj (fun i ci hi hci => by
        have := hbefore (i + 1) ci (by omega) (by simpa using hci)
        rwa [e1 i, e2 i] at this) hfail
      simp only [h1, this]

/-- **convert_units returns.**  With a converter chosen, a well-formed dispatcher argument, and every column
    either untargeted or convertible (not text/onoff/datetime, target not `__origin__`) with the converter
    answering its call (the `callsBefore`-th) with one value per row: the call returns the reference of a
    new frame — which then is `Result` by `convert_values_and_label`. -/
theorem convert_succeeds (w : World) (self : Nat) (h : self < w.length) (to : To)
    (converter dflt : Option Conv) (conv : Conv) (tgt : Nat → Col → Option Str)
    (hch : choose converter dflt = some conv) (htg : Spec.target to w[self].cols.length = .ok tgt)
    (hok : ∀ j c, w[self].cols[j]? = some c →
      ColOK conv (callsBefore tgt 0 w[self].cols j) w[self].index.length c (tgt j c)) :
    (convertUnits assign w self h to converter dflt).2 = .ok w.length := by
  have href := (convertUnits_refines (assign := assign) w self h to converter dflt).2
  simp only [hch, htg] at href
  obtain ⟨r, hr⟩ := convCols_succeeds (assign := assign) conv tgt w[self].index w[self].cols 0 0
    (by simpa using hok)
  obtain ⟨cs', k'⟩ := r
  simp only [hr] at href
  exact href.1

/-- **the caller gets the error of the first failing column**: if every column before `j` can be converted
    and `Column.convert_units` raises `e` for column `j` (at its place in the call sequence), then
    `Table.convert_units` raises exactly `e` -/
theorem first_failure_error (w : World) (self : Nat) (h : self < w.length) (to : To)
    (converter dflt : Option Conv) (conv : Conv) (tgt : Nat → Col → Option Str)
    (hch : choose converter dflt = some conv) (htg : Spec.target to w[self].cols.length = .ok tgt)
    (j : Nat) (c : Col) (e : Err) (hc : w[self].cols[j]? = some c)
    (hbefore : ∀ i ci, i < j → w[self].cols[i]? = some ci →
      ColOK conv (callsBefore tgt 0 w[self].cols i) w[self].index.length ci (tgt i ci))
    (hfail : convertCol assign conv (callsBefore tgt 0 w[self].cols j) w[self].index c (tgt j c) = .error e) :
    (convertUnits assign w self h to converter dflt).2 = .error e := by
  have href := (convertUnits_refines (assign := assign) w self h to converter dflt).2
  simp only [hch, htg] at href
  have := convCols_first_error (assign := assign) conv tgt w[self].index w[self].cols 0 0 j c e hc
    (by simpa using hbefore) (by simpa using hfail)
  simp only [this] at href
  exact href

/-- … in particular UnitConversionNotDefinedError for a refused special column … -/
theorem first_failure_special (w : World) (self : Nat) (h : self < w.length) (to : To)
    (converter dflt : Option Conv) (conv : Conv) (tgt : Nat → Col → Option Str)
    (hch : choose converter dflt = some conv) (htg : Spec.target to w[self].cols.length = .ok tgt)
    (j : Nat) (c : Col) (u : Str) (hc : w[self].cols[j]? = some c)
    (hbefore : ∀ i ci, i < j → w[self].cols[i]? = some ci →
      ColOK conv (callsBefore tgt 0 w[self].cols i) w[self].index.length ci (tgt i ci))
    (hs : special c.unit = true) (hu : tgt j c = some u) (hne : u ≠ c.unit) :
    (convertUnits assign w self h to converter dflt).2 = .error .unitConversionNotDefined :=
  first_failure_error w self h to converter dflt conv tgt hch htg j c _ hc hbefore
    (by rw [hu]; exact convertCol_special conv _ _ c u hs hne)

/-- … and the converter's own exception when the converter fails -/
theorem first_failure_converter (w : World) (self : Nat) (h : self < w.length) (to : To)
    (converter dflt : Option Conv) (conv : Conv) (tgt : Nat → Col → Option Str)
    (hch : choose converter dflt = some conv) (htg : Spec.target to w[self].cols.length = .ok tgt)
    (j : Nat) (c : Col) (u e : Str) (hc : w[self].cols[j]? = some c)
    (hbefore : ∀ i ci, i < j → w[self].cols[i]? = some ci →
      ColOK conv (callsBefore tgt 0 w[self].cols i) w[self].index.length ci (tgt i ci))
    (hu : tgt j c = some u) (hne : u ≠ c.unit) (hs : special c.unit = false) (ho : u ≠ origin)
    (hfail : conv (callsBefore tgt 0 w[self].cols j) c.vals c.unit (convArg u) = .error e) :
    (convertUnits assign w self h to converter dflt).2 = .error (.conv e) :=
  first_failure_error w self h to converter dflt conv tgt hch htg j c _ hc hbefore
    (by rw [hu]; exact convertCol_conv_error conv _ _ c u e hne hs ho hfail)

/-! ## the dispatcher forms -/

/-- no converter and no default converter: MissingUnitConverterError, nothing allocated -/
theorem missing_converter (w : World) (self : Nat) (h : self < w.length) (to : To) :
    convertUnits assign w self h to none none = (w, .error .missingConverter) := rfl

/-- a positional list of the wrong length is a ValueError before any conversion -/
theorem positional_length_checked (w : World) (self : Nat) (h : self < w.length)
    (xs : List (Option Str)) (conv : Conv) (dflt : Option Conv)
    (hl : xs.length ≠ w[self].cols.length) :
    (convertUnits assign w self h (.seq xs) (some conv) dflt).2 = .error .valueError := by
  simp [convertUnits, choose, dispatch, form, hl]

/-- a `str` other than "origin"/"base" is a Sequence: it is read as the list of its characters -/
theorem str_is_sequence (w : World) (self : Nat) (h : self < w.length) (s : Str)
    (converter dflt : Option Conv) (h1 : s ≠ "origin".toList) (h2 : s ≠ "base".toList) :
    convertUnits assign w self h (.str s) converter dflt =
      convertUnits assign w self h (.seq (s.map (fun ch => some [ch]))) converter dflt := by
  simp only [convertUnits, dispatch, form]
  rw [if_neg h1, if_neg h2]

/-- anything that is not a str, Sequence, dict or callable: TypeError -/
theorem other_is_type_error (w : World) (self : Nat) (h : self < w.length) (conv : Conv)
    (dflt : Option Conv) : (convertUnits assign w self h .other (some conv) dflt).2 = .error .typeError := by
  simp [convertUnits, choose, dispatch, form]

/-- 'origin' is not implemented: with a convertible column whose unit is not literally `__origin__`
    the call raises (the first such column raises NotImplementedError: `convertCol` tests it before
    the converter) -/
theorem origin_not_implemented (w : World) (self : Nat) (h : self < w.length)
    (converter dflt : Option Conv) (conv : Conv) (hch : choose converter dflt = some conv)
    (j : Nat) (c : Col) (hc : w[self].cols[j]? = some c) (hs : special c.unit = false)
    (hu : c.unit ≠ origin) :
    ∃ e, (convertUnits assign w self h (.str "origin".toList) converter dflt).2 = .error e := by
  apply column_failure_fails_call w self h _ converter dflt conv _ hch (target_origin _) j c hc
  refine ⟨.notImplemented, ?_⟩
  unfold convertCol
  simp only [hs, Bool.false_eq_true, if_false, isSpecial_eq, originTok_lit, if_true]
  rw [if_neg (fun e => hu e.symm)]

/-! ## bulk conversion while reading: `utils.normalized_table_generator`, `utils.read_bundle_from_csv`

  The generator is a map over the block stream that stops at the first exception: every clause above then holds
  for every table it yields (`bulk_table_is_result`), nothing else in the stream is touched
  (`bulk_passthrough`, `bulk_keeps_stream_shape`), and what was yielded before a failure is exactly the
  results of the blocks before the first failing one (`bulk_spec`). -/

/-- `convertTbl` is `convert_units` on a one-frame heap -/
theorem convertTbl_ok (hpos : Positional assign) (t t' : Tbl) (to : To) (converter dflt : Option Conv)
    (h : convertTbl assign t to converter dflt = .ok t') :
    ∃ conv tgt, choose converter dflt = some conv ∧ Spec.target to t.cols.length = .ok tgt ∧
      Spec.Result conv tgt t t' := by
  unfold convertTbl at h
  split at h
  · rename_i w r hres
    obtain ⟨conv, tgt, t'', h1, h2, h3, h4, h5⟩ :=
      convert_values_and_label hpos [t] 0 (by simp) to converter dflt w r hres
    rw [h4] at h
    simp only [Except.ok.injEq] at h
    subst h
    exact ⟨conv, tgt, h1, by simpa using h2, by simpa using h5⟩
  · cases h

/-- a failing bulk conversion of one table is the failing `convert_units` call (so `first_failure_error`,
    `special_refused`, `missing_converter`, … say which exception it is) -/
theorem convertTbl_error (t : Tbl) (to : To) (converter dflt : Option Conv) (e : Err) :
    convertTbl assign t to converter dflt = .error e ↔
      (convertUnits assign [t] 0 (by simp) to converter dflt).2 = .error e := by
  unfold convertTbl
  split
  · rename_i w r hres
    rw [hres]
    split <;> simp
  · rename_i w e' hres
    simp [hres]

/-- **only tables are touched**: a block that is not a table, a table block without value, and a table for
    which the dispatcher has no entry (`None`) are yielded as they came -/
theorem bulk_passthrough (d : TDisp) (converter : Option (Nat → Conv)) (dflt : Option Conv) (i : Nat) (b : GBlk)
    (h : b.isTable = false ∨ b.tbl = none ∨ ∃ t, b.tbl = some t ∧ tableTarget d t.name = .ok none) :
    normStep assign d converter dflt i b = .ok b := by
  unfold normStep
  rcases h with h | h | ⟨t, h1, h2⟩
  · rw [h]
  · rw [h]; cases b.isTable <;> rfl
  · rw [h1]
    cases b.isTable
    · rfl
    · simp only [h2]

/-- **a yielded table is `Result`** of the table that came in, for the dispatcher the table's own name selects;
    flag and the rest of the block are kept -/
theorem bulk_table_is_result (hpos : Positional assign) (d : TDisp) (converter : Option (Nat → Conv))
    (dflt : Option Conv) (i : Nat) (b b' : GBlk) (t : Tbl) (to : To)
    (hb : b.isTable = true) (ht : b.tbl = some t) (hto : tableTarget d t.name = .ok (some to))
    (h : normStep assign d converter dflt i b = .ok b') :
    b'.isTable = true ∧ b'.tok = b.tok ∧ ∃ t' conv tgt, b'.tbl = some t' ∧
      choose (converter.map (fun c => c i)) dflt = some conv ∧
      Spec.target to t.cols.length = .ok tgt ∧ Spec.Result conv tgt t t' := by
  unfold normStep at h
  rw [hb, ht] at h
  simp only [hto] at h
  split at h
  · rename_i t' hc
    simp only [Except.ok.injEq] at h
    subst h
    obtain ⟨conv, tgt, h1, h2, h3⟩ := convertTbl_ok hpos t t' to _ dflt hc
    exact ⟨rfl, rfl, t', conv, tgt, rfl, h1, h2, h3⟩
  · cases h

/-- a dispatcher that is neither a dict nor callable is a TypeError at the first table that arrives
    (and at no other block) -/
theorem bulk_bad_dispatcher (d : TDisp) (hd : (∃ tr, d = .other tr) ∨ d = .none)
    (converter : Option (Nat → Conv)) (dflt : Option Conv) (i : Nat) (b : GBlk) (t : Tbl)
    (hb : b.isTable = true) (ht : b.tbl = some t) :
    normStep assign d converter dflt i b = .error .typeError := by
  unfold normStep
  rw [hb, ht]
  rcases hd with ⟨tr, rfl⟩ | rfl <;> rfl

/-- what one step keeps of a block, whatever it does: type flag, identity token, whether there is a table and
    the table's name — so a `TableBundle` built from the stream files the tables under the same names -/
def blockKey (b : GBlk) : Bool × Str × Option Str := (b.isTable, b.tok, b.tbl.map (·.name))

theorem normStep_key (hpos : Positional assign) (d : TDisp) (converter : Option (Nat → Conv)) (dflt : Option Conv)
    (i : Nat) (b b' : GBlk) (h : normStep assign d converter dflt i b = .ok b') : blockKey b' = blockKey b := by
  by_cases hb : b.isTable = true
  · cases ht : b.tbl with
    | none =>
      rw [bulk_passthrough d converter dflt i b (Or.inr (Or.inl ht))] at h
      cases h; rfl
    | some t =>
      cases hto : tableTarget d t.name with
      | error e => unfold normStep at h; rw [hb, ht] at h; simp only [hto] at h; cases h
      | ok o =>
        cases o with
        | none =>
          rw [bulk_passthrough d converter dflt i b (Or.inr (Or.inr ⟨t, ht, hto⟩))] at h
          cases h; rfl
        | some to =>
          obtain ⟨h1, h2, t', conv, tgt, h3, -, -, hR⟩ :=
            bulk_table_is_result hpos d converter dflt i b b' t to hb ht hto h
          simp only [blockKey, h1, h2, h3, hb, ht, Option.map_some, hR.1]
  · have hb' : b.isTable = false := by simpa using hb
    rw [bulk_passthrough d converter dflt i b (Or.inl hb')] at h
    cases h; rfl

/-- **the generator, block by block**: what it yielded is, position by position, the step result of the
    incoming block; it ran to the end iff no step failed; if it raised, it raised the exception of the first
    failing block, having yielded the results of exactly the blocks before it -/
theorem bulk_spec_from (d : TDisp) (converter : Option (Nat → Conv)) (dflt : Option Conv) :
    ∀ (bs : List GBlk) (i : Nat) (out : List GBlk) (err : Option Err),
      normGenFrom assign d converter dflt i bs = (out, err) →
      (∀ j b', out[j]? = some b' → ∃ b, bs[j]? = some b ∧ normStep assign d converter dflt (i + j) b = .ok b') ∧
      (err = none → out.length = bs.length) ∧
      (∀ e, err = some e → ∃ b, bs[out.length]? = some b ∧
        normStep assign d converter dflt (i + out.length) b = .error e) := by
  intro bs
  induction bs with
  | nil =>
    intro i out err h
    simp only [normGenFrom, Prod.mk.injEq] at h
    obtain ⟨rfl, rfl⟩ := h
    exact ⟨fun j b' hj => by simp at hj, fun _ => rfl, fun e he => by cases he⟩
  | cons b bs ih =>
    intro i out err h
    unfold normGenFrom at h
    cases hs : normStep assign d converter dflt i b with
    | error e =>
      simp only [hs, Prod.mk.injEq] at h
      obtain ⟨rfl, rfl⟩ := h
      refine ⟨fun j b' hj => by simp at hj, fun he => (by cases he), ?_⟩
      intro e' he'
      cases he'
      exact ⟨b, rfl, by simpa using hs⟩
    | ok b1 =>
      simp only [hs] at h
      cases hrec : normGenFrom assign d converter dflt (i + 1) bs with
      | mk out1 err1 =>
        simp only [hrec, Prod.mk.injEq] at h
        obtain ⟨rfl, rfl⟩ := h
        obtain ⟨h1, h2, h3⟩ := ih (i + 1) out1 err1 hrec
        refine ⟨?_, ?_, ?_⟩
        · intro j b' hj
          cases j with
          | zero => simp only [List.getElem?_cons_zero, Option.some.injEq] at hj; subst hj; exact ⟨b, rfl, by simpa using hs⟩
          | succ j =>
            simp only [List.getElem?_cons_succ] at hj
            obtain ⟨b0, hb0, hst⟩ := h1 j b' hj
            refine ⟨b0, by simpa using hb0, ?_⟩
            have : i + (j + 1) = i + 1 + j := by omega
            rw [this]; exact hst
        · intro he; simp [h2 he]
        · intro e he
          obtain ⟨b0, hb0, hst⟩ := h3 e he
          refine ⟨b0, by simpa using hb0, ?_⟩
          have : i + (out1.length + 1) = i + 1 + out1.length := by omega
          simp only [List.length_cons, this]; exact hst

theorem bulk_spec (d : TDisp) (converter : Option (Nat → Conv)) (dflt : Option Conv)
    (bs out : List GBlk) (err : Option Err) (h : normGen assign d converter dflt bs = (out, err)) :
    (∀ j b', out[j]? = some b' → ∃ b, bs[j]? = some b ∧ normStep assign d converter dflt j b = .ok b') ∧
    (err = none → out.length = bs.length) ∧
    (∀ e, err = some e → ∃ b, bs[out.length]? = some b ∧
      normStep assign d converter dflt out.length b = .error e) := by
  have := bulk_spec_from (assign := assign) d converter dflt bs 0 out err h
  simpa using this

/-- **the shape of the stream is kept**: the blocks yielded carry, position by position, the type flag, token
    and table name of the blocks that came in (all of them when the generator ran to its end) -/
theorem bulk_keeps_stream_shape (hpos : Positional assign) (d : TDisp) (converter : Option (Nat → Conv))
    (dflt : Option Conv) (bs out : List GBlk) (err : Option Err)
    (h : normGen assign d converter dflt bs = (out, err)) :
    out.map blockKey = (bs.take out.length).map blockKey ∧ (err = none → out.map blockKey = bs.map blockKey) := by
  obtain ⟨h1, h2, -⟩ := bulk_spec d converter dflt bs out err h
  have hmain : out.map blockKey = (bs.take out.length).map blockKey := by
    apply List.ext_getElem?
    intro j
    simp only [List.getElem?_map]
    cases hj : out[j]? with
    | none =>
      have hlen : out.length ≤ j := List.getElem?_eq_none_iff.mp hj
      have : (bs.take out.length)[j]? = none := by
        apply List.getElem?_eq_none; simp; omega
      simp [this]
    | some b' =>
      obtain ⟨b, hb, hst⟩ := h1 j b' hj
      have hlt : j < out.length := (List.getElem?_eq_some_iff.mp hj).1
      have : (bs.take out.length)[j]? = some b := by
        rw [List.getElem?_take_of_lt hlt]; exact hb
      simp [this, normStep_key hpos d converter dflt j b b' hst]
  refine ⟨hmain, fun he => ?_⟩
  rw [hmain, h2 he, List.take_length]

/-- `read_bundle_from_csv`: a dispatcher without a converter is refused before anything is read or converted -/
theorem readBundle_needs_converter (d : TDisp) (hd : d.truthy = true) (dflt : Option Conv) (bs : List GBlk) :
    readBundle assign d none dflt bs = .error .valueError := by
  simp [readBundle, hd]

/-- `read_bundle_from_csv` without dispatcher: the bundle is built from the blocks as read -/
theorem readBundle_plain (converter : Option (Nat → Conv)) (dflt : Option Conv) (bs : List GBlk) :
    readBundle assign .none converter dflt bs = .ok bs := by
  simp [readBundle, TDisp.truthy]

/-- `read_bundle_from_csv` with dispatcher and converter: the bundle is built from the generator's stream, and
    any exception of the generator is the caller's -/
theorem readBundle_converts (d : TDisp) (hd : d.truthy = true) (conv : Nat → Conv) (dflt : Option Conv)
    (bs out : List GBlk) (err : Option Err) (h : normGen assign d (some conv) dflt bs = (out, err)) :
    readBundle assign d (some conv) dflt bs = (match err with | none => .ok out | some e => .error e) := by
  unfold readBundle
  cases d with
  | none => simp [TDisp.truthy] at hd
  | dict m => simp only [hd, Option.isNone_some, Bool.and_false, Bool.false_eq_true, if_false, h]; cases err <;> rfl
  | fn f => simp only [hd, Option.isNone_some, Bool.and_false, Bool.false_eq_true, if_false, h]; cases err <;> rfl
  | other t => simp only [hd, Option.isNone_some, Bool.and_false, Bool.false_eq_true, if_false, h]; cases err <;> rfl

/-! ## non-vacuity: a concrete table, converter and calls -/

/-- rows labelled 2, 0, 1 (a permuted index); an int column in mm, a float column in C with a NaN,
    a text column -/
def exT : Tbl :=
  { name := "t".toList, dests := ["all".toList], index := ["2".toList, "0".toList, "1".toList],
    cols := [⟨"a".toList, "mm".toList, ["1".toList, "2".toList, "3".toList]⟩,
             ⟨"b".toList, "C".toList, ["1.5".toList, "nan".toList, "3.0".toList]⟩,
             ⟨"c".toList, "text".toList, ["x".toList, "y".toList, "z".toList]⟩] }

/-- a converter that tags every value, reports "m" as base of "mm", and fails on its second call -/
def exConv (failSecond : Bool) : Conv := fun k vs _ to =>
  if failSecond && k == 1 then .error "KeyError".toList
  else .ok (vs.map (fun v => v ++ "*".toList), match to with | some u => u | none => "m".toList)

example : convertUnits positionalAssign [exT] 0 (by decide) (.dict [("a".toList, some "m".toList), ("zz".toList, some "q".toList)])
    (some (exConv false)) none =
    ([exT, { exT with cols := [⟨"a".toList, "m".toList, ["1*".toList, "2*".toList, "3*".toList]⟩,
                               ⟨"b".toList, "C".toList, ["1.5".toList, "nan".toList, "3.0".toList]⟩,
                               ⟨"c".toList, "text".toList, ["x".toList, "y".toList, "z".toList]⟩] }], .ok 1) := by
  rfl

example : (convertUnits positionalAssign [exT] 0 (by decide) (.str "base".toList) (some (exConv true)) none).2
    = .error (.conv "KeyError".toList) := by rfl

example : (convertUnits positionalAssign [exT] 0 (by decide) (.seq [none, none, some "m".toList]) (some (exConv false)) none).2
    = .error .unitConversionNotDefined := by rfl

example : choose (some (exConv true)) none = some (exConv true) ∧
    (∃ tgt, Spec.target (.str "base".toList) exT.cols.length = .ok tgt ∧ tgt 1 ⟨"b".toList, "C".toList, []⟩ = some base) :=
  ⟨rfl, _, target_base _, by decide⟩

/-- the hypotheses of `convert_succeeds` (and `first_failure_error`'s `hbefore`) are satisfiable: the
    permuted-index table, `{a: m, zz: q}`, the tagging converter -/
example : ∃ tgt, Spec.target (.dict [("a".toList, some "m".toList), ("zz".toList, some "q".toList)])
      exT.cols.length = .ok tgt ∧ choose (some (exConv false)) none = some (exConv false) ∧
    ∀ j c, exT.cols[j]? = some c →
      ColOK (exConv false) (callsBefore tgt 0 exT.cols j) exT.index.length c (tgt j c) := by
  refine ⟨_, rfl, rfl, ?_⟩
  intro j c hc
  rcases j with _ | _ | _ | j
  · cases hc
    exact Or.inr ⟨"m".toList, ["1*".toList, "2*".toList, "3*".toList], "m".toList, rfl, by decide, by decide,
      rfl, rfl⟩
  · cases hc; exact Or.inl rfl
  · cases hc; exact Or.inl rfl
  · simp [exT] at hc

/-! ### bulk conversion: a stream with a metadata block, two tables and a table block without value -/

def exStream : List GBlk :=
  [⟨false, none, "meta".toList⟩, ⟨true, some exT, "b1".toList⟩,
   ⟨true, some { exT with name := "u".toList }, "b2".toList⟩, ⟨true, none, "b3".toList⟩]

/-- table `t` gets `{a: m}`, table `u` has no entry -/
def exDisp : TDisp := .dict [("t".toList, some (.dict [("a".toList, some "m".toList)]))]

/-- … and here `u` is asked for a unit on its text column -/
def exDispBad : TDisp :=
  .dict [("t".toList, some (.dict [("a".toList, some "m".toList)])),
         ("u".toList, some (.dict [("c".toList, some "m".toList)]))]

example : normGen positionalAssign exDisp (some (fun _ => exConv false)) none exStream =
    ([⟨false, none, "meta".toList⟩,
      ⟨true, some { exT with cols := [⟨"a".toList, "m".toList, ["1*".toList, "2*".toList, "3*".toList]⟩,
                               ⟨"b".toList, "C".toList, ["1.5".toList, "nan".toList, "3.0".toList]⟩,
                               ⟨"c".toList, "text".toList, ["x".toList, "y".toList, "z".toList]⟩] }, "b1".toList⟩,
      ⟨true, some { exT with name := "u".toList }, "b2".toList⟩, ⟨true, none, "b3".toList⟩], none) := by rfl

/-- the second table fails: the first two blocks were yielded (the first table converted), then the error -/
example : (normGen positionalAssign exDispBad (some (fun _ => exConv false)) none exStream).2 =
      some .unitConversionNotDefined ∧
    (normGen positionalAssign exDispBad (some (fun _ => exConv false)) none exStream).1.length = 2 := by
  constructor <;> rfl

example : (normGen positionalAssign (.other true) (some (fun _ => exConv false)) none exStream) =
    ([⟨false, none, "meta".toList⟩], some .typeError) := by rfl

example : readBundle positionalAssign exDisp none none exStream = .error .valueError ∧
    readBundle positionalAssign (.dict []) none none exStream = .ok exStream ∧
    readBundle positionalAssign .none none none exStream = .ok exStream := by
  refine ⟨rfl, rfl, rfl⟩

/-! ### what the law `Positional` excludes: the label-aligned setter the code had before its fix -/

def defaultLabels (n : Nat) : List Val := (List.range n).map natToStr

/-- `self._values.update(pd.Series(values))` (without copy-on-write): the new values carry the labels
    0 … n-1 and each row takes the value whose label equals the row's own label -/
def labelAligned : Assign := fun idx c vs =>
  { c with vals := (idx.zip c.vals).map (fun p => (vs[(defaultLabels vs.length).idxOf p.1]?).getD p.2) }

def exColA : Col := ⟨"a".toList, "mm".toList, ["1".toList, "2".toList, "3".toList]⟩

/-- on the permuted index 2, 0, 1 the label-aligned primitive puts the converter's output on the wrong
    rows: the column that `Column.convert_units` produces is *not* `Converted` -/
example : ∃ c' k', convertCol labelAligned (exConv false) 0 exT.index exColA (some "m".toList) = .ok (c', k') ∧
    c'.vals = ["3*".toList, "1*".toList, "2*".toList] ∧
    ¬ Converted (exConv false) 0 exT.index.length exColA (some "m".toList) c' := by
  refine ⟨_, _, rfl, rfl, ?_⟩
  intro h
  unfold Converted at h
  have ht : targeted exColA (some "m".toList) = true := by decide
  simp only [ht, Bool.true_eq_false, if_false] at h
  obtain ⟨u, vs, rep, hu, -, -, hc, -, hc'⟩ := h
  cases hu
  have hconv : exConv false 0 exColA.vals exColA.unit (convArg "m".toList) =
      .ok (["1*".toList, "2*".toList, "3*".toList], "m".toList) := rfl
  rw [hconv] at hc
  cases hc
  exact absurd hc' (by decide)

example : ¬ Positional labelAligned := fun h =>
  absurd (h exT.index exColA ["1*".toList, "2*".toList, "3*".toList] rfl) (by decide)

end Pdt.C06
