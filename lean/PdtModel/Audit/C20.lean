import PdtModel.Audit.Tool
import PdtModel.Props.C20
#audit_ns Pdt.C20
