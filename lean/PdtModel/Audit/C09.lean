import PdtModel.Audit.Tool
import PdtModel.Props.C09
#audit_ns Pdt.C09
