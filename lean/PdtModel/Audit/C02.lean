import PdtModel.Audit.Tool
import PdtModel.Props.C02
#audit_ns Pdt.C02
