import PdtModel.Audit.Tool
import PdtModel.Props.C17
#audit_ns Pdt.C17
