/-
  Audit/Tool.lean — `#audit_ns Pdt.Cxx` prints, for every theorem declared in that namespace,
  one line `AXIOMS <name> : <axiom list>`.  The check script parses these lines and fails
  closed unless every list ⊆ {propext, Classical.choice, Quot.sound}.
-/
import Lean
open Lean Elab Command

elab "#audit_ns " ns:ident : command => do
  let env ← getEnv
  let nsName := ns.getId
  let mut names : Array Name := #[]
  for (n, ci) in env.constants.toList do
    if nsName.isPrefixOf n && !n.isInternal then
      match ci with
      | .thmInfo _ => names := names.push n
      | _ => pure ()
  let sorted := names.qsort (fun a b => a.toString < b.toString)
  for n in sorted do
    let axs ← Lean.collectAxioms n
    let axs := axs.qsort (fun a b => a.toString < b.toString)
    logInfo m!"AXIOMS {n} : {axs.toList}"
  logInfo m!"AUDIT-COUNT {nsName} {sorted.size}"
