import PdtModel.Audit.Tool
import PdtModel.Props.C10
#audit_ns Pdt.C10
