import PdtModel.Audit.Tool
import PdtModel.Props.C07
#audit_ns Pdt.C07
