import PdtModel.Audit.Tool
import PdtModel.Props.C13
#audit_ns Pdt.C13
