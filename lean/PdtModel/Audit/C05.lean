import PdtModel.Audit.Tool
import PdtModel.Props.C05
#audit_ns Pdt.C05
