import PdtModel.Audit.Tool
import PdtModel.Props.C08
#audit_ns Pdt.C08
