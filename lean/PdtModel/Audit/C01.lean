import PdtModel.Audit.Tool
import PdtModel.Props.C01
#audit_ns Pdt.C01
