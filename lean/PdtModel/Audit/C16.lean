import PdtModel.Audit.Tool
import PdtModel.Props.C16
#audit_ns Pdt.C16
