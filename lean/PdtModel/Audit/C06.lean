import PdtModel.Audit.Tool
import PdtModel.Props.C06
#audit_ns Pdt.C06
