import PdtModel.Audit.Tool
import PdtModel.Props.C04
#audit_ns Pdt.C04
