import PdtModel.Audit.Tool
import PdtModel.Props.Regex
#audit_ns Pdt.RegexProps
