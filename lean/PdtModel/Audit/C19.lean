import PdtModel.Audit.Tool
import PdtModel.Props.C19
#audit_ns Pdt.C19
