import PdtModel.Audit.Tool
import PdtModel.Props.C03
#audit_ns Pdt.C03
#audit_ns Pdt.RegexProps
