import PdtModel.Audit.Tool
import PdtModel.Props.C18
#audit_ns Pdt.C18
