import PdtModel.Audit.Tool
import PdtModel.Props.C12
#audit_ns Pdt.C12
