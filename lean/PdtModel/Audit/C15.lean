import PdtModel.Audit.Tool
import PdtModel.Props.C15
#audit_ns Pdt.C15
