import PdtModel.Audit.Tool
import PdtModel.Props.C11
#audit_ns Pdt.C11
