import PdtModel.Audit.Tool
import PdtModel.Props.C14
#audit_ns Pdt.C14
