/-
  Model/Convert.lean — unit conversion (proxy.py):
    `Table.convert_units(to, converter)`   proxy.py:326-433   -> `convertUnits`
    `Column.convert_units(to, converter)`  proxy.py:72-109    -> `convertCol`
    `Column.values` setter                 proxy.py:65-70     -> the `vs.length ≠ nrows` test + the write
    `INCONVERTIBLE_UNIT_INDICATORS`        proxy.py:16        -> `Gen.inconvertibleUnits` (translated each run)

  Table frames live in a heap (`World`, a list addressed by position) so that "which frame is written"
  is expressible: `Table(self.df.copy())` allocates a new frame, every column proxy of the new table
  writes through the reference of that frame.

  External behaviour entering as parameters / data:
    * the unit converter: `Conv`, an arbitrary function of (number of earlier converter calls in this
      `convert_units` call, the column's values, its unit, the target unit or `none` for the
      two-argument "base" call) to either the exception class it raised or (values, unit).  The call
      counter makes stateful converters (e.g. one that fails on its k-th call) expressible.
    * cell values are opaque tokens (`Val`): no arithmetic is modelled.
    * pandas `df[name] = ndarray`: the assignment primitive is the parameter `assign : Assign` (row labels
      of the frame, the column, the length-checked new values ↦ the column afterwards).  What pandas 3
      does for `df[name] = pd.Series(values).to_numpy()` is `positionalAssign` (values taken position by
      position, the index untouched); the property theorems assume the law `Positional assign`; the
      harness samples it on permuted / duplicate / string indexes.  A label-aligned primitive
      (`Series.update`, the code before the fix) is expressible as another `Assign` and breaks the
      theorems (example in Props/C06.lean).  ValueError when the length differs from the number of
      rows (as documented by pandas; sampled by the harness).
      Not modelled: on a frame without rows pandas accepts values of any length and re-indexes the
      frame — only reachable with a converter that breaks its contract (one value per row).
    * the callable dispatcher form is a function `Str → Option Str` (assumed not to raise).
-/
import PdtModel.Model.Text
import PdtModel.Gen.Consts
namespace Pdt.Convert
open Pdt

/-- one cell value / index label as an opaque token -/
abbrev Val := Str

structure Col where
  name : Str
  unit : Str
  vals : List Val
  deriving DecidableEq, Repr

structure Tbl where
  name : Str
  dests : List Str
  index : List Val      -- row labels, one per row
  cols : List Col
  deriving DecidableEq, Repr

/-- every live table frame, by allocation order -/
abbrev World := List Tbl

inductive Err
  | missingConverter            -- MissingUnitConverterError
  | notImplemented              -- NotImplementedError (`__origin__`)
  | valueError                  -- ValueError (length of the positional list / of the assigned values)
  | typeError                   -- TypeError (dispatcher of unexpected type)
  | unitConversionNotDefined    -- UnitConversionNotDefinedError
  | conv (cls : Str)            -- whatever the converter raised, propagated unchanged
  deriving DecidableEq, Repr

/-- `converter(values, from_unit[, to_unit])` at call number `k` -/
abbrev Conv := Nat → List Val → Str → Option Str → Except Str (List Val × Str)

/-- the column-assignment primitive behind the `Column.values` setter: `assign index column values` is the
    column after `df[name] = values` (only called with `values.length = index.length`) -/
abbrev Assign := List Val → Col → List Val → Col

/-- what `self._df[self._name] = pd.Series(values).to_numpy()` does: by position, labels play no part -/
def positionalAssign : Assign := fun _ c vs => { c with vals := vs }

/-- the law the property theorems assume of the assignment primitive -/
def Positional (assign : Assign) : Prop :=
  ∀ idx c vs, vs.length = idx.length → assign idx c vs = { c with vals := vs }

/-- the `to` argument of `Table.convert_units` -/
inductive To
  | str (s : Str)                        -- a `str` ("origin", "base", or — being a Sequence — its characters)
  | seq (xs : List (Option Str))         -- list / tuple; `None` elements mean "no conversion"
  | dict (m : List (Str × Option Str))   -- dict (keys unique); a value may be `None`
  | fn (f : Str → Option Str)            -- callable on the column name
  | other                                -- anything else (int, None, set, …)

def originTok : Str := "__origin__".toList
def baseTok : Str := "__base__".toList

/-- `unit in INCONVERTIBLE_UNIT_INDICATORS` -/
def isSpecial (u : Str) : Bool := Gen.inconvertibleUnits.contains u

/-- `Column.convert_units(to, converter)` on a column of a frame with row labels `idx`, `k` converter calls
    made so far.  Order of the tests as in the source: `None`, same unit, inconvertible guard,
    `__origin__`, `__base__` (unit := what the converter reports), explicit unit (unit := requested).
    Values are assigned before the unit; a failing assignment leaves the column as it was. -/
def convertCol (assign : Assign) (conv : Conv) (k : Nat) (idx : List Val) (c : Col) :
    Option Str → Except Err (Col × Nat)
  | none => .ok (c, k)
  | some u =>
    if u = c.unit then .ok (c, k)
    else if isSpecial c.unit then .error .unitConversionNotDefined
    else if u = originTok then .error .notImplemented
    else if u = baseTok then
      match conv k c.vals c.unit none with
      | .error e => .error (.conv e)
      | .ok (vs, u') =>
        if vs.length ≠ idx.length then .error .valueError
        else .ok ({ assign idx c vs with unit := u' }, k + 1)
    else
      match conv k c.vals c.unit (some u) with
      | .error e => .error (.conv e)
      | .ok (vs, _) =>
        if vs.length ≠ idx.length then .error .valueError
        else .ok ({ assign idx c vs with unit := u }, k + 1)

/-- write column `j` of frame `r` -/
def write (w : World) (r j : Nat) (c : Col) : World :=
  match w[r]? with
  | none => w
  | some t => w.set r { t with cols := t.cols.set j c }

/-- read column `j` of frame `r` -/
def readCol (w : World) (r j : Nat) : Option (List Val × Col) :=
  match w[r]? with
  | none => none
  | some t => match t.cols[j]? with
    | none => none
    | some c => some (t.index, c)

/-- the `for col in new_table.column_proxies:` loops: visit the column positions `js` of frame `r` in
    order; `tgt j col` is the target unit the dispatcher form gives column `j` (`none`: skip);
    the first exception ends the loop (earlier writes stay in frame `r`). -/
def loop (assign : Assign) (conv : Conv) (tgt : Nat → Col → Option Str) (r : Nat) :
    World → Nat → List Nat → World × Except Err Unit
  | w, _, [] => (w, .ok ())
  | w, k, j :: js =>
    match readCol w r j with
    | none => loop assign conv tgt r w k js
    | some (idx, c) =>
      match convertCol assign conv k idx c (tgt j c) with
      | .error e => (w, .error e)
      | .ok (c', k') => loop assign conv tgt r (write w r j c') k' js

/-- `dict.get(name)` (then `to[name]`, the same value) -/
def dictGet (m : List (Str × Option Str)) (name : Str) : Option Str :=
  match m with
  | [] => none
  | (k, v) :: rest => if k = name then v else dictGet rest name

/-- the per-column target of each dispatcher form; `none` = TypeError; the positional form carries its
    length for the `len(to) != len(self.column_proxies)` test -/
inductive Form
  | each (tgt : Nat → Col → Option Str)
  | positional (xs : List (Option Str))
  | typeError

def form : To → Form
  | .str s =>
    if s = "origin".toList then .each (fun _ c => if isSpecial c.unit then none else some originTok)
    else if s = "base".toList then .each (fun _ c => if isSpecial c.unit then none else some baseTok)
    else .positional (s.map (fun ch => some [ch]))     -- a str is a Sequence of one-character strings
  | .seq xs => .positional xs
  | .dict m => .each (fun _ c => dictGet m c.name)
  | .fn f => .each (fun _ c => f c.name)
  | .other => .typeError

/-- run one dispatcher loop over all `ncols` columns of the new frame `r`; `return new_table` -/
def runLoop (assign : Assign) (conv : Conv) (tgt : Nat → Col → Option Str) (w1 : World) (r ncols : Nat) :
    World × Except Err Nat :=
  match loop assign conv tgt r w1 0 (List.range ncols) with
  | (w2, .ok _) => (w2, .ok r)
  | (w2, .error e) => (w2, .error e)

/-- the `if to == "origin" … elif … else raise TypeError` chain; `ncols = len(self.column_proxies)` -/
def dispatch (assign : Assign) (conv : Conv) (to : To) (w1 : World) (r ncols : Nat) :
    World × Except Err Nat :=
  match form to with
  | .typeError => (w1, .error .typeError)
  | .positional xs =>
    if xs.length ≠ ncols then (w1, .error .valueError)
    else runLoop assign conv (fun j _ => (xs[j]?).join) w1 r ncols
  | .each tgt => runLoop assign conv tgt w1 r ncols

/-- `converter` if given, else `pdtable.units.default_converter` -/
def choose (converter dflt : Option Conv) : Option Conv :=
  match converter with
  | some c => some c
  | none => dflt

/-- `Table.convert_units(self, to, converter)` with `pdtable.units.default_converter = dflt`.
    Returns the heap afterwards and either the exception or the reference of the new table.
    `new_table = Table(self.df.copy())` allocates frame number `w.length`. -/
def convertUnits (assign : Assign) (w : World) (self : Nat) (h : self < w.length) (to : To)
    (converter dflt : Option Conv) : World × Except Err Nat :=
  match choose converter dflt with
  | none => (w, .error .missingConverter)
  | some conv => dispatch assign conv to (w ++ [w[self]]) w.length w[self].cols.length

/-! ## bulk conversion at read time: `pdtable/utils.py`
    `normalized_table_generator(block_gen, convert_units_to, unit_converter)`  utils.py:14-40  -> `normGen`
    `read_bundle_from_csv(input_path, sep, convert_units_to, unit_converter)`  utils.py:43-62  -> `readBundle`
    (the blocks `read_csv` delivers are the input here; what `TableBundle` does with the result is `Model/Bundle.lean`) -/

/-- a block of the stream: its type flag, the Table it carries (`none`: the block value is `None` or the block is
    not a table), and an identity token for everything else it carries -/
structure GBlk where
  isTable : Bool
  tbl : Option Tbl
  tok : Str
  deriving DecidableEq, Repr

/-- the `convert_units_to` argument: per table name, the column dispatcher of that table (or `None`) -/
inductive TDisp
  | none                                   -- `None`
  | dict (m : List (Str × Option To))      -- a dict (keys unique)
  | fn (f : Str → Option To)               -- a callable on the table name
  | other (truthy : Bool)                  -- anything else, with its truth value

/-- `convert_units_to.get(table.name)` -/
def tdictGet (m : List (Str × Option To)) (name : Str) : Option To :=
  match m with
  | [] => Option.none
  | (k, v) :: rest => if k = name then v else tdictGet rest name

/-- the `isinstance(convert_units_to, Dict) … elif isinstance(convert_units_to, Callable) … else raise TypeError` chain -/
def tableTarget (d : TDisp) (name : Str) : Except Err (Option To) :=
  match d with
  | .dict m => .ok (tdictGet m name)
  | .fn f => .ok (f name)
  | .none => .error .typeError
  | .other _ => .error .typeError

/-- `table.convert_units(to=to, converter=converter)` on one table value: the new table, or the exception -/
def convertTbl (assign : Assign) (t : Tbl) (to : To) (converter dflt : Option Conv) : Except Err Tbl :=
  match convertUnits assign [t] 0 (by simp) to converter dflt with
  | (w, .ok r) => match w[r]? with
    | some t' => .ok t'
    | Option.none => .ok t          -- unreachable: `convertUnits` answers the reference of a frame it allocated
  | (_, .error e) => .error e

/-- one turn of the generator's loop; `i` is the block's position (a stateful converter may behave
    differently from block to block: `converter i`) -/
def normStep (assign : Assign) (d : TDisp) (converter : Option (Nat → Conv)) (dflt : Option Conv)
    (i : Nat) (b : GBlk) : Except Err GBlk :=
  match b.isTable, b.tbl with
  | true, some t =>
    match tableTarget d t.name with
    | .error e => .error e
    | .ok Option.none => .ok b
    | .ok (some to) =>
      match convertTbl assign t to (converter.map (fun c => c i)) dflt with
      | .ok t' => .ok { b with tbl := some t' }
      | .error e => .error e
  | _, _ => .ok b

/-- the generator run to its end: the blocks it yielded and the exception that ended it, if any -/
def normGenFrom (assign : Assign) (d : TDisp) (converter : Option (Nat → Conv)) (dflt : Option Conv) :
    Nat → List GBlk → List GBlk × Option Err
  | _, [] => ([], Option.none)
  | i, b :: bs =>
    match normStep assign d converter dflt i b with
    | .error e => ([], some e)
    | .ok b' =>
      let (out, e) := normGenFrom assign d converter dflt (i + 1) bs
      (b' :: out, e)

def normGen (assign : Assign) (d : TDisp) (converter : Option (Nat → Conv)) (dflt : Option Conv)
    (bs : List GBlk) : List GBlk × Option Err := normGenFrom assign d converter dflt 0 bs

/-- truth value of the `convert_units_to` argument (`{}` and `None` are falsy, a function is truthy) -/
def TDisp.truthy : TDisp → Bool
  | .none => false
  | .dict m => !m.isEmpty
  | .fn _ => true
  | .other t => t

/-- `read_bundle_from_csv` after `read_csv` has been called (lazily: nothing is read before the bundle pulls):
    the block stream handed to `TableBundle(...)`, or the exception.  `ValueError` comes before anything is read. -/
def readBundle (assign : Assign) (d : TDisp) (converter : Option (Nat → Conv)) (dflt : Option Conv)
    (blocks : List GBlk) : Except Err (List GBlk) :=
  if d.truthy && converter.isNone then .error .valueError
  else match d with
    | .none => .ok blocks
    | _ => match normGen assign d converter dflt blocks with
      | (out, Option.none) => .ok out
      | (_, some e) => .error e

end Pdt.Convert
