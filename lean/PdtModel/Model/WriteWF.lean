/-
  Model/WriteWF.lean — an executable (Bool) check of the well-formedness predicate of C01
  (DESIGN.md §3).  `Props/C01.lean` proves `wfCheck … = true → WF …`, so the harness can ask the driver
  whether a generated table lies inside the domain of the round-trip theorem.
-/
import PdtModel.Model.Write
namespace Pdt.Write
open Pdt Pdt.Reader Pdt.Represent

/-- `str(to_pydatetime(…))` of a timestamp token: microsecond resolution (`Represent.truncMicro`) -/
def dtText (tok : Str) : Str := (truncMicro tok).map (fun c => if c = 'T' then ' ' else c)

def naRepOKb (naRep : Str) : Bool :=
  Gen.missingFloatConvert.contains (normalize naRep) && isMissingMarker (strip naRep) && !(strip naRep).isEmpty

def numOKb (ext : Ext) (tok : Str) : Bool :=
  tok != NaN && !Gen.missingFloatConvert.contains (normalize tok) && ext.parseFloat tok == some tok

def intOKb (ext : Ext) (i : Int) : Bool :=
  !Gen.missingFloatConvert.contains (normalize (intToStr i)) &&
    ext.parseFloat (intToStr i) == some (intToStr i ++ ".0".toList)

def dtOKb (ext : Ext) (tok : Str) : Bool :=
  tok != NaT && strip (dtText tok) == dtText tok &&
  (match dtText tok with | c :: _ => ext.isDigit c | [] => false) &&
  !isMissingMarker (dtText tok) &&
  (match ext.parseDt (dtText tok) with | .ok t => t == tok | _ => false)

def valOKb (ext : Ext) (unit : Str) (pos : Nat) (v : Val) : Bool :=
  if unit = uText then (match v with | .text s => !(pos == 0 && s.isEmpty) && s.getLast? != some '\x00' | _ => false)
  else if unit = uOnoff then (match v with | .bool _ => true | _ => false)
  else if unit = uDatetime then (match v with | .dt t => t == NaT || dtOKb ext t | _ => false)
  else (match v with | .num t => t == NaN || numOKb ext t | .int i => intOKb ext i | _ => false)

def plainTextb (s : Str) : Bool := !allSpace s && (classify s).isNone

def cellAtb (naRep : Str) (t : TableVal) (c : Column) (j i : Nat) : Str :=
  cellText naRep (if t.transposed then i else j) c.unit (c.values.getD i (.text []))

def dtNaiveb (c : Column) : Bool :=
  c.values.all (fun v => match v with | .dt tok => (tzOf tok).isEmpty | _ => true)

def wfCheck (ext : Ext) (sep : Char) (naRep : Str) (t : TableVal) : Bool :=
  naRepOKb naRep && sep != '\n' && sep != '\r' &&
  (tableCells naRep t).all (fun row => row.all (fun x => !x.contains sep && !x.contains '\n' && !x.contains '\r')) &&
  leading '*' (header t) == 2 &&
  t.name.getLast? != some '*' &&
  destinations (.str (joinStr [' '] t.destinations)) == t.destinations &&
  plainTextb (joinStr [' '] t.destinations) &&
  decide (t.columns.map (·.name)).Nodup &&
  t.columns.all (fun c => !(Cell.str c.name).isBlank && strip c.name == c.name) &&
  t.columns.all (fun c => strip c.unit == c.unit) &&
  t.columns.all (fun c => c.values.length == t.nRows) &&
  t.columns.zipIdx.all (fun p => p.1.values.zipIdx.all (fun q =>
    valOKb ext p.1.unit (if t.transposed then q.2 else p.2) q.1)) &&
  t.columns.all dtNaiveb &&
  (t.transposed ||
    (match t.columns.head? with
     | none => true
     | some c => plainTextb c.name && plainTextb c.unit &&
        (List.range t.nRows).all (fun i => plainTextb (cellAtb naRep t c 0 i)))) &&
  (!t.transposed || t.columns.all (fun c => plainTextb c.name)) &&
  (!t.transposed || (List.range t.nRows).all (fun i =>
    t.columns.zipIdx.any (fun p => !allSpace (cellAtb naRep t p.1 p.2 i))))

end Pdt.Write
