/-
  Model/Text.lean — strings as `List Char`, Python-level text primitives used by pdtable.
  Import-free (the driver links against this).

  Modelled Python behaviour:
    * `str.isspace` per code point / `re` `\s` on `str` patterns  -> `isSpace`
      (29 code points; the harness compares this table with CPython on all 0x110000 code points)
    * `str.strip()`                                              -> `strip`
    * `str.lower()` restricted to ASCII                           -> `lowerAscii`
      (the harness checks that no non-ASCII code point lowers to an ASCII letter used in a
       pdtable marker word, see harness/common.py:check_lower_table)
    * `str.split(sep)` for a single-character `sep`              -> `splitOn`
    * `sep.join(xs)` for a single-character `sep`                -> `joinWith`
-/
namespace Pdt

abbrev Str := List Char

/-- Python `str.isspace()` for one code point (== `re` `\s` for `str` patterns). -/
def isSpace (c : Char) : Bool :=
  let n := c.toNat
  (9 ≤ n && n ≤ 13) || (28 ≤ n && n ≤ 32) || n == 133 || n == 160 || n == 5760 ||
  (8192 ≤ n && n ≤ 8202) || n == 8232 || n == 8233 || n == 8239 || n == 8287 || n == 12288

def lstrip (s : Str) : Str := s.dropWhile isSpace
def rstrip (s : Str) : Str := (s.reverse.dropWhile isSpace).reverse
/-- Python `s.strip()` -/
def strip (s : Str) : Str := rstrip (lstrip s)

/-- every character is whitespace (Python: `not s.strip()`) -/
def allSpace (s : Str) : Bool := s.all isSpace

def lowerChar (c : Char) : Char :=
  if 'A'.toNat ≤ c.toNat && c.toNat ≤ 'Z'.toNat then Char.ofNat (c.toNat + 32) else c

/-- ASCII part of Python `str.lower()` -/
def lowerAscii (s : Str) : Str := s.map lowerChar

/-- `columns.py:normalize_if_str` on a string -/
def normalize (s : Str) : Str := lowerAscii (strip s)

/-- Python `s.split(sep)` for a one-character separator: never returns `[]`. -/
def splitOn (sep : Char) : Str → List Str
  | [] => [[]]
  | c :: cs =>
    if c = sep then [] :: splitOn sep cs
    else match splitOn sep cs with
      | [] => [[c]]          -- unreachable, `splitOn` never returns `[]`
      | w :: ws => (c :: w) :: ws

/-- Python `sep.join(xs)` for a one-character separator. -/
def joinWith (sep : Char) : List Str → Str
  | [] => []
  | [x] => x
  | x :: y :: rest => x ++ sep :: joinWith sep (y :: rest)

/-- Python `sep.join(xs)` for a string separator. -/
def joinStr (sep : Str) : List Str → Str
  | [] => []
  | [x] => x
  | x :: y :: rest => x ++ sep ++ joinStr sep (y :: rest)

def startsWith (p s : Str) : Bool := p.isPrefixOf s

def natToStr (n : Nat) : Str := (toString n).toList

def intToStr (i : Int) : Str := (toString i).toList

end Pdt
