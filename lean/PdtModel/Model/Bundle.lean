/-
  Model/Bundle.lean — `pdtable.store.TableBundle` (store.py:60-148).
  Generic in the stored value `T` (a Table, its `.df`, a JsonData dict or a cell grid — the harness
  sends an identity token per block).  `_tables_named` is an insertion-ordered association list
  (a `defaultdict(list)` that is only ever read through `.get` / `in` / iteration after construction),
  `_tables_in_order` a list.
-/
import PdtModel.Model.Text
namespace Pdt.Bundle
open Pdt

/-- how `__init__` obtains the name of a TABLE block -/
inductive NameSrc
  | name (n : Str)  -- `table.name`, `table["name"]` or the `^\s*\*\*(\S+)` match of the first cell
  | stale           -- cell-grid whose first cell is not a string: `name` keeps its previous binding
  | fail            -- no way to extract a name: NotImplementedError
  | noCell          -- cell-grid whose first row is empty: `table[0][0]` raises IndexError
  deriving DecidableEq, Repr

structure Blk (T : Type) where
  isTable : Bool
  src : NameSrc
  val : T

inductive Err | notImplemented | unboundLocal | keyError | notUnique | attributeError | indexError | typeError
  deriving DecidableEq, Repr

structure State (T : Type) where
  named : List (Str × List T)
  order : List T

def addNamed {T} (m : List (Str × List T)) (n : Str) (t : T) : List (Str × List T) :=
  match m with
  | [] => [(n, [t])]
  | (k, v) :: rest => if k = n then (k, v ++ [t]) :: rest else (k, v) :: addNamed rest n t

def lookup {T} (m : List (Str × List T)) (n : Str) : Option (List T) :=
  match m with
  | [] => none
  | (k, v) :: rest => if k = n then some v else lookup rest n

/-- the constructor loop; `last` is the current binding of the local variable `name` -/
def build {T} : List (Blk T) → State T → Option Str → Except Err (State T)
  | [], s, _ => .ok s
  | b :: bs, s, last =>
    if !b.isTable then build bs s last
    else match b.src with
      | .fail => .error .notImplemented
      | .noCell => .error .indexError
      | .stale => match last with
        | none => .error .unboundLocal
        | some n => build bs ⟨addNamed s.named n b.val, s.order ++ [b.val]⟩ (some n)
      | .name n => build bs ⟨addNamed s.named n b.val, s.order ++ [b.val]⟩ (some n)

def ofBlocks {T} (bs : List (Blk T)) : Except Err (State T) := build bs ⟨[], []⟩ none

def len {T} (s : State T) : Nat := (s.named.map (fun kv => kv.2.length)).sum
def iter {T} (s : State T) : List T := s.order
def all {T} (s : State T) (n : Str) : List T := (lookup s.named n).getD []
def contains {T} (s : State T) (n : Str) : Bool := (lookup s.named n).isSome

def unique {T} (s : State T) (n : Str) : Except Err T :=
  match lookup s.named n with
  | none => .error .keyError
  | some [] => .error .indexError          -- `lst[0]` on an empty list (unreachable, see Props)
  | some [t] => .ok t
  | some (_ :: _ :: _) => .error .notUnique

/-- `bundle.<name>` when normal attribute lookup fails -/
def getattr {T} (s : State T) (n : Str) : Except Err T :=
  match unique s n with
  | .error .keyError => .error .attributeError
  | r => r

/-- `bundle[i]` with Python index semantics (negative indices count from the end) -/
def getitemInt {T} (s : State T) (i : Int) : Except Err T :=
  let n := s.order.length
  let j : Int := if i < 0 then i + n else i
  if j < 0 then .error .indexError
  else match s.order[j.toNat]? with
    | some t => .ok t
    | none => .error .indexError

/-- `re.search(r"^\s*\*\*(\S+)\s*", cell0).group(1)`: skip leading whitespace, require `**`,
    then the maximal non-empty run of non-whitespace characters -/
def gridName (cell0 : Str) : Option Str :=
  match lstrip cell0 with
  | '*' :: '*' :: rest =>
    let nm := rest.takeWhile (fun c => !isSpace c)
    if nm.isEmpty then none else some nm
  | _ => none

/-! ## what `__init__` sees of a TABLE block value (store.py:77-101), and item access (store.py:110-121) -/

/-- the first cell of a cell grid's first row -/
inductive Cell0
  | noCell            -- the first row is empty: `table[0][0]` raises IndexError
  | notStr            -- a cell that is not a string
  | str (s : Str)
  deriving DecidableEq, Repr

/-- a block value as the constructor's `hasattr` / `isinstance` tests classify it -/
inductive Rep
  | named (n : Str)                   -- has a `name` attribute (a Table): `table.name`
  | dict (name : Option Str)          -- a dict; `some n` iff `table.get("name")` is a str (JsonData)
  | grid (nRows : Nat) (c0 : Cell0)   -- a list of `nRows` rows (cell grid)
  | opaque                            -- anything else
  deriving DecidableEq, Repr

/-- the name extraction of `__init__`, by classification -/
def nameSrcOf : Rep → NameSrc
  | .named n => .name n
  | .dict (some n) => .name n
  | .dict none => .fail
  | .grid nRows c0 =>
    if nRows > 1 then
      match c0 with
      | .noCell => .noCell
      | .notStr => .stale
      | .str s => match gridName s with
        | some n => .name n
        | none => .fail
    else .fail
  | .opaque => .fail

/-- a block as supplied: its type flag, its classification, its identity and (if it has one) that of its `.df` -/
structure RBlk (T : Type) where
  isTable : Bool
  rep : Rep
  val : T
  df : Option T

/-- `if as_dataframe and hasattr(table, "df"): store table.df else: store table` -/
def storedOf {T} (asDf : Bool) (b : RBlk T) : T :=
  match asDf, b.df with
  | true, some d => d
  | _, _ => b.val

def toBlk {T} (asDf : Bool) (b : RBlk T) : Blk T := ⟨b.isTable, nameSrcOf b.rep, storedOf asDf b⟩

/-- `TableBundle(blocks, as_dataframe)` on supplied blocks -/
def ofSupplied {T} (asDf : Bool) (bs : List (RBlk T)) : Except Err (State T) := ofBlocks (bs.map (toBlk asDf))

/-- the argument of `bundle[idx]` as `__getitem__` classifies it (`bool` is an `int`) -/
inductive Idx
  | str (n : Str)
  | int (i : Int)
  | bool (b : Bool)
  | other
  deriving DecidableEq, Repr

/-- `__getitem__`: a string is a name (`unique`), an int (or bool) a position, anything else a TypeError -/
def getitem {T} (s : State T) : Idx → Except Err T
  | .str n => unique s n
  | .int i => getitemInt s i
  | .bool b => getitemInt s (if b then 1 else 0)
  | .other => .error .typeError

end Pdt.Bundle
