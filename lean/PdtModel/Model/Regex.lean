/-
  Model/Regex.lean — an executable semantics of the part of Python's `re` (str patterns, no flags) that
  pdtable's patterns are written in, and a bit more so the engine model can be tested on its own.

    * `Re`        — the abstract syntax
    * `Re.parse`  — pattern text -> `Re` (total; `none` = not in the subset or rejected by `re.compile`)
    * `pyMatch`   — `re.compile(p).match(s)`  : the spans of group 0, 1, … of the match, or `none`
    * `pySearch`  — `re.compile(p).search(s)` : the same for the first start position that matches

  Syntax covered: literal characters, escaped literals (`\*`, `\\`, `\.`, `\n`, `\t`, …), the classes
  `\s \S \d \D \w \W`, bracket classes (`[abc]`, `[^:]`, ranges, classes inside), `.` (no newline),
  concatenation, `|`, capturing `( )` and non-capturing `(?: )` groups, greedy and lazy quantifiers
  `* + ? {m} {m,n} {m,} {,n}` (+ `?`), the anchors `^ $ \A \Z` with their meaning without MULTILINE (`$`: at the
  end and just before a final "\n"), look-ahead `(?= )` `(?! )`, look-behind `(?<= )` `(?<! )` whose body is
  ONE single-character item (literal, class, bracket class, `.`).
  Not covered (`Re.parse` answers `none`): flags, named groups, back-references, `\b \B`, numeric / `\x \u \N`
  escapes, possessive quantifiers, atomic groups, conditionals, comments, wider look-behinds.

  `\s` is Python's str-pattern `\s` = `Pdt.isSpace` (Model/Text.lean).  `\d` and `\w` need Unicode tables
  (`str.isdecimal`, `str.isalnum`): they are a PARAMETER (`Tables`) of the matcher, observed by the harness.

  Matching is CPython's backtracking search written with continuations: alternatives left to right, greedy
  quantifiers try one more iteration before the rest of the pattern (lazy ones the other way round), the first
  complete path wins, captures are part of the state a path carries (a failed path leaves nothing behind, a
  group matched in an earlier iteration of a loop keeps its span).  The optional iterations of a quantifier
  follow `SRE_OP_MAX_UNTIL` / `MIN_UNTIL`: another iteration is attempted only when the budget allows it and the
  position differs from where the previous optional iteration started (CPython's zero-width protection, `last_ptr`).
  Everything is total: structural recursion on the syntax, on the `{m}` count, and on a fuel of
  `remaining length + 2` for the optional iterations, which cannot run out (each starts further right).

  Import-free apart from Model/Text and Model/Marker (the driver links against this).
-/
import PdtModel.Model.Text
import PdtModel.Model.Marker
namespace Pdt.Regex
open Pdt

/-- the Unicode tables behind `\d` (`str.isdecimal`) and `\w` (`str.isalnum` or `_`) -/
structure Tables where
  isDigit : Char → Bool
  isWord : Char → Bool

/-- the ASCII reading (what `re.ASCII` would give); the default when the harness sends no tables -/
def asciiTables : Tables where
  isDigit c := '0'.toNat ≤ c.toNat && c.toNat ≤ '9'.toNat
  isWord c :=
    ('0'.toNat ≤ c.toNat && c.toNat ≤ '9'.toNat) || ('a'.toNat ≤ c.toNat && c.toNat ≤ 'z'.toNat) ||
    ('A'.toNat ≤ c.toNat && c.toNat ≤ 'Z'.toNat) || c == '_'

inductive Cls
  | space | digit | word
  deriving DecidableEq, Repr

def Cls.test (T : Tables) : Cls → Char → Bool
  | .space, c => isSpace c
  | .digit, c => T.isDigit c
  | .word, c => T.isWord c

/-- a member of a bracket class -/
inductive SetItem
  | ch (c : Char)
  | range (lo hi : Char)
  | cls (k : Cls) (neg : Bool)
  deriving DecidableEq, Repr

def SetItem.test (T : Tables) : SetItem → Char → Bool
  | .ch x, c => c == x
  | .range lo hi, c => lo.toNat ≤ c.toNat && c.toNat ≤ hi.toNat
  | .cls k neg, c => k.test T c != neg

/-- a pattern item that consumes exactly one character -/
inductive Item
  | lit (c : Char)
  | any                                       -- `.` : anything but "\n"
  | cls (k : Cls) (neg : Bool)                -- `\s` / `\S` …
  | set (neg : Bool) (items : List SetItem)   -- `[...]` / `[^...]`
  deriving DecidableEq, Repr

def Item.test (T : Tables) : Item → Char → Bool
  | .lit x, c => c == x
  | .any, c => c != '\n'
  | .cls k neg, c => k.test T c != neg
  | .set neg items, c => items.any (fun i => i.test T c) != neg

inductive Re
  | empty
  | chr (i : Item)
  | seq (a b : Re)
  | alt (a b : Re)
  | group (n : Nat) (r : Re)                                   -- capturing group number `n` (1-based)
  | rep (greedy : Bool) (lo : Nat) (hi : Option Nat) (r : Re)   -- `hi = none`: unbounded
  | bol | eol                                                  -- `^` / `$` without MULTILINE
  | bos | eos                                                  -- `\A` / `\Z`
  | look (neg : Bool) (r : Re)                                 -- `(?=r)` / `(?!r)`
  | behind (neg : Bool) (i : Item)                             -- `(?<=i)` / `(?<!i)`, one character wide
  deriving DecidableEq, Repr

/-- highest group number used -/
def Re.ngroups : Re → Nat
  | .seq a b | .alt a b => max a.ngroups b.ngroups
  | .group n r => max n r.ngroups
  | .rep _ _ _ r | .look _ r => r.ngroups
  | _ => 0

/-! ## matching -/

abbrev Span := Nat × Nat
abbrev Caps := List (Option Span)

/-- what a path through the pattern carries: the text consumed so far (reversed), the text ahead,
    and the spans of the groups closed so far -/
structure St where
  before : List Char
  rest : List Char
  caps : Caps
  deriving DecidableEq, Repr

def St.pos (st : St) : Nat := st.before.length

abbrev Cont := St → Option St
abbrev Matcher := St → Cont → Option St

/-- the `lo` mandatory iterations of a quantifier -/
def minLoop (body : Matcher) : Nat → Matcher
  | 0, st, k => k st
  | n + 1, st, k => body st (fun st' => minLoop body n st' k)

/-- the optional iterations (`SRE_OP_MAX_UNTIL` / `SRE_OP_MIN_UNTIL` once `count ≥ min`):
    `budget` = how many more are allowed (`none`: unbounded), `last` = where the previous optional iteration started -/
def optLoop (body : Matcher) (greedy : Bool) : Nat → Option Nat → Option Nat → Matcher
  | 0, _, _, st, k => k st
  | fuel + 1, budget, last, st, k =>
    let more : Unit → Option St := fun _ =>
      if budget = some 0 ∨ last = some st.pos then none
      else body st (fun st' => optLoop body greedy fuel (budget.map (· - 1)) (some st.pos) st' k)
    if greedy then (more ()).orElse (fun _ => k st) else (k st).orElse more

/-- backtracking matcher in continuation-passing style: `m T r st k` = the final state of the first path that
    matches `r` from `st` and then satisfies `k` -/
def m (T : Tables) : Re → Matcher
  | .empty, st, k => k st
  | .chr it, st, k =>
    match st.rest with
    | c :: cs => if it.test T c then k ⟨c :: st.before, cs, st.caps⟩ else none
    | [] => none
  | .seq a b, st, k => m T a st (fun st' => m T b st' k)
  | .alt a b, st, k => (m T a st k).orElse (fun _ => m T b st k)
  | .group n r, st, k => m T r st (fun st' => k ⟨st'.before, st'.rest, st'.caps.set n (some (st.pos, st'.pos))⟩)
  | .rep g lo hi r, st, k =>
    minLoop (m T r) lo st (fun st' => optLoop (m T r) g (st'.rest.length + 2) (hi.map (· - lo)) none st' k)
  | .bol, st, k => if st.before.isEmpty then k st else none
  | .bos, st, k => if st.before.isEmpty then k st else none
  | .eol, st, k => if st.rest.isEmpty || st.rest == ['\n'] then k st else none
  | .eos, st, k => if st.rest.isEmpty then k st else none
  | .look neg r, st, k =>
    match m T r st some with
    | some st' => if neg then none else k ⟨st.before, st.rest, st'.caps⟩
    | none => if neg then k st else none
  | .behind neg it, st, k =>
    match st.before with
    | c :: _ => if it.test T c != neg then k st else none
    | [] => if neg then k st else none

/-- one attempt at a given start: `before` is the text to the left (reversed) -/
def matchAt (T : Tables) (r : Re) (before rest : List Char) : Option Caps :=
  (m T r ⟨before, rest, List.replicate (r.ngroups + 1) none⟩ some).map
    fun st => st.caps.set 0 (some (before.length, st.pos))

/-- `re.compile(p).match(s)`: spans of group 0, 1, …, `r.ngroups` -/
def pyMatch (T : Tables) (r : Re) (s : Str) : Option Caps := matchAt T r [] s

def searchFrom (T : Tables) (r : Re) : List Char → List Char → Option Caps
  | before, [] => matchAt T r before []
  | before, c :: cs => (matchAt T r before (c :: cs)).orElse (fun _ => searchFrom T r (c :: before) cs)

/-- `re.compile(p).search(s)` -/
def pySearch (T : Tables) (r : Re) (s : Str) : Option Caps := searchFrom T r [] s

/-- `mm.group(i)`: `none` for a group that did not take part (Python's `None`) or does not exist -/
def groupText (s : Str) (caps : Caps) (i : Nat) : Option Str :=
  match caps[i]? with
  | some (some (a, b)) => some ((s.drop a).take (b - a))
  | _ => none

/-! ## parsing (after CPython's `re/_parser.py`) -/

inductive Kind
  | atom | anchor | repeated
  deriving DecidableEq

def isAsciiDigit (c : Char) : Bool := '0'.toNat ≤ c.toNat && c.toNat ≤ '9'.toNat
def isAsciiLetter (c : Char) : Bool :=
  ('a'.toNat ≤ c.toNat && c.toNat ≤ 'z'.toNat) || ('A'.toNat ≤ c.toNat && c.toNat ≤ 'Z'.toNat)

def digitsVal (ds : List Char) : Nat := ds.foldl (fun n d => 10 * n + (d.toNat - '0'.toNat)) 0

/-- the escapes that stand for one literal character both inside and outside a bracket class -/
def escLiteral (c : Char) : Option Char :=
  if c = 'n' then some '\n' else if c = 't' then some '\t' else if c = 'r' then some '\r'
  else if c = 'f' then some (Char.ofNat 12) else if c = 'v' then some (Char.ofNat 11)
  else if c = 'a' then some (Char.ofNat 7) else if c = '\\' then some '\\'
  else none

def escClass (c : Char) : Option (Cls × Bool) :=
  if c = 's' then some (.space, false) else if c = 'S' then some (.space, true)
  else if c = 'd' then some (.digit, false) else if c = 'D' then some (.digit, true)
  else if c = 'w' then some (.word, false) else if c = 'W' then some (.word, true)
  else none

/-- the character after a backslash inside `[...]` -/
def classEscape (c : Char) : Except String SetItem :=
  match escClass c with
  | some (k, neg) => .ok (.cls k neg)
  | none =>
    if c = 'b' then .ok (.ch (Char.ofNat 8))
    else match escLiteral c with
    | some x => .ok (.ch x)
    | none =>
      if isAsciiLetter c || isAsciiDigit c then .error "unsupported or bad escape in class"
      else .ok (.ch c)

/-- one member of a bracket class up to an optional `-`: returns the item and the rest -/
def setAtom : List Char → Except String (SetItem × List Char)
  | [] => .error "unterminated character set"
  | '\\' :: [] => .error "bad escape (end of pattern)"
  | '\\' :: c :: cs => do let i ← classEscape c; pure (i, cs)
  | c :: cs => pure (.ch c, cs)

/-- one step of a bracket class: a member, or a range `a-b`, or a final `-]`; `recur` continues with the rest -/
def setStep (recur : List Char → List SetItem → Except String (List SetItem × List Char))
    (inp : List Char) (acc : List SetItem) : Except String (List SetItem × List Char) := do
  let (i1, r1) ← setAtom inp
  match r1 with
  | '-' :: [] => .error "unterminated character set"
  | '-' :: ']' :: cs => pure ((SetItem.ch '-' :: i1 :: acc).reverse, cs)
  | '-' :: r2 =>
    let (i2, r3) ← setAtom r2
    match i1, i2 with
    | .ch lo, .ch hi =>
      if hi.toNat < lo.toNat then .error "bad character range"
      else recur r3 (.range lo hi :: acc)
    | _, _ => .error "bad character range"
  | _ => recur r1 (i1 :: acc)

/-- the members of a bracket class after `[` / `[^`; `acc` reversed.  Fuel: the input length + 1. -/
def parseSetItems : Nat → List Char → List SetItem → Except String (List SetItem × List Char)
  | 0, _, _ => .error "unterminated character set"
  | fuel + 1, inp, acc =>
    match inp with
    | [] => .error "unterminated character set"
    | ']' :: cs =>
      if acc.isEmpty then setStep (parseSetItems fuel) inp acc else pure (acc.reverse, cs)
    | _ => setStep (parseSetItems fuel) inp acc

/-- `[` … `]` -/
def parseSet (inp : List Char) : Except String (Item × List Char) := do
  let (neg, body) := match inp with
    | '^' :: cs => (true, cs)
    | _ => (false, inp)
  let (items, rest) ← parseSetItems (body.length + 1) body []
  pure (.set neg items, rest)

/-- `{m}`, `{m,}`, `{,n}`, `{m,n}` after the `{`; `none`: not a quantifier, the `{` is a literal -/
def parseBraces (inp : List Char) : Option (Nat × Option Nat × List Char) :=
  match inp with
  | '}' :: _ => none
  | _ =>
    let lo := inp.takeWhile isAsciiDigit
    let r1 := inp.dropWhile isAsciiDigit
    let (hi, r2) := match r1 with
      | ',' :: r => (r.takeWhile isAsciiDigit, r.dropWhile isAsciiDigit)
      | _ => (lo, r1)
    match r2 with
    | '}' :: r3 =>
      some (if lo.isEmpty then 0 else digitsVal lo, if hi.isEmpty then none else some (digitsVal hi), r3)
    | _ => none

def mkSeq : List Re → Re
  | [] => .empty
  | [r] => r
  | r :: rs => .seq r (mkSeq rs)

def mkAlt : List Re → Re
  | [] => .empty
  | [r] => r
  | r :: rs => .alt r (mkAlt rs)

/-- result of a sub-parser: the syntax, the remaining input, the number of groups opened so far -/
abbrev PRes := Except String (Re × List Char × Nat)

/-- apply a quantifier to the last item of `acc` (reversed); reads a trailing `?` (lazy) / `+` (possessive) -/
def applyRepeat (lo : Nat) (hi : Option Nat) (rest : List Char) (acc : List (Re × Kind)) :
    Except String (List (Re × Kind) × List Char) :=
  match hi with
  | some h => if h < lo then .error "min repeat greater than max repeat" else go
  | none => go
where
  go : Except String (List (Re × Kind) × List Char) :=
    match acc with
    | [] => .error "nothing to repeat"
    | (_, .anchor) :: _ => .error "nothing to repeat"
    | (_, .repeated) :: _ => .error "multiple repeat"
    | (r, .atom) :: acc' =>
      match rest with
      | '?' :: rest' => pure ((.rep false lo hi r, .repeated) :: acc', rest')
      | '+' :: _ => .error "unsupported: possessive quantifier"
      | _ => pure ((.rep true lo hi r, .repeated) :: acc', rest)

mutual
/-- `a|b|c` up to `)` or the end -/
def parseAlt : Nat → List Char → Nat → List Re → PRes
  | 0, _, _, _ => .error "pattern too deeply nested for the parser's fuel"
  | fuel + 1, inp, ng, alts => do
    let (r, rest, ng') ← parseSeq fuel inp ng []
    match rest with
    | '|' :: rest' => parseAlt fuel rest' ng' (r :: alts)
    | _ => pure (mkAlt (r :: alts).reverse, rest, ng')

/-- a concatenation up to `|`, `)` or the end; `acc` = items so far, reversed -/
def parseSeq : Nat → List Char → Nat → List (Re × Kind) → PRes
  | 0, _, _, _ => .error "pattern too long for the parser's fuel"
  | fuel + 1, inp, ng, acc =>
    let done : PRes := pure (mkSeq (acc.reverse.map (·.1)), inp, ng)
    match inp with
    | [] => done
    | '|' :: _ => done
    | ')' :: _ => done
    | '*' :: rest => do let (acc', rest') ← applyRepeat 0 none rest acc; parseSeq fuel rest' ng acc'
    | '+' :: rest => do let (acc', rest') ← applyRepeat 1 none rest acc; parseSeq fuel rest' ng acc'
    | '?' :: rest => do let (acc', rest') ← applyRepeat 0 (some 1) rest acc; parseSeq fuel rest' ng acc'
    | '{' :: rest =>
      match parseBraces rest with
      | some (lo, hi, rest') => do
        let (acc', rest'') ← applyRepeat lo hi rest' acc; parseSeq fuel rest'' ng acc'
      | none => parseSeq fuel rest ng ((.chr (.lit '{'), .atom) :: acc)
    | '.' :: rest => parseSeq fuel rest ng ((.chr .any, .atom) :: acc)
    | '^' :: rest => parseSeq fuel rest ng ((.bol, .anchor) :: acc)
    | '$' :: rest => parseSeq fuel rest ng ((.eol, .anchor) :: acc)
    | '[' :: rest => do
      let (it, rest') ← parseSet rest
      parseSeq fuel rest' ng ((.chr it, .atom) :: acc)
    | '\\' :: [] => .error "bad escape (end of pattern)"
    | '\\' :: c :: rest =>
      match escClass c with
      | some (k, neg) => parseSeq fuel rest ng ((.chr (.cls k neg), .atom) :: acc)
      | none =>
        if c = 'A' then parseSeq fuel rest ng ((.bos, .anchor) :: acc)
        else if c = 'Z' then parseSeq fuel rest ng ((.eos, .anchor) :: acc)
        else match escLiteral c with
        | some x => parseSeq fuel rest ng ((.chr (.lit x), .atom) :: acc)
        | none =>
          if isAsciiLetter c || isAsciiDigit c then .error "unsupported or bad escape"
          else parseSeq fuel rest ng ((.chr (.lit c), .atom) :: acc)
    | '(' :: '?' :: ':' :: rest => do
      let (r, rest', ng') ← parseAlt fuel rest ng []
      match rest' with
      | ')' :: rest'' => parseSeq fuel rest'' ng' ((r, .atom) :: acc)
      | _ => .error "missing ), unterminated subpattern"
    | '(' :: '?' :: '=' :: rest => do
      let (r, rest', ng') ← parseAlt fuel rest ng []
      match rest' with
      | ')' :: rest'' => parseSeq fuel rest'' ng' ((.look false r, .atom) :: acc)
      | _ => .error "missing ), unterminated subpattern"
    | '(' :: '?' :: '!' :: rest => do
      let (r, rest', ng') ← parseAlt fuel rest ng []
      match rest' with
      | ')' :: rest'' => parseSeq fuel rest'' ng' ((.look true r, .atom) :: acc)
      | _ => .error "missing ), unterminated subpattern"
    | '(' :: '?' :: '<' :: '=' :: rest => do
      let (r, rest', ng') ← parseAlt fuel rest ng []
      match r, rest' with
      | .chr it, ')' :: rest'' => parseSeq fuel rest'' ng' ((.behind false it, .atom) :: acc)
      | _, ')' :: _ => .error "unsupported: look-behind wider than one single-character item"
      | _, _ => .error "missing ), unterminated subpattern"
    | '(' :: '?' :: '<' :: '!' :: rest => do
      let (r, rest', ng') ← parseAlt fuel rest ng []
      match r, rest' with
      | .chr it, ')' :: rest'' => parseSeq fuel rest'' ng' ((.behind true it, .atom) :: acc)
      | _, ')' :: _ => .error "unsupported: look-behind wider than one single-character item"
      | _, _ => .error "missing ), unterminated subpattern"
    | '(' :: '?' :: _ => .error "unsupported group extension"
    | '(' :: rest => do
      let n := ng + 1
      let (r, rest', ng') ← parseAlt fuel rest n []
      match rest' with
      | ')' :: rest'' => parseSeq fuel rest'' ng' ((.group n r, .atom) :: acc)
      | _ => .error "missing ), unterminated subpattern"
    | c :: rest => parseSeq fuel rest ng ((.chr (.lit c), .atom) :: acc)
end

def Re.parseE (p : Str) : Except String Re :=
  match parseAlt (2 * p.length + 4) p 0 [] with
  | .ok (r, [], _) => .ok r
  | .ok (_, _ :: _, _) => .error "unbalanced parenthesis"
  | .error e => .error e

/-- pattern text -> syntax; `none`: rejected (as `re.compile` would) or outside the subset -/
def Re.parse (p : Str) : Option Re :=
  match Re.parseE p with
  | .ok r => some r
  | .error _ => none

/-! ## the dispatch of `parse_blocks_stable` on the match object (blocks.py:498-515) -/

inductive Dispatch
  | noMatch                 -- `mm is None`: the row continues the current block
  | marker (k : Marker)     -- `next_state` is set
  | dropped                 -- `mm.group(1) is None`: no branch assigns `next_state` and the row is not appended
  deriving DecidableEq, Repr

/-- `if mm.group(1) == "**" … elif mm.group(1) == "***" … elif mm.group(4) is not None … else …` -/
def dispatch (s : Str) : Option Caps → Dispatch
  | none => .noMatch
  | some caps =>
    match groupText s caps 1 with
    | none => .dropped
    | some g1 =>
      if g1 = ['*', '*'] then .marker .table
      else if g1 = ['*', '*', '*'] then .marker .directive
      else if (groupText s caps 4).isSome then .marker .metadata
      else .marker .template

def Dispatch.ofClassify : Option Marker → Dispatch
  | none => .noMatch
  | some k => .marker k

end Pdt.Regex
