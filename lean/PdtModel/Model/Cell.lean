/-
  Model/Cell.lean — native cell values as the readers deliver them.
    CSV reader:   only `str`
    Excel reader: `none`, `str`, `int`, `float`, `bool`, `dt` (datetime.datetime), `other`
  Floats are carried as their canonical CPython `repr` token ("nan" for NaN, "inf", "-inf",
  "-0.0" canonicalised to "0.0" by the harness): two floats are equal by value iff the tokens
  are equal and not "nan".  No float arithmetic is modelled anywhere.
-/
import PdtModel.Model.Text
namespace Pdt

inductive Cell
  | none
  | str (s : Str)
  | int (i : Int)
  | float (tok : Str)
  | bool (b : Bool)
  | dt (tok : Str)
  | other (tag : Str)
  deriving DecidableEq, Repr, Inhabited

abbrev Row := List Cell

/-- `blocks.py:_is_cell_blank`: `cell is None or (isinstance(cell, str) and not cell.strip())` -/
def Cell.isBlank : Cell → Bool
  | .none => true
  | .str s => allSpace s
  | _ => false

/-- Python `isinstance(cell, str)` -/
def Cell.isStr : Cell → Bool
  | .str _ => true
  | _ => false

/-- `repr(float(i))` for |i| < 2^53 (< 10^16, so never exponent notation) -/
def floatTokOfInt (i : Int) : Str := intToStr i ++ ".0".toList

end Pdt
