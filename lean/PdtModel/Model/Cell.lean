/-
  Model/Cell.lean — native cell values as the readers deliver them.
    CSV reader:   only `str`
    Excel reader: `none`, `str`, `int`, `float`, `bool`, `dt` (datetime.datetime), `other`
  Floats are carried as their CPython `repr` token ("nan" for NaN, "inf", "-inf", "-0.0"):
  two floats are equal by value iff the tokens are equal and not "nan" (up to the sign of zero).
  Integers carry `repr(float(i))` next to their value.  No float arithmetic is modelled anywhere.
-/
import PdtModel.Model.Text
namespace Pdt

inductive Cell
  | none
  | str (s : Str)
  | int (i : Int) (ftok : Str)   -- ftok = repr(float(i)) as computed by CPython
  | float (tok : Str)
  | bool (b : Bool)
  | dt (tok : Str)
  | other (tag : Str)
  deriving DecidableEq, Repr, Inhabited

abbrev Row := List Cell

/-- `blocks.py:_is_cell_blank`: `cell is None or (isinstance(cell, str) and not cell.strip())` -/
def Cell.isBlank : Cell → Bool
  | .none => true
  | .str s => allSpace s
  | _ => false

/-- Python `isinstance(cell, str)` -/
def Cell.isStr : Cell → Bool
  | .str _ => true
  | _ => false

/-- Python `str(cell)` for a native cell (`str(float)` = `repr(float)`; `str(datetime)` is the ISO
    form with a blank instead of `T`; for `other` the harness sends `str(x)` as the tag) -/
def Cell.pyStr : Cell → Str
  | .none => "None".toList
  | .str s => s
  | .int i _ => intToStr i
  | .float t => t
  | .bool b => if b then "True".toList else "False".toList
  | .dt t => t.map (fun c => if c = 'T' then ' ' else c)
  | .other t => t

end Pdt
