/-
  Model/Json.lean — the JSON layer:
    io/_json.py          to_json_serializable, _json_encodable_value_maps
    io/parsers/blocks.py make_table_json_data            (reader path:  precursor -> JsonData)
    io/json.py           table_to_json_data              (table path:   Table     -> JsonData)
                         json_data_to_table              (JsonData -> cell grid -> make_table)

  `JVal` is plain JSON data as CPython's `json` module sees it: dict (insertion ordered), list, str,
  int, float, bool, None.  Floats are carried as their CPython `repr` token ("nan", "inf", "-inf"
  included), exactly as in `Cell.float`.  `PVal` is what `to_json_serializable` is *given*: the same
  plus numpy arrays, datetimes, NA scalars, numpy scalars and foreign objects.

  The JSON *text* trip (`json.dumps` / `json.loads`) is modelled in Model/JsonText.lean; `dumpsStrictOk` is the one
  decision `json.dumps(allow_nan=False)` takes on a JsonData (ValueError exactly when some float is nan / inf / -inf).
-/
import PdtModel.Model.Reader
import PdtModel.Model.Represent
import PdtModel.Model.Blocks
namespace Pdt.Json
open Pdt Pdt.Reader Pdt.Represent

/-- plain JSON data -/
inductive JVal
  | null
  | bool (b : Bool)
  | int (i : Int)
  | num (tok : Str)                      -- Python float, `repr` token
  | str (s : Str)
  | arr (xs : List JVal)
  | obj (kvs : List (Str × JVal))        -- dict, insertion ordered, keys unique
  deriving Repr, Inhabited

/-- what `to_json_serializable` can be handed (`JsonDataPrecursor` and beyond) -/
inductive PVal
  | dict (kvs : List (Str × PVal))
  | list (xs : List PVal)
  | float (tok : Str)
  | int (i : Int)
  | str (s : Str)
  | bool (b : Bool)
  | none
  | f64arr (xs : List Str)               -- numpy array of dtype float64 (tokens of its elements)
  | ndarray (xs : List PVal)             -- numpy array of any other dtype, as its `.tolist()`
  | datetime (tok : Str)                 -- datetime.datetime / pd.Timestamp (ISO token), "NaT" = pd.NaT
  | na                                   -- not subscriptable and `pd.isna` true (pd.NA, Decimal("NaN"))
  | npscalar (item : PVal)               -- numpy scalar (np.generic): converted as its Python value `obj.item()`
  | other                                -- anything else: NotImplementedError
  deriving Repr, Inhabited

def sName : Str := "name".toList
def sDestinations : Str := "destinations".toList
def sColumns : Str := "columns".toList
def sUnit : Str := "unit".toList
def sValues : Str := "values".toList

/-- `str(datetime)` / `str(pd.Timestamp)`: the ISO form with a blank for the `T` -/
def isoBlank (tok : Str) : Str := tok.map (fun c => if c = 'T' then ' ' else c)

/-! ## to_json_serializable -/

mutual
/-- the value `to_json_serializable` returns when it returns -/
def toJson : PVal → JVal
  | .dict kvs => .obj (toJsonKvs kvs)
  | .list xs => .arr (toJsonList xs)
  | .float t => if t = NaN then .null else .num t          -- `obj if not np.isnan(obj) else None`
  | .int i => .int i
  | .str s => .str s
  | .bool b => .bool b                                      -- exact-type dispatch: bool is not taken for int
  | .none => .null
  | .f64arr xs => .arr (xs.map (fun t => if t = NaN then JVal.null else JVal.num t))
  | .ndarray xs => .arr (toJsonList xs)
  | .datetime t => if t = NaT then .null else .str (isoBlank t)   -- `jval if jval != "NaT" else None`
  | .na => .null
  | .npscalar v => toJson v                                 -- `to_json_serializable(obj.item())`
  | .other => .null                                         -- (raises, see `raises`)
def toJsonList : List PVal → List JVal
  | [] => []
  | x :: xs => toJson x :: toJsonList xs
def toJsonKvs : List (Str × PVal) → List (Str × JVal)
  | [] => []
  | (k, v) :: rest => (k, toJson v) :: toJsonKvs rest
end

def notImplemented : PyExc := .other "NotImplementedError".toList

mutual
/-- the exception `to_json_serializable` ends with, if any (first one in evaluation order) -/
def raises : PVal → Option PyExc
  | .dict kvs => raisesKvs kvs
  | .list xs => raisesList xs
  | .ndarray xs => raisesList xs
  | .npscalar v => raises v
  | .other => some notImplemented
  | _ => none
def raisesList : List PVal → Option PyExc
  | [] => none
  | x :: xs => match raises x with
    | some e => some e
    | none => raisesList xs
def raisesKvs : List (Str × PVal) → Option PyExc
  | [] => none
  | (_, v) :: rest => match raises v with
    | some e => some e
    | none => raisesKvs rest
end

/-- `to_json_serializable(obj)` -/
def toJsonSerializable (v : PVal) : Except PyExc JVal :=
  match raises v with
  | some e => .error e
  | none => .ok (toJson v)

/-! ## Python dict construction -/

/-- `d[k] = v` on an insertion-ordered dict -/
def dictSet {α : Type} (d : List (Str × α)) (k : Str) (v : α) : List (Str × α) :=
  match d with
  | [] => [(k, v)]
  | (k', v') :: rest => if k' = k then (k, v) :: rest else (k', v') :: dictSet rest k v

/-- a dict filled by successive assignments -/
def dictOfList {α : Type} (l : List (Str × α)) : List (Str × α) :=
  l.foldl (fun d kv => dictSet d kv.1 kv.2) []

/-! ## make_table_json_data: precursor -> JsonData -/

/-- the column value as it sits in the precursor: a numpy array per parsed column
    (text: `<U`, onoff: bool, numbers: float64, datetimes: object array of Timestamp / NaT /
    datetime), the shared `[]` for an unparsed one -/
def colPVal : ColVals → PVal
  | .text xs => .ndarray (xs.map .str)
  | .onoff xs => .ndarray (xs.map .bool)
  | .num xs => .f64arr xs
  | .dt xs => .ndarray (xs.map .datetime)
  | .raw => .list []

def colEntry (nuc : Str × Str × PVal) : Str × PVal :=
  (nuc.1, .dict [(sUnit, .str nuc.2.1), (sValues, nuc.2.2)])

/-- `zip(columns.keys(), units)` with the column's array looked up (columns are one per name, in order) -/
def precursorColumns (p : Precursor) : List (Str × PVal) :=
  (p.names.zip (p.units.zip p.columns)).map (fun nuc => colEntry (nuc.1, nuc.2.1, colPVal nuc.2.2))

/-- the dict `make_table_json_data` hands to `to_json_serializable`: "units" and "origin" deleted,
    "columns" re-assigned in place (so it stays the second member); `zip(columns.keys(), units)` drops
    the columns beyond the units -/
def precursorPVal (p : Precursor) : PVal :=
  .dict [(sName, .str p.name),
         (sColumns, .dict (dictOfList (precursorColumns p))),
         (sDestinations, .dict (p.destinations.map (fun d => (d, PVal.none))))]

/-- the same dict with each column's value given as *observed* (the harness classifies the numpy array of the
    real precursor: dtype float64 or not, and the exact type of every `.tolist()` element) -/
def precursorPValObs (name : Str) (cols : List (Str × Str × PVal)) (dests : List Str) : PVal :=
  .dict [(sName, .str name),
         (sColumns, .dict (dictOfList (cols.map colEntry))),
         (sDestinations, .dict (dests.map (fun d => (d, PVal.none))))]

/-- `make_table_json_data` after a successful `make_table_json_precursor` -/
def ofPrecursor (p : Precursor) : Except PyExc JVal := toJsonSerializable (precursorPVal p)

/-! ## table_to_json_data: Table -> JsonData -/

/-- one element of `list(table.df[cname])`: Python str / bool / float / int, pd.Timestamp or NaT -/
def valPVal : Val → PVal
  | .text s => .str s
  | .bool b => .bool b
  | .num t => .float t
  | .int i => .int i
  | .dt t => .datetime t

def tablePVal (t : TableVal) : PVal :=
  .dict [(sName, .str t.name),
         (sDestinations, .dict (dictOfList (t.destinations.map (fun d => (d, PVal.none))))),
         (sColumns, .dict (dictOfList (t.columns.map (fun c =>
            colEntry (c.name, c.unit, .list (c.values.map valPVal))))))]

/-- the same dict with the elements of `list(table.df[cname])` given as *observed* Python values (the harness
    classifies each element by its exact type; a numpy scalar would arrive as `.npscalar`) -/
def tablePValObs (name : Str) (dests : List Str) (cols : List (Str × Str × List PVal)) : PVal :=
  .dict [(sName, .str name),
         (sDestinations, .dict (dictOfList (dests.map (fun d => (d, PVal.none))))),
         (sColumns, .dict (dictOfList (cols.map (fun c => colEntry (c.1, c.2.1, .list c.2.2)))))]

/-- `table_to_json_data(table)` -/
def ofTable (t : TableVal) : Except PyExc JVal := toJsonSerializable (tablePVal t)

/-- the table value `_make_table` builds from a precursor, as far as `table_to_json_data` can see:
    the DataFrame holds text as str, onoff as bool, numbers as float64, datetimes as Timestamp / NaT;
    `dests` is the iteration order of the destination *set* (observed) -/
def colVals : ColVals → List Val
  | .text xs => xs.map .text
  | .onoff xs => xs.map .bool
  | .num xs => xs.map .num
  | .dt xs => xs.map .dt
  | .raw => []

def tableOf (p : Precursor) (dests : List Str) : TableVal :=
  ⟨p.name, dests, p.transposed,
   (p.names.zip (p.units.zip p.columns)).map (fun nuc => ⟨nuc.1, nuc.2.1, colVals nuc.2.2⟩)⟩

/-! ## json.dumps(allow_nan=False) -/

def isNonFinite (t : Str) : Bool := t = NaN || t = "inf".toList || t = "-inf".toList

mutual
/-- does some float leaf satisfy `bad` -/
def anyNum (bad : Str → Bool) : JVal → Bool
  | .num t => bad t
  | .arr xs => anyNumList bad xs
  | .obj kvs => anyNumKvs bad kvs
  | _ => false
def anyNumList (bad : Str → Bool) : List JVal → Bool
  | [] => false
  | x :: xs => anyNum bad x || anyNumList bad xs
def anyNumKvs (bad : Str → Bool) : List (Str × JVal) → Bool
  | [] => false
  | (_, v) :: rest => anyNum bad v || anyNumKvs bad rest
end

/-- `json.dumps(v, allow_nan=False)` does not raise ValueError -/
def dumpsStrictOk (v : JVal) : Bool := !anyNum isNonFinite v

/-! ## json_data_to_table: JsonData -> cell grid -> make_table -/

/-- shapes of JsonData this model declines to interpret (a container where a header cell or a value
    is expected): never produced by pdtable, never sent by the harness -/
def unmodelled : PyExc := .other "UNMODELLED".toList

/-- `obj[key]` for a string key -/
def member (k : Str) : JVal → Except PyExc JVal
  | .obj kvs => match kvs.lookup k with
    | some v => .ok v
    | none => .error .keyError
  | _ => .error .typeError

/-- `f"{x}"` for a JSON leaf -/
def fstr : JVal → Except PyExc Str
  | .null => .ok "None".toList
  | .bool b => .ok (if b then "True".toList else "False".toList)
  | .int i => .ok (intToStr i)
  | .num t => .ok t
  | .str s => .ok s
  | _ => .error unmodelled

/-- a JSON leaf as a native cell (values are not stringified); `fi i` = `repr(float(i))` -/
def leafCell (fi : Int → Str) : JVal → Except PyExc Cell
  | .null => .ok .none
  | .bool b => .ok (.bool b)
  | .int i => .ok (.int i (fi i))
  | .num t => .ok (.float t)
  | .str s => .ok (.str s)
  | _ => .error unmodelled

/-- the strings `" ".join(x)` iterates over -/
def joinItems : JVal → Except PyExc (List Str)
  | .obj kvs => .ok (kvs.map (·.1))
  | .arr xs => xs.mapM (fun x => match x with | .str s => .ok s | _ => .error .typeError)
  | .str s => .ok (s.map (fun c => [c]))
  | _ => .error .typeError

/-- the cells `zip(*data)` draws from one column's "values" -/
def valueCells (fi : Int → Str) : JVal → Except PyExc (List Cell)
  | .arr xs => xs.mapM (leafCell fi)
  | .str s => .ok (s.map (fun c => Cell.str [c]))
  | .obj kvs => .ok (kvs.map (fun kv => Cell.str kv.1))
  | _ => .error .typeError

/-- `list(map(list, zip(*data)))`: as many rows as the shortest column has values -/
def zipStar (cols : List (List Cell)) : List Row :=
  match cols with
  | [] => []
  | c :: cs =>
    let n := cs.foldl (fun m d => min m d.length) c.length
    (List.range n).map (fun i => cols.map (fun col => col.getD i .none))

/-- the members of the "columns" dict (`.keys()` / `.values()` need a dict: AttributeError otherwise) -/
def columnsOf (j : JVal) : Except PyExc (List (Str × JVal)) := do
  match ← member sColumns j with
  | .obj kvs => pure kvs
  | _ => throw .attributeError

/-- `f"{col['unit']}"` -/
def unitOf (kv : Str × JVal) : Except PyExc Str := do fstr (← member sUnit kv.2)

/-- `col["values"]` -/
def valuesOf (kv : Str × JVal) : Except PyExc JVal := member sValues kv.2

/-- the `lines_json` grid of `json_data_to_table`, in its evaluation order -/
def toGrid (fi : Int → Str) (j : JVal) : Except PyExc (List Row) := do
  let name ← fstr (← member sName j)
  let dests ← joinItems (← member sDestinations j)
  let cols ← columnsOf j
  let units ← cols.mapM unitOf
  let data ← cols.mapM valuesOf
  let cells ← data.mapM (valueCells fi)
  pure ([[Cell.str ("**".toList ++ name)], [Cell.str (joinWith ' ' dests)],
         cols.map (fun kv => Cell.str kv.1), units.map Cell.str] ++ zipStar cells)

/-- the fresh `ParseFixer()` of `make_fixer` -/
def freshFixer : Fixer := ⟨FixCfg.strict, 0, 0, []⟩

/-- `json_data_to_table(j)` (default fixer): the table as the precursor it is built from -/
def toTable (ext : Ext) (fi : Int → Str) (j : JVal) : Except PyExc Precursor := do
  let g ← toGrid fi j
  let (p, _) ← makeTable ext g freshFixer
  pure p

/-! ## parse_blocks: the `to` argument as text (`_table_handlers[to]`) -/

open Pdt.Blocks in
/-- `_table_handlers[to]`: the keys are the translated `TABLE_HANDLERS` keys -/
def formOf (s : Str) : Option Form :=
  if !Gen.tableHandlerKeys.contains s then none
  else if s = "pdtable".toList then some .pdtable
  else if s = "jsondata".toList then some .jsondata
  else if s = "cellgrid".toList then some .cellgrid
  else none

/-- the class `parse_blocks` raises for a key that is not there (translated from the `except KeyError` arm) -/
def unknownFormExc : PyExc :=
  if Gen.unknownFormRaises = "ValueError" then .valueError else .other Gen.unknownFormRaises.toList

open Pdt.Blocks in
/-- what the first `next()` on `parse_blocks(rows, to=…)` does -/
inductive Started
  | rejected (e : PyExc)        -- raised before the row iterator is advanced
  | running (r : Result)        -- the handlers are set up and the rows are read

open Pdt.Blocks in
/-- `parse_blocks` with `to` given as text: the handler lookup comes first and does not look at the rows -/
def parseBlocksStr (cfg : Config) (to : Str) (rows : List Row) (f : Fixer) : Started :=
  match formOf to with
  | none => .rejected unknownFormExc
  | some fm => .running (parseBlocks { cfg with form := fm } rows f)

end Pdt.Json
