/-
  Model/Combine.lean — how pandas operations carry table metadata along (property C05).

  Modelled pdtable code (function by function):
    frame.py            `_combine_tables`  -> `selectSources`, `sourceItems`, `combineStep`/`combineLoop`, `combine`
                        `TableDataFrame.__finalize__` -> `finalize`
                        `make_table_dataframe` + `TableDataFrame.from_table_info` -> inside `rewrap`
                        `add_column`, `set_units` (one column) -> `mutate`
    table_metadata.py   `TableMetadata.__init__/__post_init__` -> `newTableMeta`
                        `ColumnMetadata.update_from/copy`, `ColumnFormat.copy` -> `updateFrom`, `copyCol`, `copyFmt`
                        `ColumnMetadata.check_dtype`, `unit_from_dtype` -> `checkDtype`, `unitFromKind`
                        `ComplementaryTableInfo._update_columns/_check_dataframe` -> `updateColumns`, `checkDataframe`
    table_origin.py     `TableOrigin`, `get_input_ancestors` -> `Origin`, `Origin.ancestors`
    proxy.py            `Table.__init__` (re-wrap branch with `kwargs_join`) -> `rewrap`

  Object identity.  Every mutable Python object that can be reached from a frame's hidden
  `_table_data` lives in a typed store (`Heap`): destination sets, `ColumnFormat`s, `ColumnMetadata`s,
  column dicts, `TableMetadata`s, `ComplementaryTableInfo`s.  A reference is an index into the store
  of its kind; `alloc` models object creation (`copy()`, `set(...)`, `dict()`, a constructor call),
  storing a reference models plain assignment (sharing), `write` models attribute assignment /
  in-place mutation.  `TableOrigin` is a frozen dataclass and is a value.

  What pandas does is not modelled: *which* `__finalize__` calls arrive (method, `other`, which
  sources carry `_table_data`) and the result frame's column labels, dtypes and emptiness are inputs
  (`Other`, `Frame`), observed by the harness.

  Modelling shortcuts (each compared against the code by the correspondence check):
    * `_combine_tables` iterates `d.columns.items()` of the live source objects; the model reads the
      sources' (label, column) pairs once, before the loop (`sourceItems`) — the loop writes only to
      objects it has itself allocated.
    * a destinations value is always a set of strings (never the `str` form `__post_init__` also accepts).
    * column labels are opaque tokens (`Label`); labels equal in Python are sent as equal tokens.
-/
import PdtModel.Model.Text
import PdtModel.Gen.Consts
namespace Pdt.Combine
open Pdt

abbrev Ref := Nat
abbrev Label := Str

/-- exception classes raised by the modelled code -/
inductive Err
  | invalidTableCombine   -- frame.InvalidTableCombineError
  | attributeError        -- AttributeError (also: dangling / missing attribute in the protocol)
  | invalidNaming         -- table_metadata.InvalidNamingError
  | columnUnit            -- table_metadata.ColumnUnitException
  | valueError            -- ValueError (unit_from_dtype on an unknown kind; inconsistent TableOrigin)
  | keyError              -- KeyError
  deriving DecidableEq, Repr

inductive Warn
  | unknownMethod   -- "While combining pdTable metadata an unknown __finalize__ method …"
  | fallback        -- "Unable to establish table metadata … Will fall back to pd.DataFrame."
  deriving DecidableEq, Repr

/-! ## TableOrigin (frozen: a value) -/

/-- `metadata.origin`: `None` or a `TableOrigin(input_location, parents, operation)` -/
inductive Origin
  | absent
  | node (loc : Option Str) (parents : List Origin) (op : Option Str)
  deriving Repr

mutual
/-- `list(origin.get_input_ancestors())`; calling it on `None` is an AttributeError -/
def Origin.ancestors : Origin → Except Err (List Str)
  | .absent => .error .attributeError
  | .node loc ps op =>
    match op with
    | none => match loc with
      | some l => .ok [l]
      | none => .error .valueError
    | some _ => Origin.ancestorsList ps
def Origin.ancestorsList : List Origin → Except Err (List Str)
  | [] => .ok []
  | p :: ps =>
    match p.ancestors with
    | .error e => .error e
    | .ok a => match Origin.ancestorsList ps with
      | .error e => .error e
      | .ok b => .ok (a ++ b)
end

/-! ## The object store -/

structure Store (α : Type) where
  next : Nat
  get : Nat → Option α

namespace Store
def empty {α} : Store α := ⟨0, fun _ => none⟩
/-- object creation: the new object's identity is `s.next` -/
def alloc {α} (s : Store α) (a : α) : Store α × Ref :=
  (⟨s.next + 1, fun r => if r = s.next then some a else s.get r⟩, s.next)
/-- in-place mutation of the object with identity `r` -/
def write {α} (s : Store α) (r : Ref) (a : α) : Store α :=
  ⟨s.next, fun x => if x = r then some a else s.get x⟩
end Store

/-- `ColumnMetadata(unit, display_unit, display_format)` -/
structure ColMeta where
  unit : Str
  dispUnit : Option Str
  dispFmt : Option Ref      -- identity of a `ColumnFormat`
  deriving DecidableEq, Repr

/-- `TableMetadata(name, destinations, origin, transposed, strict_types)` -/
structure TMeta where
  name : Str
  dests : Ref               -- identity of the destinations set
  origin : Origin
  transposed : Bool
  strict : Bool

/-- `df.dtypes` (labels and dtype names), `df.empty` and `metadata.strict_types`, as kept in
    `_last_dataframe_state` / `_last_dataframe_empty` / `_last_strict_types` -/
structure FrameState where
  cols : List (Label × Str)
  empty : Bool
  strict : Bool             -- `_last_strict_types`: the strictness the register was validated under
  deriving DecidableEq, Repr

/-- `ComplementaryTableInfo(metadata, columns)` + the remembered dataframe state -/
structure Info where
  tmeta : Ref
  cols : Ref                -- identity of the columns dict
  last : Option FrameState

structure Heap where
  dsets : Store (List Str)
  fmts : Store Str
  cols : Store ColMeta
  dicts : Store (List (Label × Ref))
  tmetas : Store TMeta
  infos : Store Info

def Heap.empty : Heap := ⟨.empty, .empty, .empty, .empty, .empty, .empty⟩

/-- what the result frame looks like (pandas' side, observed): label, dtype name, dtype.kind -/
structure Frame where
  cols : List (Label × Str × Char)
  empty : Bool

def Frame.labels (fr : Frame) : List Label := fr.cols.map (·.1)
def Frame.state (fr : Frame) (strict : Bool) : FrameState :=
  ⟨fr.cols.map (fun c => (c.1, c.2.1)), fr.empty, strict⟩

/-! ## Small helpers -/

/-- `dict.get(key)` on an insertion-ordered association list -/
def assoc {α β} [DecidableEq α] : List (α × β) → α → Option β
  | [], _ => none
  | (k, v) :: rest, a => if k = a then some v else assoc rest a

/-- `d[key] = v`: overwrite in place or append -/
def dictSet {β} : List (Label × β) → Label → β → List (Label × β)
  | [], k, v => [(k, v)]
  | (k', v') :: rest, k, v => if k' = k then (k', v) :: rest else (k', v') :: dictSet rest k v

def hasDup : List Label → Bool
  | [] => false
  | x :: xs => decide (x ∈ xs) || hasDup xs

/-- Python truthiness of an `Optional[str]` -/
def truthy : Option Str → Bool
  | some (_ :: _) => true
  | _ => false

/-- `_unit_from_dtype_kind[dtype.kind]` (translated table) -/
def unitFromKind (k : Char) : Option Str := assoc Gen.unitFromDtypeKind k

/-- `f"{method}"` -/
def methodStr : Option Str → Str
  | none => "None".toList
  | some m => m

/-- `f"Pandas {method}"` -/
def pandasOp (method : Option Str) : Str := "Pandas ".toList ++ methodStr method

/-! ## ColumnMetadata / ColumnFormat -/

/-- `ColumnFormat.copy()`: a new object with the same specifier -/
def copyFmt (h : Heap) (f : Ref) : Except Err (Heap × Ref) :=
  match h.fmts.get f with
  | some s => let (st, r) := h.fmts.alloc s; .ok ({ h with fmts := st }, r)
  | none => .error .attributeError

/-- `a.update_from(b)` where `b` has already been read -/
def updateFrom (h : Heap) (a : Ref) (b : ColMeta) : Except Err Heap :=
  match h.cols.get a with
  | none => .error .attributeError
  | some s =>
    let du := if truthy s.dispUnit then s.dispUnit else b.dispUnit
    match s.dispFmt, b.dispFmt with
    | none, some f =>
      match copyFmt h f with
      | .error e => .error e
      | .ok (h1, f') => .ok { h1 with cols := h1.cols.write a ⟨b.unit, du, some f'⟩ }
    | _, _ => .ok { h with cols := h.cols.write a ⟨b.unit, du, s.dispFmt⟩ }

/-- `c.copy()`: `ColumnMetadata(c.unit)` then `update_from(c)` -/
def copyCol (h : Heap) (c : ColMeta) : Except Err (Heap × Ref) :=
  let (st, r) := h.cols.alloc ⟨c.unit, none, none⟩
  match updateFrom { h with cols := st } r c with
  | .error e => .error e
  | .ok h2 => .ok (h2, r)

/-- `ColumnMetadata.check_dtype` -/
def checkDtype (unit : Str) (kind : Char) : Except Err Unit :=
  match unitFromKind kind with
  | none => .error .valueError
  | some base =>
    if base ∈ Gen.unitsSpecial then
      (if base = unit then .ok () else .error .columnUnit)
    else if unit ∈ Gen.unitsSpecial then .error .columnUnit
    else .ok ()

/-! ## TableMetadata -/

/-- `TableMetadata(name=…, destinations=<object d>, origin=…, transposed=…, strict_types=…)`:
    the dataclass `__init__` stores the reference (sharing), `__post_init__` rebinds the field to
    `set(self.destinations)`, a new object -/
def newTableMeta (h : Heap) (name : Str) (d : Ref) (origin : Origin) (transposed strict : Bool) :
    Except Err (Heap × Ref) :=
  let (st, m) := h.tmetas.alloc ⟨name, d, origin, transposed, strict⟩
  let h1 := { h with tmetas := st }
  match h1.dsets.get d with
  | none => .error .attributeError
  | some xs =>
    let (sd, d') := h1.dsets.alloc xs.eraseDups
    .ok ({ h1 with dsets := sd, tmetas := h1.tmetas.write m ⟨name, d', origin, transposed, strict⟩ }, m)

/-! ## `_combine_tables` -/

/-- the `other` argument of `__finalize__`, as far as `_combine_tables` looks at it -/
structure Other where
  own : Option Ref                                  -- `getattr(other, "_table_data", None)`
  leftRight : Option (Option Ref × Option Ref)      -- `.left/.right` info (`none`: no such attributes)
  objs : Option (List (Option Ref))                 -- `.objs` info (`none`: no such attribute)

/-- source selection per method; `true` = the unknown-method warning was issued -/
def selectSources (method : Option Str) (o : Other) : Except Err (List (Option Ref) × Bool) :=
  match method with
  | none => .ok ([o.own], false)
  | some m =>
    if m ∈ Gen.safeMethods then .ok ([o.own], false)
    else if m = "merge".toList then
      match o.leftRight with
      | some (l, r) => .ok ([l, r], false)
      | none => .error .attributeError
    else if m = "concat".toList then
      match o.objs with
      | some os => .ok (os, false)
      | none => .error .attributeError
    else .ok ([o.own], true)

def getInfo (h : Heap) (i : Ref) : Except Err Info :=
  match h.infos.get i with | some x => .ok x | none => .error .attributeError
def getTMeta (h : Heap) (m : Ref) : Except Err TMeta :=
  match h.tmetas.get m with | some x => .ok x | none => .error .attributeError
def getDict (h : Heap) (c : Ref) : Except Err (List (Label × Ref)) :=
  match h.dicts.get c with | some x => .ok x | none => .error .attributeError
def getCol (h : Heap) (r : Ref) : Except Err ColMeta :=
  match h.cols.get r with | some x => .ok x | none => .error .attributeError

/-- `info.metadata` -/
def metaOf (h : Heap) (i : Ref) : Except Err TMeta :=
  match getInfo h i with
  | .error e => .error e
  | .ok inf => getTMeta h inf.tmeta

/-- the (label, ColumnMetadata) pairs of one dict, in dict order -/
def readEntries (h : Heap) : List (Label × Ref) → Except Err (List (Label × ColMeta))
  | [] => .ok []
  | (l, r) :: rest =>
    match getCol h r with
    | .error e => .error e
    | .ok c => match readEntries h rest with
      | .error e => .error e
      | .ok cs => .ok ((l, c) :: cs)

/-- `info.columns.items()` -/
def colsOf (h : Heap) (i : Ref) : Except Err (List (Label × ColMeta)) :=
  match getInfo h i with
  | .error e => .error e
  | .ok inf => match getDict h inf.cols with
    | .error e => .error e
    | .ok es => readEntries h es

/-- `[(name, c) for d in data for name, c in d.columns.items()]` -/
def sourceItems (h : Heap) : List Ref → Except Err (List (Label × ColMeta))
  | [] => .ok []
  | d :: ds =>
    match colsOf h d with
    | .error e => .error e
    | .ok cs => match sourceItems h ds with
      | .error e => .error e
      | .ok rest => .ok (cs ++ rest)

def Origin.isAbsent : Origin → Bool
  | .absent => true
  | _ => false

/-- `[d.metadata.origin for d in data if d.metadata.origin is not None]`: a table made in code has
    no origin and contributes no parent -/
def originsOf (h : Heap) : List Ref → Except Err (List Origin)
  | [] => .ok []
  | d :: ds =>
    match metaOf h d with
    | .error e => .error e
    | .ok tm => match originsOf h ds with
      | .error e => .error e
      | .ok os => .ok (if tm.origin.isAbsent then os else tm.origin :: os)

abbrev Acc := List (Label × Ref)

/-- one iteration of the inner loop of `_combine_tables` -/
def combineStep (outCols : List Label) (st : Heap × Acc) (item : Label × ColMeta) : Except Err (Heap × Acc) :=
  if item.1 ∈ outCols then
    match assoc st.2 item.1 with
    | none =>                                   -- not seen before: `col = c.copy(); columns[name] = col`
      match copyCol st.1 item.2 with
      | .error e => .error e
      | .ok (h1, r) => .ok (h1, st.2 ++ [(item.1, r)])
    | some col =>
      match st.1.cols.get col with
      | none => .error .attributeError
      | some cc =>
        if cc.unit = item.2.unit then
          match updateFrom st.1 col item.2 with
          | .error e => .error e
          | .ok h1 => .ok (h1, st.2)
        else .error .invalidTableCombine
  else .ok st                                    -- `if name not in out_cols: continue`

def combineLoop (outCols : List Label) : Heap × Acc → List (Label × ColMeta) → Except Err (Heap × Acc)
  | st, [] => .ok st
  | st, it :: rest =>
    match combineStep outCols st it with
    | .error e => .error e
    | .ok st' => combineLoop outCols st' rest

/-- `hasattr(x, "_table_data") and not x._table_data.metadata.strict_types` -/
def nonStrict (h : Heap) : Option Ref → Except Err Bool
  | none => .ok false
  | some i => match metaOf h i with
    | .error e => .error e
    | .ok tm => .ok (!tm.strict)

/-- `_combine_tables(obj, other, method)`; `objInfo` is `obj`'s current `_table_data` if it has one
    (pandas re-finalizes the same object, e.g. `concat` then `merge`), `outCols` is `obj.columns` -/
def combine (h : Heap) (method : Option Str) (objInfo : Option Ref) (o : Other) (outCols : List Label) :
    Except Err (Heap × Option Ref × List Warn) :=
  match selectSources method o with
  | .error e => .error e
  | .ok (src, warned) =>
  let w : List Warn := if warned then [.unknownMethod] else []
  let data := src.filterMap id
  match data with
  | [] => .ok (h, none, w)
  | d0 :: _ =>
  match originsOf h data with
  | .error e => .error e
  | .ok parents =>
  let origin := Origin.node none parents (some (pandasOp method))
  match nonStrict h objInfo with
  | .error e => .error e
  | .ok ns1 =>
  match (if ns1 then Except.ok true else nonStrict h o.own) with
  | .error e => .error e
  | .ok ns =>
  match metaOf h d0 with
  | .error e => .error e
  | .ok tm0 =>
  match newTableMeta h tm0.name tm0.dests origin false (!ns) with
  | .error e => .error e
  | .ok (h1, m) =>
  match sourceItems h data with
  | .error e => .error e
  | .ok items =>
  match combineLoop outCols (h1, []) items with
  | .error e => .error e
  | .ok (h2, acc) =>
  let (sd, c) := h2.dicts.alloc acc
  let (si, i) := h2.infos.alloc ⟨m, c, none⟩
  .ok ({ h2 with dicts := sd, infos := si }, some i, w)

/-! ## `_update_columns`, `_check_dataframe` -/

/-- one iteration of the "update metadata" loop of `_update_columns` -/
def updStep (strict empty : Bool) (st : Heap × Acc) (c : Label × Str × Char) : Except Err (Heap × Acc) :=
  if empty then .ok st
  else match assoc st.2 c.1 with
    | some r =>
      if strict then
        match st.1.cols.get r with
        | none => .error .attributeError
        | some cm => match checkDtype cm.unit c.2.2 with
          | .error e => .error e
          | .ok _ => .ok st
      else .ok st
    | none =>                                    -- `columns[name] = ColumnMetadata.from_dtype(dtype)`
      match unitFromKind c.2.2 with
      | none => .error .valueError
      | some u =>
        let (sc, r) := st.1.cols.alloc ⟨u, none, none⟩
        .ok ({ st.1 with cols := sc }, st.2 ++ [(c.1, r)])

def updLoop (strict empty : Bool) : Heap × Acc → List (Label × Str × Char) → Except Err (Heap × Acc)
  | st, [] => .ok st
  | st, c :: rest =>
    match updStep strict empty st c with
    | .error e => .error e
    | .ok st' => updLoop strict empty st' rest

/-- `info._update_columns(df)`: duplicate check, drop stale entries, check / register, re-order to
    dataframe column order; the dict object keeps its identity -/
def updateColumns (h : Heap) (inf : Info) (fr : Frame) : Except Err Heap :=
  if hasDup fr.labels then .error .invalidNaming
  else match getDict h inf.cols with
    | .error e => .error e
    | .ok es =>
      let kept := es.filter (fun e => decide (e.1 ∈ fr.labels))
      match getTMeta h inf.tmeta with
      | .error e => .error e
      | .ok tm =>
        match updLoop tm.strict fr.empty (h, kept) fr.cols with
        | .error e => .error e
        | .ok (h1, acc) =>
          let ordered := fr.labels.filterMap (fun l => (assoc acc l).map (fun r => (l, r)))
          .ok { h1 with dicts := h1.dicts.write inf.cols ordered }

/-- `info._check_dataframe(df)`: nothing to do when frame state and strictness are the remembered
    ones; otherwise `_update_columns`, and only after it succeeded the new state is remembered -/
def checkDataframe (h : Heap) (i : Ref) (fr : Frame) : Except Err Heap :=
  match getInfo h i with
  | .error e => .error e
  | .ok inf =>
    match getTMeta h inf.tmeta with
    | .error e => .error e
    | .ok tm =>
      if inf.last = some (fr.state tm.strict) then .ok h
      else match updateColumns h inf fr with
        | .error e => .error e
        | .ok h1 => .ok { h1 with infos := h1.infos.write i ⟨inf.tmeta, inf.cols, some (fr.state tm.strict)⟩ }

/-! ## `TableDataFrame.__finalize__` -/

inductive Res
  | plain                 -- `pd.DataFrame(self)`
  | table (info : Ref)    -- `self` with `_table_data` installed
  deriving DecidableEq, Repr

def finalize (h : Heap) (method : Option Str) (objInfo : Option Ref) (o : Other) (fr : Frame) :
    Except Err (Heap × Res × List Warn) :=
  match combine h method objInfo o fr.labels with
  | .error e => .error e
  | .ok (h1, none, w) => .ok (h1, .plain, w ++ [.fallback])
  | .ok (h1, some i, w) =>
    match checkDataframe h1 i fr with
    | .error e => .error e
    | .ok h2 => .ok (h2, .table i, w)

/-! ## `Table(df, name=…, destinations=…, units=…, transposed=…)` on a table frame -/

structure Kw where
  name : Option Str
  dests : Option (List Str)            -- `destinations=<a set>`
  units : Option (List Str)
  transposed : Option Bool
  destsStr : Option Str := none        -- `destinations="a b"`: `__post_init__` splits at single blanks
  origin : Option Origin := none       -- `origin=<TableOrigin or None>` (`some .absent` = an explicit `None`)
  strict : Option Bool := none         -- `strict_types=`

def Kw.isEmpty (kw : Kw) : Bool :=
  kw.name.isNone && kw.dests.isNone && kw.units.isNone && kw.transposed.isNone &&
  kw.destsStr.isNone && kw.origin.isNone && kw.strict.isNone

/-- the destinations value given by the caller, a `str` value already split as `__post_init__` does
    (`set(s.split(" "))`: empty tokens are kept) -/
def Kw.destsValue (kw : Kw) : Option (List Str) :=
  match kw.destsStr with
  | some s => some (splitOn ' ' s)
  | none => kw.dests

/-- `{col: ColumnMetadata(unit) for col, unit in zip(df.columns, units)}` -/
def zipCols : Heap × Acc → List (Label × Str) → Heap × Acc
  | st, [] => st
  | st, (l, u) :: rest =>
    let (sc, r) := st.1.cols.alloc ⟨u, none, none⟩
    zipCols ({ st.1 with cols := sc }, dictSet st.2 l r) rest

/-- the `destinations=` argument reaching `TableMetadata(...)`: the old set object itself (taken
    from `metadata.dict()`), or the caller's own object -/
def destsArg (h : Heap) (old : Ref) : Option (List Str) → Heap × Ref
  | none => (h, old)
  | some xs => ({ h with dsets := (h.dsets.alloc xs).1 }, (h.dsets.alloc xs).2)

/-- `make_table_dataframe(df, units=…, **metadata kwargs)` followed by `TableDataFrame.from_table_info`:
    new `TableMetadata`, new `ColumnMetadata` per (column, unit) pair, new dict, new info, consultation -/
def buildTable (h : Heap) (name : Str) (d : Ref) (origin : Origin) (transposed strict : Bool)
    (pairs : List (Label × Str)) (fr : Frame) : Except Err (Heap × Ref) :=
  match newTableMeta h name d origin transposed strict with
  | .error e => .error e
  | .ok (h3, m) =>
    let z := zipCols (h3, []) pairs
    let h5 : Heap := { z.1 with dicts := (z.1.dicts.alloc z.2).1,
                                infos := (z.1.infos.alloc ⟨m, z.1.dicts.next, none⟩).1 }
    match checkDataframe h5 z.1.infos.next fr with
    | .error e => .error e
    | .ok h6 => .ok (h6, z.1.infos.next)

/-- `Table.__init__` with a table frame: no kwargs → the frame is used as it is; otherwise the
    frame is consulted (`get_table_info`), `kwargs_join` = old units/name/metadata fields overridden
    by the kwargs, and `make_table_dataframe` builds a new frame with new metadata -/
def rewrap (h : Heap) (i : Ref) (fr : Frame) (kw : Kw) : Except Err (Heap × Ref) :=
  if kw.isEmpty then .ok (h, i)
  else
  match checkDataframe h i fr with
  | .error e => .error e
  | .ok h1 =>
  match getInfo h1 i with
  | .error e => .error e
  | .ok inf =>
  match getTMeta h1 inf.tmeta with
  | .error e => .error e
  | .ok tm =>
  match colsOf h1 i with
  | .error e => .error e
  | .ok cs =>
  let p := destsArg h1 tm.dests kw.destsValue
  buildTable p.1 (kw.name.getD tm.name) p.2 (kw.origin.getD tm.origin) (kw.transposed.getD tm.transposed)
    (kw.strict.getD tm.strict)
    (fr.labels.zip (kw.units.getD (cs.map (fun c => c.2.unit)))) fr

/-! ## Follow-up mutations through the `Table` facade -/

inductive Mut
  | setUnit (col : Label) (u : Str)        -- `Table(df)[col].unit = u` / `set_units`
  | setName (n : Str)                      -- `Table(df).metadata.name = n`
  | addDest (d : Str)                      -- `Table(df).destinations.add(d)`
  | removeDest (d : Str)                   -- `Table(df).metadata.destinations.discard(d)` (may leave the set empty)
  | addColumn (col : Label) (u : Str)      -- `Table(df).add_column(col, values, unit=u)` (metadata part)
  | setDispUnit (col : Label) (u : Str)    -- `Table(df).column_metadata[col].display_unit = u`
  | setFmt (col : Label) (spec : Str)      -- `….display_format.specifier = spec` (no-op when there is no format)
  | consult (fr : Frame)                   -- any read access after the frame itself was changed in place
                                           -- (`del df[c]`, columns re-ordered, …): `get_table_info(df)`

def mutate (h : Heap) (i : Ref) (mu : Mut) : Except Err Heap :=
  match getInfo h i with
  | .error e => .error e
  | .ok inf =>
  match mu with
  | .consult fr => checkDataframe h i fr
  | .setName n =>
    match getTMeta h inf.tmeta with
    | .error e => .error e
    | .ok tm => .ok { h with tmetas := h.tmetas.write inf.tmeta { tm with name := n } }
  | .addDest d =>
    match getTMeta h inf.tmeta with
    | .error e => .error e
    | .ok tm => match h.dsets.get tm.dests with
      | none => .error .attributeError
      | some xs => .ok { h with dsets := h.dsets.write tm.dests (if d ∈ xs then xs else xs ++ [d]) }
  | .removeDest d =>
    match getTMeta h inf.tmeta with
    | .error e => .error e
    | .ok tm => match h.dsets.get tm.dests with
      | none => .error .attributeError
      | some xs => .ok { h with dsets := h.dsets.write tm.dests (xs.filter (fun x => x ≠ d)) }
  | .setUnit l u =>
    match getDict h inf.cols with
    | .error e => .error e
    | .ok es => match assoc es l with
      | none => .error .keyError
      | some r => match getCol h r with
        | .error e => .error e
        | .ok cm => .ok { h with cols := h.cols.write r { cm with unit := u } }
  | .setDispUnit l u =>
    match getDict h inf.cols with
    | .error e => .error e
    | .ok es => match assoc es l with
      | none => .error .keyError
      | some r => match getCol h r with
        | .error e => .error e
        | .ok cm => .ok { h with cols := h.cols.write r { cm with dispUnit := some u } }
  | .setFmt l spec =>
    match getDict h inf.cols with
    | .error e => .error e
    | .ok es => match assoc es l with
      | none => .error .keyError
      | some r => match getCol h r with
        | .error e => .error e
        | .ok cm => match cm.dispFmt with
          | none => .ok h
          | some f => .ok { h with fmts := h.fmts.write f spec }
  | .addColumn l u =>
    match getDict h inf.cols with
    | .error e => .error e
    | .ok es =>
      let (sc, r) := h.cols.alloc ⟨u, none, none⟩     -- `new_col = ColumnMetadata(unit=unit)`
      let h1 := { h with cols := sc }
      match (match assoc es l with
             | none => Except.ok { h1 with dicts := h1.dicts.write inf.cols (es ++ [(l, r)]) }
             | some old => updateFrom h1 old ⟨u, none, none⟩) with
      | .error e => .error e
      -- the register was edited without validation: `table_info._last_dataframe_state = None`
      | .ok h2 => .ok { h2 with infos := h2.infos.write i ⟨inf.tmeta, inf.cols, none⟩ }

def mutateAll (h : Heap) (i : Ref) : List Mut → Except Err Heap
  | [] => .ok h
  | mu :: rest => match mutate h i mu with
    | .error e => .error e
    | .ok h1 => mutateAll h1 i rest

/-! ## Observations -/

structure ColObs where
  label : Label
  unit : Str
  dispUnit : Option Str
  fmt : Option Str
  deriving DecidableEq, Repr

/-- everything a reader can see of one frame's metadata -/
structure Obs where
  name : Str
  dests : List Str
  origin : Origin
  transposed : Bool
  strict : Bool
  cols : List ColObs

def obsCols (h : Heap) : List (Label × Ref) → Option (List ColObs)
  | [] => some []
  | (l, r) :: rest =>
    match h.cols.get r with
    | none => none
    | some cm =>
      match (match cm.dispFmt with
             | none => some none
             | some f => (h.fmts.get f).map some) with
      | none => none
      | some fo => (obsCols h rest).map (fun cs => ⟨l, cm.unit, cm.dispUnit, fo⟩ :: cs)

def observe (h : Heap) (i : Ref) : Option Obs :=
  match h.infos.get i with
  | none => none
  | some inf =>
    match h.tmetas.get inf.tmeta with
    | none => none
    | some tm =>
      match h.dsets.get tm.dests with
      | none => none
      | some ds =>
        match h.dicts.get inf.cols with
        | none => none
        | some es => (obsCols h es).map (fun cs => ⟨tm.name, ds, tm.origin, tm.transposed, tm.strict, cs⟩)

/-- identities of the mutable objects -/
inductive Loc
  | dset (r : Ref) | fmt (r : Ref) | col (r : Ref) | dict (r : Ref) | tmeta (r : Ref) | info (r : Ref)
  deriving DecidableEq, Repr

/-- every mutable object reachable from the info object `i` -/
def reach (h : Heap) (i : Ref) : List Loc :=
  match h.infos.get i with
  | none => [.info i]
  | some inf =>
    let ds := match h.tmetas.get inf.tmeta with
      | some tm => [Loc.dset tm.dests]
      | none => []
    let es : List Ref := match h.dicts.get inf.cols with
      | some es => es.map (fun e => e.2)
      | none => []
    let fs := es.filterMap (fun r => match h.cols.get r with
      | some cm => cm.dispFmt
      | none => none)
    [.info i, .tmeta inf.tmeta, .dict inf.cols] ++ ds ++ es.map Loc.col ++ fs.map Loc.fmt

end Pdt.Combine
