/-
  Model/Segment.lean — the block splitter of `blocks.py:parse_blocks_stable`
  (lines 467-517): a 5-state automaton over rows, driven by the first cell of each row.
  Generic in the row type `R`; `kindOf` abstracts the first-cell test.
-/
import PdtModel.Model.Cell
import PdtModel.Model.Marker
namespace Pdt

/-- `pdtable.store.BlockType` -/
inductive BT | directive | table | template | metadata | blank
  deriving DecidableEq, Repr, Inhabited

/-- what `parse_blocks_stable` sees of a row -/
inductive Kind
  | blankRow (keep : Bool)   -- no cells / first cell blank; keep = "has payload" (len(row) ≥ 2)
  | tbl | dir | tpl | mta | plain
  deriving DecidableEq, Repr, Inhabited

def Kind.isBlank : Kind → Bool
  | .blankRow _ => true
  | _ => false

/-- row classification exactly as the `if / elif isinstance(row[0], str) / else` cascade -/
def rowKind : Row → Kind
  | [] => .blankRow false
  | c :: rest =>
    if c.isBlank then .blankRow (!rest.isEmpty)
    else match c with
      | .str s => match classify s with
        | some .table => .tbl
        | some .directive => .dir
        | some .template => .tpl
        | some .metadata => .mta
        | none => .plain
      | _ => .plain

structure St (R : Type) where
  grid : List R
  state : BT
  first : Nat

structure Block (R : Type) where
  ty : BT
  rows : List R
  first : Nat
  deriving Repr

section
variable {R : Type} (kindOf : R → Kind)

/-- `block_output` for a handler that returns its cell grid: nothing for an empty grid -/
def emit (s : St R) : List (Block R) :=
  match s.grid with
  | [] => []
  | _ :: _ => [⟨s.state, s.grid, s.first⟩]

def switch (s : St R) (i : Nat) (row : R) (nxt : BT) (keep : Bool) : St R × List (Block R) :=
  ({ grid := if keep then [row] else [], state := nxt, first := i }, emit s)

def step (s : St R) (i : Nat) (row : R) : St R × List (Block R) :=
  match kindOf row with
  | .plain => ({ s with grid := s.grid ++ [row] }, [])
  | .mta => if s.state = .metadata then ({ s with grid := s.grid ++ [row] }, [])
            else switch s i row .blank true
  | .blankRow keep => if s.state = .blank then (s, []) else switch s i row .blank keep
  | .tbl => switch s i row .table true
  | .dir => switch s i row .directive true
  | .tpl => switch s i row .template true

def go (i : Nat) (s : St R) : List R → List (Block R)
  | [] => emit s
  | r :: rs => (step kindOf s i r).2 ++ go (i + 1) (step kindOf s i r).1 rs

def initSt : St R := ⟨[], .metadata, 0⟩

def run (rows : List R) : List (Block R) := go kindOf 0 initSt rows

/-- blocks emitted before the final flush, and the state left over -/
def emitted (i : Nat) (s : St R) : List R → List (Block R) × St R
  | [] => ([], s)
  | r :: rs =>
    let p := emitted (i + 1) (step kindOf s i r).1 rs
    ((step kindOf s i r).2 ++ p.1, p.2)

end

/-- the segmentation of native rows -/
def segment (rows : List Row) : List (Block Row) := run rowKind rows

end Pdt
