/-
  Model/Rewrites.lean — table values, their two text layouts, and the five rewrite families of C10 as
  executable functions on cell grids / row sequences.

  A table value here is what the writer has already rendered: per column a name, a unit and the cell
  spellings (native cells for the Excel reader).  `layoutR` / `layoutT` are the row-wise and the transposed
  cell grid of the table block (csv.py:_table_to_csv, _excel_openpyxl.py:_append_table_to_openpyxl_worksheet
  without the trailing separator cell, which is `padTrailing` with one empty cell on the first line).

  Rewrites (DESIGN §5 C10):
    toTransposed   row-wise grid ↦ transposed grid
    padTrailing    append cells to the end of any line
    padHeaderR/T   surround the column-name and unit cells with blanks (row-wise / transposed grid)
    addComments    a blank cell and free cells after the last name on the column-name row
    endBy          what follows the block in the row stream: nothing, a blank line, the next block
-/
import PdtModel.Model.Reader
import PdtModel.Model.Segment
namespace Pdt.Rewrites
open Pdt Pdt.Reader

structure TCol where
  name : Str
  unit : Str
  cells : List Cell
  deriving Repr, DecidableEq

structure TV where
  name : Str
  dest : Cell                 -- the destinations cell as written
  cols : List TCol
  nRows : Nat
  deriving Repr

def TV.names (t : TV) : List Str := t.cols.map (·.name)
def TV.units (t : TV) : List Str := t.cols.map (·.unit)

/-- the value rows: row `i` holds cell `i` of every column -/
def TV.dataRows (t : TV) : List Row := transposeN (t.cols.map (·.cells)) t.nRows

def headR (t : TV) : Cell := .str ('*' :: '*' :: t.name)
def headT (t : TV) : Cell := .str ('*' :: '*' :: (t.name ++ ['*']))

/-- row-wise layout: `**name` / destinations / names / units / one line per row.
    A table without columns has an empty column-name line, which ends the block for the splitter: its block is
    the two lines `**name` / destinations (csv.py:_table_to_csv writes `**t;`, `all`, then empty lines). -/
def layoutR (t : TV) : List Row :=
  if t.cols.isEmpty then [[headR t], [t.dest]]
  else [headR t] :: [t.dest] :: t.names.map Cell.str :: t.units.map Cell.str :: t.dataRows

def lineT (c : TCol) : Row := .str c.name :: .str c.unit :: c.cells

/-- transposed layout: `**name*` / destinations / one line `name, unit, values…` per column -/
def layoutT (t : TV) : List Row := [headT t] :: [t.dest] :: t.cols.map lineT

/-! ## the rewrites -/

/-- append `pads[i]` to line `i` (lines beyond the list are left alone) -/
def padTrailing : List Row → List (List Cell) → List Row
  | [], _ => []
  | r :: rs, [] => r :: rs
  | r :: rs, p :: ps => (r ++ p) :: padTrailing rs ps

/-- blanks `lr.1` before and `lr.2` after a text cell; other cells are left alone -/
def padCell (lr : Str × Str) : Cell → Cell
  | .str s => .str (lr.1 ++ s ++ lr.2)
  | c => c

/-- cell `j` of the list gets the blanks `f (k + j)` -/
def padCells (f : Nat → Str × Str) : Nat → List Cell → List Cell
  | _, [] => []
  | k, c :: cs => padCell (f k) c :: padCells f (k + 1) cs

/-- row-wise grid: blanks around the cells of the column-name row (`fn`) and of the unit row (`fu`) -/
def padHeaderR (fn fu : Nat → Str × Str) : List Row → List Row
  | h :: d :: ns :: us :: rest => h :: d :: padCells fn 0 ns :: padCells fu 0 us :: rest
  | g => g

def padLines (fn fu : Nat → Str × Str) : Nat → List Row → List Row
  | _, [] => []
  | k, (n :: u :: vs) :: ls => (padCell (fn k) n :: padCell (fu k) u :: vs) :: padLines fn fu (k + 1) ls
  | k, l :: ls => l :: padLines fn fu (k + 1) ls

/-- transposed grid: blanks around the first two cells (name, unit) of every line -/
def padHeaderT (fn fu : Nat → Str × Str) : List Row → List Row
  | h :: d :: lines => h :: d :: padLines fn fu 0 lines
  | g => g

/-- row-wise grid: a blank cell `b` and free-text cells `cs` after the column-name row -/
def addComments (b : Cell) (cs : List Cell) : List Row → List Row
  | h :: d :: ns :: rest => h :: d :: (ns ++ b :: cs) :: rest
  | g => g

/-- row-wise grid ↦ transposed grid: the transpose decorator on the name, lines 2.. zipped -/
def toTransposed : List Row → List Row
  | (Cell.str s :: r0) :: d :: ns :: rest =>
    (Cell.str (s ++ ['*']) :: r0) :: d :: transposeN (ns :: rest) ns.length
  | [Cell.str s :: r0, d] => [Cell.str (s ++ ['*']) :: r0, d]          -- a table without columns
  | g => g

/-- the rewrites of one text that keep its orientation, as data; `apply` interprets them -/
inductive Rewrite
  | padTrailing (pads : List (List Cell))
  | padHeaderR (fn fu : Nat → Str × Str)
  | padHeaderT (fn fu : Nat → Str × Str)
  | addComments (b : Cell) (cs : List Cell)

def Rewrite.apply : Rewrite → List Row → List Row
  | .padTrailing pads, g => Rewrites.padTrailing g pads
  | .padHeaderR fn fu, g => Rewrites.padHeaderR fn fu g
  | .padHeaderT fn fu, g => Rewrites.padHeaderT fn fu g
  | .addComments b cs, g => Rewrites.addComments b cs g

/-- any sequence of rewrites, applied left to right -/
def applyAll (rs : List Rewrite) (g : List Row) : List Row := rs.foldl (fun g r => r.apply g) g

/-- how the block ends in the row stream -/
inductive EndBy
  | eof
  | blankLine (b : Row) (rest : List Row)       -- `b` is a row with no cells or a blank first cell
  | nextBlock (m : Row) (rest : List Row)       -- `m` starts another block (`**`, `***`, `:`, or a `key:` row)
  deriving Repr

def endBy (g : List Row) : EndBy → List Row
  | .eof => g
  | .blankLine b rest => g ++ b :: rest
  | .nextBlock m rest => g ++ m :: rest

def EndBy.ok : EndBy → Bool
  | .eof => true
  | .blankLine b _ => (rowKind b).isBlank
  | .nextBlock m _ => rowKind m != .plain && !(rowKind m).isBlank

/-! ## well-formedness (DESIGN §3), the clauses the reader-side equalities need, as decidable predicates -/

/-- a column name: equal to its own strip, not blank -/
def nameOK (s : Str) : Bool := s == strip s && !(Cell.str s).isBlank
def unitOK (s : Str) : Bool := s == strip s

def allBlank (p : List Cell) : Bool := p.all Cell.isBlank

/-- both layouts: the name does not end in `*` (it would read as the transpose decorator), at least one column,
    names / units trimmed, names not blank, all columns of the common length -/
def TV.wf (t : TV) : Bool :=
  t.name.getLast? != some '*' && !t.cols.isEmpty &&
  t.cols.all (fun c => nameOK c.name && unitOK c.unit && c.cells.length == t.nRows)

/-- a table without columns (and hence without rows): both layouts are the two lines `**name[*]` / destinations -/
def TV.wf0 (t : TV) : Bool :=
  t.name.getLast? != some '*' && t.cols.isEmpty && t.nRows == 0

/-- transposed layout only: every value row has a cell that is not blank (the reader stops at the first
    all-blank row, blocks.py:165-176) -/
def TV.wfT (t : TV) : Bool :=
  (List.range t.nRows).all (fun i => t.cols.any (fun c => !(getD0 c.cells i).isBlank))

/-- the grid is one TABLE block for the splitter: first cell a `**` marker, every further row starts with a cell
    that is neither blank nor a block marker (DESIGN §3 clauses 1-5 "is not a marker / not blank") -/
def blockShaped : List Row → Bool
  | h :: rest => rowKind h == .tbl && rest.all (fun r => rowKind r == .plain)
  | [] => false

end Pdt.Rewrites
