/-
  Model/Marker.lean — hand model of `blocks.py:_re_block_marker` together with the
  `mm.group(1) == "**"` / `"***"` / `mm.group(4)` dispatch in `parse_blocks_stable`.

      ^( (?<!\*)(\*\*\*?)(?!\*)  |  ((?<!:):{1,3}(?!:))[^:]*\s*$  |  ([^:]+:)\s*$ )

  `match` anchors at the start only; alternatives are tried in order.
-/
import PdtModel.Model.Text
namespace Pdt

inductive Marker
  | table | directive | template | metadata
  deriving DecidableEq, Repr, Inhabited

/-- number of leading occurrences of `c` -/
def leading (c : Char) : Str → Nat
  | [] => 0
  | x :: xs => if x = c then leading c xs + 1 else 0

/-- alternative 2: one to three leading colons, then no further colon up to the end -/
def isTemplate (s : Str) : Bool :=
  let m := leading ':' s
  1 ≤ m && m ≤ 3 && !(s.drop m).contains ':'

/-- alternative 3: `[^:]+:\s*$` — non-empty colon-free body, one colon, trailing whitespace only -/
def isMetaKey (s : Str) : Bool :=
  let body := s.takeWhile (· != ':')
  let rest := s.dropWhile (· != ':')
  !body.isEmpty && (match rest with
    | _ :: ws => ws.all isSpace
    | [] => false)

def classifyColon (s : Str) : Option Marker :=
  if isTemplate s then some .template
  else if isMetaKey s then some .metadata
  else none

/-- which kind of block start marker the (string) cell is, if any.
    Alternative 1 matches `**` resp. `***` iff the cell starts with exactly two resp. three stars
    (greedy `\*\*\*?` with backtracking under the `(?!\*)` look-ahead). -/
def classify (s : Str) : Option Marker :=
  let k := leading '*' s
  if k = 2 then some .table
  else if k = 3 then some .directive
  else classifyColon s

end Pdt
