/-
  Model/Represent.lean — table values and `_represent.py:_represent_row_elements`
  (shared by the CSV writer, the Excel writer and the JSON layer).

  A table value is what a `Table` holds as far as the writers can see: name, destinations (in the
  iteration order of the set, which the harness observes), orientation flag, and per column its
  name, unit and values.  Column values are typed by the dtype pandas holds them in.
-/
import PdtModel.Model.Cell
import PdtModel.Model.Reader
namespace Pdt.Represent
open Pdt Pdt.Reader

/-- one stored value.  `num "nan"` / `dt "NaT"` are the missing values -/
inductive Val
  | text (s : Str)
  | bool (b : Bool)
  | num (tok : Str)        -- float64 / int64 value as canonical float token (ints as "3.0"? no: see `int`)
  | int (i : Int)          -- int64 column value (prints as `3`, not `3.0`)
  | dt (tok : Str)         -- ISO token of the timestamp
  deriving DecidableEq, Repr

def Val.isNa : Val → Bool
  | .num t => t = NaN
  | .dt t => t = NaT
  | _ => false

structure Column where
  name : Str
  unit : Str
  values : List Val
  deriving Repr

structure TableVal where
  name : Str
  destinations : List Str
  transposed : Bool
  columns : List Column
  deriving Repr

def TableVal.nRows (t : TableVal) : Nat := match t.columns with | [] => 0 | c :: _ => c.values.length

/-- `pd.to_datetime(val).to_pydatetime()` followed by `str`: what is finer than a microsecond is dropped
    (a token carries 0, 6 or 9 fractional digits), and `str(datetime)` prints no fraction at all when the
    microseconds are zero.  A UTC offset after the fraction is kept. -/
def truncMicro (tok : Str) : Str :=
  match tok.dropWhile (fun c => c != '.') with
  | [] => tok
  | _ :: rest =>
    let digs := rest.takeWhile Char.isDigit
    if digs.length ≤ 6 then tok
    else
      let head := tok.takeWhile (fun c => c != '.')
      let suffix := rest.dropWhile Char.isDigit
      if (digs.take 6).all (fun c => c == '0') then head ++ suffix else head ++ '.' :: digs.take 6 ++ suffix

theorem dropWhile_ne_dot (tok : Str) (h : tok.contains '.' = false) :
    tok.dropWhile (fun c => c != '.') = [] := by
  induction tok with
  | nil => rfl
  | cons c cs ih =>
    simp only [List.contains_cons, Bool.or_eq_false_iff] at h
    have hc : (c != '.') = true := by
      have h1 := h.1
      simp only [beq_eq_false_iff_ne, ne_eq] at h1
      simp only [bne_iff_ne, ne_eq]
      exact fun e => h1 e.symm
    show (match (c != '.') with | true => List.dropWhile (fun c => c != '.') cs | false => c :: cs) = []
    rw [hc]
    exact ih h.2

theorem truncMicro_of_no_dot (tok : Str) (h : tok.contains '.' = false) : truncMicro tok = tok := by
  unfold truncMicro
  rw [dropWhile_ne_dot tok h]

/-- `_represent_row_elements` for one element: `col` is the position the code tests with `col == 0`
    (the column index when called row-wise; the *row* index when called through
    `_represent_col_elements`) -/
def represent (naRep : Str) (col : Nat) (unit : Str) (v : Val) : Cell :=
  if unit ≠ uText && v.isNa then .str naRep
  else if unit = uOnoff then
    match v with
    | .bool b => .int (if b then 1 else 0) (if b then "1.0".toList else "0.0".toList)
    | .int i => .int i (intToStr i ++ ".0".toList)           -- `val in [True, 1]` / `[False, 0]` yield 1 / 0
    | .num t => if t = "1.0".toList then .int 1 "1.0".toList
                else if t = "0.0".toList || t = "-0.0".toList then .int 0 "0.0".toList else .float t
    | .text s => .str s
    | .dt t => .dt t
  else if unit = uText then
    match v with
    | .text s => if s.isEmpty && col = 0 then .str Gen.sealant else .str s
    | .bool b => .str (if b then "True".toList else "False".toList)
    | .num t => .str t
    | .int i => .str (intToStr i)
    | .dt t => .str (t.map (fun c => if c = 'T' then ' ' else c))
  else if unit = uDatetime then
    match v with
    | .dt t => .dt (truncMicro t)
    | .text s => .other s            -- pd.to_datetime(str): outside well-formed tables
    | .bool b => .bool b
    | .num t => .float t
    | .int i => .int i (intToStr i ++ ".0".toList)
  else
    match v with
    | .num t => .float t
    | .int i => .int i (intToStr i ++ ".0".toList)
    | .bool b => .bool b
    | .text s => .str s
    | .dt t => .dt t

end Pdt.Represent
