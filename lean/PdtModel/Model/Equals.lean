/-
  Model/Equals.lean — `Table.equals` (proxy.py:292-324) with `__metadata_comp_key`,
  `_equal_or_same`, `_df_elements`, `_df_elements_all_equal_or_same` (proxy.py:436-456).

  Cells are the Python scalars `DataFrame.itertuples()` yields (the index label first, then one
  value per column).  External behaviour that enters as data (computed by the harness with CPython /
  pandas primitives, never through pdtable):
    * a number (`int`, `float`, `bool`, numpy scalar; finite or infinite, not NaN) is carried as the
      canonical token of its exact value (decimal integer when integral, `repr(float)` otherwise,
      `-0.0` as `0`): Python `==` between two numbers is `True` iff the tokens are equal
      (`1 == 1.0 == True`);
    * a tz-naive timestamp is carried as its integer nanosecond count, a tz-aware one as the nanosecond
      count of its UTC instant (pandas / datetime compare aware timestamps by instant and answer False,
      without raising, for aware == naive);
    * the four "missing" flavours `None`, float NaN, `pd.NaT`, `pd.NA` are separate constructors
      because the code treats them differently (`None == None` is True, NaN ≠ NaN, `pd.NA` is
      tested by identity first).
  The identity disjunct `a is b` of `_equal_or_same` is not modelled: for every scalar kind here
  identity implies `==` or "both missing".
-/
import PdtModel.Model.Text
namespace Pdt.Equals
open Pdt

/-- the missing-value flavours (`pd.isna` is True for exactly these) -/
inductive Miss
  | none   -- Python `None`
  | nan    -- float NaN (`float('nan')`, `np.nan`)
  | nat    -- `pd.NaT`
  | na     -- `pd.NA` (nullable dtypes)
  deriving DecidableEq, Repr

/-- one scalar of a cell stream -/
inductive Sc
  | num (tok : Str)    -- int / float / bool by exact value
  | str (s : Str)
  | ts (tok : Str)     -- tz-naive Timestamp / datetime: its nanosecond count
  | tsz (tok : Str)    -- tz-aware Timestamp / datetime: the nanosecond count of its UTC instant
  | miss (k : Miss)
  deriving DecidableEq, Repr

/-- `pd.isna(x)` on a scalar -/
def isna : Sc → Bool
  | .miss _ => true
  | _ => false

/-- `a is pd.NA` -/
def isPdNA : Sc → Bool
  | .miss .na => true
  | _ => false

/-- `bool(a == b)` for two scalars neither of which is `pd.NA` (for these kinds `==` never raises) -/
def pyEq : Sc → Sc → Bool
  | .num a, .num b => a == b
  | .str a, .str b => a == b
  | .ts a, .ts b => a == b
  | .tsz a, .tsz b => a == b           -- same instant, whatever the two time zones; aware vs naive is False
  | .miss .none, .miss .none => true   -- `None == None`
  | _, _ => false                      -- NaN ≠ NaN, NaT ≠ NaT, different kinds never equal

/-- `_equal_or_same(a, b)`:
    `if a is pd.NA or b is pd.NA: return bool(pd.isna(a) and pd.isna(b))`
    `return a == b or a is b or (pd.isna(a) and pd.isna(b))` -/
def equalOrSame (a b : Sc) : Bool :=
  if isPdNA a || isPdNA b then isna a && isna b
  else pyEq a b || (isna a && isna b)

/-- a table as `equals` can observe it (plus the two fields it must not observe) -/
structure Tbl where
  sub : Bool                      -- the object's class is a proper subclass of `Table`
  name : Str
  dests : List Str                -- `metadata.destinations` (a set: order irrelevant)
  colNames : List Str             -- `column_names`
  units : List Str                -- `units`
  rows : List (Sc × List Sc)      -- `df.itertuples()`: (index label, cell values)
  transposed : Bool
  origin : Str
  deriving Repr

/-- the `other` argument -/
inductive Arg
  | notTable (typeName : Str)
  | table (t : Tbl)

/-- Python `set == set` -/
def setEq (xs ys : List Str) : Bool := xs.all (fun x => ys.contains x) && ys.all (fun y => xs.contains y)

/-- `self.__metadata_comp_key() == other.__metadata_comp_key()` -/
def keyEq (a b : Tbl) : Bool :=
  a.name == b.name && setEq a.dests b.dests && a.colNames == b.colNames && a.units == b.units

/-- `_df_elements(df)` -/
def stream (t : Tbl) : List Sc := t.rows.flatMap (fun r => r.1 :: r.2)

/-- `all(_equal_or_same(x1, x2) for x1, x2 in zip(s1, s2))`: stops at the shorter stream and at
    the first `False` -/
def allEq : List Sc → List Sc → Bool
  | x :: xs, y :: ys => if equalOrSame x y then allEq xs ys else false
  | _, _ => true

/-- `_df_elements_all_equal_or_same`.  The `except Exception: return False` arm is unreachable for
    the scalar kinds of `Sc` (none of their comparisons raises) and is not modelled. -/
def dfAllEq (a b : Tbl) : Bool := allEq (stream a) (stream b)

/-- `isinstance(other, self.__class__)` for `other` a Table or an instance of the subclass -/
def isInstance (other self : Tbl) : Bool := !self.sub || other.sub

/-- `Table.equals(self, other)` -/
def equals (self : Tbl) : Arg → Bool
  | .notTable _ => false
  | .table o =>
    if isInstance o self then
      keyEq self o && (self.rows.length == o.rows.length) && dfAllEq self o
    else false

end Pdt.Equals
