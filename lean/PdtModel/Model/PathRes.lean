/-
  Model/PathRes.lean — path resolution and root containment of the file-system loader
  (pdtable/io/load/_loaders.py: `FileSystemLoader._resolve_load_item_path`, `.resolve`,
   `FolderReader.read`, `IncludeReader.read`; _orchestrators.py: `queued_load`, `load_files`).

  What is modelled concretely (pdtable logic + the part of POSIX `pathlib` the code depends on):
    * `Path(str)` parsing on POSIX: anchor `` / `/` / `//` (exactly two leading slashes are kept,
      one or three-and-more collapse to `/`), segments split on `/` only (a backslash is an ordinary
      character), empty and `.` segments dropped, `..` kept;
    * `a / b` (an absolute right operand replaces the left), `is_absolute`, `relative_to`
      (same anchor and segment prefix, case-sensitive), `.parent`;
    * `_resolve_load_item_path` branch by branch, `FileSystemLoader.resolve`, the readers' pushes and
      the `queued_load` work-list (LIFO `pop()`, `visited`, abort on the first exception).

  What is a parameter (the abstract file system, DESIGN §4): `FS` = a symlink map over canonical
  absolute paths + cwd; `World` adds "what kind of thing is at a path" and "what a location pushes"
  (child names of a folder / include lines of a file).  `Path.resolve()` itself is a parameter `Resolver` of the loader model.  Two instances:
  `FS.resolve` *specifies* it (walk the segments left to right, drop `.`/empty, `..` pops the resolved
  prefix, a prefix that is a symlink is replaced by its target, absolute target restarts at `/`, with
  fuel, one unit per step; running out of fuel is the symlink-loop `RuntimeError`), and
  `FS.py312Resolve` follows what CPython 3.12 really does (it gives up at a symlink loop and returns
  the rest of the path unresolved).  The harness compares both with the real `Path.resolve()` on the
  scratch tree every run (the specified one on the loop-free domain); the OS is outside the theorems.

  Every file-system access the loader makes is an event of the trace.
-/
import PdtModel.Model.Text
import PdtModel.Gen.Consts
namespace Pdt.PathRes
open Pdt

abbrev Segs := List Str

/-- `pathlib.PurePosixPath`: `anchor` 0 = relative, 1 = `/`, 2 = `//`; `segs` without `` and `.` -/
structure PPath where
  anchor : Nat
  segs : Segs
  deriving DecidableEq, Repr

/-- `posixpath.splitroot`: exactly two leading slashes are kept, three or more collapse to one -/
def parseAnchor : Str → Nat
  | '/' :: '/' :: '/' :: _ => 1
  | '/' :: '/' :: _ => 2
  | '/' :: _ => 1
  | _ => 0

def isDot (s : Str) : Bool := s == [] || s == ['.']
def isDotDot (s : Str) : Bool := s == ['.', '.']

/-- `Path(s)` — `[x for x in rel.split('/') if x and x != '.']` -/
def parsePath (s : Str) : PPath := ⟨parseAnchor s, (splitOn '/' s).filter (fun x => !isDot x)⟩

def PPath.isAbsolute (p : PPath) : Bool := p.anchor != 0

/-- `a / b`: an absolute right operand replaces the left one -/
def join (a b : PPath) : PPath := if b.isAbsolute then b else ⟨a.anchor, a.segs ++ b.segs⟩

/-- `p.relative_to(root)` succeeds: same anchor, `root`'s segments are a prefix of `p`'s -/
def relativeTo (p root : PPath) : Bool := p.anchor == root.anchor && root.segs.isPrefixOf p.segs

/-- `str(path)` -/
def render (p : PPath) : Str :=
  match p.anchor, p.segs with
  | 0, [] => ['.']
  | 0, ss => joinStr ['/'] ss
  | 1, ss => '/' :: joinStr ['/'] ss
  | _, ss => '/' :: '/' :: joinStr ['/'] ss

/-- Python exception classes the modelled code can end in -/
inductive Err
  | loadError | inputError | runtimeError | fileNotFound | valueError | typeError
  deriving DecidableEq, Repr

/-! ## abstract file system -/

structure FS where
  /-- canonical absolute path of a symlink ↦ its target as `readlink` returns it (parsed) -/
  links : List (Segs × PPath)
  cwd : Segs
  /-- number of walk steps `resolve` may take (symlink loops exhaust it) -/
  fuel : Nat

def readlink (fs : FS) (p : Segs) : Option PPath :=
  match fs.links.find? (fun kv => kv.1 == p) with
  | some kv => some kv.2
  | none => none

/-- `os.path.realpath` walk: `acc` is the resolved prefix, `todo` the remaining segments -/
def walk (fs : FS) : Nat → Segs → Segs → Option Segs
  | _, acc, [] => some acc
  | 0, _, _ :: _ => none
  | n + 1, acc, s :: rest =>
    if isDot s then walk fs n acc rest
    else if isDotDot s then walk fs n acc.dropLast rest
    else match readlink fs (acc ++ [s]) with
      | none => walk fs n (acc ++ [s]) rest
      | some t => walk fs n (if t.isAbsolute then [] else acc) (t.segs ++ rest)

/-- the segment contains a NUL character (`os.lstat` / `os.stat` raise `ValueError: embedded null byte`) -/
def hasNul (s : Str) : Bool := s.contains (Char.ofNat 0)

/-- `Path.resolve()` (non-strict) as SPECIFIED: the result is always anchored at a single `/`;
    a symlink loop is `RuntimeError`, a NUL character anywhere in the path is `ValueError` -/
def FS.resolve (fs : FS) (p : PPath) : Except Err Segs :=
  let start := if p.isAbsolute then p.segs else fs.cwd ++ p.segs
  if start.any hasNul then .error .valueError
  else match walk fs fs.fuel [] start with
    | none => .error .runtimeError
    | some q => if q.any hasNul then .error .valueError else .ok q   -- (a symlink target cannot hold a NUL)

/-! ### what CPython 3.12 really does (`posixpath._joinrealpath`, `Path.resolve(strict=False)`)

  Differs from the specification above only when a symlink loop is met: `_joinrealpath` then returns
  "the already resolved part + the rest of the path *unchanged*", `abspath` normalises that text
  lexically, and `Path.resolve()` raises `RuntimeError` only if a final `stat()` of the result still
  runs into the loop.  So `loop/../ln/x` comes back as `ln/x` with `ln` unresolved. -/

abbrev Seen := List (Segs × Option Segs)

def seenLookup (seen : Seen) (p : Segs) : Option (Option Segs) :=
  match seen.find? (fun kv => kv.1 == p) with
  | some kv => some kv.2
  | none => none

/-- how `_joinrealpath` ends: resolved / gave up at a symlink loop / (model only) out of fuel /
    `os.lstat` raised `ValueError` for a name with a NUL character -/
inductive JR | ok | loop | fuel | nul
  deriving DecidableEq, Repr

/-- `_joinrealpath(path, rest, strict=False, seen)` → `(path, ok)`; fuel bounds depth and steps -/
def joinReal (fs : FS) : Nat → Segs → Segs → Seen → Segs × JR × Seen
  | _, acc, [], seen => (acc, .ok, seen)
  | 0, acc, s :: rest, seen => (acc ++ s :: rest, .fuel, seen)
  | n + 1, acc, s :: rest, seen =>
    if isDot s then joinReal fs n acc rest seen
    else if isDotDot s then joinReal fs n acc.dropLast rest seen
    else if hasNul s then (acc ++ s :: rest, .nul, seen)      -- `os.lstat(newpath)`: embedded null byte
    else
      let newpath := acc ++ [s]
      match readlink fs newpath with
      | none => joinReal fs n newpath rest seen
      | some t =>
        match seenLookup seen newpath with
        | some (some cached) => joinReal fs n cached rest seen
        | some none => (newpath ++ rest, .loop, seen)      -- loop: resolved part + rest unchanged
        | none =>
          match joinReal fs n (if t.isAbsolute then [] else acc) t.segs ((newpath, none) :: seen) with
          | (p, .ok, seen2) => joinReal fs n p rest ((newpath, some p) :: seen2)
          | (p, o, seen2) => (p ++ rest, o, seen2)

/-- `posixpath.normpath` on the segments of an absolute path -/
def normSegs (p : Segs) : Segs :=
  p.foldl (fun acc s => if isDot s then acc else if isDotDot s then acc.dropLast else acc ++ [s]) []

/-- `Path.resolve()` as CPython 3.12 implements it -/
def FS.py312Resolve (fs : FS) (p : PPath) : Except Err Segs :=
  match joinReal fs fs.fuel [] (if p.isAbsolute then p.segs else fs.cwd ++ p.segs) [] with
  | (q, .ok, _) => .ok (normSegs q)
  | (q, .loop, _) =>
    let r := normSegs q
    -- `p.stat()` of the result: embedded NUL ⇒ ValueError, ELOOP ⇒ RuntimeError, any other outcome ⇒ the
    -- text is returned
    if r.any hasNul then .error .valueError
    else match walk fs fs.fuel [] r with
      | none => .error .runtimeError
      | some _ => .ok r
  | (_, .nul, _) => .error .valueError
  | (_, .fuel, _) => .error .runtimeError

/-- `Path.resolve()` as seen by the loader: a parameter of everything below.  `RuntimeError` (symlink
    loop) and `ValueError` (NUL character) are the exceptions the real one raises; the loader turns the
    `ValueError` of the first call into a `LoadError` and lets `RuntimeError` through -/
abbrev Resolver := PPath → Except Err Segs

/-! ## `_resolve_load_item_path` -/

/-- file-system accesses and decisions, in program order -/
inductive Ev
  | resolve (p : PPath)            -- `Path.resolve()`: lstat/readlink along the path; nothing is opened or listed
  | check (p : Segs) (ok : Bool)   -- `resolved.relative_to(root_folder)`
  | report                         -- `issue_tracker.add_error(...)`
  | stat (p : Segs)                -- `is_dir()` / `stat()` for the modification time
  | listdir (p : Segs)             -- `iterdir()`
  | open (p : Segs)                -- `open()` in the file reader
  deriving DecidableEq, Repr

/-- the path an event touches beyond `lstat`/`readlink` -/
def Ev.accessPath : Ev → Option Segs
  | .stat p => some p
  | .listdir p => some p
  | .open p => some p
  | _ => none

structure Cfg where
  root : Option PPath
  /-- `ignore_protocol` -/
  proto : Str
  /-- the issue tracker raises `InputError` from `add_error` (the default tracker does) -/
  trackerRaises : Bool

/-- `_LEADING_SLASH.match(spec) is not None` for the pattern `/|\\` -/
def leadingSlash : Str → Bool
  | c :: _ => c == '/' || c == '\\'
  | [] => false

/-- `if self.ignore_protocol and spec.lower().startswith(self.ignore_protocol): spec = spec[len(..):]` -/
def stripProto (proto spec : Str) : Str :=
  if !proto.isEmpty && startsWith proto (lowerAscii spec) then spec.drop proto.length else spec

/-- the path handed to `.resolve()`, or the `LoadError` raised before any file-system access -/
def candidate (root : Option PPath) (spec : Str) (src : Option PPath) : Except Err PPath :=
  let resolved := parsePath spec
  if leadingSlash spec then
    match root with
    | none => if !resolved.isAbsolute then .error .loadError else .ok resolved
    | some r => .ok (join r (parsePath (spec.drop 1)))
  else
    match src with
    | none => if !resolved.isAbsolute then .error .loadError else .ok resolved
    | some folder => .ok (join folder resolved)

def resolveLoadItem (cfg : Cfg) (R : Resolver) (spec : Str) (src : Option PPath) :
    List Ev × Except Err Segs :=
  match candidate cfg.root (stripProto cfg.proto spec) src with
  | .error e => ([], .error e)
  | .ok c =>
    match R c with
    -- `except ValueError: raise LoadError(... is not a valid path ...)` (fix 7b14439): e.g. an embedded NUL
    | .error .valueError => ([.resolve c], .error .loadError)
    | .error e => ([.resolve c], .error e)
    | .ok p =>
      -- `if resolved.resolve() != resolved: raise LoadError(...)` (fix dbe9598)
      match R ⟨1, p⟩ with
      | .error e => ([.resolve c, .resolve ⟨1, p⟩], .error e)
      | .ok p2 =>
        if p2 != p then ([.resolve c, .resolve ⟨1, p⟩], .error .loadError)
        else
          match cfg.root with
          | none => ([.resolve c, .resolve ⟨1, p⟩], .ok p)
          | some r =>
            if relativeTo ⟨1, p⟩ r then ([.resolve c, .resolve ⟨1, p⟩, .check p true], .ok p)
            else ([.resolve c, .resolve ⟨1, p⟩, .check p false], .error .loadError)

/-- `_resolve_load_item_path` as it was BEFORE fix dbe9598 (no fixpoint test) — kept only for the
    negation witness in Props/C17.lean; nothing else uses it -/
def resolveLoadItemPreFix (cfg : Cfg) (R : Resolver) (spec : Str) (src : Option PPath) : Except Err Segs :=
  match candidate cfg.root (stripProto cfg.proto spec) src with
  | .error e => .error e
  | .ok c =>
    match R c with
    | .error e => .error e
    | .ok p =>
      match cfg.root with
      | none => .ok p
      | some r => if relativeTo ⟨1, p⟩ r then .ok p else .error .loadError

/-! ## loader, readers, work-list -/

inductive Kind | dir | file | unsupported | missing
  deriving DecidableEq, Repr

structure World where
  /-- `Path.resolve()` -/
  resolve : Resolver
  /-- what `is_dir()` / `stat()` / the extension test find at a canonical path -/
  kind : Segs → Kind
  /-- what reading a location pushes: matching child names of a folder, include lines of a file -/
  entries : Segs → List Str

structure Item where
  spec : Str
  src : Option PPath

/-- `FileSystemLoader.resolve` -/
def loaderResolve (cfg : Cfg) (w : World) (it : Item) : List Ev × Except Err (Segs × Kind) :=
  match resolveLoadItem cfg w.resolve it.spec it.src with
  | (tr, .error .loadError) =>
    (tr ++ [.report], .error (if cfg.trackerRaises then .inputError else .loadError))
  | (tr, .error e) => (tr, .error e)
  | (tr, .ok p) => (tr ++ [.stat p], .ok (p, w.kind p))

/-- `Path.parent` of an absolute path -/
def parent (p : Segs) : Segs := p.dropLast

/-- items pushed while a location is read, on top of the stack (head = next `pop()`) -/
def pushAll (names : List Str) (src : PPath) (stack : List Item) : List Item :=
  (names.reverse.map (fun n => Item.mk n (some src))) ++ stack

/-- one iteration of the `while orch.load_items:` loop -/
def step (cfg : Cfg) (w : World) (it : Item) (stack : List Item) (visited : List Segs) :
    List Ev × Except Err (List Item × List Segs) :=
  match loaderResolve cfg w it with
  | (tr, .error e) => (tr, .error e)
  | (tr, .ok (p, k)) =>
    let dup (tr : List Ev) : List Ev × Except Err (List Item × List Segs) :=
      (tr ++ [.report], if cfg.trackerRaises then .error .inputError else .ok (stack, visited))
    match k with
    | .missing => (tr ++ [.stat p], .error .fileNotFound)
    | .dir =>
      if visited.contains p then dup tr
      else (tr ++ [.listdir p], .ok (pushAll (w.entries p) ⟨1, p⟩ stack, p :: visited))
    | .file =>
      if visited.contains p then dup (tr ++ [.stat p])
      else (tr ++ [.stat p, .open p], .ok (pushAll (w.entries p) ⟨1, parent p⟩ stack, p :: visited))
    | .unsupported =>
      if visited.contains p then dup (tr ++ [.stat p])
      else (tr ++ [.stat p], .error .valueError)

inductive RunEnd | done | aborted (e : Err) | outOfFuel
  deriving DecidableEq, Repr

/-- `queued_load`, fully consumed; `fuel` bounds the number of loop iterations -/
def run (cfg : Cfg) (w : World) : Nat → List Item → List Segs → List Ev × RunEnd
  | _, [], _ => ([], .done)
  | 0, _ :: _, _ => ([], .outOfFuel)
  | n + 1, it :: stack, visited =>
    match step cfg w it stack visited with
    | (tr, .error e) => (tr, .aborted e)
    | (tr, .ok (stack', visited')) =>
      let r := run cfg w n stack' visited'
      (tr ++ r.1, r.2)

/-- the same loop that does NOT stop at an exception (it drops the failing item and goes on): the events of
    everything reachable and the exceptions met.  Not a model of the code — `run` is — but the order-free
    envelope the harness compares against: whatever order the items are taken in, a real run reads a
    sub-multiset of these events and, if any item fails, ends in one of these exceptions. -/
def runAll (cfg : Cfg) (w : World) : Nat → List Item → List Segs → List Ev × List Err × Bool
  | _, [], _ => ([], [], true)
  | 0, _ :: _, _ => ([], [], false)
  | n + 1, it :: stack, visited =>
    match step cfg w it stack visited with
    | (tr, .error e) =>
      let r := runAll cfg w n stack visited
      (tr ++ r.1, e :: r.2.1, r.2.2)
    | (tr, .ok (stack', visited')) =>
      let r := runAll cfg w n stack' visited'
      (tr ++ r.1, r.2.1, r.2.2)

def initialItems (cfg : Cfg) (roots : Option (List Str)) : Option (List Item) :=
  match roots, cfg.root with
  | none, none => none
  | none, some _ => some [⟨['/'], none⟩]
  | some rs, _ => some (rs.reverse.map (fun s => Item.mk s none))

/-- `load_files(roots, root_folder=…)`: `roots` default to `["/"]` when a root folder is given -/
def loadFiles (cfg : Cfg) (w : World) (fuel : Nat) (roots : Option (List Str)) : List Ev × RunEnd :=
  match roots, cfg.root with
  | none, none => ([], .aborted .typeError)
  | none, some _ => run cfg w fuel [⟨['/'], none⟩] []
  | some rs, _ => run cfg w fuel (rs.reverse.map (fun s => Item.mk s none)) []

def defaultProto : Str := Gen.ignoreProtocol

end Pdt.PathRes
