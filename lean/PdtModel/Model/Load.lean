/-
  Model/Load.lean — the input-set loader of `pdtable.io.load`
    _orchestrators.py : queued_load (work-list + visited set), load_files
    _loaders.py       : FolderReader, FileReader (glue only), FileSystemLoader.resolve, ProtocolLoader,
                        IncludeReader, IncludeLoader, make_loader
    table_origin.py   : LoadItem (+ load_history), LocationBlock/LocationSheet identifiers
    _tree.py          : make_location_trees

  What is *data of the world* (observed by the harness with the real code / the real file system, never
  invented here):
    * `World.nodes`   — what exists at a location: a folder (child names in `iterdir` order, each with the
                        verdict of the folder reader's file-name pattern), a readable file (its sheets and their
                        blocks) or a file the FileReader refuses (extension neither .csv nor .xlsx).
                        A location that is not in the map does not exist (`stat` fails).
    * `World.resolve` — path resolution per loader (`_resolve_load_item_path` for loader 0 = the file-system
                        loader; the `resolve` of every additional protocol loader): specification × location of
                        the source ↦ canonical location, `none` = `LoadError`.  Path containment is C17's layer
                        (Model/PathRes.lean) and is deliberately not modelled here.
  Locations are canonical load identifiers (path part; the mtime suffix is dropped by the harness).

  The work-list discipline (`list.pop()` = last in, first out) is the parameter `Cfg.pick`: every theorem of
  C16/C18 holds for every discipline; the driver runs the discipline the harness observed.
-/
import PdtModel.Gen.Consts
import PdtModel.Model.Text
import PdtModel.Model.Segment
namespace Pdt.Load
open Pdt

abbrev Loc := Nat

/-- exception classes that end a load -/
inductive Exc
  | loadError      -- `LoadError` re-raised by `FileSystemLoader.resolve` after telling the tracker
  | inputError     -- `InputError` raised by the default (`NullInputIssueTracker`) tracker on `add_error`
  | fileNotFound   -- `FileNotFoundError` from `load_identifier` → `stat` of a path that does not exist
  | valueError     -- `ValueError("Unsupported file extension")` from `FileReader.read`; `make_loader` argument clash
  deriving DecidableEq, Repr

/-- one block of a sheet as `parse_blocks` delivers it (`to="pdtable"`: every block type has a handler) -/
structure FBlock where
  ty : BT
  row : Nat          -- `this_block_1st_row`, stamped into the origin by `block_output`
  name : Str         -- TABLE: first cell minus `**`; DIRECTIVE: first cell minus `***` (`make_directive`)
  lines : List Str   -- DIRECTIVE: first cells of the following rows (`make_directive`), as the text
                     -- `IncludeReader` makes of them (`line if isinstance(line, str) else str(line)`)
  bad : Bool := false -- TABLE: the table handler raises `ValueError` (a cell that does not parse)
  deriving DecidableEq, Repr

structure Sheet where
  name : Option Str  -- `None` for CSV (`make_location_sheet()`), the worksheet title for workbooks
  use : Bool         -- `sheet_name_pattern` matches (always true for CSV)
  blocks : List FBlock
  deriving DecidableEq, Repr

inductive Node
  | folder (children : List (Str × Bool))   -- (`p.name`, `file_name_pattern.match(p.name)`), `iterdir` order
  | file (sheets : List Sheet)
  | unreadable
  deriving DecidableEq, Repr

/-- a `LoadLocation` used as `LoadItem.source`, minus its own `load_specification`:
    a folder / whole location (`pos = none`) or a block (`LocationBlock`: sheet name, row) of a file -/
structure Anchor where
  loc : Loc
  pos : Option (Option Str × Nat)
  deriving DecidableEq, Repr

/-- `LoadItem(specification, source)`; `source.load_specification` is the parent item -/
inductive Item
  | root (spec : Str)
  | inc (spec : Str) (src : Anchor) (parent : Item)
  deriving DecidableEq, Repr

def Item.spec : Item → Str
  | .root s => s
  | .inc s _ _ => s

def Item.src : Item → Option Anchor
  | .root _ => none
  | .inc _ a _ => some a

/-- location of the source, all that path resolution sees of it (`source.local_folder_path`) -/
def Item.srcLoc (it : Item) : Option Loc := it.src.map (·.loc)

/-- `LoadItem.load_history()`: this item, then the history of `source.load_specification` -/
def Item.history : Item → List (Str × Option Anchor)
  | .root s => [(s, none)]
  | .inc s a p => (s, some a) :: p.history

structure World where
  nodes : List (Loc × Node)
  /-- `additional_protocol_loaders` in dict order (protocol name, loader number ≥ 1); `none` = not given -/
  protocols : Option (List (Str × Nat))
  resolve : Nat → Str → Option Loc → Option Loc
  /-- the entry `name` of the folder at `l` itself (`folder path / name`), as the file system has it — what
      "folder name matching" means.  The loader does not use this: it re-reads the name as a specification. -/
  childLoc : Loc → Str → Option Loc := fun _ _ => none

/-! ### make_loader / ProtocolLoader -/

/-- Python `d[k] = v` on an insertion-ordered dict -/
def dictSet (d : List (Str × Nat)) (k : Str) (v : Nat) : List (Str × Nat) :=
  match d with
  | [] => [(k, v)]
  | (k', v') :: rest => if k' = k then (k', v) :: rest else (k', v') :: dictSet rest k v

/-- `{"file": file_loader, **additional_protocol_loaders}` (the file-system loader is loader 0) -/
def handlersOf (additional : List (Str × Nat)) : List (Str × Nat) :=
  additional.foldl (fun d kv => dictSet d kv.1 kv.2) [(Gen.fileProtocolKey, 0)]

def dictGet (d : List (Str × Nat)) (k : Str) : Option Nat :=
  match d with
  | [] => none
  | (k', v) :: rest => if k' = k then some v else dictGet rest k

/-- `ProtocolLoader.resolve`: first handler (dict order) whose `name + ":"` prefixes the lower-cased
    specification, else `protocol_handlers[default_protocol]` -/
def dispatch (hs : List (Str × Nat)) (spec : Str) : Nat :=
  match hs.find? (fun ph => startsWith (ph.1 ++ [':']) (lowerAscii spec)) with
  | some ph => ph.2
  | none => (dictGet hs Gen.defaultProtocol).getD 0

/-- the loader that resolves a specification under `make_loader`'s composition -/
def handlerFor (w : World) (spec : Str) : Nat :=
  match w.protocols with
  | none => 0
  | some add => dispatch (handlersOf add) spec

def resolveItem (w : World) (it : Item) : Option Loc :=
  w.resolve (handlerFor w it.spec) it.spec it.srcLoc

def lookupNode (w : World) (l : Loc) : Option Node := w.nodes.lookup l

/-! ### readers -/

/-- `block_type == BlockType.DIRECTIVE and value.name == "include"` -/
def isInclude (b : FBlock) : Bool := b.ty == .directive && b.name == Gen.includeDirective

/-- a yielded block with the location stamped on it (`LocationBlock(sheet=LocationSheet(file, sheet_name), row)`;
    `item` is `file.load_specification`) -/
structure Out where
  loc : Loc
  sheet : Option Str
  blk : FBlock
  item : Item
  deriving DecidableEq, Repr

/-- `IncludeReader.read` on one block: an include directive becomes one LoadItem per line, whose source is the
    directive's own location; anything else is passed on.  `allow = false`: no IncludeReader in the chain. -/
def blockPushes (allow : Bool) (l : Loc) (it : Item) (sheet : Option Str) (b : FBlock) : List Item :=
  if allow && isInclude b then b.lines.map (fun s => Item.inc s ⟨l, some (sheet, b.row)⟩ it) else []

def blockOuts (allow : Bool) (l : Loc) (it : Item) (sheet : Option Str) (b : FBlock) : List Out :=
  if allow && isInclude b then [] else [⟨l, sheet, b, it⟩]

def sheetPushes (allow : Bool) (l : Loc) (it : Item) (s : Sheet) : List Item :=
  if s.use then s.blocks.flatMap (blockPushes allow l it s.name) else []

def sheetOuts (allow : Bool) (l : Loc) (it : Item) (s : Sheet) : List Out :=
  if s.use then s.blocks.flatMap (blockOuts allow l it s.name) else []

/-- `FolderReader.read`: one LoadItem per matching child, source = the folder -/
def folderPushes (l : Loc) (it : Item) (ch : List (Str × Bool)) : List Item :=
  (ch.filter (·.2)).map (fun c => Item.inc c.1 ⟨l, none⟩ it)

def nodePushes (allow : Bool) (l : Loc) (it : Item) : Node → List Item
  | .folder ch => folderPushes l it ch
  | .file sheets => sheets.flatMap (sheetPushes allow l it)
  | .unreadable => []

def nodeOuts (allow : Bool) (l : Loc) (it : Item) : Node → List Out
  | .folder _ => []
  | .file sheets => sheets.flatMap (sheetOuts allow l it)
  | .unreadable => []

/-! ### tables that do not parse (`block_output`: `except ValueError: issue_tracker.add_error(...)`) -/

def Sheet.hasBad (s : Sheet) : Bool := s.use && s.blocks.any (·.bad)

/-- the sheets as a read gets through them.  Collecting tracker: an unparsable table is reported and dropped,
    reading goes on.  Default tracker: `add_error` raises `InputError` at the first one — blocks before it have
    been delivered, nothing after it (nor any later sheet) is read. -/
def cutSheets (raising : Bool) : List Sheet → List Sheet
  | [] => []
  | s :: rest =>
    if !s.use then s :: cutSheets raising rest
    else if raising then
      if s.blocks.any (·.bad) then [{ s with blocks := s.blocks.takeWhile (fun b => !b.bad) }]
      else s :: cutSheets raising rest
    else { s with blocks := s.blocks.filter (fun b => !b.bad) } :: cutSheets raising rest

/-- the node as a read under this tracker gets through it -/
def effNode (raising : Bool) : Node → Node
  | .file sheets => .file (cutSheets raising sheets)
  | n => n

/-! ### queued_load -/

inductive Issue
  | dup (loc : Loc) (item : Item)   -- "Load location included multiple times": load_location, its load_specification
  | resolveFail (item : Item)       -- the LoadError of a failed resolution, `load_item=`
  | parse (loc : Loc) (sheet : Option Str) (row : Nat)  -- a table that does not parse, `load_location=` its block
  deriving DecidableEq, Repr

/-- what a collecting tracker is told while the node is read: one error per unparsable table, in file order -/
def nodeIssues (raising : Bool) (l : Loc) : Node → List Issue
  | .file sheets =>
    if raising then []
    else sheets.flatMap fun s =>
      if s.use then (s.blocks.filter (·.bad)).map (fun b => Issue.parse l s.name b.row) else []
  | _ => []

inductive Status
  | running
  | done
  | raised (e : Exc)
  | outOfFuel
  deriving DecidableEq, Repr

structure Cfg where
  raising : Bool                 -- default tracker (`NullInputIssueTracker`: `add_error` raises InputError)
  allowInclude : Bool
  pick : List Item → Nat         -- which entry of the work-list is popped (index, taken modulo the length)

/-- Python `load_items.pop()` -/
def pickLast (s : List Item) : Nat := s.length - 1
/-- `load_items.pop(0)` -/
def pickFirst (_ : List Item) : Nat := 0

structure LSt where
  stack : List Item      -- `orch.load_items`, in Python list order (append at the end)
  visited : List Loc     -- `visited`, in the order the locations were read
  out : List Out         -- blocks yielded so far
  issues : List Issue    -- what a collecting tracker has been told
  deriving DecidableEq, Repr

def pop (pick : List Item → Nat) (s : List Item) : Option (Item × List Item) :=
  match s[pick s % s.length]? with
  | some x => some (x, s.eraseIdx (pick s % s.length))
  | none => none

/-- `FileReader.read` refuses an unknown extension when the generator is started (after `visited.add`);
    the default tracker raises at the first table that does not parse -/
def readStatus (raising : Bool) : Node → Status
  | .unreadable => .raised .valueError
  | .file sheets => if raising && sheets.any Sheet.hasBad then .raised .inputError else .running
  | .folder _ => .running

/-- one iteration of `while orch.load_items:` -/
def loadStep (w : World) (cfg : Cfg) (st : LSt) : LSt × Status :=
  match pop cfg.pick st.stack with
  | none => (st, .done)
  | some (it, rest) =>
    match resolveItem w it with
    | none =>
      if cfg.raising then ({ st with stack := rest }, .raised .inputError)
      else ({ st with stack := rest, issues := st.issues ++ [.resolveFail it] }, .raised .loadError)
    | some l =>
      match lookupNode w l with
      | none => ({ st with stack := rest }, .raised .fileNotFound)
      | some node =>
        if l ∈ st.visited then
          if cfg.raising then ({ st with stack := rest }, .raised .inputError)
          else ({ st with stack := rest, issues := st.issues ++ [.dup l it] }, .running)
        else
          ({ st with visited := st.visited ++ [l],
                     stack := rest ++ nodePushes cfg.allowInclude l it (effNode cfg.raising node),
                     out := st.out ++ nodeOuts cfg.allowInclude l it (effNode cfg.raising node),
                     issues := st.issues ++ nodeIssues cfg.raising l node }, readStatus cfg.raising node)

def loadRun (w : World) (cfg : Cfg) : Nat → LSt → LSt × Status
  | 0, st => (st, .outOfFuel)
  | n + 1, st =>
    match loadStep w cfg st with
    | (st', .running) => loadRun w cfg n st'
    | r => r

def loadInit (roots : List Str) : LSt := ⟨roots.map Item.root, [], [], []⟩

/-- number of items one read of the node can put on the work-list, plus one for the read itself -/
def weight (allow : Bool) (n : Node) : Nat := (nodePushes allow 0 (.root []) n).length + 1

/-- enough iterations for every world: every root, every item any location can push, one to see the empty list -/
def fuelBound (w : World) (raising allow : Bool) (roots : List Str) : Nat :=
  roots.length + ((w.nodes.map (fun p => weight allow (effNode raising p.2))).sum) + 1

/-- `make_loader`: "file_name_start_pattern cannot be used with file_name_pattern" (`ValueError`) -/
def loaderArgsOk (hasPattern hasStartPattern : Bool) : Bool := !(hasPattern && hasStartPattern)

/-- `load_files(roots, …)` after `make_loader`: `roots=[LoadItem(str(f), source=None) for f in roots]` -/
def loadFiles (w : World) (cfg : Cfg) (roots : List Str) : LSt × Status :=
  loadRun w cfg (fuelBound w cfg.raising cfg.allowInclude roots) (loadInit roots)

/-! ### reading a sheet: from rows to blocks (glue between `parse_blocks_stable` and the loader) -/

def firstStr : Row → Str
  | .str s :: _ => s
  | _ => []

/-- the first cell of a directive line as the specification it becomes: the text itself; a cell that is not
    text (a number typed into a workbook) becomes its Python `str()` — the harness sends such cells as
    `other` cells whose tag is the `str()` computed by CPython, so nothing is re-derived here -/
def lineTok : Row → Str
  | c :: _ => c.pyStr
  | [] => []

def toFBlock (b : Block Row) : FBlock :=
  let head := match b.rows with
    | r :: _ => firstStr r
    | [] => []
  { ty := b.ty, row := b.first,
    name := match b.ty with
      | .table => head.drop 2
      | .directive => head.drop 3
      | _ => [],
    lines := match b.ty with
      | .directive => b.rows.tail.map lineTok
      | _ => [] }

def Sheet.ofRows (name : Option Str) (use : Bool) (rows : List Row) : Sheet :=
  ⟨name, use, (segment rows).map toFBlock⟩

/-- the same, with the tables that do not parse marked: `badRows` are the origin rows of those tables -/
def Sheet.ofRowsBad (name : Option Str) (use : Bool) (rows : List Row) (badRows : List Nat) : Sheet :=
  ⟨name, use, (segment rows).map fun blk =>
    { toFBlock blk with bad := blk.ty == .table && badRows.contains blk.first }⟩

/-! ### make_location_trees (_tree.py) -/

/-- `load_identifier` of a tree node's location: a file / folder (`pos = none`) or a block of a file,
    `f"{file.load_identifier}#'{sheet_name or 'Sheet1'}'!A{row}"` -/
structure Key where
  loc : Loc
  pos : Option (Str × Nat)
  deriving DecidableEq, Repr

/-- `self.sheet_name or 'Sheet1'` -/
def sheetKey : Option Str → Str
  | none => "Sheet1".toList
  | some [] => "Sheet1".toList
  | some (c :: s) => c :: s

def Anchor.key (a : Anchor) : Key := ⟨a.loc, a.pos.map (fun p => (sheetKey p.1, p.2))⟩

inductive Child
  | leaf (i : Nat)      -- the leaf node of table number `i`
  | node (k : Key)
  deriving DecidableEq, Repr

/-- a `LocationTreeNode` that is not a leaf; `parent` is set by the one `add_child` call that adds it -/
structure TNode where
  key : Key
  parent : Option Key
  children : List Child
  deriving DecidableEq, Repr

/-- `buf`: insertion-ordered dict load identifier → node -/
abbrev Buf := List TNode

def hasKey (buf : Buf) (k : Key) : Bool := buf.any (fun n => n.key == k)

/-- `buf[k].add_child(child)` -/
def addChild (buf : Buf) (k : Key) (c : Child) : Buf :=
  buf.map (fun n => if n.key = k then { n with children := n.children ++ [c] } else n)

/-- `register_node(location, child)`; `k` is the location's identifier and the item its `load_specification`.
    A new node's parent is the node of `load_specification.source` (registered next), if there is one. -/
def register (buf : Buf) (k : Key) (c : Child) : Item → Buf
  | .root _ => if hasKey buf k then addChild buf k c else buf ++ [⟨k, none, [c]⟩]
  | .inc _ a p =>
    if hasKey buf k then addChild buf k c
    else register (buf ++ [⟨k, some a.key, [c]⟩]) a.key (.node k) p

/-- the loop over the tables: leaf `i` is registered under `location.file` -/
def treesGo (buf : Buf) (i : Nat) : List Out → Buf
  | [] => buf
  | t :: ts => treesGo (register buf ⟨t.loc, none⟩ (.leaf i) t.item) (i + 1) ts

def makeLocationTrees (ts : List Out) : Buf := treesGo [] 0 ts

/-- `[v for v in buf.values() if v.parent is None]` -/
def treeRoots (buf : Buf) : List TNode := buf.filter (fun n => n.parent.isNone)

end Pdt.Load
