/-
  Model/Reader.lean — the table reader core:
    blocks.py   make_table_json_precursor, parse_column_names, _get_destinations_safely_stripped,
                _fix_duplicate_column_names, _make_table (outcome only)
    columns.py  normalize_if_str, is_missing_data_marker, parse_column and the four column parsers
    fixer.py    ParseFixer counters, messages, report(), stock / custom replacements
  Every partial Python operation returns `Except PyExc` with the class Python raises.

  External primitives (CPython `float()`, `pandas.to_datetime`, `str.isdigit`) are the fields of
  `Ext`; the harness computes them with CPython/pandas directly for the strings of a case.
-/
import PdtModel.Model.Cell
import PdtModel.Gen.Consts
namespace Pdt.Reader
open Pdt

inductive PyExc
  | valueError | indexError | typeError | attributeError | keyError | assertionError
  | columnUnit               -- table_metadata.ColumnUnitException (not a ValueError)
  | other (name : Str)
  deriving DecidableEq, Repr, Inhabited

/-- result of `pandas.to_datetime(text)` -/
inductive DtRes
  | ok (tok : Str)            -- ISO token of the timestamp, "NaT" for NaT
  | valueError                -- ValueError or a subclass (ParserError, OutOfBoundsDatetime, …)
  | raises (name : Str)       -- any other exception class (escapes the parser)
  deriving DecidableEq, Repr

structure Ext where
  /-- `float(cell.strip().lower())`: canonical float token, `none` = ValueError -/
  parseFloat : Str → Option Str
  /-- `pandas.to_datetime(cell.strip())` -/
  parseDt : Str → DtRes
  /-- Python `c.isdigit()` -/
  isDigit : Char → Bool

/-- the three special unit indicators -/
def uText : Str := "text".toList
def uOnoff : Str := "onoff".toList
def uDatetime : Str := "datetime".toList

def NaN : Str := "nan".toList
def NaT : Str := "NaT".toList

/-- `columns.py:is_missing_data_marker` on a string -/
def isMissingMarker (s : Str) : Bool := Gen.missingIsMarker.contains (normalize s)

/-! ## fixer -/

inductive Msg
  | dup (name : Str) (pos : Nat)         -- "Duplicate column '<name>' at position <pos> …"
  | missingRow (row : Nat)               -- "Missing data in row <row> …"
  | illegal (vtype : Str) (value : Str)  -- "Illegal value '<value>' for unit '<vtype> ' …"
  deriving DecidableEq, Repr

/-- configuration of a ParseFixer (stock: stop_on_errors = 1, NaN / NaT / False replacements) -/
structure FixCfg where
  stopOnErrors : Bool
  repFloat : Str
  repOnoff : Bool
  repDt : Str
  deriving Repr

def FixCfg.strict : FixCfg := ⟨true, NaN, false, NaT⟩
def FixCfg.lenient : FixCfg := ⟨false, NaN, false, NaT⟩

structure Fixer where
  cfg : FixCfg
  errors : Nat
  warnings : Nat
  msgs : List Msg          -- `messages` is never cleared by reset_fixes
  deriving Repr

def Fixer.fixes (f : Fixer) : Nat := f.errors + f.warnings
def Fixer.reset (f : Fixer) : Fixer := { f with errors := 0, warnings := 0 }
/-- `fix_illegal_cell_value(vtype, value)`: one warning, one message quoting `str(value)` -/
def Fixer.illegal (f : Fixer) (vtype : String) (value : Str) : Fixer :=
  { f with warnings := f.warnings + 1, msgs := f.msgs ++ [.illegal vtype.toList value] }

/-! ## column parsers (columns.py) -/

inductive ColVals
  | text (xs : List Str)
  | onoff (xs : List Bool)
  | num (xs : List Str)      -- float tokens, "nan" = missing
  | dt (xs : List Str)       -- timestamp tokens, "NaT" = missing
  | raw                      -- the shared `[]` placeholder of `dict(zip(names, [[]] * n))`
  deriving DecidableEq, Repr

/-- `_onoff_to_bool`: dictionary lookup on the normalised value (hash/eq semantics of Python) -/
def onoffCell : Cell → Option Bool
  | .str s =>
    let n := normalize s
    if n = "0".toList then some false else if n = "1".toList then some true
    else if n = "false".toList then some false else if n = "true".toList then some true else none
  | .int i _ => if i = 0 then some false else if i = 1 then some true else none
  | .bool b => some b
  | .float t =>
    if t = "0.0".toList || t = "-0.0".toList then some false
    else if t = "1.0".toList then some true else none
  | _ => none

/-- the common loop of the onoff and numeric parsers: a cell without a value is handed to the fixer,
    which counts a warning and supplies its replacement -/
def parseWith {α : Type} (cellFn : Cell → Option α) (rep : FixCfg → α) (vt : String) (txt : Cell → Str) :
    List Cell → Fixer → List α × Fixer
  | [], f => ([], f)
  | c :: cs, f =>
    match cellFn c with
    | some b => let r := parseWith cellFn rep vt txt cs f; (b :: r.1, r.2)
    | none => let r := parseWith cellFn rep vt txt cs (f.illegal vt (txt c)); (rep f.cfg :: r.1, r.2)

/-- the value the onoff parser hands to the fixer: the raw cell -/
def onoffTxt (c : Cell) : Str := c.pyStr

def parseOnoff (cells : List Cell) (f : Fixer) : List Bool × Fixer :=
  parseWith onoffCell (·.repOnoff) "onoff" onoffTxt cells f

/-- what the harness sends as `repr(float(i))` when `float(i)` raises OverflowError -/
def overflowTok : Str := "OverflowError".toList

/-- one cell of a numeric column: `some tok` or `none` = hand it to the fixer -/
def floatCell (ext : Ext) : Cell → Option Str
  | .float t => some t
  | .int _ ft => if ft = overflowTok then none else some ft   -- float(int) overflow → fixer
  | .bool b => some (if b then "1.0".toList else "0.0".toList)
  | .str s => if Gen.missingFloatConvert.contains (normalize s) then some NaN else ext.parseFloat s
  | .none => some NaN
  | _ => none

/-- the value the numeric parser hands to the fixer: a string after `normalize_if_str`, else the raw cell -/
def floatTxt : Cell → Str
  | .str s => normalize s
  | c => c.pyStr

def parseFloat (ext : Ext) (cells : List Cell) (f : Fixer) : List Str × Fixer :=
  parseWith (floatCell ext) (·.repFloat) "float" floatTxt cells f

inductive DtCell
  | ok (tok : Str)
  | fix                       -- handed to the fixer
  | raises (name : Str)       -- another exception class escaping `pd.to_datetime`

def dtCell (ext : Ext) : Cell → DtCell
  | .dt t => .ok t
  | .none => .fix
  | .str s =>
    let v := strip s
    match v with
    | [] => .fix
    | c :: _ =>
      if ext.isDigit c || isMissingMarker v then
        if isMissingMarker v then .ok NaT
        else match ext.parseDt v with
          | .ok t => .ok t
          | .valueError => .fix
          | .raises n => .raises n
      else .fix
  | _ => .fix                 -- a number, bool, date &c.: an illegal cell like any other

/-- the value the datetime parser hands to the fixer: a string stripped, else the raw cell -/
def dtTxt : Cell → Str
  | .str s => strip s
  | c => c.pyStr

def parseDatetime (ext : Ext) : List Cell → Fixer → Except PyExc (List Str × Fixer)
  | [], f => .ok ([], f)
  | c :: cs, f =>
    match dtCell ext c with
    | .ok t => do let (r, f') ← parseDatetime ext cs f; pure (t :: r, f')
    | .fix => do
      let (r, f') ← parseDatetime ext cs (f.illegal "datetime" (dtTxt c)); pure (f.cfg.repDt :: r, f')
    | .raises n => .error (.other n)

/-- a numpy fixed-width unicode array drops the trailing NUL characters of every element -/
def rstripNul (s : Str) : Str := (s.reverse.dropWhile (· = '\x00')).reverse

/-- one cell of a text column: `np.array(values, dtype=str)` is `str(cell)` minus trailing NULs -/
def textCell (c : Cell) : Str := rstripNul c.pyStr

/-- `parse_column`: dispatch on the (stripped) unit indicator -/
def parseColumn (ext : Ext) (unit : Str) (cells : List Cell) (f : Fixer) : Except PyExc (ColVals × Fixer) :=
  if unit = uText then .ok (.text (cells.map textCell), f)
  else if unit = uOnoff then
    let (v, f') := parseOnoff cells f; .ok (.onoff v, f')
  else if unit = uDatetime then do
    let (v, f') ← parseDatetime ext cells f; pure (.dt v, f')
  else
    let (v, f') := parseFloat ext cells f; .ok (.num v, f')

/-! ## make_table_json_precursor (blocks.py) -/

def dedup : List Str → List Str
  | [] => []
  | x :: xs => x :: (dedup xs).filter (· != x)

/-- `_get_destinations_safely_stripped(cell).split(" ")` as ordered dict keys -/
def destinations (c : Cell) : List Str :=
  let s := match c with
    | .dt _ => c.pyStr.map (fun ch => if ch = ' ' then '_' else ch)
    | _ => c.pyStr
  dedup (splitOn ' ' (strip s))

def stripOfStr : Cell → Str
  | .str s => strip s
  | _ => []

/-- `parse_column_names`: cells up to the first blank one, all must be text, stripped -/
def parseColumnNames (raw : List Cell) : Except PyExc (List Str) :=
  let cs := raw.takeWhile (fun c => !c.isBlank)
  if cs.all Cell.isStr then .ok (cs.map stripOfStr) else .error .valueError

def pad3 (n : Nat) : Str :=
  let s := natToStr n
  List.replicate (3 - s.length) '0' ++ s

/-- `fix_duplicate_column_name`: first `<name>_fixed_NNN` (`itertools.count()`, at least three digits) not among
    the names so far.  The search is unbounded in the code; it ends within `existing.length + 1` candidates
    (they are pairwise different), which is the fuel `dupStep` supplies — the `0` arm is never reached. -/
def freeName (cname : Str) (existing : List Str) : Nat → Nat → Str
  | sq, 0 => cname ++ "_fixed_".toList ++ pad3 sq
  | sq, fuel + 1 =>
    let test := cname ++ "_fixed_".toList ++ pad3 sq
    if existing.contains test then freeName cname existing (sq + 1) fuel else test

def dupStep (acc : List Str × Fixer) (p : Str × Nat) : List Str × Fixer :=
  if !acc.1.contains p.1 then (acc.1 ++ [p.1], acc.2)
  else
    (acc.1 ++ [freeName p.1 acc.1 0 (acc.1.length + 1)],
     { acc.2 with errors := acc.2.errors + 1, msgs := acc.2.msgs ++ [.dup p.1 p.2] })

/-- `_fix_duplicate_column_names`: a name already seen is replaced and counted as an error -/
def fixDuplicates (names : List Str) (f : Fixer) : List Str × Fixer :=
  names.zipIdx.foldl dupStep ([], f)

def getD0 (r : Row) (i : Nat) : Cell := r.getD i .none

/-- transposed layout: number of value rows = index after the last row with a non-blank cell,
    stopping at the first all-blank row (blocks.py:165-176) -/
def nRowLoop (lines : List Row) (longest : Nat) : Nat → Nat → Nat
  | i, 0 => i
  | i, fuel + 1 =>
    if i < longest && lines.any (fun l => i < l.length && !(getD0 l i).isBlank)
    then nRowLoop lines longest (i + 1) fuel else i

def padOrTrim (n : Nat) (l : Row) : Row :=
  if l.length ≥ n then l.take n else l ++ List.replicate (n - l.length) .none

/-- `zip(*lines)` for lines of equal length `n` -/
def transposeN (lines : List Row) (n : Nat) : List Row :=
  (List.range n).map (fun i => lines.map (fun l => getD0 l i))

def shortStep (nCol : Nat) (acc : List Row × Fixer) (p : Row × Nat) : List Row × Fixer :=
  if p.1.length < nCol then
    (acc.1 ++ [p.1 ++ List.replicate (nCol - p.1.length) (.str "NaN".toList)],
     { acc.2 with errors := acc.2.errors + 1, msgs := acc.2.msgs ++ [.missingRow p.2] })
  else (acc.1 ++ [p.1], acc.2)

/-- `fix_missing_rows_in_column_data`: a short row is filled up with "NaN" cells and counted as an error -/
def fixShortRows (rows : List Row) (nCol : Nat) (f : Fixer) : List Row × Fixer :=
  rows.zipIdx.foldl (shortStep nCol) ([], f)

structure Precursor where
  name : Str
  transposed : Bool
  destinations : List Str
  names : List Str
  units : List Str
  columns : List ColVals        -- one per name (`raw` where no values were parsed)
  deriving Repr

/-- what the header and the grid slicing deliver, before any fixer or column parser runs -/
structure Layout where
  name : Str
  transposed : Bool
  destinations : List Str
  names0 : List Str             -- stripped name cells up to the first blank one (duplicates still in)
  units : List Str              -- stripped unit cells, positionally (at most one per name)
  rows0 : List Row              -- value rows, row-wise sliced / transposed trimmed-padded-zipped
  deriving Repr

/-- `table_name = cells[0][0][2:]` with the transpose decorator chopped off -/
def tableName (cells : List Row) : Except PyExc (Str × Bool) :=
  match cells with
  | [] => .error .indexError
  | [] :: _ => .error .indexError
  | (.str s :: _) :: _ =>
    let name0 := s.drop 2
    if name0.getLast? = some '*' then .ok (name0.dropLast, true) else .ok (name0, false)
  | _ => .error .typeError

/-- value rows of a transposed table: lines `[2:]`, last non-blank row, trim / pad, zip -/
def transposedRows (lines : List Row) : Except PyExc (List Row) :=
  match lines with
  | [] => .error .valueError                       -- max() of an empty sequence
  | _ =>
    let longest := lines.foldl (fun m l => max m l.length) 0
    let nRow := nRowLoop lines longest 0 longest
    .ok (transposeN (lines.map (padOrTrim nRow)) nRow)

/-- header interpretation and grid slicing of `make_table_json_precursor` (fixer-free part) -/
def layout (cells : List Row) : Except PyExc Layout := do
  let (name, transposed) ← tableName cells
  -- the two guards added by the truncation fix
  let destCell ← match cells with
    | _ :: (c :: _) :: _ => pure c
    | _ => throw .valueError
  let body := cells.drop 2
  if transposed && body.any (fun l => l.length < 2) then throw .valueError
  let isEmpty := cells.length < 3
  let names0 ← if isEmpty then pure []
    else if transposed then parseColumnNames (body.map (fun l => getD0 l 0))
    else if cells.length = 3 then throw .valueError
    else parseColumnNames (cells.getD 2 [])
  let nCol := names0.length
  let unitCells : List Cell :=
    if isEmpty then [] else if transposed then (body.take nCol).map (fun l => getD0 l 1)
    else (cells.getD 3 []).take nCol
  if unitCells.length < nCol then throw .valueError        -- unit row shorter than the name row
  if !unitCells.all Cell.isStr then throw .valueError
  let rows0 ← if transposed && !isEmpty then transposedRows ((body.take nCol).map (fun l => l.drop 2))
    else pure ((cells.drop 4).map (fun l => l.take nCol))
  pure ⟨name, transposed, destinations destCell, names0, unitCells.map stripOfStr, rows0⟩

/-- parse the columns that `zip(column_names, units, zip(*data_rows))` reaches -/
def parseColumns (ext : Ext) : List Str → List Row → Fixer → Except PyExc (List ColVals × Fixer)
  | [], _, f => .ok ([], f)
  | _, [], f => .ok ([], f)
  | u :: us, col :: cols, f => do
    let (v, f1) ← parseColumn ext u col f
    let (vs, f2) ← parseColumns ext us cols f1
    pure (v :: vs, f2)

/-- the fixer-dependent part: duplicate names, short rows, column parsing, `fixer.report()` -/
def finish (ext : Ext) (L : Layout) (f0 : Fixer) : Except PyExc (Precursor × Fixer) := do
  let (names, f1) := fixDuplicates L.names0 f0
  let nCol := names.length
  let (rows, f2) := fixShortRows L.rows0 nCol f1
  -- zip(*data_rows): nothing at all without data rows
  let colCells : List Row := if rows.isEmpty then [] else transposeN rows nCol
  let (parsed, f3) ← parseColumns ext L.units colCells f2
  let columns := parsed ++ List.replicate (nCol - parsed.length) ColVals.raw
  -- fixer.report()
  if f3.fixes > 0 && f3.cfg.stopOnErrors then throw .valueError
  pure (⟨L.name, L.transposed, L.destinations, names, L.units, columns⟩, f3)

def makePrecursor (ext : Ext) (cells : List Row) (f0 : Fixer) : Except PyExc (Precursor × Fixer) := do
  let L ← layout cells
  finish ext L f0

/-! ## _make_table: the DataFrame / TableDataFrame construction on top of the precursor -/

def ColVals.length : ColVals → Nat
  | .text xs => xs.length
  | .onoff xs => xs.length
  | .num xs => xs.length
  | .dt xs => xs.length
  | .raw => 0

/-- UTC-offset suffix of an ISO timestamp token (`+HH:MM` / `-HH:MM` after the `T`), `[]` if naive -/
def tzOf (tok : Str) : Str :=
  (tok.dropWhile (· != 'T')).dropWhile (fun c => c != '+' && c != '-')

/-- pandas keeps a column of timestamps as datetime64 only if all of them carry the same UTC offset
    (or none); otherwise the column is an object column (validated by correspondence) -/
def dtHomogeneous (xs : List Str) : Bool :=
  match (xs.filter (· != NaT)).map tzOf with
  | [] => true
  | z :: zs => zs.all (· == z)

def ColVals.dtInhomogeneous : ColVals → Bool
  | .dt xs => !dtHomogeneous xs
  | _ => false

/-- `pd.DataFrame(columns)` needs equal column lengths ("All arrays must be of the same length");
    `make_table_dataframe` then validates units against dtypes for a non-empty frame: a datetime
    column held as object has dtype kind 'O', whose expected unit is "text" -/
def makeTable (ext : Ext) (cells : List Row) (f0 : Fixer) : Except PyExc (Precursor × Fixer) := do
  let (p, f) ← makePrecursor ext cells f0
  match p.columns with
  | [] => pure (p, f)
  | c :: cs =>
    if !cs.all (fun d => d.length = c.length) then throw .valueError
    if c.length > 0 && p.columns.any ColVals.dtInhomogeneous
    then throw .columnUnit
    pure (p, f)

end Pdt.Reader
