/-
  Model/Resource.lean — life cycle of the reader generators and the writers of pdtable *as they are written*
  (io/csv.py read_csv / write_csv, io/excel.py read_excel / write_excel, io/_excel_openpyxl.py read_sheets /
  write_excel_openpyxl, io/load/_loaders.py FileReader.read / IncludeReader.read, io/load/_orchestrators.py
  queued_load / load_files).

  A generator body denotes a `Trace`: the sequence of effects it performs between two suspension points
  (`acq h` = a handle is opened, `rel h` = a handle is closed on the normal path) and its block-production
  points (`point`).  Every point is annotated with the `with` frames in scope there, i.e. with what is closed
  when control leaves the generator at that point other than by falling off the end:
    * `now`   — closed while the exception / GeneratorExit unwinds (exits of the enclosing `with` frames, innermost
                first, and finalisation of generators that only a `for` loop of an unwinding frame refers to),
    * `later` — closed only when the frames themselves are released (objects referenced from frame locals); after
                `close()` / drop / normal completion that is immediately, after an exception that reached the
                consumer it is when the consumer lets go of the exception (its traceback holds the frames).
  The trusted language rules (DESIGN §4: `with` runs its exit on every exit route exactly once, `close()` / drop
  deliver GeneratorExit at the suspension point, `yield from` forwards it, reference counting finalises a
  generator as soon as nothing refers to it, a generator that was never started holds nothing) are the
  combinators `withC`, `deleg`, `reyield`, `forHeld` and the machine `step` below.

  The shape of every function (which context expression encloses which `yield`, which opener call is not managed
  by a `with`, which call is iterated by a `for`) is not written here: it is read from the translator's frame
  table `Gen.withFrames` (`frameOf`, `holds`), so the model follows the source text.
-/
import PdtModel.Gen.Consts
namespace Pdt.Resource

/-- where the data comes from / goes to -/
inductive Src
  | path (f : Nat)      -- a file-system path; `f` identifies the file
  | stream (s : Nat)    -- an open stream object supplied by the caller
  deriving DecidableEq, Repr

inductive Handle
  /-- an object the library (or openpyxl on its behalf) opened on `src`:
      slot 0 = the file itself, slot 1 = the zip archive object of the workbook (it sits on the file of slot 0
      or on the caller's stream), slot i+2 = the member stream of sheet i -/
  | lib (src : Src) (slot : Nat)
  /-- the caller's own stream object -/
  | caller (s : Nat)
  deriving DecidableEq, Repr

def Handle.isLib : Handle → Bool
  | .lib _ _ => true
  | .caller _ => false

structure Cleanup where
  now : List Handle
  later : List Handle
  deriving DecidableEq, Repr

def Cleanup.all (c : Cleanup) : List Handle := c.now ++ c.later
def Cleanup.push (c : Cleanup) (hs : List Handle) : Cleanup := ⟨c.now ++ hs, c.later⟩

inductive Ev
  | acq (h : Handle)
  | rel (h : Handle)
  /-- production point of one block.  `fail`: what is in scope where the production of this block can raise (the
      innermost producer); `susp`: what is in scope where the generator is suspended once the block is delivered -/
  | point (fail susp : Cleanup)
  /-- a place between two blocks where the generator runs code of its own that can raise without producing a
      block (queued_load between two files: resolving the next load item, the duplicate check, opening the next
      file).  `next` passes it; only a failure can stop there.  `scope`: what is in scope at that place. -/
  | gap (scope : Cleanup)
  deriving DecidableEq, Repr

abbrev Trace := List Ev

def Ev.push (hs : List Handle) : Ev → Ev
  | .point f s => .point (f.push hs) (s.push hs)
  | .gap c => .gap (c.push hs)
  | e => e

/-- the body `t` runs inside frames that close `hs` (in this order) when they are left -/
def under (hs : List Handle) (t : Trace) : Trace := t.map (Ev.push hs)

/-! ### language constructs -/

/-- what a context-manager expression does -/
inductive Ctx
  | acquire (h : Handle)   -- `open(p)`: opens h on entry, closes h on exit
  /-- `closing(load_workbook(x))`: building the object can fail half-way (not a workbook).  `deferred = false`: x is a
      file object that is already open — when loading fails nothing new is held; `deferred = true`: x is a path that
      openpyxl opens itself — when loading fails the descriptor stays with the frames of the traceback -/
  | acquireLoad (h : Handle) (deferred : Bool)
  | null                   -- `nullcontext(x)`
  | closeArg (h : Handle)  -- `closing(x)` / `with x:` for an object that was open before: exit closes it
  deriving DecidableEq, Repr

def noCleanup : Cleanup := ⟨[], []⟩

/-- `with c: t` -/
def withC : Ctx → Trace → Trace
  | .acquire h, t => .acq h :: under [h] t ++ [.rel h]
  | .acquireLoad h false, t => .gap noCleanup :: .acq h :: under [h] t ++ [.rel h]
  | .acquireLoad h true, t => .acq h :: .gap ⟨[], [h]⟩ :: under [h] t ++ [.rel h]
  | .null, t => t
  | .closeArg h, t => under [h] t ++ [.rel h]

/-- `x = open(p)` followed by `t`, nothing ever closes x (what a regression looks like) -/
def bare (h : Handle) (t : Trace) : Trace := .acq h :: t

/-- `try: t finally: x.close()` for an object that was open before -/
def finallyClose (h : Handle) (t : Trace) : Trace := under [h] t ++ [.rel h]

/-- `yield from <generator running t>`: next / close / throw are forwarded, nothing else happens -/
def deleg (t : Trace) : Trace := t


/-- `parse_blocks(rows)` over rows whose source is managed by somebody else (the lines of `f` in read_csv):
    `n` blocks are produced -/
def plainBlocks (n : Nat) : Trace := List.replicate n (.point noCleanup noCleanup)

/-- `parse_blocks(it)` over a lazy external iterator (openpyxl `ws.iter_rows`: a generator that opens the sheet's
    member stream `m` at its first `next` and closes it when it is exhausted or finalised).  `pre` blocks are
    produced before the rows are exhausted, `post` after (the final flush of the segmenter).
    `managed = true`:  the caller wrapped the iterator in `with closing(it):` — `m` is closed by unwinding;
    `managed = false`: the iterator is only referenced from frame locals — `m` is closed when the frames go. -/
def lazyBlocks (m : Handle) (managed : Bool) (pre post : Nat) : Trace :=
  let c : Cleanup := if managed then ⟨[m], []⟩ else ⟨[], [m]⟩
  .acq m :: List.replicate pre (.point c c) ++ .rel m :: plainBlocks post

/-- `for x in <generator g>: yield x` (k = true) or consume x without yielding (k = false); g is referenced by
    the loop only.  A failure while g produces x unwinds through g first (g's `fail` scope); a close / throw at
    the re-yield unwinds the holder, which pops g off its value stack, which finalises g: everything g holds is
    closed during the unwinding. -/
def reyield : Trace → List Bool → Trace
  | [], _ => []
  | .point f s :: g, k :: ks => (if k then [.point f ⟨s.all, []⟩] else []) ++ reyield g ks
  | .point f s :: g, [] => .point f ⟨s.all, []⟩ :: reyield g []
  | .acq h :: g, ks => .acq h :: reyield g ks
  | .rel h :: g, ks => .rel h :: reyield g ks
  | .gap c :: g, ks => .gap c :: reyield g ks

/-- `for x in <generator g>: body_i` where the i-th item of g is consumed by `bodies[i]` (a missing body is
    `continue`).  At every point of the body g is suspended at its i-th yield and referenced by the loop only. -/
def forHeld : Trace → List Trace → Trace
  | [], _ => []
  | .point _ s :: g, b :: bs => under s.all b ++ forHeld g bs
  | .point _ _ :: g, [] => forHeld g []
  | .acq h :: g, bs => .acq h :: forHeld g bs
  | .rel h :: g, bs => .rel h :: forHeld g bs
  | .gap c :: g, bs => .gap c :: forHeld g bs

/-! ### the machine: consumer actions against a trace -/

inductive Action
  | next          -- `next(g)`; for a writer: serialise the next table
  | throwInBlock  -- `next(g)` during which the production of the block raises (handler / tracker / filter error)
  | throwInGap (skip : Nat)  -- `next(g)` that raises between two blocks, at the (skip+1)-th gap it comes to
  | close         -- `g.close()`
  | drop          -- the last reference to g is dropped
  | throw         -- `g.throw(exc)` at the suspension point
  | releaseExc    -- the consumer lets go of the exception it caught (traceback released)
  deriving DecidableEq, Repr

inductive Pc
  | notStarted
  | suspendedAt (k : Nat) (scope : Cleanup)   -- k blocks delivered so far
  | done
  deriving DecidableEq, Repr

inductive Outcome | none | yielded | stopped | raised
  deriving DecidableEq, Repr

structure St where
  pc : Pc
  rest : Trace            -- what the generator still has to execute
  opn : List Handle       -- handles open now
  opened : List Handle    -- every open performed so far, in order
  closed : List Handle    -- every close performed so far, in order
  bad : List Handle       -- protocol violations: close of a handle that is not open, open of an open handle
  tb : List Handle        -- closes owed when the caught exception is released
  delivered : Nat
  out : Outcome           -- what the last action returned to the consumer
  deriving Repr

def St.open1 (s : St) (h : Handle) : St :=
  if h ∈ s.opn then { s with bad := s.bad ++ [h] } else { s with opn := h :: s.opn, opened := s.opened ++ [h] }

def St.close1 (s : St) (h : Handle) : St :=
  if h ∈ s.opn then { s with opn := s.opn.erase h, closed := s.closed ++ [h] }
  else { s with bad := s.bad ++ [h], closed := s.closed ++ [h] }

def St.closeAll (s : St) (hs : List Handle) : St := hs.foldl St.close1 s

def St.finish (s : St) (o : Outcome) : St := { s with pc := .done, rest := [], out := o }

/-- how a `next` call goes on -/
inductive Mode
  | deliver               -- run to the next block and deliver it
  | failBlock             -- run to the next block; its production raises
  | failGap (skip : Nat)  -- run on; the (skip+1)-th gap reached before any block raises
  deriving DecidableEq, Repr

/-- run to the next production point (deliver the block, or fail there), to the failing gap, or to the end -/
def adv : Mode → Trace → St → St
  | _, [], s => s.finish .stopped
  | m, .acq h :: t, s => adv m t (s.open1 h)
  | m, .rel h :: t, s => adv m t (s.close1 h)
  | .failGap 0, .gap c :: _, s => { (s.closeAll c.now).finish .raised with tb := c.later }
  | .failGap (k + 1), .gap _ :: t, s => adv (.failGap k) t s
  | .deliver, .gap _ :: t, s => adv .deliver t s
  | .failBlock, .gap _ :: t, s => adv .failBlock t s
  | .failBlock, .point f _ :: _, s => { (s.closeAll f.now).finish .raised with tb := f.later }
  | _, .point _ su :: t, s =>
    { s with pc := .suspendedAt (s.delivered + 1) su, rest := t, delivered := s.delivered + 1, out := .yielded }

def step (s : St) : Action → St
  | .next => match s.pc with
    | .done => { s with out := .stopped }
    | _ => adv .deliver s.rest s
  | .throwInBlock => match s.pc with
    | .done => { s with out := .stopped }
    | _ => adv .failBlock s.rest s
  | .throwInGap k => match s.pc with
    | .done => { s with out := .stopped }
    | _ => adv (.failGap k) s.rest s
  | .close => match s.pc with
    | .suspendedAt _ su => (s.closeAll su.all).finish .none
    | .notStarted => s.finish .none
    | .done => { s with out := .none }
  | .drop => match s.pc with
    | .suspendedAt _ su => (s.closeAll su.all).finish .none
    | .notStarted => s.finish .none
    | .done => { s with out := .none }
  | .throw => match s.pc with
    | .suspendedAt _ su => { (s.closeAll su.now).finish .raised with tb := su.later }
    | .notStarted => s.finish .raised
    | .done => { s with out := .raised }
  | .releaseExc => { (s.closeAll s.tb) with tb := [], out := .none }

def init (t : Trace) : St := ⟨.notStarted, t, [], [], [], [], [], 0, .none⟩

def runAll (t : Trace) (hs : List Action) : St := hs.foldl step (init t)

/-- the states after each action -/
def runStates (t : Trace) (hs : List Action) : List St :=
  (hs.foldl (fun (acc : St × List St) a => let s := step acc.1 a; (s, acc.2 ++ [s])) (init t, [])).2

/-- well-formedness of a trace: walking it with the list of handles open so far, every acquisition is of a
    library handle that is not open, every release is of an open handle, and the scope written at every point
    is exactly (a permutation of) what is open there.  `none` = ill-formed. -/
def walk : List Handle → Trace → Option (List Handle)
  | o, [] => some o
  | o, .acq h :: t => if h.isLib && !(o.contains h) then walk (h :: o) t else none
  | o, .rel h :: t => if o.contains h then walk (o.erase h) t else none
  | o, .point f s :: t => if f.all.isPerm o && s.all.isPerm o then walk o t else none
  | o, .gap c :: t => if c.all.isPerm o then walk o t else none

def wf (t : Trace) : Bool := walk [] t == some []

/-! ### the shape of each function, read from the translator's frame table -/

abbrev Row := String × List (String × List String) × List String × List String × List String
abbrev Table := List Row

def Row.name (r : Row) : String := r.1
def Row.points (r : Row) : List (String × List String) := r.2.1
def Row.bareOpens (r : Row) : List String := r.2.2.1
def Row.forCalls (r : Row) : List String := r.2.2.2.1
def Row.closeCalls (r : Row) : List String := r.2.2.2.2

/-- the meaning of the context expressions that occur in the source.  The translator prints them in a canonical
    form: callee names, and for every positional argument only what it is — `<param>` (supplied by the caller of
    the function), `<local>` (bound inside it), a nested call or `_`; keyword arguments, literal arguments (file
    modes) and the tests of conditional expressions are dropped, the alternatives of a conditional are sorted
    (`either(…)`), and a module-private helper that only returns such expressions is replaced by what it returns.
    So renaming a variable, adding `encoding=…` or moving the conditional into a helper does not change the table,
    while `closing(<param>)` (closing what the caller supplied) stays distinguishable from `closing(<local>)`.
    Which alternative of `either` is taken when (path ↦ open, stream ↦ nullcontext) is not in the table: it is
    checked by the correspondence run. -/
inductive CtxSem
  | openIfPath       -- `either(nullcontext(<param>), open(<param>))`: open for a path, nullcontext for a stream
  | closingWorkbook  -- `closing(openpyxl.load_workbook(<local>))`: the workbook over the file object opened just before
  | closingWorkbookByPath  -- `closing(openpyxl.load_workbook(<param>))`: openpyxl opens the path itself (before D35)
  | closingRows      -- `closing(<local>)` in read_excel: the lazy row iterator handed out by read_sheets
  | openPath         -- `open(<param>)` (write_excel_openpyxl, only reached for a path-like target)
  deriving DecidableEq, Repr

def interpCtx (e : String) : Option CtxSem :=
  if e = "either(nullcontext(<param>), open(<param>))" then some .openIfPath
  else if e = "closing(openpyxl.load_workbook(<local>))" then some .closingWorkbook
  else if e = "closing(openpyxl.load_workbook(<param>))" then some .closingWorkbookByPath
  else if e = "closing(<local>)" then some .closingRows
  else if e = "open(<param>)" then some .openPath
  else none

inductive Frame
  | withs (cs : List CtxSem)   -- every point of the function is enclosed by exactly these `with` items
  | bareOpen                   -- an opener call that no `with` item manages
  | explicitClose              -- the function calls `.close()` on something itself
  | unknown                    -- a context expression the model has no meaning for / points enclosed differently
  deriving DecidableEq, Repr

def findRow (tbl : Table) (fn : String) : Option Row := tbl.find? (fun r => r.name == fn)

def interpAll : List String → Option (List CtxSem)
  | [] => some []
  | e :: es => match interpCtx e, interpAll es with
    | some c, some cs => some (c :: cs)
    | _, _ => none

def frameOfRow (r : Row) : Frame :=
  if !r.bareOpens.isEmpty then .bareOpen
  else if !r.closeCalls.isEmpty then .explicitClose
  else match r.points with
    | [] => .withs []
    | p :: ps =>
      if ps.all (fun q => q.2 == p.2) then
        match interpAll p.2 with
        | some cs => .withs cs
        | none => .unknown
      else .unknown

def frameOf (tbl : Table) (fn : String) : Frame :=
  match findRow tbl fn with
  | some r => frameOfRow r
  | none => .unknown

/-- `fn` iterates a call to `callee` with a `for` loop (the generator is held by the loop, not delegated to) -/
def holds (tbl : Table) (fn callee : String) : Bool :=
  match findRow tbl fn with
  | some r => r.forCalls.contains callee
  | none => false

/-- `fn` has a point `what` (e.g. "yield from read_csv") -/
def hasPoint (tbl : Table) (fn what : String) : Bool :=
  match findRow tbl fn with
  | some r => r.points.any (fun p => p.1 == what)
  | none => false

def ctxOf (c : CtxSem) (src : Src) : Ctx :=
  match c, src with
  | .openIfPath, .path _ => .acquire (.lib src 0)
  | .openIfPath, .stream _ => .null
  | .closingWorkbook, _ => .acquireLoad (.lib src 1) false   -- the archive object, also over a caller's stream
  | .closingWorkbookByPath, .path _ => .acquireLoad (.lib src 0) true
  | .closingWorkbookByPath, .stream _ => .acquireLoad (.lib src 1) false
  | .closingRows, _ => .null                        -- accounted for by `lazyBlocks … managed`
  | .openPath, _ => .acquire (.lib src 0)

/-- the body of a function inside the frames the table gives for it -/
def applyFrame (fr : Frame) (src : Src) (t : Trace) : Trace :=
  match fr with
  | .withs cs => cs.foldr (fun c acc => withC (ctxOf c src) acc) t
  | .bareOpen => bare (.lib src 0) t
  | .explicitClose =>
    match src with
    | .stream s => finallyClose (.caller s) t
    | .path _ => withC (.acquire (.lib src 0)) t
  | .unknown => bare (.lib src 0) t

/-! ### the readers -/

/-- csv.py read_csv: `with nullcontext(source) if source_is_stream else open(source) as f:
                       yield from parse_blocks(<lines of f>)` -/
def readCsv (tbl : Table) (src : Src) (n : Nat) : Trace :=
  applyFrame (frameOf tbl "read_csv") src (deleg (plainBlocks n))

/-- _excel_openpyxl.py read_sheets: `with closing(load_workbook(path, read_only=True)) as wb:
                                       for ws in wb.worksheets: yield (ws.title, ws.iter_rows(…))` -/
def readSheets (tbl : Table) (src : Src) (nSheets : Nat) : Trace :=
  applyFrame (frameOf tbl "read_sheets") src (plainBlocks nSheets)

structure Sheet where
  read : Bool     -- false: skipped by `sheet_name_pattern` (`continue`)
  pre : Nat       -- blocks produced before the sheet's rows are exhausted
  post : Nat      -- blocks produced by the final flush
  deriving DecidableEq, Repr

/-- is the row iterator closed by a `with closing(row_cell_iter)` around the `yield from parse_blocks` ? -/
def rowsManaged (tbl : Table) : Bool :=
  match frameOf tbl "read_excel" with
  | .withs cs => cs.contains .closingRows
  | _ => false

def sheetBodies (src : Src) (managed : Bool) : Nat → List Sheet → List Trace
  | _, [] => []
  | i, sh :: shs =>
    (if sh.read then deleg (lazyBlocks (.lib src (i + 2)) managed sh.pre sh.post) else []) ::
      sheetBodies src managed (i + 1) shs

/-- excel.py read_excel: `for name, row_cell_iter in read_sheets(source):
                            [continue if the name does not match]
                            with closing(row_cell_iter): yield from parse_blocks(row_cell_iter)` -/
def readExcel (tbl : Table) (src : Src) (sheets : List Sheet) : Trace :=
  let body := forHeld (readSheets tbl src sheets.length) (sheetBodies src (rowsManaged tbl) 0 sheets)
  match frameOf tbl "read_excel" with
  | .withs _ => body
  | fr => applyFrame fr src body

inductive FileSpec
  | csv (f : Nat) (n : Nat)
  | xlsx (f : Nat) (sheets : List Sheet)
  | folder                                 -- FolderReader.read: `yield from ()`
  deriving DecidableEq, Repr

/-- _loaders.py FileReader.read: `yield from read_csv(path, …)` / `yield from read_excel(path, …)` -/
def fileRead (tbl : Table) : FileSpec → Trace
  | .csv f n => deleg (readCsv tbl (.path f) n)
  | .xlsx f shs => deleg (readExcel tbl (.path f) shs)
  | .folder => []

/-- _loaders.py IncludeReader.read: `for block_type, value in self.reader.read(…):` consume include
    directives (keep = false), `yield` everything else -/
def includeRead (tbl : Table) (fs : FileSpec) (keep : List Bool) : Trace :=
  reyield (fileRead tbl fs) keep

/-- _orchestrators.py queued_load: `while items: <resolve the next item, refuse a duplicate>;
    yield from load_proxy.read(orch)`, in the order in which the work list is popped.  Before every item there
    is a gap: resolving (LoadError), the duplicate check (tracker error), an unsupported extension (ValueError)
    and a missing file (FileNotFoundError from open / load_workbook) all raise there, with nothing of this
    generator in scope.  An item that fails this way is a `.folder` (it produces nothing). -/
def queuedLoad (tbl : Table) : List (FileSpec × List Bool) → Trace
  | [] => []
  | (fs, keep) :: rest => .gap noCleanup :: (deleg (includeRead tbl fs keep) ++ queuedLoad tbl rest)

/-- _orchestrators.py load_files: `yield from queued_load(…)` -/
def loadFiles (tbl : Table) (files : List (FileSpec × List Bool)) : Trace := deleg (queuedLoad tbl files)

/-! ### the writers (not generators: the only "consumer actions" are `next` = serialise the next table and
    `throwInBlock` = that table fails to serialise) -/

/-- csv.py write_csv: `with open(to, "w") if isinstance(to, (str, PathLike)) else nullcontext(to) as stream:
                         for table in tables: _table_to_csv(table, stream, …)` -/
def writeCsv (tbl : Table) (dst : Src) (n : Nat) : Trace :=
  applyFrame (frameOf tbl "write_csv") dst (plainBlocks n)

/-- how write_excel_openpyxl gets the workbook onto the target, read from its row of the frame table -/
inductive SaveShape
  | buffered   -- `wb.save(buffer)`, then `with open(path, 'wb') as f: f.write(…)` for a path, `wb.save(stream)` else
  | direct     -- `wb.save(path)`: openpyxl opens the archive on the target and closes it at the end of `save`
  | other
  deriving DecidableEq, Repr

def saveShape (tbl : Table) : SaveShape :=
  match findRow tbl "write_excel_openpyxl" with
  | some r =>
    if !r.bareOpens.isEmpty || !r.closeCalls.isEmpty then .other
    else if r.points == [("call <local>.save", []), ("call <local>.save", []),
        ("call <local>.write", ["open(<param>)"]), ("call _append_table_to_openpyxl_worksheet", [])] then .buffered
    else if r.points == [("call <local>.save", []), ("call _append_table_to_openpyxl_worksheet", [])] then .direct
    else .other
  | none => .other

/-- _excel_openpyxl.py write_excel_openpyxl: every table is appended to an in-memory workbook (one point per
    table), then the workbook is serialised.  Serialising can fail without any table being "produced" (a cell
    openpyxl converts only at save time): a `gap`.
    * buffered (current source): `wb.save(buffer)` with nothing open; for a path `with open(path, 'wb') as f:
      f.write(bytes)`; for a caller's stream `wb.save(stream)` (openpyxl's ZipFile wrapper over the caller's
      stream is internal to `save` and is not a file: not tracked).
    * direct (the source before /repo 5dca582): `wb.save(path)` — openpyxl's `ExcelWriter.save` is
      `write_data(); archive.close()` without `finally`: when serialising fails the archive stays open, referenced
      from the frames of the traceback only (`later`). -/
def writeExcel (tbl : Table) (dst : Src) (n : Nat) : Trace :=
  match saveShape tbl, dst with
  | .buffered, .path _ => plainBlocks n ++ (.gap noCleanup :: withC (.acquire (.lib dst 0)) [.gap noCleanup])
  | .buffered, .stream _ => plainBlocks n ++ [.gap noCleanup]
  | .direct, .path _ => plainBlocks n ++ [.acq (.lib dst 0), .gap ⟨[], [.lib dst 0]⟩, .rel (.lib dst 0)]
  | .direct, .stream _ => plainBlocks n ++ [.gap noCleanup]
  | .other, _ => bare (.lib dst 0) (plainBlocks n)

/-- _excel_xlsxwriter.py write_excel_xlsxwriter: `wb = xlsxwriter.Workbook(path)`; every table is written into
    the in-memory workbook; `wb.close()` — no `with`, no `try/finally`.  xlsxwriter is an external library that
    is not installed here: *when* it opens the target is a parameter (`opensAtCtor`): in the constructor (then the
    handle is held across the tables and a failing table leaves it to the deallocator), or only inside `close()`
    (then it is opened and closed inside that call, as openpyxl's `save`). -/
def writeExcelXlsxwriter (opensAtCtor : Bool) (dst : Src) (n : Nat) : Trace :=
  if opensAtCtor then .acq (.lib dst 0) :: (plainBlocks n ++ [.rel (.lib dst 0)])
  else plainBlocks n ++ [.acq (.lib dst 0), .rel (.lib dst 0)]

/-! ### what the harness can see -/

/-- does openpyxl open the workbook by path itself (source before D35)?  Then the archive and the member streams of
    the sheets share ONE descriptor, which stays open while any of them is open.  In the current source the library
    opens the file (slot 0) and hands the file object to openpyxl: the archive and the member streams sit on that
    object and hold no descriptor of their own. -/
def workbookSharesFd (tbl : Table) : Bool :=
  match frameOf tbl "read_sheets" with
  | .withs cs => cs.contains .closingWorkbookByPath
  | _ => true

/-- files with an OS-level descriptor open: the file object of slot 0 on the *path* is open, or (`shared`) any
    library object on that path is -/
def fdsOpen (shared : Bool) (s : St) : List Nat :=
  (s.opn.filterMap fun h => match h with
    | .lib (.path f) slot => if shared || slot == 0 then some f else none
    | _ => none).eraseDups

/-- caller streams the library closed -/
def callerClosed (s : St) : List Nat :=
  (s.closed.filterMap fun h => match h with
    | .caller c => some c
    | _ => none).eraseDups

end Pdt.Resource
