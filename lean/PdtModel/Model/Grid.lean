/-
  Model/Grid.lean — the Excel side of pdtable (openpyxl backend).

    _excel_write_helper.py  _table_header, _table_destinations, _pack_tables (a dict is a list of sheets here)
    _excel_openpyxl.py      write_excel_openpyxl, _append_table_to_openpyxl_worksheet  -> `layoutTable`, `layoutSheet`
                            _style_tables_in_worksheet (index arithmetic only)         -> `styleTable`, `styleTargets`
                            read_sheets                                                -> `readSheets`
    excel.py                read_excel (sheet loop, `sheet_name_pattern.match`, per-sheet parse_blocks) -> `readExcel`

  openpyxl itself is *not* pdtable code.  What it does between `ws.append(row)` / `wb.save` and
  `load_workbook(read_only=True, data_only=True).iter_rows(values_only=True)` is the function `store`
  below — an external law, stated here and sampled against the real library on every run:
    * a cell keeps its value if it is representable (`cellRepresentable`); a float comes back through
      `"%.16g"` and `int()`/`float()`, i.e. an integer-valued float below 1e16 comes back as an `int`
      (the sign of zero is lost); an empty string and a formula without cached value come back as `None`;
    * every row is right-padded with `None` to the sheet width (the largest number of cells appended to any
      row); an appended empty row `[]` becomes a row of `None`s;
    * rows after the last row holding a cell do not exist.
  Cell styles live in a separate layer (`Workbook.styles`): the value grid has no field a style could touch.
-/
import PdtModel.Model.Represent
import PdtModel.Model.Blocks
namespace Pdt.Grid
open Pdt Pdt.Reader Pdt.Represent Pdt.Blocks

/-! ## writer: `_append_table_to_openpyxl_worksheet` -/

/-- `_table_header`: `**name` / `**name*` -/
def header (t : TableVal) : Str := '*' :: '*' :: (t.name ++ (if t.transposed then ['*'] else []))

/-- `_table_destinations`: `" ".join(str(x) for x in destinations)` in the set's iteration order -/
def destCell (t : TableVal) : Str := joinWith ' ' t.destinations

/-- value `i` of a column (a DataFrame's columns all have `len(df)` values) -/
def valAt (c : Column) (i : Nat) : Val := c.values.getD i (.text [])

/-- `_represent_row_elements(row i, units, na_rep)`: `col` counts the columns from `j` -/
def reprRow (naRep : Str) (i : Nat) : Nat → List Column → Row
  | _, [] => []
  | j, c :: cs => represent naRep j c.unit (valAt c i) :: reprRow naRep i (j + 1) cs

/-- `_represent_col_elements(values, unit, na_rep)`: `col` counts the *values* from `i` -/
def reprCol (naRep unit : Str) : Nat → List Val → Row
  | _, [] => []
  | i, v :: vs => represent naRep i unit v :: reprCol naRep unit (i + 1) vs

/-- the rows appended for one table, before the separator rows -/
def layoutTable (naRep : Str) (t : TableVal) : List Row :=
  [.str (header t)] :: [.str (destCell t)] ::
    (if t.transposed then
      t.columns.map (fun c => .str c.name :: .str c.unit :: reprCol naRep c.unit 0 c.values)
    else
      t.columns.map (fun c => Cell.str c.name) :: t.columns.map (fun c => Cell.str c.unit) ::
        (List.range t.nRows).map (fun i => reprRow naRep i 0 t.columns))

/-- `for _ in range(sep_lines): ws.append([])` -/
def sepRows (sepLines : Nat) : List Row := List.replicate sepLines []

/-- all rows appended to one worksheet -/
def layoutSheet (naRep : Str) (sepLines : Nat) (tables : List TableVal) : List Row :=
  tables.flatMap (fun t => layoutTable naRep t ++ sepRows sepLines)

/-! ## openpyxl storage (external law) -/

def digitVal (c : Char) : Option Nat :=
  if '0' ≤ c && c ≤ '9' then some (c.toNat - '0'.toNat) else none

def natOfDigits : Str → Option Nat
  | [] => none
  | cs => cs.foldl (fun acc c => match acc, digitVal c with
      | some a, some d => some (10 * a + d)
      | _, _ => none) (some 0)

/-- the integer a float token of the form `[-]ddd.0` denotes (`repr` of an integer-valued float below 1e16) -/
def intOfFloatTok (t : Str) : Option Int :=
  let (neg, body) := match t with
    | '-' :: r => (true, r)
    | r => (false, r)
  let ds := body.takeWhile (· != '.')
  if body.dropWhile (· != '.') = ".0".toList then
    (natOfDigits ds).map (fun n => if neg then -(Int.ofNat n) else Int.ofNat n)
  else none

/-- limits of the file format as openpyxl enforces them (observed on the real stack, negative examples in
    Props/C09.lean and in the harness): a cell text is cut to 32767 characters; a column index above 18278 (`ZZZ`) makes
    `get_column_letter` raise ValueError (Excel itself stops at 16384 columns, openpyxl does not mind); a worksheet has
    at most 1048576 rows -/
def maxCellChars : Nat := 32767
def maxColumns : Nat := 18278
def maxRows : Nat := 1048576

/-- what one appended cell value reads back as -/
def storeCell : Cell → Cell
  | .str [] => .none                       -- written as an empty cell
  | .str ('=' :: _) => .none               -- a formula; `data_only=True` finds no cached value
  | .str s => .str (s.take maxCellChars)  -- openpyxl cuts longer text silently
  | .float t =>
    if t = "-0.0".toList then .int 0 "0.0".toList          -- "%.16g" % -0.0 = "-0" -> int("-0") = 0
    else match intOfFloatTok t with
      | some i => .int i t                                  -- "%.16g" % 2.0 = "2" -> int
      | none => .float t
  | c => c

def width (rows : List Row) : Nat := rows.foldl (fun m r => max m r.length) 0

/-- rows after the last row that holds a cell do not exist in the saved sheet -/
def dropTrailingEmpty : List Row → List Row
  | [] => []
  | r :: rs =>
    match dropTrailingEmpty rs with
    | [] => if r.isEmpty then [] else [r]
    | rs' => r :: rs'

def padTo (w : Nat) (r : Row) : Row := r ++ List.replicate (w - r.length) .none

def storeRow (w : Nat) (r : Row) : Row := padTo w (r.map storeCell)

/-- the rows `iter_rows(values_only=True)` delivers for the rows appended to a fresh worksheet -/
def store (rows : List Row) : List Row :=
  (dropTrailingEmpty rows).map (storeRow (width rows))

/-! ### the domain of the law: representable cells -/

/-- characters openpyxl gives back unchanged: everything from U+0020 plus tab and line feed.  The other C0 controls
    are refused by openpyxl (`ILLEGAL_CHARACTERS_RE`), and a carriage return — XML-legal — comes back as a line feed
    (XML end-of-line normalisation): `"a\rb"` is read back as `"a\nb"` (negative example in Props/C09.lean and in
    the harness) -/
def charOK (c : Char) : Bool :=
  (32 ≤ c.toNat || c.toNat == 9 || c.toNat == 10) && c.toNat != 0xFFFE && c.toNat != 0xFFFF

/-- text openpyxl gives back unchanged: non-empty, not a formula, legal characters, at most 32767 of them -/
def strRepresentable (s : Str) : Bool :=
  !s.isEmpty && s.head? != some '=' && s.all charOK && decide (s.length ≤ maxCellChars)

/-- number of significant decimal digits of a float `repr` token -/
def sigDigits (t : Str) : Nat :=
  let mant := (t.takeWhile (fun c => c != 'e' && c != 'E')).filter (fun c => c != '-' && c != '+' && c != '.')
  ((mant.dropWhile (· == '0')).reverse.dropWhile (· == '0')).length

/-- a `repr` token of a finite float: an optional sign and then a digit -/
def finiteTok (t : Str) : Bool :=
  match t with
  | '-' :: c :: _ => (digitVal c).isSome
  | c :: _ => (digitVal c).isSome
  | [] => false

def strLe : Str → Str → Bool
  | [], _ => true
  | _ :: _, [] => false
  | a :: as, b :: bs => a.toNat < b.toNat || (a == b && strLe as bs)

/-- ISO token of a naive whole-second timestamp on or after 1900-01-01 (openpyxl's serial-date conversion handles
    the phantom 1900-02-29 of the format in both directions: January and February 1900 round-trip, sampled by the
    harness) and before year 10000.  1899-12-31 is serial 0 and is read back as a time of day — the reader rejects
    it (negative example) -/
def dtRepresentable (t : Str) : Bool :=
  !t.contains '.' && tzOf t = [] && t.length = 19 && strLe "1900-01-01".toList (t.take 10)

def cellRepresentable : Cell → Bool
  | .str s => strRepresentable s
  | .int i _ => decide (-1000000000000000 < i) && decide (i < 1000000000000000)
  | .float t => finiteTok t && decide (sigDigits t ≤ 15)
  | .dt t => dtRepresentable t
  | .bool _ => true
  | .none => false
  | .other _ => false

/-! ## Excel-well-formed tables (DESIGN §3 with clause 6), decidable -/

def numericUnit (u : Str) : Bool := u != uText && u != uOnoff && u != uDatetime

def notMarker (s : Str) : Bool := classify s == none

/-- text that survives the workbook and the reader: representable and not blank -/
def textOK (s : Str) : Bool := strRepresentable s && !allSpace s

def intOK (i : Int) : Bool := decide (-1000000000000000 < i) && decide (i < 1000000000000000)

/-- a value fits its column's unit and is representable (missing values are written as `na_rep`) -/
def valOK (u : Str) : Val → Bool
  | .text s => u == uText && textOK s
  | .bool _ => u == uOnoff
  | .dt t => u == uDatetime && (t == NaT || dtRepresentable t)
  | .num t => numericUnit u && (t == NaN || (finiteTok t && decide (sigDigits t ≤ 15)))
  | .int i => numericUnit u && intOK i

def distinct : List Str → Bool
  | [] => true
  | x :: xs => !xs.contains x && distinct xs

/-- a destination token: non-empty, no blank, no colon, legal characters, not starting with `*` or `=` -/
def destOK (d : Str) : Bool :=
  !d.isEmpty && d.all (fun c => !isSpace c && c != ':' && charOK c) && d.head? != some '*' && d.head? != some '='

/-- a column of `m` values: trimmed non-blank representable name and unit, values fitting the unit -/
def columnOK (m : Nat) (c : Column) : Bool :=
  textOK c.name && strip c.name == c.name && textOK c.unit && strip c.unit == c.unit &&
  c.values.length == m && c.values.all (valOK c.unit)

/-- what starts a row of a row-wise table must not look like a block marker -/
def firstColumnOK (c : Column) : Bool :=
  notMarker c.name && notMarker c.unit &&
  c.values.all (fun v => match v with | .text s => notMarker s | _ => true)

/-- the `na_rep` written for missing values: a missing-value marker that is no block marker and not blank -/
def naRepOK (naRep : Str) : Bool :=
  isMissingMarker naRep && strRepresentable naRep && !allSpace naRep && notMarker naRep

/-- sizes the file format can hold: the header cell `**name*` and the destinations cell within the cell limit, the
    columns the table occupies in the sheet (its columns, or rows + 2 when transposed) within openpyxl's limit -/
def sizeOK (t : TableVal) : Bool :=
  decide (t.name.length + 3 ≤ maxCellChars) && decide ((destCell t).length ≤ maxCellChars) &&
  decide ((if t.transposed then t.nRows + 2 else t.columns.length) ≤ maxColumns)

/-- the structural clauses (DESIGN §3.1-6) -/
def excelWFCore (t : TableVal) : Bool :=
  -- 1. name: legal characters, no `*` at either end, not empty when transposed (`***` is a directive)
  t.name.all charOK && t.name.head? != some '*' && t.name.getLast? != some '*' &&
  (!t.transposed || !t.name.isEmpty) &&
  -- 2. destinations: a non-empty set of tokens
  !t.destinations.isEmpty && t.destinations.all destOK && distinct t.destinations &&
  -- 3.-5. columns
  distinct (t.columns.map (·.name)) && t.columns.all (columnOK t.nRows) &&
  (if t.transposed then t.columns.all (fun c => notMarker c.name)
   else match t.columns with
     | [] => true
     | c :: _ => firstColumnOK c)

def excelWF (t : TableVal) : Bool := sizeOK t && excelWFCore t


/-- the rows a sheet needs stay within the worksheet limit -/
def sheetRowsOK (naRep : Str) (sepLines : Nat) (tables : List TableVal) : Bool :=
  decide ((layoutSheet naRep sepLines tables).length ≤ maxRows)

/-! ## sheet names (openpyxl `create_sheet` / `Worksheet.title`) -/

/-- case-insensitive key of a sheet name.  openpyxl compares `str.lower()`; Unicode case folding is not modelled, so
    every non-ASCII character is identified with every other one (conservative: more names collide here than there) -/
def sheetKey (n : Str) : Str := n.map (fun c => if c.toNat < 128 then lowerChar c else '?')

def sheetCharOK (c : Char) : Bool :=
  32 ≤ c.toNat && c.toNat != 0xFFFE && c.toNat != 0xFFFF &&
  c != '\\' && c != '/' && c != '?' && c != '*' && c != '[' && c != ']' && c != ':'

/-- one legal sheet title: not empty (an empty title is replaced by `Sheet`), at most 31 characters (openpyxl only
    warns beyond that; Excel refuses), none of `\ / ? * [ ] :` (openpyxl raises ValueError) -/
def sheetNameOK (n : Str) : Bool := !n.isEmpty && decide (n.length ≤ 31) && n.all sheetCharOK

/-- the sheet names of a workbook: at least one (openpyxl cannot save a workbook without a sheet: IndexError), each
    legal, pairwise distinct ignoring case (`create_sheet` silently renames a
    duplicate: `{"A", "a"}` is written as `A`, `a1`) -/
def sheetNamesOK (names : List Str) : Bool :=
  !names.isEmpty && names.all sheetNameOK && distinct (names.map sheetKey)

/-! ## styling: the index arithmetic of `_style_tables_in_worksheet` -/

/-- `(len(t.df), len(t.df.columns), t.metadata.transposed)` -/
structure Dim where
  numRows : Nat
  numCols : Nat
  transposed : Bool
  deriving DecidableEq, Repr

def dimOf (t : TableVal) : Dim := ⟨t.nRows, t.columns.length, t.transposed⟩

inductive Part
  | tableName | destinations | columnNames | units | values
  | centeredUnits | centeredValues        -- the special default for transposed tables
  deriving DecidableEq, Repr

/-- one cell handed to `_style_cells`: table index in the sheet, 0-based row and column, table part -/
structure Target where
  table : Nat
  row : Nat
  col : Nat
  part : Part
  deriving DecidableEq, Repr

/-- `true_num_cols` after the swap -/
def Dim.trueCols (d : Dim) : Nat := if d.transposed then d.numRows + 2 else d.numCols
/-- `true_num_rows` after the swap -/
def Dim.trueRows (d : Dim) : Nat := if d.transposed then d.numCols else d.numRows + 2

/-- `[r[0:true_num_cols] for r in rows[i_start : i_start + true_num_rows + num_header_rows]]` as coordinates:
    `rows` has `nSheetRows` rows of `width` cells; Python slices clamp -/
def tableRows (nSheetRows width iStart : Nat) (d : Dim) : List (List (Nat × Nat)) :=
  (List.range' iStart (min (iStart + d.trueRows + 2) nSheetRows - iStart)).map
    (fun r => (List.range (min d.trueCols width)).map (fun c => (r, c)))

def tag (k : Nat) (p : Part) (xs : List (Nat × Nat)) : List Target := xs.map (fun x => ⟨k, x.1, x.2, p⟩)

/-- the cells styled for table number `k` whose header sits in sheet row `iStart`.
    `table_rows[0]`, `table_rows[1]`, `t[0]`, `t[1]` are plain indexings (IndexError when out of range);
    the row-wise name / unit rows are guarded since the column-less-table fix -/
def styleTable (nSheetRows width iStart k : Nat) (d : Dim) : Except PyExc (List Target) :=
  match tableRows nSheetRows width iStart d with
  | [] => .error .indexError
  | [_] => .error .indexError
  | r0 :: r1 :: rest =>
    if d.transposed then
      if rest.any (fun t => t.length < 2) then .error .indexError
      else
        let names := rest.flatMap (fun t => t.take 1)
        let units := rest.flatMap (fun t => (t.drop 1).take 1)
        let values := rest.flatMap (fun t => t.drop 2)
        .ok (tag k .tableName r0 ++ tag k .destinations r1 ++ tag k .columnNames names ++ tag k .units units ++
             tag k .values values ++ tag k .centeredUnits units ++ tag k .centeredValues values)
    else
      let names := rest.getD 0 []
      let units := rest.getD 1 []
      let values := (rest.drop 2).flatten
      .ok (tag k .tableName r0 ++ tag k .destinations r1 ++ tag k .columnNames names ++ tag k .units units ++
           tag k .values values)

/-- the loop over `table_dimensions`: `i_start += true_num_rows + num_header_rows + sep_lines` -/
def styleTargets (nSheetRows width sepLines : Nat) : Nat → Nat → List Dim → Except PyExc (List Target)
  | _, _, [] => .ok []
  | iStart, k, d :: ds => do
    let a ← styleTable nSheetRows width iStart k d
    let b ← styleTargets nSheetRows width sepLines (iStart + d.trueRows + 2 + sepLines) (k + 1) ds
    pure (a ++ b)

/-- "Widen columns": the 0-based indices of the columns whose width is set (`range(max_num_cols + 1)`,
    where a transposed table counts its *rows*) -/
def widenedColumns (dims : List Dim) : List Nat :=
  List.range (dims.foldl (fun m d => max m (if d.transposed then d.numRows else d.numCols)) 0 + 1)

/-! ## write_excel -/

structure SheetOut where
  name : Str
  rows : List Row               -- value grid as read back
  styled : List Target          -- style layer: the cells handed to `_style_cells` (empty without styles)
  widened : List Nat
  deriving Repr

/-- one iteration of the sheet loop of `write_excel_openpyxl`.  `ws.iter_rows()` in the style function sees
    the rows up to the last one holding a cell, each `width` cells wide -/
def writeSheet (naRep : Str) (sepLines : Nat) (styles : Bool) (name : Str) (tables : List TableVal) :
    Except PyExc SheetOut :=
  let rows := layoutSheet naRep sepLines tables
  if width rows > maxColumns then .error .valueError      -- `ws.append`: "Invalid column index"
  else if styles then do
    let ts ← styleTargets (dropTrailingEmpty rows).length (width rows) sepLines 0 0 (tables.map dimOf)
    pure ⟨name, store rows, ts, widenedColumns (tables.map dimOf)⟩
  else pure ⟨name, store rows, [], []⟩

/-- `write_excel(tables, to, na_rep, sep_lines, styles)`: an exception while styling leaves no workbook -/
def writeExcel (naRep : Str) (sepLines : Nat) (styles : Bool) :
    List (Str × List TableVal) → Except PyExc (List SheetOut)
  | [] => .ok []
  | (n, ts) :: rest => do
    let s ← writeSheet naRep sepLines styles n ts
    let r ← writeExcel naRep sepLines styles rest
    pure (s :: r)

/-! ## read_excel -/

/-- `read_sheets`: the sheets in workbook order -/
def readSheets (wb : List SheetOut) : List (Str × List Row) := wb.map (fun s => (s.name, s.rows))

structure ReadResult where
  blocks : List (Str × Delivered)    -- (sheet name of the origin, block) in delivery order
  ending : Ending
  deriving Repr

/-- the sheet loop of `read_excel` with `fixer=None` (a fresh fixer per sheet): a sheet whose name the
    pattern rejects is skipped; an exception ends the whole read -/
def readExcel (cfg : Config) (pattern : Str → Bool) (f0 : Fixer) : List (Str × List Row) → ReadResult
  | [] => ⟨[], .exhausted⟩
  | (n, rows) :: rest =>
    if !pattern n then readExcel cfg pattern f0 rest
    else
      let r := parseBlocks cfg rows f0
      match r.ending with
      | .exhausted =>
        let r' := readExcel cfg pattern f0 rest
        ⟨r.blocks.map (fun b => (n, b)) ++ r'.blocks, r'.ending⟩
      | e => ⟨r.blocks.map (fun b => (n, b)), e⟩

/-- the tables among the delivered blocks -/
def tablesOf (bs : List (Str × Delivered)) : List (Str × Precursor) :=
  bs.filterMap (fun b => match b.2.val with | .table p => some (b.1, p) | _ => none)

end Pdt.Grid
