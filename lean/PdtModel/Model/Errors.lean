/-
  Model/Errors.lean — the text front end of `read_csv` (csv.py:133-136) for the error properties:

      cell_rows = (line.rstrip("\n").split(sep) for line in f)

  over a text stream whose lines end in "\n" only (io.StringIO, no newline translation): the lines of the
  text, each split on the one-character separator; every cell is a `str`.
-/
import PdtModel.Model.Blocks
namespace Pdt.Errors
open Pdt Pdt.Reader Pdt.Blocks

/-- `for line in f`, each `rstrip("\n")`-ed: the pieces between newlines; a text ending in a newline (or the
    empty text) has no further, empty line after it -/
def lines (text : Str) : List Str :=
  let ps := splitOn '\n' text
  if ps.getLast? = some [] then ps.dropLast else ps

/-- the cell rows `read_csv` hands to `parse_blocks` -/
def readCsvRows (sep : Char) (text : Str) : List Row :=
  (lines text).map (fun l => (splitOn sep l).map Cell.str)

/-- `read_csv(StringIO(text), sep, to=…, filter=…, fixer=…, issue_tracker=…)` -/
def readCsv (cfg : Config) (sep : Char) (text : Str) (f : Fixer) : Result :=
  parseBlocks cfg (readCsvRows sep text) f

end Pdt.Errors
