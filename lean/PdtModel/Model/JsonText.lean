/-
  Model/JsonText.lean — the JSON *text* trip on the JsonData domain:
    `dumps`  = CPython `json.dumps(obj, allow_nan=False)` with its defaults (`ensure_ascii=True`, separators
               `", "` / `": "`, dict members in insertion order, float via `float.__repr__`, int via `int.__repr__`)
    `loads`  = CPython `json.loads(text)` (C scanner, `strict=True`): recursive descent with fuel, JSON whitespace,
               the short escapes, `\uXXXX` with surrogate-pair recombination, raw control characters rejected,
               duplicate keys (last value wins, first position kept), the JSON number grammar.

  Not Mathlib; imports only the model's own `JVal`.  Numbers: the *grammar* (accept / reject, integer or not) is
  decided here; the *values* `int(text)` and `repr(float(text))` are external (`NumCodec`, oracle tables from the
  harness).  A float leaf is its own text: `JVal.num tok` carries CPython's `repr` token, which is what `dumps`
  writes.

  Where CPython accepts what `JVal` cannot express, `loads` answers `none` and the harness skips that named class:
    * the literals `NaN`, `Infinity`, `-Infinity`;
    * a `\uD800`–`\uDFFF` escape that is not part of a high+low pair (a lone surrogate: Lean's `Char` is a Unicode
      scalar value, so `Str` has no lone surrogates by construction).
-/
import PdtModel.Model.Json
namespace Pdt.JsonText
open Pdt Pdt.Json

/-- values of numerals (external): `int(text)` and `repr(float(text))` -/
structure NumCodec where
  intOf : Str → Int
  floatOf : Str → Str

/-! ## encoder -/

/-- lower-case hex digit, as `'\\u{0:04x}'.format` writes it -/
def hexChar (d : Nat) : Char := if d < 10 then Char.ofNat (48 + d) else Char.ofNat (87 + d)

def hex4 (n : Nat) : Str := [hexChar (n / 4096 % 16), hexChar (n / 256 % 16), hexChar (n / 16 % 16), hexChar (n % 16)]

def escU (n : Nat) : Str := '\\' :: 'u' :: hex4 n

/-- `ESCAPE_ASCII` / `ESCAPE_DCT`: the two specials and the five short escapes, printable ASCII as it is, every
    other BMP character as `\uXXXX`, every astral character as a surrogate pair -/
def escChar (c : Char) : Str :=
  if c = '"' then ['\\', '"']
  else if c = '\\' then ['\\', '\\']
  else if c = '\n' then ['\\', 'n']
  else if c = '\r' then ['\\', 'r']
  else if c = '\t' then ['\\', 't']
  else if c = '\x08' then ['\\', 'b']
  else if c = '\x0c' then ['\\', 'f']
  else if 32 ≤ c.toNat ∧ c.toNat ≤ 126 then [c]
  else if c.toNat < 65536 then escU c.toNat
  else escU (55296 + (c.toNat - 65536) / 1024) ++ escU (56320 + (c.toNat - 65536) % 1024)

def escStr : Str → Str
  | [] => []
  | c :: cs => escChar c ++ escStr cs

def dumpsStr (s : Str) : Str := '"' :: (escStr s ++ ['"'])

mutual
/-- `json.dumps(v, allow_nan=False)` (for a value without NaN / infinity; those raise, see `Json.dumpsStrictOk`) -/
def dumps : JVal → Str
  | .null => ['n', 'u', 'l', 'l']
  | .bool b => if b then ['t', 'r', 'u', 'e'] else ['f', 'a', 'l', 's', 'e']
  | .int i => intToStr i
  | .num t => t
  | .str s => dumpsStr s
  | .arr [] => ['[', ']']
  | .arr (x :: xs) => '[' :: (dumps x ++ (dumpsTail xs ++ [']']))
  | .obj [] => ['{', '}']
  | .obj ((k, v) :: kvs) => '{' :: (dumpsStr k ++ (':' :: ' ' :: (dumps v ++ (dumpsMTail kvs ++ ['}']))))
/-- the further elements of a list, each after `", "` -/
def dumpsTail : List JVal → Str
  | [] => []
  | x :: xs => ',' :: ' ' :: (dumps x ++ dumpsTail xs)
/-- the further members of a dict -/
def dumpsMTail : List (Str × JVal) → Str
  | [] => []
  | (k, v) :: kvs => ',' :: ' ' :: (dumpsStr k ++ (':' :: ' ' :: (dumps v ++ dumpsMTail kvs)))
end

/-! ## decoder -/

/-- JSON whitespace -/
def isWs (c : Char) : Bool := c = ' ' || c = '\t' || c = '\n' || c = '\r'

def skipWs (s : Str) : Str := s.dropWhile isWs

def isDigit (c : Char) : Bool := '0' ≤ c && c ≤ '9'

/-- characters a numeral can consist of -/
def isNumChar (c : Char) : Bool := isDigit c || c = '-' || c = '+' || c = '.' || c = 'e' || c = 'E'

def hexVal (c : Char) : Option Nat :=
  if '0' ≤ c && c ≤ '9' then some (c.toNat - 48)
  else if 'a' ≤ c && c ≤ 'f' then some (c.toNat - 87)
  else if 'A' ≤ c && c ≤ 'F' then some (c.toNat - 55)
  else none

def hex4Val (a b c d : Char) : Option Nat :=
  match hexVal a, hexVal b, hexVal c, hexVal d with
  | some w, some x, some y, some z => some (((w * 16 + x) * 16 + y) * 16 + z)
  | _, _, _, _ => none

/-- after a backslash: the character the escape stands for, and the rest -/
def decodeEscape : Str → Option (Char × Str)
  | '"' :: r => some ('"', r)
  | '\\' :: r => some ('\\', r)
  | '/' :: r => some ('/', r)
  | 'b' :: r => some ('\x08', r)
  | 'f' :: r => some ('\x0c', r)
  | 'n' :: r => some ('\n', r)
  | 'r' :: r => some ('\r', r)
  | 't' :: r => some ('\t', r)
  | 'u' :: a :: b :: c :: d :: r =>
    match hex4Val a b c d with
    | none => none
    | some hi =>
      if 55296 ≤ hi ∧ hi ≤ 56319 then
        -- a high surrogate: only as the first half of a pair
        match r with
        | '\\' :: 'u' :: e :: f :: g :: h :: r2 =>
          match hex4Val e f g h with
          | some lo => if 56320 ≤ lo ∧ lo ≤ 57343 then some (Char.ofNat (65536 + (hi - 55296) * 1024 + (lo - 56320)), r2)
                       else none
          | none => none
        | _ => none
      else if 56320 ≤ hi ∧ hi ≤ 57343 then none       -- a lone low surrogate
      else some (Char.ofNat hi, r)
  | _ => none

/-- the body of a string literal up to the closing quote -/
def parseStrBody : Nat → Str → Option (Str × Str)
  | 0, _ => none
  | _ + 1, [] => none
  | n + 1, c :: r =>
    if c = '"' then some ([], r)
    else if c = '\\' then
      match decodeEscape r with
      | none => none
      | some (ch, r') =>
        match parseStrBody n r' with
        | none => none
        | some (s, r'') => some (ch :: s, r'')
    else if c.toNat < 32 then none                     -- strict: raw control characters are invalid
    else
      match parseStrBody n r with
      | none => none
      | some (s, r') => some (c :: s, r')

/-- a string literal -/
def parseString : Str → Option (Str × Str)
  | '"' :: r => parseStrBody (r.length + 1) r
  | _ => none

/-! ### the JSON number grammar: `-?(0|[1-9][0-9]*)(\.[0-9]+)?([eE][-+]?[0-9]+)?` -/

def dropDigits (s : Str) : Str := s.dropWhile isDigit

/-- `-?(0|[1-9][0-9]*)`: the rest after it -/
def intPart (s : Str) : Option Str :=
  let s1 := match s with | '-' :: r => r | _ => s
  match s1 with
  | '0' :: r => some r
  | c :: r => if isDigit c then some (dropDigits r) else none
  | [] => none

/-- `(\.[0-9]+)?` -/
def fracPart (s : Str) : Option Str :=
  match s with
  | '.' :: c :: r => if isDigit c then some (dropDigits r) else none
  | '.' :: [] => none
  | _ => some s

/-- `([eE][-+]?[0-9]+)?` -/
def expPart (s : Str) : Option Str :=
  let digits (r : Str) : Option Str := match r with
    | c :: r' => if isDigit c then some (dropDigits r') else none
    | [] => none
  match s with
  | c :: r =>
    if c = 'e' || c = 'E' then
      match r with
      | '+' :: r' => digits r'
      | '-' :: r' => digits r'
      | _ => digits r
    else some s
  | [] => some s

def isJsonInt (s : Str) : Bool := intPart s == some []

def isJsonNumber (s : Str) : Bool :=
  match intPart s with
  | none => false
  | some r => match fracPart r with
    | none => false
    | some r2 => expPart r2 == some []

/-- a numeral: the maximal run of numeral characters must be a JSON number; integer numerals become ints -/
def parseNumber (cd : NumCodec) (s : Str) : Option (JVal × Str) :=
  let tok := s.takeWhile isNumChar
  let rest := s.dropWhile isNumChar
  if isJsonInt tok then some (.int (cd.intOf tok), rest)
  else if isJsonNumber tok then some (.num (cd.floatOf tok), rest)
  else none

/-- `"key" ws : ws` — the key and the text after the colon and its whitespace -/
def parseKey (s : Str) : Option (Str × Str) :=
  match parseString s with
  | none => none
  | some (k, r) =>
    match skipWs r with
    | c :: r2 => if c = ':' then some (k, skipWs r2) else none
    | [] => none

mutual
/-- one value (leading whitespace already skipped) -/
def parseV (cd : NumCodec) : Nat → Str → Option (JVal × Str)
  | 0, _ => none
  | _ + 1, [] => none
  | n + 1, c :: r =>
    if c = 'n' then (match r with | 'u' :: 'l' :: 'l' :: r' => some (.null, r') | _ => none)
    else if c = 't' then (match r with | 'r' :: 'u' :: 'e' :: r' => some (.bool true, r') | _ => none)
    else if c = 'f' then (match r with | 'a' :: 'l' :: 's' :: 'e' :: r' => some (.bool false, r') | _ => none)
    else if c = '"' then
      match parseStrBody (r.length + 1) r with
      | none => none
      | some (s, r') => some (.str s, r')
    else if c = '[' then
      if (skipWs r).head? = some ']' then some (.arr [], (skipWs r).tail)
      else
        match parseV cd n (skipWs r) with
        | none => none
        | some (x, r2) =>
          match parseTail cd n r2 with
          | none => none
          | some (xs, r3) => some (.arr (x :: xs), r3)
    else if c = '{' then
      if (skipWs r).head? = some '}' then some (.obj [], (skipWs r).tail)
      else
        match parseKey (skipWs r) with
        | none => none
        | some (k, r3) =>
          match parseV cd n r3 with
          | none => none
          | some (v, r4) =>
            match parseMTail cd n r4 with
            | none => none
            | some (kvs, r5) => some (.obj (dictOfList ((k, v) :: kvs)), r5)
    else parseNumber cd (c :: r)
/-- `, value` … up to the closing bracket -/
def parseTail (cd : NumCodec) : Nat → Str → Option (List JVal × Str)
  | 0, _ => none
  | n + 1, s =>
    match skipWs s with
    | [] => none
    | c :: r =>
      if c = ']' then some ([], r)
      else if c = ',' then
        match parseV cd n (skipWs r) with
        | none => none
        | some (x, r2) =>
          match parseTail cd n r2 with
          | none => none
          | some (xs, r3) => some (x :: xs, r3)
      else none
/-- `, "key": value` … up to the closing brace -/
def parseMTail (cd : NumCodec) : Nat → Str → Option (List (Str × JVal) × Str)
  | 0, _ => none
  | n + 1, s =>
    match skipWs s with
    | [] => none
    | c :: r =>
      if c = '}' then some ([], r)
      else if c = ',' then
        match parseKey (skipWs r) with
        | none => none
        | some (k, r3) =>
          match parseV cd n r3 with
          | none => none
          | some (v, r4) =>
            match parseMTail cd n r4 with
            | none => none
            | some (kvs, r5) => some ((k, v) :: kvs, r5)
      else none
end

/-- `json.loads(text)` -/
def loads (cd : NumCodec) (s : Str) : Option JVal :=
  match parseV cd (s.length + 1) (skipWs s) with
  | none => none
  | some (v, r) => if (skipWs r).isEmpty then some v else none

end Pdt.JsonText
