/-
  Model/Meta.lean — the column register of a table and its reconciliation with the backing dataframe.

  Modelled code (function by function, quirks included):
    pdtable/table_metadata.py  unit_from_dtype, ColumnMetadata.check_dtype / from_dtype / update_from / copy,
                               ComplementaryTableInfo._update_columns / _check_dataframe / units
    pdtable/frame.py           get_table_info, add_column, set_units, set_all_units, make_table_dataframe,
                               the column part of _combine_tables + __finalize__
    pdtable/proxy.py           Table.units / __getitem__ / __iter__ / column_metadata / unit setters / re-wrap,
    pdtable/io/csv.py, json.py, _excel_openpyxl.py   how the writers pair column names with units / formats

  The *frame* side is pandas' and is never computed here: a `Frame` is what the harness observed
  (ordered column names, per column a dtype identity token and `dtype.kind`, and `df.empty`).
  `ColumnMetadata.display_format` is a `ColumnFormat`; it is represented by its specifier text.

  Python dicts are insertion-ordered association lists (`Reg`): assignment to an existing key keeps its
  position, a new key goes to the end, `del` removes.
-/
import PdtModel.Model.Text
import PdtModel.Gen.Consts
namespace Pdt.Meta
open Pdt

/-- exception classes raised by the modelled code -/
inductive Err
  | columnUnit        -- ColumnUnitException
  | invalidNaming     -- InvalidNamingError
  | valueError        -- ValueError (unit_from_dtype on an unknown dtype kind)
  | keyError          -- KeyError (dict / dataframe lookup)
  | invalidCombine    -- InvalidTableCombineError
  | indexError        -- IndexError (`table.units[idx]` in the JSON writer)
  | exception         -- bare `Exception` (make_table_dataframe argument checks)
  deriving DecidableEq, Repr

/-- `ColumnMetadata(unit, display_unit, display_format)` -/
structure ColMeta where
  unit : Str
  dunit : Option Str := none
  fmt : Option Str := none
  deriving DecidableEq, Repr

abbrev Reg := List (Str × ColMeta)

/-- one dataframe column as observed: name, dtype identity token, `dtype.kind` -/
structure Col where
  name : Str
  dtype : Str
  kind : Str
  deriving DecidableEq, Repr

/-- the observed dataframe: columns in order and `df.empty` -/
structure Frame where
  cols : List Col
  empty : Bool
  deriving DecidableEq, Repr

def Frame.names (f : Frame) : List Str := f.cols.map (·.name)

/-- `ComplementaryTableInfo`: register, `_last_dataframe_state` + `_last_dataframe_empty`
    (the dtypes Series = column names with their dtypes, in order; `none` = never validated),
    `metadata.strict_types` -/
structure Info where
  reg : Reg
  last : Option Frame
  strict : Bool
  /-- `_last_strict_types`: the strict flag the remembered state was validated under (read only next to `last`) -/
  lastStrict : Bool := false
  deriving DecidableEq, Repr

/-! ### dict primitives -/

def get : Reg → Str → Option ColMeta
  | [], _ => none
  | (k, v) :: r, n => if k = n then some v else get r n

/-- `d[n] = m` -/
def set : Reg → Str → ColMeta → Reg
  | [], n, m => [(n, m)]
  | (k, v) :: r, n, m => if k = n then (k, m) :: r else (k, v) :: set r n m

def keys (r : Reg) : List Str := r.map (·.1)

/-- `for name in set(columns.keys()) - df_cname_set: del columns[name]` -/
def restrict (r : Reg) (names : List Str) : Reg := r.filter (fun kv => names.contains kv.1)

/-- `{name: columns[name] for name in df_columns if name in columns}` -/
def reorder (r : Reg) (names : List Str) : Reg :=
  names.filterMap (fun n => (get r n).map (fun m => (n, m)))

/-- `len(df_columns) != len(set(df_columns))` -/
def hasDup : List Str → Bool
  | [] => false
  | x :: xs => xs.contains x || hasDup xs

/-! ### table_metadata.py -/

/-- `unit_from_dtype`: `_unit_from_dtype_kind[dtype.kind]`, KeyError turned into ValueError -/
def unitFromKind (kind : Str) : Except Err Str :=
  match kind with
  | [c] => match Gen.unitFromDtypeKind.lookup c with
    | some u => .ok u
    | none => .error .valueError
  | _ => .error .valueError

def isSpecial (u : Str) : Bool := Gen.unitsSpecial.contains u

/-- `ColumnMetadata.check_dtype` -/
def checkDtype (m : ColMeta) (kind : Str) : Except Err Unit :=
  match unitFromKind kind with
  | .error e => .error e
  | .ok base =>
    if isSpecial base then
      if base = m.unit then .ok () else .error .columnUnit
    else if isSpecial m.unit then .error .columnUnit
    else .ok ()

/-- Python truthiness of an optional string -/
def truthy : Option Str → Bool
  | some (_ :: _) => true
  | _ => false

/-- `a.update_from(b)` (a `ColumnFormat` is always truthy; `ColumnFormat.copy` is a fresh equal object) -/
def updateFrom (a b : ColMeta) : ColMeta :=
  { unit := b.unit,
    dunit := if truthy a.dunit then a.dunit else b.dunit,
    fmt := if a.fmt.isNone then b.fmt else a.fmt }

/-- `ColumnMetadata.copy` -/
def copyMeta (c : ColMeta) : ColMeta := updateFrom { unit := c.unit } c

/-- the `for name in df_columns` loop of `_update_columns` for a non-empty frame -/
def updLoop (strict : Bool) : List Col → Reg → Reg × Option Err
  | [], r => (r, none)
  | c :: cs, r =>
    match get r c.name with
    | some m =>
      if strict then
        match checkDtype m c.kind with
        | .ok _ => updLoop strict cs r
        | .error e => (r, some e)
      else updLoop strict cs r
    | none =>
      match unitFromKind c.kind with
      | .ok u => updLoop strict cs (r ++ [(c.name, { unit := u })])
      | .error e => (r, some e)

/-- `ComplementaryTableInfo._update_columns`; the register is edited in place, so the edits made
    before an exception stay -/
def updateColumns (strict : Bool) (r : Reg) (f : Frame) : Reg × Option Err :=
  if hasDup f.names then (r, some .invalidNaming)
  else
    let r1 := restrict r f.names
    if f.empty then (reorder r1 f.names, none)
    else match updLoop strict f.cols r1 with
      | (r2, none) => (reorder r2 f.names, none)
      | (r2, some e) => (r2, some e)

/-- `ComplementaryTableInfo._check_dataframe`.  The short cut compares column names, dtypes,
    emptiness and the strict flag; the remembered dtypes are forgotten before `_update_columns` runs, so a failed update
    leaves `none` (`_last_dataframe_empty` keeps its value but is only ever read next to the dtypes). -/
def checkDataframe (i : Info) (f : Frame) : Info × Option Err :=
  if i.last = some f ∧ i.lastStrict = i.strict then (i, none)
  else match updateColumns i.strict i.reg f with
    | (r, none) => ({ i with reg := r, last := some f, lastStrict := i.strict }, none)
    | (r, some e) => ({ i with reg := r, last := none }, some e)

/-- `ComplementaryTableInfo.units` -/
def units (r : Reg) : List Str := r.map (·.2.unit)
def formats (r : Reg) : List (Option Str) := r.map (·.2.fmt)

/-! ### frame.py -/

/-- `df[name]` for a label that occurs more than once is a pandas selection of several columns: it goes
    through `__finalize__`, whose validation of the *selected* frame raises InvalidNamingError before the
    table's own info is consulted -/
def dupLabel (f : Frame) (name : Str) : Bool := (f.names.filter (fun n => n = name)).length > 1

/-- `add_column` for a label that is unique in the frame after the assignment (or with an explicit unit,
    where `df[name].dtype` is never evaluated) -/
def addColumnCore (i0 : Info) (f : Frame) (name : Str) (unit dunit fmt : Option Str) : Info × Option Err :=
  let i : Info := { i0 with last := none }
  match f.cols.find? (fun c => c.name = name) with
  | none => (i, some .keyError)
  | some c =>
    let newCol : Except Err ColMeta := match unit with
      | none => match unitFromKind c.kind with
        | .ok u => .ok { unit := u, dunit := dunit, fmt := fmt }
        | .error e => .error e
      | some u => .ok { unit := u, dunit := dunit, fmt := fmt }
    match newCol with
    | .error e => (i, some e)
    | .ok nc =>
      match get i.reg name with
      | none => ({ i with reg := set i.reg name nc }, none)
      | some col => ({ i with reg := set i.reg name (updateFrom col nc) }, none)

/-- `add_column(df, name, values, unit, **kwargs)` after `df[name] = values` succeeded; `f` is the frame
    after that assignment.  No consultation takes place; the remembered dtypes are forgotten first.  Without a
    unit, `df[name].dtype` is evaluated: for a duplicated label that selection raises InvalidNamingError. -/
def addColumn (i0 : Info) (f : Frame) (name : Str) (unit dunit fmt : Option Str) : Info × Option Err :=
  if unit.isNone && dupLabel f name then ({ i0 with last := none }, some .invalidNaming)
  else addColumnCore i0 f name unit dunit fmt

/-- `columns[col].unit = unit` for each pair, stopping at the first missing key -/
def assignUnits : Reg → List (Str × Str) → Reg × Option Err
  | r, [] => (r, none)
  | r, (n, u) :: rest =>
    match get r n with
    | none => (r, some .keyError)
    | some m => assignUnits (set r n { m with unit := u }) rest

/-- `set_units(df, unit_map)` / `Table.units = unit_map` -/
def setUnits (i : Info) (f : Frame) (m : List (Str × Str)) : Info × Option Err :=
  match checkDataframe i f with
  | (i1, some e) => (i1, some e)
  | (i1, none) =>
    let (r, e) := assignUnits i1.reg m
    ({ i1 with reg := r }, e)

/-- `set_all_units(df, units)` -/
def setAllUnits (i : Info) (f : Frame) (us : List Str) : Info × Option Err :=
  setUnits i f (f.names.zip us)

/-- `Table[name].unit = u`: `df[name]`, consultation, `columns[name]`, assignment -/
def setColUnit (i : Info) (f : Frame) (name u : Str) : Info × Option Err :=
  if !f.names.contains name then (i, some .keyError)
  else if dupLabel f name then (i, some .invalidNaming)
  else setUnits i f [(name, u)]

/-- `Table.column_metadata[name].display_format = fmt`: consultation, `columns[name]`, attribute assignment -/
def setColFmt (i : Info) (f : Frame) (name : Str) (fmt : Option Str) : Info × Option Err :=
  match checkDataframe i f with
  | (i1, some e) => (i1, some e)
  | (i1, none) =>
    match get i1.reg name with
    | none => (i1, some .keyError)
    | some m => ({ i1 with reg := set i1.reg name { m with fmt := fmt } }, none)

/-- `{col: ColumnMetadata(unit) for col, unit in zip(df.columns, units)}` -/
def zipReg : List (Str × Str) → Reg → Reg
  | [], r => r
  | (n, u) :: rest, r => zipReg rest (set r n { unit := u })

def mapLookup : List (Str × Str) → Str → Option Str
  | [], _ => none
  | (k, v) :: r, n => if k = n then some v else mapLookup r n

def mapReg (m : List (Str × Str)) : List Str → Reg → Reg
  | [], r => r
  | n :: rest, r => match mapLookup m n with
    | some u => mapReg m rest (set r n { unit := u })
    | none => mapReg m rest r

/-- `TableDataFrame.from_table_info` / the tail of `__finalize__`: attach a fresh info object (nothing
    remembered) and run its first validation; the exception leaves no table behind -/
def attach (reg : Reg) (strict : Bool) (f : Frame) : Except Err Info :=
  match checkDataframe { reg := reg, last := none, strict := strict } f with
  | (i, none) => .ok i
  | (_, some e) => .error e

/-- the register `make_table_dataframe` builds from `units` / `unit_map` -/
def makeReg (f : Frame) (us : Option (List Str)) (um : Option (List (Str × Str))) : Reg :=
  match us, um with
  | some u, _ => zipReg (f.names.zip u) []
  | none, some m => mapReg m f.names []
  | none, none => []

/-- `if units and unit_map: raise Exception(...)` -/
def bothTruthy (us : Option (List Str)) (um : Option (List (Str × Str))) : Bool :=
  (match us with | some (_ :: _) => true | _ => false) && (match um with | some (_ :: _) => true | _ => false)

/-- `make_table_dataframe(df, units=…, unit_map=…, strict_types=…)`: the new info after
    `from_table_info` ran its first validation, or the exception -/
def make (f : Frame) (us : Option (List Str)) (um : Option (List (Str × Str))) (strict : Bool) :
    Except Err Info :=
  if bothTruthy us um then .error .exception else attach (makeReg f us um) strict f

/-- `Table(tdf, units=…, strict_types=…)` on an existing table dataframe: consult, then
    `make_table_dataframe` with the old values as defaults.  Returns the (possibly edited) old info and
    the new info or the exception. -/
def rewrap (i : Info) (f : Frame) (us : Option (List Str)) (strict : Option Bool) : Info × Except Err Info :=
  match checkDataframe i f with
  | (i1, some e) => (i1, .error e)
  | (i1, none) => (i1, make f (some (us.getD (units i1.reg))) none (strict.getD i1.strict))

/-- the column part of `_combine_tables` for one source register -/
def combineOne (out : List Str) : Reg → Reg → Except Err Reg
  | acc, [] => .ok acc
  | acc, (n, c) :: rest =>
    if !out.contains n then combineOne out acc rest
    else match get acc n with
      | none => combineOne out (set acc n (copyMeta c)) rest
      | some col =>
        if col.unit ≠ c.unit then .error .invalidCombine
        else combineOne out (set acc n (updateFrom col c)) rest

def combine (out : List Str) : Reg → List Reg → Except Err Reg
  | acc, [] => .ok acc
  | acc, s :: rest => match combineOne out acc s with
    | .ok acc' => combine out acc' rest
    | .error e => .error e

/-- `TableDataFrame.__finalize__` when at least one source carries table info: combine the source
    registers restricted to the result's columns, attach, validate.  `strict` is the observed
    `strict_types` of the combined metadata. -/
def finalize (srcs : List Reg) (strict : Bool) (f : Frame) : Except Err Info :=
  match combine f.names [] srcs with
  | .error e => .error e
  | .ok reg => attach reg strict f

/-! ### proxy.py (the Table facade) -/

/-- `Table.units` / `Table.column_metadata` / `get_table_info(df)` -/
def consult (i : Info) (f : Frame) : Info × Option Err := checkDataframe i f

def tableUnits (i : Info) (f : Frame) : Info × Except Err (List Str) :=
  match consult i f with
  | (i1, none) => (i1, .ok (units i1.reg))
  | (i1, some e) => (i1, .error e)

/-- `Table[name].unit`: `df[name]` first, then the consultation, then `columns[name]` -/
def tableGetUnit (i : Info) (f : Frame) (name : Str) : Info × Except Err Str :=
  if !f.names.contains name then (i, .error .keyError)
  else if dupLabel f name then (i, .error .invalidNaming)
  else match consult i f with
    | (i1, some e) => (i1, .error e)
    | (i1, none) => match get i1.reg name with
      | some m => (i1, .ok m.unit)
      | none => (i1, .error .keyError)

/-- `[(c.name, c.unit) for c in table]`: iterates the register keys, each needs `df[name]` -/
def tableIter (i : Info) (f : Frame) : Info × Except Err (List (Str × Str)) :=
  match consult i f with
  | (i1, some e) => (i1, .error e)
  | (i1, none) =>
    if (keys i1.reg).all (fun n => f.names.contains n) then (i1, .ok (i1.reg.map (fun kv => (kv.1, kv.2.unit))))
    else (i1, .error .keyError)

/-! ### writers: how names, units and display formats are paired -/

/-- `_table_to_csv` (not transposed) and `_append_table_to_openpyxl_worksheet`: the column-name line is
    `table.column_names`, the unit line `table.units`, the format list
    `[column_metadata[c].display_format for c in column_metadata]`; cells of a row are zipped with the
    unit list and the format list by position. -/
def writerHeader (i : Info) (f : Frame) : Info × Except Err (List Str × List Str × List (Option Str)) :=
  match consult i f with
  | (i1, some e) => (i1, .error e)
  | (i1, none) => (i1, .ok (f.names, units i1.reg, formats i1.reg))

/-- `table_to_json_data`: `for idx, cname in enumerate(column_names): unit = table.units[idx]` -/
def jsonPairs (i : Info) (f : Frame) : Info × Except Err (List (Str × Str)) :=
  match consult i f with
  | (i1, some e) => (i1, .error e)
  | (i1, none) =>
    let us := units i1.reg
    if f.names.length ≤ us.length then (i1, .ok (f.names.zip us)) else (i1, .error .indexError)

/-! ### a table under a sequence of operations

  `Tbl` = one info object + the dataframe it is attached to, as currently observable.  Everything pandas
  does is a parameter of the operation (`f`, `srcs`): the theorems quantify over all of them. -/

structure Tbl where
  info : Info
  frame : Frame
  deriving DecidableEq, Repr

inductive Op
  /-- anything done to the backing dataframe in place (insert, del, rename, reorder, astype, loc row
      append, dropping all rows, …): an arbitrary new frame; pdtable is not involved -/
  | mutate (f : Frame)
  /-- any checked access: `Table.units`, `column_metadata`, `Table[...]`, a writer, `get_table_info(df)` -/
  | consult
  /-- `Table.add_column` / `Table.__setitem__` (`unit = none`): the assignment `df[name] = values`
      turns the frame into `f` (arbitrary), then the register is edited -/
  | addColumn (name : Str) (unit dunit fmt : Option Str) (f : Frame)
  /-- `Table.units = {…}` / `set_units` -/
  | setUnits (m : List (Str × Str))
  /-- `set_all_units` -/
  | setAllUnits (us : List Str)
  /-- `Table[name].unit = u` -/
  | setColUnit (name u : Str)
  /-- `Table.column_metadata[name].display_format = ColumnFormat(…)` (or `None`) -/
  | setFmt (name : Str) (fmt : Option Str)
  /-- `table.metadata.strict_types = b`: a plain attribute assignment, no consultation -/
  | setStrict (b : Bool)
  /-- `Table(t.df, units=…, strict_types=…)`: continue with the re-wrapped table if it could be built -/
  | rewrap (us : Option (List Str)) (strict : Option Bool)
  /-- a pandas operation that returns a new frame `f` (selection, copy, sort, reindex, concat, merge,
      assign, drop, astype, fillna, …): `__finalize__` builds its info from the registers `srcs` of
      whatever sources pandas reports; continue with the derived table if it could be built -/
  | derive (srcs : List Reg) (strict : Bool) (f : Frame)

/-- one operation; the error (if any) is what Python raises, the state is what is left behind -/
def step (t : Tbl) : Op → Tbl × Option Err
  | .mutate f => ({ t with frame := f }, none)
  | .consult => let (i, e) := consult t.info t.frame; ({ t with info := i }, e)
  | .addColumn n u du fm f => let (i, e) := addColumn t.info f n u du fm; ({ info := i, frame := f }, e)
  | .setUnits m => let (i, e) := setUnits t.info t.frame m; ({ t with info := i }, e)
  | .setAllUnits us => let (i, e) := setAllUnits t.info t.frame us; ({ t with info := i }, e)
  | .setColUnit n u => let (i, e) := setColUnit t.info t.frame n u; ({ t with info := i }, e)
  | .setFmt n fm => let (i, e) := setColFmt t.info t.frame n fm; ({ t with info := i }, e)
  | .setStrict b => ({ t with info := { t.info with strict := b } }, none)
  | .rewrap us st =>
    match rewrap t.info t.frame us st with
    | (_, .ok i2) => ({ t with info := i2 }, none)
    | (i1, .error e) => ({ t with info := i1 }, some e)
  | .derive srcs st f =>
    match finalize srcs st f with
    | .ok i2 => ({ info := i2, frame := f }, none)
    | .error e => (t, some e)

/-- a history; errors are Python exceptions the caller caught, the table object lives on -/
def run (t : Tbl) : List Op → Tbl
  | [] => t
  | op :: ops => run (step t op).1 ops

end Pdt.Meta
