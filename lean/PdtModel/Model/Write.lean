/-
  Model/Write.lean — the CSV writer (`csv.py:_table_to_csv`, `write_csv`) and the text side of
  `read_csv` (`for line in f: line.rstrip("\n").split(sep)`).

  The writer builds the text of one table with f-strings and `join`; here it is a list of lines
  (each without its newline), and the text is every line followed by "\n":
     text = A + "\n" + "\n".join(rows) + "\n\n"
  i.e. the lines of A, the row lines (one empty line if there are no rows, since "\n".join([]) == ""),
  and one more empty line.
-/
import PdtModel.Model.Represent
import PdtModel.Model.Blocks
namespace Pdt.Write
open Pdt Pdt.Reader Pdt.Represent

/-- the text `str(x)` of a represented element (no display format attached) -/
def cellText (naRep : Str) (col : Nat) (unit : Str) (v : Val) : Str := (represent naRep col unit v).pyStr

/-- value `i` of every column, rendered for a row-wise table (position = column index) -/
def rowTexts (naRep : Str) (cols : List Column) (i : Nat) : List Str :=
  cols.zipIdx.map (fun (c, j) => cellText naRep j c.unit (c.values.getD i (.text [])))

/-- all values of one column, rendered for a transposed table (position = row index) -/
def colTexts (naRep : Str) (c : Column) : List Str :=
  c.values.zipIdx.map (fun (v, i) => cellText naRep i c.unit v)

def header (t : TableVal) : Str :=
  "**".toList ++ t.name ++ (if t.transposed then ['*'] else [])

/-- the cell texts of each written line, before joining with the separator -/
def tableCells (naRep : Str) (t : TableVal) : List (List Str) :=
  [[header t, []], [joinStr [' '] t.destinations]] ++
  (if t.transposed then
    t.columns.map (fun c => c.name :: c.unit :: (match colTexts naRep c with | [] => [[]] | vs => vs))
  else
    [t.columns.map (·.name), t.columns.map (·.unit)] ++
      (List.range t.nRows).map (rowTexts naRep t.columns))

/-- `sep.join(cells)`; `sep.join([])` is the empty string -/
def joinLine (sep : Char) (cells : List Str) : Str := joinWith sep cells

/-- the lines written for one table (each is followed by "\n" in the file) -/
def tableLines (sep : Char) (naRep : Str) (t : TableVal) : List Str :=
  let body := (tableCells naRep t).map (joinLine sep)
  -- "\n".join(...) of an empty row / column list still contributes one (empty) line
  let dataEmpty := if t.transposed then t.columns.isEmpty else t.nRows = 0
  body ++ (if dataEmpty then [[]] else []) ++ [[]]

def unlines (ls : List Str) : Str := ls.flatMap (· ++ ['\n'])

/-- `write_csv`: the concatenation of the tables' texts -/
def writeCsv (sep : Char) (naRep : Str) (ts : List TableVal) : Str :=
  unlines (ts.flatMap (tableLines sep naRep))

/-- Python iteration over a text stream (newline = "\n"): fragments ending in "\n", then a final
    unterminated fragment if it is not empty; `rstrip("\n")` then drops the terminator -/
def linesOf (text : Str) : List Str :=
  let parts := splitOn '\n' text
  if parts.getLast? = some [] then parts.dropLast else parts

/-- `cell_rows = (line.rstrip("\n").split(sep) for line in f)` -/
def readRows (sep : Char) (text : Str) : List Row :=
  (linesOf text).map (fun l => (splitOn sep l).map Cell.str)

/-- `read_csv(..., to="pdtable")` with the default fixer and tracker -/
def readCsv (ext : Ext) (sep : Char) (text : Str) : Blocks.Result :=
  Blocks.parseBlocks ⟨.pdtable, none, .raising, ext⟩ (readRows sep text) ⟨FixCfg.strict, 0, 0, []⟩

/-- reading a text file opened by path (`open(path)`, newline=None): universal-newline translation, "\r\n" and a
    lone "\r" both arrive as "\n".  Writing by path on this platform stores "\n" as it is (os.linesep = "\n"). -/
def univNL : Str → Str
  | [] => []
  | '\r' :: '\n' :: rest => '\n' :: univNL rest
  | '\r' :: rest => '\n' :: univNL rest
  | c :: rest => c :: univNL rest

/-- `read_csv(path)`: the text as a file opened by path delivers it -/
def readCsvPath (ext : Ext) (sep : Char) (text : Str) : Blocks.Result := readCsv ext sep (univNL text)

/-- the `sep` argument of `write_csv` / `read_csv`: `None` means the package-wide `pdtable.CSV_SEP`, read at call time;
    writer and reader resolve it independently -/
def resolveSep (pkgSep : Char) (arg : Option Char) : Char := arg.getD pkgSep
def writeCsvApi (pkgSep : Char) (sepArg : Option Char) (naRep : Str) (ts : List TableVal) : Str :=
  writeCsv (resolveSep pkgSep sepArg) naRep ts
def readCsvApi (ext : Ext) (pkgSep : Char) (sepArg : Option Char) (byPath : Bool) (text : Str) : Blocks.Result :=
  if byPath then readCsvPath ext (resolveSep pkgSep sepArg) text else readCsv ext (resolveSep pkgSep sepArg) text

end Pdt.Write
