/-
  Model/Blocks.lean — `parse_blocks` / `parse_blocks_stable` above the splitter:
  handler table per output form, read filter, per-block fixer reset, `block_output`'s
  try/except → issue tracker, the default (raising) and a collecting tracker.

  blocks.py: make_metadata_block, make_directive, _apply_filter, parse_blocks, block_output.
  The result is the list of blocks delivered, in order, the issues reported, and the exception (if
  any) that ended the read — a generator delivers every block before the failing one.
-/
import PdtModel.Model.Segment
import PdtModel.Model.Reader
namespace Pdt.Blocks
open Pdt Pdt.Reader

/-- the `to=` argument -/
inductive Form | pdtable | jsondata | cellgrid
  deriving DecidableEq, Repr

inductive Tracker | raising | collecting
  deriving DecidableEq, Repr

/-- what a handler returns -/
inductive BlockVal
  | table (p : Precursor)                    -- to="pdtable": the Table built from the precursor
  | json (p : Precursor)                     -- to="jsondata": JsonData of the precursor (see Model/Json)
  | grid (rows : List Row)                   -- raw cells (cellgrid tables, BLANK and TEMPLATE_ROW blocks)
  | metadata (kvs : List (Str × Str))        -- MetadataBlock, insertion ordered
  | directive (name : Str) (lines : List Cell)
  deriving Repr

/-- `make_metadata_block`: `key:` rows with a second cell; later keys overwrite in place -/
def setKey (kvs : List (Str × Str)) (k v : Str) : List (Str × Str) :=
  match kvs with
  | [] => [(k, v)]
  | (k', v') :: rest => if k' = k then (k, v) :: rest else (k', v') :: setKey rest k v

def metadataBlock (cells : List Row) : List (Str × Str) :=
  cells.foldl (fun kvs row =>
    match row with
    | .str s :: value :: _ =>
      let key := strip s
      if key.getLast? = some ':' then
        setKey kvs key.dropLast (match value with | .none => [] | v => strip v.pyStr)
      else kvs
    | _ => kvs) []

/-- `make_directive`: name = first cell without `***`, lines = first cell of every further row -/
def directive (cells : List Row) : Except PyExc (Str × List Cell) :=
  match cells with
  | (.str s :: _) :: rest => .ok (s.drop 3, rest.map (fun r => getD0 r 0))
  | _ => .error .typeError

/-- the name offered to a read filter for a TABLE block: first cell without `**` and without the
    transpose decorator -/
def offeredName (cells : List Row) : Str :=
  match cells with
  | (.str s :: _) :: _ =>
    let n := s.drop 2
    if n.getLast? = some '*' then n.dropLast else n
  | _ => []

structure Config where
  form : Form
  filter : Option (BT → Str → Bool)    -- `None`/falsy filter = accept everything
  tracker : Tracker
  ext : Ext

/-- the handler `parse_blocks` installs for a block type (every type has one) -/
def handle (cfg : Config) (ty : BT) (cells : List Row) (f : Fixer) : Except PyExc (BlockVal × Fixer) :=
  match ty with
  | .metadata => .ok (.metadata (metadataBlock cells), f)
  | .directive => do let (n, ls) ← directive cells; pure (.directive n ls, f)
  | .table =>
    match cfg.form with
    | .pdtable => do let (p, f') ← makeTable cfg.ext cells f; pure (.table p, f')
    | .jsondata => do let (p, f') ← makePrecursor cfg.ext cells f; pure (.json p, f')
    | .cellgrid => .ok (.grid cells, f)
  | _ => .ok (.grid cells, f)

def accepts (cfg : Config) (ty : BT) (cells : List Row) : Bool :=
  match cfg.filter with
  | none => true
  | some p => p ty (if ty = .table then offeredName cells else [])

structure Delivered where
  ty : BT
  first : Nat
  val : BlockVal
  deriving Repr

inductive Ending
  | exhausted
  | inputError (row : Nat)       -- raised by the default tracker for the block starting at `row`
  | escaped (e : PyExc)          -- any other exception class leaving the reader
  deriving Repr

structure Result where
  blocks : List Delivered
  issues : List Nat              -- origin rows of the blocks reported to the tracker as errors
  ending : Ending
  fixer : Fixer
  deriving Repr

/-- is the handler's exception caught by `block_output` (`except (ValueError, ColumnUnitException)`) -/
def caught : PyExc → Bool
  | .valueError => true
  | .columnUnit => true
  | _ => false

/-- `block_output` for each emitted block of the splitter, in order -/
def runBlocks (cfg : Config) : List (Block Row) → Fixer → Result
  | [], f => ⟨[], [], .exhausted, f⟩
  | b :: bs, f =>
    if !accepts cfg b.ty b.rows then
      -- the filter wrapper returns None without calling the handler; the fixer is still reset
      runBlocks cfg bs f.reset
    else
      match handle cfg b.ty b.rows f.reset with
      | .ok (v, f') =>
        let r := runBlocks cfg bs f'
        { r with blocks := ⟨b.ty, b.first, v⟩ :: r.blocks }
      | .error e =>
        if caught e then
          match cfg.tracker with
          | .raising => ⟨[], [b.first], .inputError b.first, f.reset⟩
          | .collecting =>
            let r := runBlocks cfg bs f.reset
            { r with issues := b.first :: r.issues }
        else ⟨[], [], .escaped e, f.reset⟩

def parseBlocks (cfg : Config) (rows : List Row) (f : Fixer) : Result :=
  runBlocks cfg (segment rows) f

end Pdt.Blocks
