/-
  Lemmas/Json.lean — Python dict construction on association lists (`Json.dictSet`, `Json.dictOfList`):
  value maps commute with it, pairwise distinct keys make it the identity.  Used by Props/C07, Props/C08 and
  Lemmas/JsonText.
-/
import PdtModel.Model.Json
set_option linter.unusedSimpArgs false
namespace Pdt.C08
open Pdt Pdt.Json

section dict
variable {α β : Type}

theorem dictSet_map (f : α → β) (d : List (Str × α)) (k : Str) (v : α) :
    (dictSet d k v).map (fun kv => (kv.1, f kv.2)) = dictSet (d.map (fun kv => (kv.1, f kv.2))) k (f v) := by
  induction d with
  | nil => rfl
  | cons kv rest ih =>
    obtain ⟨k', v'⟩ := kv
    by_cases h : k' = k <;> simp [dictSet, h, ih]

theorem foldl_dictSet_map (f : α → β) (l acc : List (Str × α)) :
    (l.foldl (fun d kv => dictSet d kv.1 kv.2) acc).map (fun kv => (kv.1, f kv.2)) =
    (l.map (fun kv => (kv.1, f kv.2))).foldl (fun d kv => dictSet d kv.1 kv.2) (acc.map (fun kv => (kv.1, f kv.2))) := by
  induction l generalizing acc with
  | nil => rfl
  | cons kv rest ih => simp only [List.foldl_cons, List.map_cons, ih, dictSet_map]

/-- converting the values of a dict commutes with building it by assignments -/
theorem dictOfList_map (f : α → β) (l : List (Str × α)) :
    (dictOfList l).map (fun kv => (kv.1, f kv.2)) = dictOfList (l.map (fun kv => (kv.1, f kv.2))) := by
  unfold dictOfList
  rw [foldl_dictSet_map]; rfl

theorem dictSet_fresh (d : List (Str × α)) (k : Str) (v : α) (h : k ∉ d.map (·.1)) :
    dictSet d k v = d ++ [(k, v)] := by
  induction d with
  | nil => rfl
  | cons kv rest ih =>
    obtain ⟨k', v'⟩ := kv
    simp only [List.map_cons, List.mem_cons, not_or] at h
    have hne : ¬ k' = k := fun e => h.1 e.symm
    simp [dictSet, hne, ih h.2]

theorem foldl_dictSet_nodup (l acc : List (Str × α)) (h : ((acc ++ l).map (·.1)).Nodup) :
    l.foldl (fun d kv => dictSet d kv.1 kv.2) acc = acc ++ l := by
  induction l generalizing acc with
  | nil => simp
  | cons kv rest ih =>
    have hk : kv.1 ∉ acc.map (·.1) := by
      simp only [List.map_append, List.map_cons] at h
      have := (List.nodup_append.1 h).2.2
      intro hm
      exact this kv.1 hm kv.1 (by simp) rfl
    simp only [List.foldl_cons, dictSet_fresh acc kv.1 kv.2 hk]
    have : acc ++ [(kv.1, kv.2)] ++ rest = acc ++ kv :: rest := by simp
    rw [ih (acc ++ [(kv.1, kv.2)]) (by rw [this]; exact h), this]

/-- with pairwise distinct keys, a dict filled by assignments is the list of assignments -/
theorem dictOfList_nodup (l : List (Str × α)) (h : (l.map (·.1)).Nodup) : dictOfList l = l := by
  unfold dictOfList
  simpa using foldl_dictSet_nodup l [] (by simpa using h)

theorem dictSet_forall (P : α → Prop) (d : List (Str × α)) (k : Str) (v : α)
    (hd : ∀ kv ∈ d, P kv.2) (hv : P v) : ∀ kv ∈ dictSet d k v, P kv.2 := by
  induction d with
  | nil => intro kv hkv; simp [dictSet] at hkv; subst hkv; exact hv
  | cons kv' rest ih =>
    obtain ⟨k', v'⟩ := kv'
    intro kv hkv
    by_cases h : k' = k
    · simp only [dictSet, h, if_true, List.mem_cons] at hkv
      rcases hkv with rfl | hkv
      · exact hv
      · exact hd kv (List.mem_cons_of_mem _ hkv)
    · simp only [dictSet, h, if_false, List.mem_cons] at hkv
      rcases hkv with rfl | hkv
      · exact hd _ (by simp)
      · exact ih (fun x hx => hd x (List.mem_cons_of_mem _ hx)) kv hkv

theorem dictOfList_forall (P : α → Prop) (l : List (Str × α)) (h : ∀ kv ∈ l, P kv.2) :
    ∀ kv ∈ dictOfList l, P kv.2 := by
  unfold dictOfList
  suffices ∀ acc : List (Str × α), (∀ kv ∈ acc, P kv.2) →
      ∀ kv ∈ l.foldl (fun d kv => dictSet d kv.1 kv.2) acc, P kv.2 from this [] (by simp)
  induction l with
  | nil => intro acc ha; simpa using ha
  | cons x xs ih =>
    intro acc ha
    simp only [List.foldl_cons]
    exact ih (fun y hy => h y (List.mem_cons_of_mem _ hy)) _
      (dictSet_forall P acc x.1 x.2 ha (h x (by simp)))

end dict

end Pdt.C08
