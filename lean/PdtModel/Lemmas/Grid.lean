/-
  Lemmas/Grid.lean — helper lemmas for Props/C09.lean (Excel round trip), core Lean only.
    A. one value:   represent -> storeCell -> the column parsers' cell functions
    B. one column:  parseColumn on the stored cells of a well-formed column
    C. matrices:    transposeN, padding
    D. header rows: destinations, names, units
-/
import PdtModel.Model.Grid
import PdtModel.Lemmas.Text
import PdtModel.Lemmas.Marker
import PdtModel.Props.C02
import PdtModel.Props.C03
set_option linter.unusedSimpArgs false
namespace Pdt.Grid
open Pdt Pdt.Reader Pdt.Represent Pdt.Blocks

/-! ## A. one value -/

/-- what a well-formed value is written as (closed form of `represent` on well-formed values) -/
def writtenCell (naRep : Str) : Val → Cell
  | .text s => .str s
  | .bool b => .int (if b then 1 else 0) (if b then "1.0".toList else "0.0".toList)
  | .dt t => if t = NaT then .str naRep else .dt t
  | .num t => if t = NaN then .str naRep else .float t
  | .int i => .int i (intToStr i ++ ".0".toList)

/-- the native cell the reader receives for a well-formed value -/
def readCell (naRep : Str) (v : Val) : Cell := storeCell (writtenCell naRep v)

theorem units_distinct : uText ≠ uOnoff ∧ uText ≠ uDatetime ∧ uOnoff ≠ uDatetime := by decide

theorem numericUnit_iff (u : Str) : numericUnit u = true ↔ u ≠ uText ∧ u ≠ uOnoff ∧ u ≠ uDatetime := by
  simp [numericUnit, and_assoc]

theorem strRepresentable_ne (s : Str) (h : strRepresentable s = true) : s ≠ [] ∧ s.head? ≠ some '=' := by
  simp [strRepresentable] at h
  exact ⟨by intro e; simp [e] at h, h.1.2⟩

/-- `col == 0` only matters for an empty text: well-formed values are written the same in every position -/
theorem represent_wf (naRep u : Str) (k : Nat) (v : Val) (h : valOK u v = true) :
    represent naRep k u v = writtenCell naRep v := by
  obtain ⟨h12, h13, h23⟩ := units_distinct
  cases v with
  | text s =>
    simp only [valOK, Bool.and_eq_true, beq_iff_eq] at h
    obtain ⟨rfl, hs⟩ := h
    have hne : s ≠ [] := by
      simp only [textOK, Bool.and_eq_true] at hs
      exact (strRepresentable_ne s hs.1).1
    have : s.isEmpty = false := by cases s <;> simp_all
    simp [represent, Val.isNa, writtenCell, h12, this]
  | bool b =>
    simp only [valOK, beq_iff_eq] at h
    subst h
    simp [represent, Val.isNa, writtenCell, h12.symm]
  | dt t =>
    simp only [valOK, Bool.and_eq_true, beq_iff_eq] at h
    obtain ⟨rfl, _⟩ := h
    by_cases ht : t = NaT
    · simp [represent, Val.isNa, writtenCell, ht, h13.symm]
    · simp [represent, Val.isNa, writtenCell, ht, h13.symm, h23.symm]
  | num t =>
    simp only [valOK, Bool.and_eq_true] at h
    obtain ⟨hu, _⟩ := h
    obtain ⟨u1, u2, u3⟩ := (numericUnit_iff u).1 hu
    by_cases ht : t = NaN
    · simp [represent, Val.isNa, writtenCell, ht, u1]
    · simp [represent, Val.isNa, writtenCell, ht, u1, u2, u3]
  | int i =>
    simp only [valOK, Bool.and_eq_true] at h
    obtain ⟨hu, _⟩ := h
    obtain ⟨u1, u2, u3⟩ := (numericUnit_iff u).1 hu
    simp [represent, Val.isNa, writtenCell, u1, u2, u3]

theorem storeCell_str (s : Str) (hne : s ≠ []) (heq : s.head? ≠ some '=') : storeCell (.str s) = .str s := by
  cases s with
  | nil => exact absurd rfl hne
  | cons c cs =>
    have hc : c ≠ '=' := by simpa using heq
    unfold storeCell
    split <;> simp_all

theorem storeCell_textOK (s : Str) (h : textOK s = true) : storeCell (.str s) = .str s := by
  simp only [textOK, Bool.and_eq_true] at h
  have := strRepresentable_ne s h.1
  exact storeCell_str s this.1 this.2

/-! ### `na_rep` -/

theorem naRep_facts (naRep : Str) (h : naRepOK naRep = true) :
    storeCell (.str naRep) = .str naRep ∧ C02.Spec.IsMarker naRep ∧ strip naRep ≠ [] ∧
    allSpace naRep = false ∧ classify naRep = none := by
  simp only [naRepOK, Bool.and_eq_true, Bool.not_eq_true', notMarker, beq_iff_eq] at h
  obtain ⟨⟨⟨h1, h2⟩, h3⟩, h4⟩ := h
  have hm := (C02.isMissingMarker_iff naRep).1 h1
  refine ⟨?_, hm, ?_, h3, h4⟩
  · have := strRepresentable_ne naRep h2
    exact storeCell_str naRep this.1 this.2
  · intro e
    unfold C02.Spec.IsMarker at hm
    rw [e] at hm
    rcases hm with hm | hm <;> exact absurd hm (by decide)

example : naRepOK "-".toList = true := by decide

/-! ### the typed value read back -/

def textOf : Val → Str
  | .text s => s
  | _ => []

def boolOf : Val → Bool
  | .bool b => b
  | _ => false

def dtOf : Val → Str
  | .dt t => t
  | _ => NaT

/-- numeric value read back: the token itself (the sign of zero is lost by the file format), integers as floats -/
def numOf : Val → Str
  | .num t => if t = "-0.0".toList then "0.0".toList else t
  | .int i => intToStr i ++ ".0".toList
  | _ => NaN

theorem intTok_ne_overflow (i : Int) : intToStr i ++ ".0".toList ≠ overflowTok := by
  generalize intToStr i = a
  intro h
  have h2 : (a ++ ".0".toList).getLast? = some '0' := by
    rw [List.getLast?_append]; rfl
  rw [h] at h2
  exact absurd h2 (by decide)

theorem read_text (naRep : Str) (v : Val) (h : valOK uText v = true) :
    (readCell naRep v).pyStr = textOf v := by
  obtain ⟨h12, h13, h23⟩ := units_distinct
  cases v with
  | text s =>
    simp only [valOK, Bool.and_eq_true] at h
    simp [readCell, writtenCell, storeCell_textOK s h.2, Cell.pyStr, textOf]
  | bool b => simp [valOK, h12] at h
  | dt t => simp [valOK, h13] at h
  | num t => simp [valOK, numericUnit] at h
  | int i => simp [valOK, numericUnit] at h

theorem read_onoff (naRep : Str) (v : Val) (h : valOK uOnoff v = true) :
    onoffCell (readCell naRep v) = some (boolOf v) := by
  obtain ⟨h12, h13, h23⟩ := units_distinct
  cases v with
  | text s => simp [valOK, h12.symm] at h
  | bool b => cases b <;> simp [readCell, writtenCell, storeCell, onoffCell, boolOf]
  | dt t => simp [valOK, h23] at h
  | num t => simp [valOK, numericUnit] at h
  | int i => simp [valOK, numericUnit] at h

theorem read_datetime (ext : Ext) (naRep : Str) (hna : naRepOK naRep = true) (v : Val)
    (h : valOK uDatetime v = true) : dtCell ext (readCell naRep v) = .ok (dtOf v) := by
  obtain ⟨h12, h13, h23⟩ := units_distinct
  obtain ⟨n1, n2, n3, _, _⟩ := naRep_facts naRep hna
  cases v with
  | text s => simp [valOK, h13.symm] at h
  | bool b => simp [valOK, h23.symm] at h
  | dt t =>
    by_cases ht : t = NaT
    · simp only [readCell, writtenCell, ht, if_true, n1, dtOf]
      exact (C02.type_datetime ext).2 naRep n2 n3
    · simp [readCell, writtenCell, ht, storeCell, dtOf, dtCell]
  | num t => simp [valOK, numericUnit] at h
  | int i => simp [valOK, numericUnit] at h

theorem intOfFloatTok_overflow : intOfFloatTok overflowTok = none := by decide

theorem read_numeric (ext : Ext) (naRep : Str) (hna : naRepOK naRep = true) (u : Str) (v : Val)
    (hu : numericUnit u = true) (h : valOK u v = true) : floatCell ext (readCell naRep v) = some (numOf v) := by
  obtain ⟨u1, u2, u3⟩ := (numericUnit_iff u).1 hu
  obtain ⟨n1, n2, _, _, _⟩ := naRep_facts naRep hna
  cases v with
  | text s => simp [valOK, u1] at h
  | bool b => simp [valOK, u2] at h
  | dt t => simp [valOK, u3] at h
  | num t =>
    simp only [valOK, Bool.and_eq_true, Bool.or_eq_true, beq_iff_eq] at h
    by_cases ht : t = NaN
    · subst ht
      simp only [readCell, writtenCell, if_true, n1]
      rw [(C02.type_numeric_missing ext).1 naRep n2]
      simp [numOf, NaN]
    · simp only [readCell, writtenCell, ht, if_false, storeCell, numOf]
      by_cases hz : t = "-0.0".toList
      · have h0 : ("0.0".toList : Str) ≠ overflowTok := by decide
        simp only [hz, if_true, floatCell]
        rw [if_neg h0]
      · simp only [hz, if_false]
        cases hi : intOfFloatTok t with
        | none => simp only [floatCell]
        | some i =>
          have : t ≠ overflowTok := by
            intro e; rw [e, intOfFloatTok_overflow] at hi; cases hi
          simp only [floatCell]
          rw [if_neg this]
  | int i =>
    simp only [readCell, writtenCell, storeCell, floatCell, numOf]
    rw [if_neg (intTok_ne_overflow i)]

theorem storeCell_float_cases (t : Str) :
    storeCell (.float t) = .float t ∨ ∃ i ft, storeCell (.float t) = .int i ft := by
  simp only [storeCell]
  by_cases hz : t = "-0.0".toList
  · right; exact ⟨0, "0.0".toList, by rw [if_pos hz]⟩
  · rw [if_neg hz]
    cases hi : intOfFloatTok t with
    | none => left; rfl
    | some i => right; exact ⟨i, t, rfl⟩

/-- a well-formed value is never read back as a blank cell, and not as a block marker if its text is none -/
theorem readCell_not_blank (naRep : Str) (hna : naRepOK naRep = true) (u : Str) (v : Val)
    (h : valOK u v = true) : (readCell naRep v).isBlank = false := by
  obtain ⟨n1, _, _, n4, _⟩ := naRep_facts naRep hna
  cases v with
  | text s =>
    simp only [valOK, Bool.and_eq_true] at h
    have hs := h.2
    simp only [readCell, writtenCell, storeCell_textOK s hs, Cell.isBlank]
    simp only [textOK, Bool.and_eq_true, Bool.not_eq_true'] at hs
    exact hs.2
  | bool b => cases b <;> simp [readCell, writtenCell, storeCell, Cell.isBlank]
  | dt t =>
    by_cases ht : t = NaT
    · simp [readCell, writtenCell, ht, n1, Cell.isBlank, n4]
    · simp [readCell, writtenCell, ht, storeCell, Cell.isBlank]
  | num t =>
    by_cases ht : t = NaN
    · simp [readCell, writtenCell, ht, n1, Cell.isBlank, n4]
    · simp only [readCell, writtenCell, ht, if_false]
      rcases storeCell_float_cases t with e | ⟨i, ft, e⟩ <;> rw [e] <;> rfl
  | int i => simp [readCell, writtenCell, storeCell, Cell.isBlank]

/-- "does not start a block": not blank and, if text, no marker -/
def plainFirst (c : Cell) : Bool :=
  !c.isBlank && (match c with | .str s => classify s == none | _ => true)

theorem rowKind_plain (c : Cell) (rest : Row) (h : plainFirst c = true) : rowKind (c :: rest) = .plain := by
  simp only [plainFirst, Bool.and_eq_true, Bool.not_eq_true'] at h
  obtain ⟨hb, hm⟩ := h
  unfold rowKind
  simp only [hb, Bool.false_eq_true, if_false]
  cases c with
  | str s => simp only [beq_iff_eq] at hm; simp [hm]
  | _ => rfl

theorem readCell_plainFirst (naRep : Str) (hna : naRepOK naRep = true) (u : Str) (v : Val)
    (h : valOK u v = true) (hm : match v with | .text s => notMarker s = true | _ => True) :
    plainFirst (readCell naRep v) = true := by
  have hb := readCell_not_blank naRep hna u v h
  obtain ⟨n1, _, _, _, n5⟩ := naRep_facts naRep hna
  simp only [plainFirst, hb, Bool.not_false, Bool.true_and]
  cases v with
  | text s =>
    simp only [valOK, Bool.and_eq_true] at h
    simp only [readCell, writtenCell, storeCell_textOK s h.2]
    exact hm
  | bool b => cases b <;> simp [readCell, writtenCell, storeCell]
  | dt t =>
    by_cases ht : t = NaT
    · simp [readCell, writtenCell, ht, n1, n5]
    · simp [readCell, writtenCell, ht, storeCell]
  | num t =>
    by_cases ht : t = NaN
    · simp [readCell, writtenCell, ht, n1, n5]
    · simp only [readCell, writtenCell, ht, if_false]
      rcases storeCell_float_cases t with e | ⟨i, ft, e⟩ <;> rw [e]
  | int i => simp [readCell, writtenCell, storeCell]

/-! ## B. one column -/

/-- the cells the reader receives for a column -/
def cellsOf (naRep : Str) (c : Column) : List Cell := c.values.map (readCell naRep)

/-- the typed column read back -/
def colVals (c : Column) : ColVals :=
  if c.unit = uText then .text (c.values.map textOf)
  else if c.unit = uOnoff then .onoff (c.values.map boolOf)
  else if c.unit = uDatetime then .dt (c.values.map dtOf)
  else .num (c.values.map numOf)

theorem colVals_length (c : Column) : (colVals c).length = c.values.length := by
  unfold colVals
  split
  · simp [ColVals.length]
  · split
    · simp [ColVals.length]
    · split <;> simp [ColVals.length]

theorem parseWith_all {α : Type} (cellFn : Cell → Option α) (rep : FixCfg → α) (vt : String)
    (rc : Val → Cell) (g : Val → α) (vals : List Val) (f : Fixer)
    (h : ∀ v ∈ vals, cellFn (rc v) = some (g v)) :
    parseWith cellFn rep vt (vals.map rc) f = (vals.map g, f) := by
  induction vals with
  | nil => rfl
  | cons v vs ih =>
    have hv := h v (by simp)
    have := ih (fun w hw => h w (List.mem_cons_of_mem _ hw))
    simp [parseWith, hv, this]

theorem parseDatetime_all (ext : Ext) (rc : Val → Cell) (g : Val → Str) (vals : List Val) (f : Fixer)
    (h : ∀ v ∈ vals, dtCell ext (rc v) = .ok (g v)) :
    parseDatetime ext (vals.map rc) f = .ok (vals.map g, f) := by
  induction vals with
  | nil => rfl
  | cons v vs ih =>
    have hv := h v (by simp)
    have := ih (fun w hw => h w (List.mem_cons_of_mem _ hw))
    simp [parseDatetime, hv, this, bind, Except.bind, pure, Except.pure]

/-- **a well-formed column is read back exactly, and the fixer is not involved** -/
theorem parseColumn_wf (ext : Ext) (naRep : Str) (hna : naRepOK naRep = true) (c : Column) (f : Fixer)
    (h : ∀ v ∈ c.values, valOK c.unit v = true) :
    parseColumn ext c.unit (cellsOf naRep c) f = .ok (colVals c, f) := by
  unfold parseColumn colVals cellsOf
  by_cases h1 : c.unit = uText
  · simp only [h1, if_true]
    have : (c.values.map (readCell naRep)).map Cell.pyStr = c.values.map textOf := by
      rw [List.map_map]
      apply List.map_congr_left
      intro v hv
      exact read_text naRep v (h1 ▸ h v hv)
    rw [this]
  · simp only [h1, if_false]
    by_cases h2 : c.unit = uOnoff
    · simp only [h2, if_true, parseOnoff]
      rw [parseWith_all onoffCell _ "onoff" (readCell naRep) boolOf c.values f
        (fun v hv => read_onoff naRep v (h2 ▸ h v hv))]
    · simp only [h2, if_false]
      by_cases h3 : c.unit = uDatetime
      · simp only [h3, if_true]
        rw [parseDatetime_all ext (readCell naRep) dtOf c.values f
          (fun v hv => read_datetime ext naRep hna v (h3 ▸ h v hv))]
        rfl
      · simp only [h3, if_false, parseFloat]
        have hu : numericUnit c.unit = true := (numericUnit_iff _).2 ⟨h1, h2, h3⟩
        rw [parseWith_all (floatCell ext) _ "float" (readCell naRep) numOf c.values f
          (fun v hv => read_numeric ext naRep hna c.unit v hu (h v hv))]

theorem parseColumns_wf (ext : Ext) (naRep : Str) (hna : naRepOK naRep = true) (cols : List Column) (f : Fixer)
    (h : ∀ c ∈ cols, ∀ v ∈ c.values, valOK c.unit v = true) :
    parseColumns ext (cols.map (·.unit)) (cols.map (cellsOf naRep)) f = .ok (cols.map colVals, f) := by
  induction cols with
  | nil => rfl
  | cons c cs ih =>
    have hc := parseColumn_wf ext naRep hna c f (h c (by simp))
    have := ih (fun d hd => h d (List.mem_cons_of_mem _ hd))
    simp [parseColumns, hc, this, bind, Except.bind, pure, Except.pure]

/-! ## C. matrices: rows <-> columns, padding -/

theorem getD0_map {α : Type} (f : α → Cell) (l : List α) (j : Nat) (h : j < l.length) :
    getD0 (l.map f) j = f l[j] := by
  simp [getD0, List.getD_eq_getElem?_getD, h]

theorem map_range_getD0 (l : Row) (m : Nat) (h : l.length = m) :
    (List.range m).map (fun i => getD0 l i) = l := by
  subst h
  apply List.ext_getElem
  · simp
  · intro i h1 h2
    simp at h1
    simp [getD0, List.getD_eq_getElem?_getD, h1]

theorem map_range_getElem {α : Type} (l : List α) (d : α) :
    (List.range l.length).map (fun j => l.getD j d) = l := by
  apply List.ext_getElem
  · simp
  · intro i h1 h2
    simp at h1
    simp [List.getD_eq_getElem?_getD, h1]

/-- transposing a rectangular matrix twice gives it back (`zip(*zip(*cols))`) -/
theorem transposeN_transposeN (cols : List Row) (m : Nat) (h : ∀ c ∈ cols, c.length = m) :
    transposeN (transposeN cols m) cols.length = cols := by
  unfold transposeN
  apply List.ext_getElem
  · simp
  · intro j h1 h2
    simp at h1
    simp only [List.getElem_map, List.getElem_range, List.map_map]
    have : ((fun l => getD0 l j) ∘ fun i => List.map (fun l => getD0 l i) cols) = fun i => getD0 cols[j] i := by
      funext i
      simp only [Function.comp]
      exact getD0_map (fun l => getD0 l i) cols j h1
    rw [this]
    exact map_range_getD0 cols[j] m (h _ (List.getElem_mem _))

theorem valAt_eq (c : Column) (i : Nat) (h : i < c.values.length) : valAt c i = c.values[i] := by
  simp [valAt, List.getD_eq_getElem?_getD, h]

/-- the value rows of a row-wise table are the transposed columns -/
theorem rows_eq_transposeN (naRep : Str) (columns : List Column) (m : Nat)
    (h : ∀ c ∈ columns, c.values.length = m) :
    (List.range m).map (fun i => columns.map (fun c => readCell naRep (valAt c i))) =
      transposeN (columns.map (cellsOf naRep)) m := by
  unfold transposeN
  apply List.map_congr_left
  intro i hi
  have hi' : i < m := by simpa using hi
  rw [List.map_map]
  apply List.map_congr_left
  intro c hc
  have hl : i < c.values.length := by rw [h c hc]; exact hi'
  simp only [Function.comp, cellsOf]
  rw [getD0_map _ _ _ hl, valAt_eq c i hl]

theorem reprRow_wf (naRep : Str) (i : Nat) (cols : List Column) (j : Nat)
    (h : ∀ c ∈ cols, valOK c.unit (valAt c i) = true) :
    (reprRow naRep i j cols).map storeCell = cols.map (fun c => readCell naRep (valAt c i)) := by
  induction cols generalizing j with
  | nil => rfl
  | cons c cs ih =>
    simp only [reprRow, List.map_cons, readCell]
    rw [represent_wf naRep c.unit j _ (h c (by simp)), ih (j + 1) (fun d hd => h d (List.mem_cons_of_mem _ hd))]
    rfl

theorem reprCol_wf (naRep u : Str) (vals : List Val) (i : Nat) (h : ∀ v ∈ vals, valOK u v = true) :
    (reprCol naRep u i vals).map storeCell = vals.map (readCell naRep) := by
  induction vals generalizing i with
  | nil => rfl
  | cons v vs ih =>
    simp only [reprCol, List.map_cons, readCell]
    rw [represent_wf naRep u i v (h v (by simp)), ih (i + 1) (fun w hw => h w (List.mem_cons_of_mem _ hw))]
    rfl

theorem reprRow_length (naRep : Str) (i j : Nat) (cols : List Column) : (reprRow naRep i j cols).length = cols.length := by
  induction cols generalizing j with
  | nil => rfl
  | cons c cs ih => simp [reprRow, ih]

theorem reprCol_length (naRep u : Str) (i : Nat) (vals : List Val) : (reprCol naRep u i vals).length = vals.length := by
  induction vals generalizing i with
  | nil => rfl
  | cons v vs ih => simp [reprCol, ih]

/-! ## D. header rows -/

theorem strip_eq_self (s : Str) (h1 : lstrip s = s) (h2 : rstrip s = s) : strip s = s := by
  unfold strip; rw [h1, h2]

theorem rstrip_nospace (x : Str) (h : ∀ c ∈ x, isSpace c = false) : rstrip x = x := by
  unfold rstrip
  rw [dropWhile_eq_self]
  · simp
  · intro c hc
    apply h
    have : c ∈ x.reverse := by
      cases hr : x.reverse with
      | nil => simp [hr] at hc
      | cons y ys => simp [hr] at hc; subst hc; simp
    simpa using this

theorem rstrip_append_of_ne (a b : Str) (h : rstrip b ≠ []) : rstrip (a ++ b) = a ++ rstrip b := by
  unfold rstrip at *
  rw [List.reverse_append, List.dropWhile_append]
  have : (List.dropWhile isSpace b.reverse).isEmpty = false := by
    cases hd : List.dropWhile isSpace b.reverse with
    | nil => simp [hd] at h
    | cons y ys => rfl
  simp [this]

theorem joinWith_ne_nil (ds : List Str) (hne : ds ≠ []) (h : ∀ d ∈ ds, d ≠ []) : joinWith ' ' ds ≠ [] := by
  match ds, hne with
  | [x], _ => simpa [joinWith] using h x (by simp)
  | x :: y :: rest, _ =>
    simp only [joinWith]
    intro e
    have := h x (by simp)
    cases x <;> simp_all

theorem rstrip_joinWith (ds : List Str) (hne : ds ≠ []) (h : ∀ d ∈ ds, d ≠ [] ∧ ∀ c ∈ d, isSpace c = false) :
    rstrip (joinWith ' ' ds) = joinWith ' ' ds := by
  induction ds with
  | nil => exact absurd rfl hne
  | cons x rest ih =>
    cases rest with
    | nil => simpa [joinWith] using rstrip_nospace x (h x (by simp)).2
    | cons y ys =>
      have ih' := ih (by simp) (fun d hd => h d (List.mem_cons_of_mem _ hd))
      have hne' : joinWith ' ' (y :: ys) ≠ [] :=
        joinWith_ne_nil (y :: ys) (by simp) (fun d hd => (h d (List.mem_cons_of_mem _ hd)).1)
      simp only [joinWith]
      have : x ++ ' ' :: joinWith ' ' (y :: ys) = (x ++ [' ']) ++ joinWith ' ' (y :: ys) := by simp
      rw [this, rstrip_append_of_ne _ _ (by rw [ih']; exact hne'), ih']

theorem lstrip_joinWith (ds : List Str) (h : ∀ d ∈ ds, d ≠ [] ∧ ∀ c ∈ d, isSpace c = false) :
    lstrip (joinWith ' ' ds) = joinWith ' ' ds := by
  unfold lstrip
  apply dropWhile_eq_self
  intro c hc
  match ds with
  | [] => simp [joinWith] at hc
  | [x] =>
    simp only [joinWith] at hc
    have := (h x (by simp)).2 c
    apply this
    cases x <;> simp_all
  | x :: y :: rest =>
    simp only [joinWith] at hc
    have hx := h x (by simp)
    cases x with
    | nil => exact absurd rfl hx.1
    | cons a as =>
      simp at hc
      subst hc
      exact hx.2 a (by simp)

theorem dedup_distinct (ds : List Str) (h : distinct ds = true) : dedup ds = ds := by
  induction ds with
  | nil => rfl
  | cons x xs ih =>
    simp only [distinct, Bool.and_eq_true, Bool.not_eq_true'] at h
    have hx : x ∉ xs := by
      intro hm
      have : xs.contains x = true := by simpa using hm
      rw [this] at h; exact absurd h.1 (by decide)
    simp only [dedup, ih h.2]
    congr 1
    rw [List.filter_eq_self]
    intro y hy
    simp only [bne_iff_ne, ne_eq]
    intro e; subst e; exact hx hy

theorem destOK_facts (d : Str) (h : destOK d = true) :
    d ≠ [] ∧ (∀ c ∈ d, isSpace c = false) ∧ ' ' ∉ d ∧ ':' ∉ d ∧ d.head? ≠ some '*' ∧ d.head? ≠ some '=' := by
  simp only [destOK, Bool.and_eq_true, Bool.not_eq_true', List.all_eq_true, bne_iff_ne, ne_eq] at h
  obtain ⟨⟨⟨h1, h2⟩, h3⟩, h4⟩ := h
  refine ⟨by intro e; simp [e] at h1, fun c hc => (h2 c hc).1.1, ?_, ?_, h3, h4⟩
  · intro hm
    have := (h2 ' ' hm).1.1
    exact absurd this (by decide)
  · intro hm
    exact (h2 ':' hm).1.2 rfl

/-- **destinations**: the written cell is read back as the same set of tokens, in the written order -/
theorem destinations_wf (ds : List Str) (hne : ds ≠ []) (hok : ∀ d ∈ ds, destOK d = true)
    (hd : distinct ds = true) : destinations (.str (joinWith ' ' ds)) = ds := by
  have hf : ∀ d ∈ ds, d ≠ [] ∧ ∀ c ∈ d, isSpace c = false :=
    fun d hd => ⟨(destOK_facts d (hok d hd)).1, (destOK_facts d (hok d hd)).2.1⟩
  rw [C02.destinations_text, strip_eq_self _ (lstrip_joinWith ds hf) (rstrip_joinWith ds hne hf),
    splitOn_joinWith ' ' ds hne (fun d hd => (destOK_facts d (hok d hd)).2.2.1), dedup_distinct ds hd]

theorem textOK_not_blank (s : Str) (h : textOK s = true) : (Cell.str s).isBlank = false := by
  simp only [textOK, Bool.and_eq_true, Bool.not_eq_true'] at h
  exact h.2

/-- the name row (or the name cells of a transposed table), right-padded with empty cells -/
theorem parseColumnNames_padded (names : List Str) (k : Nat)
    (h : ∀ s ∈ names, textOK s = true ∧ strip s = s) :
    parseColumnNames (names.map Cell.str ++ List.replicate k .none) = .ok names := by
  have hb : ∀ s ∈ names, (Cell.str s).isBlank = false := fun s hs => textOK_not_blank s (h s hs).1
  have hs : names.map strip = names := by
    conv => rhs; rw [← List.map_id names]
    apply List.map_congr_left
    intro s hs; exact (h s hs).2
  have := C02.names_until_first_blank names .none (List.replicate (k - 1) .none) hb rfl
  cases k with
  | zero => simpa [hs] using this.2
  | succ n => simpa [hs, List.replicate_succ] using this.1

end Pdt.Grid
