/-
  Lemmas/Grid.lean — helper lemmas for Props/C09.lean (Excel round trip), core Lean only.
    A. one value:   represent -> storeCell -> the column parsers' cell functions
    B. one column:  parseColumn on the stored cells of a well-formed column
    C. matrices:    transposeN, padding
    D. header rows: destinations, names, units
-/
import PdtModel.Model.Grid
import PdtModel.Lemmas.Text
import PdtModel.Lemmas.Marker
import PdtModel.Props.C02
import PdtModel.Props.C03
set_option linter.unusedSimpArgs false
namespace Pdt.Grid
open Pdt Pdt.Reader Pdt.Represent Pdt.Blocks

/-! ## A. one value -/

/-- what a well-formed value is written as (closed form of `represent` on well-formed values) -/
def writtenCell (naRep : Str) : Val → Cell
  | .text s => .str s
  | .bool b => .int (if b then 1 else 0) (if b then "1.0".toList else "0.0".toList)
  | .dt t => if t = NaT then .str naRep else .dt t
  | .num t => if t = NaN then .str naRep else .float t
  | .int i => .int i (intToStr i ++ ".0".toList)

/-- the native cell the reader receives for a well-formed value -/
def readCell (naRep : Str) (v : Val) : Cell := storeCell (writtenCell naRep v)

theorem units_distinct : uText ≠ uOnoff ∧ uText ≠ uDatetime ∧ uOnoff ≠ uDatetime := by decide

theorem numericUnit_iff (u : Str) : numericUnit u = true ↔ u ≠ uText ∧ u ≠ uOnoff ∧ u ≠ uDatetime := by
  simp [numericUnit, and_assoc]

theorem strRepresentable_ne (s : Str) (h : strRepresentable s = true) :
    s ≠ [] ∧ s.head? ≠ some '=' ∧ s.length ≤ maxCellChars := by
  simp [strRepresentable] at h
  exact ⟨by intro e; simp [e] at h, h.1.1.2, h.2⟩

/-- `col == 0` only matters for an empty text: well-formed values are written the same in every position -/
theorem represent_wf (naRep u : Str) (k : Nat) (v : Val) (h : valOK u v = true) :
    represent naRep k u v = writtenCell naRep v := by
  obtain ⟨h12, h13, h23⟩ := units_distinct
  cases v with
  | text s =>
    simp only [valOK, Bool.and_eq_true, beq_iff_eq] at h
    obtain ⟨rfl, hs⟩ := h
    have hne : s ≠ [] := by
      simp only [textOK, Bool.and_eq_true] at hs
      exact (strRepresentable_ne s hs.1).1
    have : s.isEmpty = false := by cases s <;> simp_all
    simp [represent, Val.isNa, writtenCell, h12, this]
  | bool b =>
    simp only [valOK, beq_iff_eq] at h
    subst h
    simp [represent, Val.isNa, writtenCell, h12.symm]
  | dt t =>
    simp only [valOK, Bool.and_eq_true, beq_iff_eq] at h
    obtain ⟨rfl, hd⟩ := h
    by_cases ht : t = NaT
    · simp [represent, Val.isNa, writtenCell, ht, h13.symm]
    · have hnd : t.contains '.' = false := by
        have : dtRepresentable t = true := by simpa [ht] using hd
        simp only [dtRepresentable, Bool.and_eq_true, Bool.not_eq_true'] at this
        exact this.1.1.1
      simp [represent, Val.isNa, writtenCell, ht, h13.symm, h23.symm, truncMicro_of_no_dot t hnd]
  | num t =>
    simp only [valOK, Bool.and_eq_true] at h
    obtain ⟨hu, _⟩ := h
    obtain ⟨u1, u2, u3⟩ := (numericUnit_iff u).1 hu
    by_cases ht : t = NaN
    · simp [represent, Val.isNa, writtenCell, ht, u1]
    · simp [represent, Val.isNa, writtenCell, ht, u1, u2, u3]
  | int i =>
    simp only [valOK, Bool.and_eq_true] at h
    obtain ⟨hu, _⟩ := h
    obtain ⟨u1, u2, u3⟩ := (numericUnit_iff u).1 hu
    simp [represent, Val.isNa, writtenCell, u1, u2, u3]

theorem storeCell_str (s : Str) (hne : s ≠ []) (heq : s.head? ≠ some '=') (hlen : s.length ≤ maxCellChars) :
    storeCell (.str s) = .str s := by
  cases s with
  | nil => exact absurd rfl hne
  | cons c cs =>
    have hc : c ≠ '=' := by simpa using heq
    have ht : (c :: cs).take maxCellChars = c :: cs := List.take_of_length_le hlen
    unfold storeCell
    split <;> simp_all

theorem storeCell_textOK (s : Str) (h : textOK s = true) : storeCell (.str s) = .str s := by
  simp only [textOK, Bool.and_eq_true] at h
  have := strRepresentable_ne s h.1
  exact storeCell_str s this.1 this.2.1 this.2.2

/-! ### `na_rep` -/

theorem naRep_facts (naRep : Str) (h : naRepOK naRep = true) :
    storeCell (.str naRep) = .str naRep ∧ C02.Spec.IsMarker naRep ∧ strip naRep ≠ [] ∧
    allSpace naRep = false ∧ classify naRep = none := by
  simp only [naRepOK, Bool.and_eq_true, Bool.not_eq_true', notMarker, beq_iff_eq] at h
  obtain ⟨⟨⟨h1, h2⟩, h3⟩, h4⟩ := h
  have hm := (C02.isMissingMarker_iff naRep).1 h1
  refine ⟨?_, hm, ?_, h3, h4⟩
  · have := strRepresentable_ne naRep h2
    exact storeCell_str naRep this.1 this.2.1 this.2.2
  · intro e
    unfold C02.Spec.IsMarker at hm
    rw [e] at hm
    rcases hm with hm | hm <;> exact absurd hm (by decide)

example : naRepOK "-".toList = true := by decide

/-! ### the typed value read back -/

def textOf : Val → Str
  | .text s => s
  | _ => []

def boolOf : Val → Bool
  | .bool b => b
  | _ => false

def dtOf : Val → Str
  | .dt t => t
  | _ => NaT

/-- numeric value read back: the token itself (the sign of zero is lost by the file format), integers as floats -/
def numOf : Val → Str
  | .num t => if t = "-0.0".toList then "0.0".toList else t
  | .int i => intToStr i ++ ".0".toList
  | _ => NaN

theorem intTok_ne_overflow (i : Int) : intToStr i ++ ".0".toList ≠ overflowTok := by
  generalize intToStr i = a
  intro h
  have h2 : (a ++ ".0".toList).getLast? = some '0' := by
    rw [List.getLast?_append]; rfl
  rw [h] at h2
  exact absurd h2 (by decide)

/-- representable text has no NUL character, so numpy's fixed-width array keeps it whole -/
theorem rstripNul_textOK (s : Str) (h : textOK s = true) : rstripNul s = s := by
  simp only [textOK, strRepresentable, Bool.and_eq_true, List.all_eq_true] at h
  have hch := h.1.1.2
  unfold rstripNul
  rw [dropWhile_eq_self]
  · simp
  · intro c hc
    have hm : c ∈ s := by
      have : c ∈ s.reverse := by
        cases hr : s.reverse with
        | nil => simp [hr] at hc
        | cons y ys => simp [hr] at hc; subst hc; simp
      simpa using this
    have := hch c hm
    simp only [decide_eq_false_iff_not]
    intro e; subst e
    exact absurd this (by decide)

theorem read_text (naRep : Str) (v : Val) (h : valOK uText v = true) :
    textCell (readCell naRep v) = textOf v := by
  obtain ⟨h12, h13, h23⟩ := units_distinct
  cases v with
  | text s =>
    simp only [valOK, Bool.and_eq_true] at h
    simp [readCell, writtenCell, storeCell_textOK s h.2, Cell.pyStr, textOf, textCell, rstripNul_textOK s h.2]
  | bool b => simp [valOK, h12] at h
  | dt t => simp [valOK, h13] at h
  | num t => simp [valOK, numericUnit] at h
  | int i => simp [valOK, numericUnit] at h

theorem read_onoff (naRep : Str) (v : Val) (h : valOK uOnoff v = true) :
    onoffCell (readCell naRep v) = some (boolOf v) := by
  obtain ⟨h12, h13, h23⟩ := units_distinct
  cases v with
  | text s => simp [valOK, h12.symm] at h
  | bool b => cases b <;> simp [readCell, writtenCell, storeCell, onoffCell, boolOf]
  | dt t => simp [valOK, h23] at h
  | num t => simp [valOK, numericUnit] at h
  | int i => simp [valOK, numericUnit] at h

theorem read_datetime (ext : Ext) (naRep : Str) (hna : naRepOK naRep = true) (v : Val)
    (h : valOK uDatetime v = true) : dtCell ext (readCell naRep v) = .ok (dtOf v) := by
  obtain ⟨h12, h13, h23⟩ := units_distinct
  obtain ⟨n1, n2, n3, _, _⟩ := naRep_facts naRep hna
  cases v with
  | text s => simp [valOK, h13.symm] at h
  | bool b => simp [valOK, h23.symm] at h
  | dt t =>
    by_cases ht : t = NaT
    · simp only [readCell, writtenCell, ht, if_true, n1, dtOf]
      exact (C02.type_datetime ext).2 naRep n2 n3
    · simp [readCell, writtenCell, ht, storeCell, dtOf, dtCell]
  | num t => simp [valOK, numericUnit] at h
  | int i => simp [valOK, numericUnit] at h

theorem intOfFloatTok_overflow : intOfFloatTok overflowTok = none := by decide

theorem read_numeric (ext : Ext) (naRep : Str) (hna : naRepOK naRep = true) (u : Str) (v : Val)
    (hu : numericUnit u = true) (h : valOK u v = true) : floatCell ext (readCell naRep v) = some (numOf v) := by
  obtain ⟨u1, u2, u3⟩ := (numericUnit_iff u).1 hu
  obtain ⟨n1, n2, _, _, _⟩ := naRep_facts naRep hna
  cases v with
  | text s => simp [valOK, u1] at h
  | bool b => simp [valOK, u2] at h
  | dt t => simp [valOK, u3] at h
  | num t =>
    simp only [valOK, Bool.and_eq_true, Bool.or_eq_true, beq_iff_eq] at h
    by_cases ht : t = NaN
    · subst ht
      simp only [readCell, writtenCell, if_true, n1]
      rw [(C02.type_numeric_missing ext).1 naRep n2]
      simp [numOf, NaN]
    · simp only [readCell, writtenCell, ht, if_false, storeCell, numOf]
      by_cases hz : t = "-0.0".toList
      · have h0 : ("0.0".toList : Str) ≠ overflowTok := by decide
        simp only [hz, if_true, floatCell]
        rw [if_neg h0]
      · simp only [hz, if_false]
        cases hi : intOfFloatTok t with
        | none => simp only [floatCell]
        | some i =>
          have : t ≠ overflowTok := by
            intro e; rw [e, intOfFloatTok_overflow] at hi; cases hi
          simp only [floatCell]
          rw [if_neg this]
  | int i =>
    simp only [readCell, writtenCell, storeCell, floatCell, numOf]
    rw [if_neg (intTok_ne_overflow i)]

theorem storeCell_float_cases (t : Str) :
    storeCell (.float t) = .float t ∨ ∃ i ft, storeCell (.float t) = .int i ft := by
  simp only [storeCell]
  by_cases hz : t = "-0.0".toList
  · right; exact ⟨0, "0.0".toList, by rw [if_pos hz]⟩
  · rw [if_neg hz]
    cases hi : intOfFloatTok t with
    | none => left; rfl
    | some i => right; exact ⟨i, t, rfl⟩

/-- a well-formed value is never read back as a blank cell, and not as a block marker if its text is none -/
theorem readCell_not_blank (naRep : Str) (hna : naRepOK naRep = true) (u : Str) (v : Val)
    (h : valOK u v = true) : (readCell naRep v).isBlank = false := by
  obtain ⟨n1, _, _, n4, _⟩ := naRep_facts naRep hna
  cases v with
  | text s =>
    simp only [valOK, Bool.and_eq_true] at h
    have hs := h.2
    simp only [readCell, writtenCell, storeCell_textOK s hs, Cell.isBlank]
    simp only [textOK, Bool.and_eq_true, Bool.not_eq_true'] at hs
    exact hs.2
  | bool b => cases b <;> simp [readCell, writtenCell, storeCell, Cell.isBlank]
  | dt t =>
    by_cases ht : t = NaT
    · simp [readCell, writtenCell, ht, n1, Cell.isBlank, n4]
    · simp [readCell, writtenCell, ht, storeCell, Cell.isBlank]
  | num t =>
    by_cases ht : t = NaN
    · simp [readCell, writtenCell, ht, n1, Cell.isBlank, n4]
    · simp only [readCell, writtenCell, ht, if_false]
      rcases storeCell_float_cases t with e | ⟨i, ft, e⟩ <;> rw [e] <;> rfl
  | int i => simp [readCell, writtenCell, storeCell, Cell.isBlank]

/-- "does not start a block": not blank and, if text, no marker -/
def plainFirst (c : Cell) : Bool :=
  !c.isBlank && (match c with | .str s => classify s == none | _ => true)

theorem rowKind_plain (c : Cell) (rest : Row) (h : plainFirst c = true) : rowKind (c :: rest) = .plain := by
  simp only [plainFirst, Bool.and_eq_true, Bool.not_eq_true'] at h
  obtain ⟨hb, hm⟩ := h
  unfold rowKind
  simp only [hb, Bool.false_eq_true, if_false]
  cases c with
  | str s => simp only [beq_iff_eq] at hm; simp [hm]
  | _ => rfl

theorem readCell_plainFirst (naRep : Str) (hna : naRepOK naRep = true) (u : Str) (v : Val)
    (h : valOK u v = true) (hm : ∀ s, v = .text s → notMarker s = true) :
    plainFirst (readCell naRep v) = true := by
  have hb := readCell_not_blank naRep hna u v h
  obtain ⟨n1, _, _, _, n5⟩ := naRep_facts naRep hna
  simp only [plainFirst, hb, Bool.not_false, Bool.true_and]
  cases v with
  | text s =>
    simp only [valOK, Bool.and_eq_true] at h
    simp only [readCell, writtenCell, storeCell_textOK s h.2]
    exact hm s rfl
  | bool b => cases b <;> simp [readCell, writtenCell, storeCell]
  | dt t =>
    by_cases ht : t = NaT
    · simp [readCell, writtenCell, ht, n1, n5]
    · simp [readCell, writtenCell, ht, storeCell]
  | num t =>
    by_cases ht : t = NaN
    · simp [readCell, writtenCell, ht, n1, n5]
    · simp only [readCell, writtenCell, ht, if_false]
      rcases storeCell_float_cases t with e | ⟨i, ft, e⟩ <;> rw [e]
  | int i => simp [readCell, writtenCell, storeCell]

/-! ## B. one column -/

/-- the cells the reader receives for a column -/
def cellsOf (naRep : Str) (c : Column) : List Cell := c.values.map (readCell naRep)

/-- the typed column read back -/
def colVals (c : Column) : ColVals :=
  if c.unit = uText then .text (c.values.map textOf)
  else if c.unit = uOnoff then .onoff (c.values.map boolOf)
  else if c.unit = uDatetime then .dt (c.values.map dtOf)
  else .num (c.values.map numOf)

theorem colVals_length (c : Column) : (colVals c).length = c.values.length := by
  unfold colVals
  split
  · simp [ColVals.length]
  · split
    · simp [ColVals.length]
    · split <;> simp [ColVals.length]

theorem parseWith_all {α : Type} (cellFn : Cell → Option α) (rep : FixCfg → α) (vt : String) (txt : Cell → Str)
    (rc : Val → Cell) (g : Val → α) (vals : List Val) (f : Fixer)
    (h : ∀ v ∈ vals, cellFn (rc v) = some (g v)) :
    parseWith cellFn rep vt txt (vals.map rc) f = (vals.map g, f) := by
  induction vals with
  | nil => rfl
  | cons v vs ih =>
    have hv := h v (by simp)
    have := ih (fun w hw => h w (List.mem_cons_of_mem _ hw))
    simp [parseWith, hv, this]

theorem parseDatetime_all (ext : Ext) (rc : Val → Cell) (g : Val → Str) (vals : List Val) (f : Fixer)
    (h : ∀ v ∈ vals, dtCell ext (rc v) = .ok (g v)) :
    parseDatetime ext (vals.map rc) f = .ok (vals.map g, f) := by
  induction vals with
  | nil => rfl
  | cons v vs ih =>
    have hv := h v (by simp)
    have := ih (fun w hw => h w (List.mem_cons_of_mem _ hw))
    simp [parseDatetime, hv, this, bind, Except.bind, pure, Except.pure]

/-- **a well-formed column is read back exactly, and the fixer is not involved** -/
theorem parseColumn_wf (ext : Ext) (naRep : Str) (hna : naRepOK naRep = true) (c : Column) (f : Fixer)
    (h : ∀ v ∈ c.values, valOK c.unit v = true) :
    parseColumn ext c.unit (cellsOf naRep c) f = .ok (colVals c, f) := by
  unfold parseColumn colVals cellsOf
  by_cases h1 : c.unit = uText
  · simp only [h1, if_true]
    have : (c.values.map (readCell naRep)).map textCell = c.values.map textOf := by
      rw [List.map_map]
      apply List.map_congr_left
      intro v hv
      exact read_text naRep v (h1 ▸ h v hv)
    rw [this]
  · simp only [h1, if_false]
    by_cases h2 : c.unit = uOnoff
    · simp only [h2, if_true, parseOnoff]
      rw [parseWith_all onoffCell _ "onoff" onoffTxt (readCell naRep) boolOf c.values f
        (fun v hv => read_onoff naRep v (h2 ▸ h v hv))]
    · simp only [h2, if_false]
      by_cases h3 : c.unit = uDatetime
      · simp only [h3, if_true]
        rw [parseDatetime_all ext (readCell naRep) dtOf c.values f
          (fun v hv => read_datetime ext naRep hna v (h3 ▸ h v hv))]
        rfl
      · simp only [h3, if_false, parseFloat]
        have hu : numericUnit c.unit = true := (numericUnit_iff _).2 ⟨h1, h2, h3⟩
        rw [parseWith_all (floatCell ext) _ "float" floatTxt (readCell naRep) numOf c.values f
          (fun v hv => read_numeric ext naRep hna c.unit v hu (h v hv))]

theorem parseColumns_wf (ext : Ext) (naRep : Str) (hna : naRepOK naRep = true) (cols : List Column) (f : Fixer)
    (h : ∀ c ∈ cols, ∀ v ∈ c.values, valOK c.unit v = true) :
    parseColumns ext (cols.map (·.unit)) (cols.map (cellsOf naRep)) f = .ok (cols.map colVals, f) := by
  induction cols with
  | nil => rfl
  | cons c cs ih =>
    have hc := parseColumn_wf ext naRep hna c f (h c (by simp))
    have := ih (fun d hd => h d (List.mem_cons_of_mem _ hd))
    simp [parseColumns, hc, this, bind, Except.bind, pure, Except.pure]

/-! ## C. matrices: rows <-> columns, padding -/

theorem getD0_map {α : Type} (f : α → Cell) (l : List α) (j : Nat) (h : j < l.length) :
    getD0 (l.map f) j = f l[j] := by
  simp [getD0, List.getD_eq_getElem?_getD, h]

theorem map_range_getD0 (l : Row) (m : Nat) (h : l.length = m) :
    (List.range m).map (fun i => getD0 l i) = l := by
  subst h
  apply List.ext_getElem
  · simp
  · intro i h1 h2
    simp at h1
    simp [getD0, List.getD_eq_getElem?_getD, h1]

theorem map_range_getElem {α : Type} (l : List α) (d : α) :
    (List.range l.length).map (fun j => l.getD j d) = l := by
  apply List.ext_getElem
  · simp
  · intro i h1 h2
    simp at h1
    simp [List.getD_eq_getElem?_getD, h1]

/-- transposing a rectangular matrix twice gives it back (`zip(*zip(*cols))`) -/
theorem transposeN_transposeN (cols : List Row) (m : Nat) (h : ∀ c ∈ cols, c.length = m) :
    transposeN (transposeN cols m) cols.length = cols := by
  unfold transposeN
  apply List.ext_getElem
  · simp
  · intro j h1 h2
    simp at h1
    simp only [List.getElem_map, List.getElem_range, List.map_map]
    have : ((fun l => getD0 l j) ∘ fun i => List.map (fun l => getD0 l i) cols) = fun i => getD0 cols[j] i := by
      funext i
      simp only [Function.comp]
      exact getD0_map (fun l => getD0 l i) cols j h1
    rw [this]
    exact map_range_getD0 cols[j] m (h _ (List.getElem_mem _))

theorem valAt_eq (c : Column) (i : Nat) (h : i < c.values.length) : valAt c i = c.values[i] := by
  simp [valAt, List.getD_eq_getElem?_getD, h]

/-- the value rows of a row-wise table are the transposed columns -/
theorem rows_eq_transposeN (naRep : Str) (columns : List Column) (m : Nat)
    (h : ∀ c ∈ columns, c.values.length = m) :
    (List.range m).map (fun i => columns.map (fun c => readCell naRep (valAt c i))) =
      transposeN (columns.map (cellsOf naRep)) m := by
  unfold transposeN
  apply List.map_congr_left
  intro i hi
  have hi' : i < m := by simpa using hi
  rw [List.map_map]
  apply List.map_congr_left
  intro c hc
  have hl : i < c.values.length := by rw [h c hc]; exact hi'
  simp only [Function.comp, cellsOf]
  rw [getD0_map _ _ _ hl, valAt_eq c i hl]

theorem reprRow_wf (naRep : Str) (i : Nat) (cols : List Column) (j : Nat)
    (h : ∀ c ∈ cols, valOK c.unit (valAt c i) = true) :
    (reprRow naRep i j cols).map storeCell = cols.map (fun c => readCell naRep (valAt c i)) := by
  induction cols generalizing j with
  | nil => rfl
  | cons c cs ih =>
    simp only [reprRow, List.map_cons, readCell]
    rw [represent_wf naRep c.unit j _ (h c (by simp)), ih (j + 1) (fun d hd => h d (List.mem_cons_of_mem _ hd))]
    rfl

theorem reprCol_wf (naRep u : Str) (vals : List Val) (i : Nat) (h : ∀ v ∈ vals, valOK u v = true) :
    (reprCol naRep u i vals).map storeCell = vals.map (readCell naRep) := by
  induction vals generalizing i with
  | nil => rfl
  | cons v vs ih =>
    simp only [reprCol, List.map_cons, readCell]
    rw [represent_wf naRep u i v (h v (by simp)), ih (i + 1) (fun w hw => h w (List.mem_cons_of_mem _ hw))]

theorem reprRow_length (naRep : Str) (i j : Nat) (cols : List Column) : (reprRow naRep i j cols).length = cols.length := by
  induction cols generalizing j with
  | nil => rfl
  | cons c cs ih => simp [reprRow, ih]

theorem reprCol_length (naRep u : Str) (i : Nat) (vals : List Val) : (reprCol naRep u i vals).length = vals.length := by
  induction vals generalizing i with
  | nil => rfl
  | cons v vs ih => simp [reprCol, ih]

/-! ## D. header rows -/

theorem strip_eq_self (s : Str) (h1 : lstrip s = s) (h2 : rstrip s = s) : strip s = s := by
  unfold strip; rw [h1, h2]

theorem rstrip_nospace (x : Str) (h : ∀ c ∈ x, isSpace c = false) : rstrip x = x := by
  unfold rstrip
  rw [dropWhile_eq_self]
  · simp
  · intro c hc
    apply h
    have : c ∈ x.reverse := by
      cases hr : x.reverse with
      | nil => simp [hr] at hc
      | cons y ys => simp [hr] at hc; subst hc; simp
    simpa using this

theorem rstrip_append_of_ne (a b : Str) (h : rstrip b ≠ []) : rstrip (a ++ b) = a ++ rstrip b := by
  unfold rstrip at *
  rw [List.reverse_append, List.dropWhile_append]
  have : (List.dropWhile isSpace b.reverse).isEmpty = false := by
    cases hd : List.dropWhile isSpace b.reverse with
    | nil => simp [hd] at h
    | cons y ys => rfl
  simp [this]

theorem joinWith_ne_nil (ds : List Str) (hne : ds ≠ []) (h : ∀ d ∈ ds, d ≠ []) : joinWith ' ' ds ≠ [] := by
  match ds, hne with
  | [x], _ => simpa [joinWith] using h x (by simp)
  | x :: y :: rest, _ =>
    simp only [joinWith]
    intro e
    have := h x (by simp)
    cases x <;> simp_all

theorem rstrip_joinWith (ds : List Str) (hne : ds ≠ []) (h : ∀ d ∈ ds, d ≠ [] ∧ ∀ c ∈ d, isSpace c = false) :
    rstrip (joinWith ' ' ds) = joinWith ' ' ds := by
  induction ds with
  | nil => exact absurd rfl hne
  | cons x rest ih =>
    cases rest with
    | nil => simpa [joinWith] using rstrip_nospace x (h x (by simp)).2
    | cons y ys =>
      have ih' := ih (by simp) (fun d hd => h d (List.mem_cons_of_mem _ hd))
      have hne' : joinWith ' ' (y :: ys) ≠ [] :=
        joinWith_ne_nil (y :: ys) (by simp) (fun d hd => (h d (List.mem_cons_of_mem _ hd)).1)
      simp only [joinWith]
      have : x ++ ' ' :: joinWith ' ' (y :: ys) = (x ++ [' ']) ++ joinWith ' ' (y :: ys) := by simp
      rw [this, rstrip_append_of_ne _ _ (by rw [ih']; exact hne'), ih']

theorem lstrip_joinWith (ds : List Str) (h : ∀ d ∈ ds, d ≠ [] ∧ ∀ c ∈ d, isSpace c = false) :
    lstrip (joinWith ' ' ds) = joinWith ' ' ds := by
  unfold lstrip
  apply dropWhile_eq_self
  intro c hc
  match ds with
  | [] => simp [joinWith] at hc
  | [x] =>
    simp only [joinWith] at hc
    have := (h x (by simp)).2 c
    apply this
    cases x <;> simp_all
  | x :: y :: rest =>
    simp only [joinWith] at hc
    have hx := h x (by simp)
    cases x with
    | nil => exact absurd rfl hx.1
    | cons a as =>
      simp at hc
      subst hc
      exact hx.2 a (by simp)

theorem dedup_distinct (ds : List Str) (h : distinct ds = true) : dedup ds = ds := by
  induction ds with
  | nil => rfl
  | cons x xs ih =>
    simp only [distinct, Bool.and_eq_true, Bool.not_eq_true'] at h
    have hx : x ∉ xs := by
      intro hm
      have : xs.contains x = true := by simpa using hm
      rw [this] at h; exact absurd h.1 (by decide)
    simp only [dedup, ih h.2]
    congr 1
    rw [List.filter_eq_self]
    intro y hy
    simp only [bne_iff_ne, ne_eq]
    intro e; subst e; exact hx hy

theorem destOK_facts (d : Str) (h : destOK d = true) :
    d ≠ [] ∧ (∀ c ∈ d, isSpace c = false) ∧ ' ' ∉ d ∧ ':' ∉ d ∧ d.head? ≠ some '*' ∧ d.head? ≠ some '=' := by
  simp only [destOK, Bool.and_eq_true, Bool.not_eq_true', List.all_eq_true, bne_iff_ne, ne_eq] at h
  obtain ⟨⟨⟨h1, h2⟩, h3⟩, h4⟩ := h
  refine ⟨by intro e; simp [e] at h1, fun c hc => (h2 c hc).1.1, ?_, ?_, h3, h4⟩
  · intro hm
    have := (h2 ' ' hm).1.1
    exact absurd this (by decide)
  · intro hm
    exact (h2 ':' hm).1.2 rfl

/-- **destinations**: the written cell is read back as the same set of tokens, in the written order -/
theorem destinations_wf (ds : List Str) (hne : ds ≠ []) (hok : ∀ d ∈ ds, destOK d = true)
    (hd : distinct ds = true) : destinations (.str (joinWith ' ' ds)) = ds := by
  have hf : ∀ d ∈ ds, d ≠ [] ∧ ∀ c ∈ d, isSpace c = false :=
    fun d hd => ⟨(destOK_facts d (hok d hd)).1, (destOK_facts d (hok d hd)).2.1⟩
  rw [C02.destinations_text, strip_eq_self _ (lstrip_joinWith ds hf) (rstrip_joinWith ds hne hf),
    splitOn_joinWith ' ' ds hne (fun d hd => (destOK_facts d (hok d hd)).2.2.1), dedup_distinct ds hd]

theorem textOK_not_blank (s : Str) (h : textOK s = true) : (Cell.str s).isBlank = false := by
  simp only [textOK, Bool.and_eq_true, Bool.not_eq_true'] at h
  exact h.2

/-- the name row (or the name cells of a transposed table), right-padded with empty cells -/
theorem parseColumnNames_padded (names : List Str) (k : Nat)
    (h : ∀ s ∈ names, textOK s = true ∧ strip s = s) :
    parseColumnNames (names.map Cell.str ++ List.replicate k .none) = .ok names := by
  have hb : ∀ s ∈ names, (Cell.str s).isBlank = false := fun s hs => textOK_not_blank s (h s hs).1
  have hs : names.map strip = names := by
    conv => rhs; rw [← List.map_id names]
    apply List.map_congr_left
    intro s hs; exact (h s hs).2
  have := C02.names_until_first_blank names .none (List.replicate (k - 1) .none) hb rfl
  cases k with
  | zero => simpa [hs] using this.2
  | succ n => simpa [hs, List.replicate_succ] using this.1

/-! ## E. the fixer has nothing to do -/

theorem distinct_cons (x : Str) (xs : List Str) (h : distinct (x :: xs) = true) : x ∉ xs ∧ distinct xs = true := by
  simp only [distinct, Bool.and_eq_true, Bool.not_eq_true'] at h
  refine ⟨?_, h.2⟩
  intro hm
  have : xs.contains x = true := by simpa using hm
  rw [this] at h; exact absurd h.1 (by decide)

theorem foldl_dupStep_distinct (ps : List (Str × Nat)) (acc : List Str) (f : Fixer)
    (h1 : ∀ p ∈ ps, p.1 ∉ acc) (h2 : distinct (ps.map (·.1)) = true) :
    ps.foldl dupStep (acc, f) = (acc ++ ps.map (·.1), f) := by
  induction ps generalizing acc with
  | nil => simp
  | cons p ps ih =>
    have hp : acc.contains p.1 = false := by simpa using h1 p (by simp)
    have hstep : dupStep (acc, f) p = (acc ++ [p.1], f) := by
      unfold dupStep; simp only [hp, Bool.not_false, if_true]
    have hd := distinct_cons p.1 (ps.map (·.1)) (by simpa using h2)
    simp only [List.foldl_cons, hstep]
    rw [ih (acc ++ [p.1]) ?_ hd.2]
    · simp
    · intro q hq
      simp only [List.mem_append, List.mem_singleton, not_or]
      refine ⟨h1 q (List.mem_cons_of_mem _ hq), ?_⟩
      intro e
      exact hd.1 (e ▸ List.mem_map_of_mem (f := (·.1)) hq)

theorem fixDuplicates_distinct (names : List Str) (f : Fixer) (h : distinct names = true) :
    fixDuplicates names f = (names, f) := by
  unfold fixDuplicates
  rw [foldl_dupStep_distinct names.zipIdx [] f (by simp) (by rw [C02.map_fst_zipIdx]; exact h),
    C02.map_fst_zipIdx]
  simp

theorem foldl_shortStep_full (n : Nat) (ps : List (Row × Nat)) (acc : List Row) (f : Fixer)
    (h : ∀ p ∈ ps, n ≤ p.1.length) :
    ps.foldl (shortStep n) (acc, f) = (acc ++ ps.map (·.1), f) := by
  induction ps generalizing acc with
  | nil => simp
  | cons p ps ih =>
    have hp : ¬ p.1.length < n := by have := h p (by simp); omega
    have hstep : shortStep n (acc, f) p = (acc ++ [p.1], f) := by
      unfold shortStep; simp only [hp, if_false]
    simp only [List.foldl_cons, hstep]
    rw [ih (acc ++ [p.1]) (fun q hq => h q (List.mem_cons_of_mem _ hq))]
    simp

theorem fixShortRows_full (rows : List Row) (n : Nat) (f : Fixer) (h : ∀ r ∈ rows, n ≤ r.length) :
    fixShortRows rows n f = (rows, f) := by
  unfold fixShortRows
  rw [foldl_shortStep_full n rows.zipIdx [] f ?_, C02.map_fst_zipIdx]
  · simp
  · intro p hp
    have : p.1 ∈ (rows.zipIdx).map (·.1) := List.mem_map_of_mem (f := (·.1)) hp
    rw [C02.map_fst_zipIdx] at this
    exact h _ this

/-! ## F. one table -/

/-- the table read back, in the form the reader model delivers it (`raw` columns when there are no rows) -/
def expected (t : TableVal) : Precursor :=
  ⟨t.name, t.transposed, t.destinations, t.columns.map (·.name), t.columns.map (·.unit),
   if t.nRows = 0 then List.replicate t.columns.length .raw else t.columns.map colVals⟩

theorem columnOK_facts (m : Nat) (c : Column) (h : columnOK m c = true) :
    textOK c.name = true ∧ strip c.name = c.name ∧ textOK c.unit = true ∧ strip c.unit = c.unit ∧
    c.values.length = m ∧ ∀ v ∈ c.values, valOK c.unit v = true := by
  simp only [columnOK, Bool.and_eq_true, beq_iff_eq, List.all_eq_true] at h
  obtain ⟨⟨⟨⟨⟨h1, h2⟩, h3⟩, h4⟩, h5⟩, h6⟩ := h
  exact ⟨h1, h2, h3, h4, h5, h6⟩

theorem parseColumns_nil (ext : Ext) (units : List Str) (f : Fixer) :
    parseColumns ext units [] f = .ok ([], f) := by
  cases units <;> rfl

theorem transposeN_length (rows : List Row) (n : Nat) : (transposeN rows n).length = n := by
  simp [transposeN]

theorem finish_wf (ext : Ext) (naRep : Str) (hna : naRepOK naRep = true) (t : TableVal) (f : Fixer)
    (hf : f.errors = 0 ∧ f.warnings = 0)
    (hd : distinct (t.columns.map (·.name)) = true) (hc : ∀ c ∈ t.columns, columnOK t.nRows c = true) :
    finish ext ⟨t.name, t.transposed, t.destinations, t.columns.map (·.name), t.columns.map (·.unit),
                transposeN (t.columns.map (cellsOf naRep)) t.nRows⟩ f = .ok (expected t, f) := by
  have hlen : ∀ c ∈ t.columns.map (cellsOf naRep), c.length = t.nRows := by
    intro c hc'
    obtain ⟨d, hd', rfl⟩ := List.mem_map.1 hc'
    simp [cellsOf, (columnOK_facts _ d (hc d hd')).2.2.2.2.1]
  have hrows : ∀ r ∈ transposeN (t.columns.map (cellsOf naRep)) t.nRows,
      (t.columns.map (·.name)).length ≤ r.length := by
    intro r hr
    simp only [transposeN, List.mem_map, List.mem_range] at hr
    obtain ⟨i, _, rfl⟩ := hr
    simp
  have hfix : (decide (f.fixes > 0) && f.cfg.stopOnErrors) = false := by
    simp [Fixer.fixes, hf.1, hf.2]
  unfold finish
  simp only [fixDuplicates_distinct _ f hd, fixShortRows_full _ _ f hrows]
  by_cases hm : t.nRows = 0
  · have hz : transposeN (t.columns.map (cellsOf naRep)) t.nRows = [] := by
      simp [transposeN, hm]
    rw [hz]
    simp only [List.isEmpty_nil, if_true, parseColumns_nil, bind, Except.bind, hfix, Bool.false_eq_true, if_false,
      pure, Except.pure, expected, hm]
    simp
  · have he : (transposeN (t.columns.map (cellsOf naRep)) t.nRows).isEmpty = false := by
      cases hh : transposeN (t.columns.map (cellsOf naRep)) t.nRows with
      | nil => have := transposeN_length (t.columns.map (cellsOf naRep)) t.nRows; rw [hh] at this; simp at this; omega
      | cons _ _ => rfl
    have hT := transposeN_transposeN (t.columns.map (cellsOf naRep)) t.nRows hlen
    simp only [List.length_map] at hT
    have hP := parseColumns_wf ext naRep hna t.columns f (fun c hc' => (columnOK_facts _ c (hc c hc')).2.2.2.2.2)
    simp only [he, Bool.false_eq_true, if_false, List.length_map, hT, hP, bind, Except.bind, hfix,
      pure, Except.pure, expected, hm]
    simp

theorem dtHomogeneous_of_naive (xs : List Str) (h : ∀ x ∈ xs, x ≠ NaT → tzOf x = []) : dtHomogeneous xs = true := by
  unfold dtHomogeneous
  have hall : ∀ z ∈ (xs.filter (· != NaT)).map tzOf, z = [] := by
    intro z hz
    obtain ⟨x, hx, rfl⟩ := List.mem_map.1 hz
    simp only [List.mem_filter, bne_iff_ne, ne_eq] at hx
    exact h x hx.1 hx.2
  cases hl : (xs.filter (· != NaT)).map tzOf with
  | nil => rfl
  | cons z zs =>
    rw [hl] at hall
    simp only [List.all_eq_true, beq_iff_eq]
    intro y hy
    rw [hall y (List.mem_cons_of_mem _ hy), hall z (by simp)]

theorem colVals_dt_ok (c : Column) (h : ∀ v ∈ c.values, valOK c.unit v = true) :
    (colVals c).dtInhomogeneous = false := by
  unfold colVals ColVals.dtInhomogeneous
  by_cases h1 : c.unit = uText
  · rw [if_pos h1]
  · rw [if_neg h1]
    by_cases h2 : c.unit = uOnoff
    · rw [if_pos h2]
    · rw [if_neg h2]
      by_cases h3 : c.unit = uDatetime
      · rw [if_pos h3]
        simp only [Bool.not_eq_false']
        apply dtHomogeneous_of_naive
        intro x hx hne
        obtain ⟨v, hv, rfl⟩ := List.mem_map.1 hx
        have := h v hv
        rw [h3] at this
        cases v with
        | dt t =>
          simp only [valOK, Bool.and_eq_true, Bool.or_eq_true, beq_iff_eq, dtRepresentable, decide_eq_true_eq] at this
          rcases this.2 with e | e
          · exact absurd e hne
          · exact e.1.1.2
        | _ => exact absurd rfl hne
      · rw [if_neg h3]

/-- the DataFrame construction on top of a well-formed precursor accepts it -/
theorem makeTable_of_precursor (ext : Ext) (cells : List Row) (f : Fixer) (t : TableVal)
    (hc : ∀ c ∈ t.columns, columnOK t.nRows c = true)
    (h : makePrecursor ext cells f = .ok (expected t, f)) :
    makeTable ext cells f = .ok (expected t, f) := by
  unfold makeTable
  simp only [h, bind, Except.bind]
  by_cases hm : t.nRows = 0
  · simp only [expected, hm, if_true]
    cases hcols : t.columns with
    | nil => rfl
    | cons c cs =>
      simp [List.replicate_succ, ColVals.length, pure, Except.pure]
  · simp only [expected, hm, if_false]
    cases hcols : t.columns with
    | nil => rfl
    | cons c cs =>
      have hlen : ∀ d ∈ t.columns, (colVals d).length = t.nRows := by
        intro d hd
        rw [colVals_length, (columnOK_facts _ d (hc d hd)).2.2.2.2.1]
      have hdt : ∀ d ∈ t.columns, (colVals d).dtInhomogeneous = false :=
        fun d hd => colVals_dt_ok d (columnOK_facts _ d (hc d hd)).2.2.2.2.2
      rw [hcols] at hlen hdt
      have h1 : (cs.map colVals).all (fun d => decide (d.length = (colVals c).length)) = true := by
        simp only [List.all_eq_true, List.mem_map, decide_eq_true_eq]
        rintro _ ⟨d, hd, rfl⟩
        rw [hlen d (List.mem_cons_of_mem _ hd), hlen c (by simp)]
      have h2 : ((c :: cs).map colVals).any ColVals.dtInhomogeneous = false := by
        rw [List.any_eq_false]
        intro d hd
        obtain ⟨e, he, rfl⟩ := List.mem_map.1 hd
        simp [hdt e he]
      simp only [List.map_cons] at h2 ⊢
      simp [h1, h2, pure, Except.pure]

/-! ## G. the stored block of one table and its header interpretation -/

/-- the rows of a table that form its block: a table without columns ends after the destinations row
    (its empty name / unit rows are blank rows) -/
def tableBlock (naRep : Str) (t : TableVal) : List Row :=
  if t.columns.isEmpty then [[.str (header t)], [.str (destCell t)]] else layoutTable naRep t

/-- empty rows a table appends after its block, before the separator rows -/
def trailingBlank (t : TableVal) : Nat := if t.columns.isEmpty && !t.transposed then 2 else 0

theorem layoutTable_split (naRep : Str) (t : TableVal) :
    layoutTable naRep t = tableBlock naRep t ++ List.replicate (trailingBlank t) [] := by
  unfold tableBlock trailingBlank layoutTable
  cases hc : t.columns with
  | nil =>
    cases ht : t.transposed
    · simp [TableVal.nRows, hc, List.replicate_succ]
    · simp
  | cons c cs => simp

theorem excelWF_facts (t : TableVal) (h : excelWF t = true) :
    t.name.head? ≠ some '*' ∧ t.name.getLast? ≠ some '*' ∧ (t.transposed = true → t.name ≠ []) ∧
    t.destinations ≠ [] ∧ (∀ d ∈ t.destinations, destOK d = true) ∧ distinct t.destinations = true ∧
    distinct (t.columns.map (·.name)) = true ∧ (∀ c ∈ t.columns, columnOK t.nRows c = true) ∧
    (t.transposed = true → ∀ c ∈ t.columns, notMarker c.name = true) ∧
    (t.transposed = false → ∀ c cs, t.columns = c :: cs → firstColumnOK c = true) := by
  simp only [excelWF, Bool.and_eq_true] at h
  replace h := h.2
  simp only [excelWFCore, Bool.and_eq_true, Bool.not_eq_true', bne_iff_ne, ne_eq, List.all_eq_true,
    Bool.or_eq_true] at h
  obtain ⟨⟨⟨⟨⟨⟨⟨⟨⟨_, h1⟩, h2⟩, h3⟩, h4⟩, h5⟩, h6⟩, h7⟩, h8⟩, h9⟩ := h
  refine ⟨h1, h2, ?_, ?_, h5, h6, h7, h8, ?_, ?_⟩
  · intro ht e
    rcases h3 with h3 | h3
    · rw [ht] at h3; cases h3
    · simp [e] at h3
  · intro e; simp [e] at h4
  · intro ht; simpa [ht] using h9
  · intro ht c cs hc
    simpa [ht, hc] using h9

theorem dropWhile_eq_nil_of_all {α : Type} (p : α → Bool) (l : List α) (h : ∀ x ∈ l, p x = true) :
    l.dropWhile p = [] := by
  induction l with
  | nil => rfl
  | cons x xs ih =>
    simp [List.dropWhile_cons, h x (by simp), ih (fun y hy => h y (List.mem_cons_of_mem _ hy))]

/-- the size clauses of `excelWF` -/
theorem excelWF_size (t : TableVal) (h : excelWF t = true) :
    t.name.length + 3 ≤ maxCellChars ∧ (destCell t).length ≤ maxCellChars ∧ (dimOf t).trueCols ≤ maxColumns := by
  simp only [excelWF, sizeOK, Bool.and_eq_true, decide_eq_true_eq] at h
  exact ⟨h.1.1.1, h.1.1.2, h.1.2⟩

theorem header_length_le (t : TableVal) : (header t).length ≤ t.name.length + 3 := by
  unfold header
  cases t.transposed <;> simp <;> omega

theorem header_facts (t : TableVal) (hlen : t.name.length + 3 ≤ maxCellChars) :
    storeCell (.str (header t)) = .str (header t) ∧
    (header t).drop 2 = t.name ++ (if t.transposed then ['*'] else []) := by
  refine ⟨storeCell_str _ (by simp [header]) (by simp [header])
    (Nat.le_trans (header_length_le t) hlen), rfl⟩

theorem head_joinWith (x : Str) (rest : List Str) (hx : x ≠ []) :
    (joinWith ' ' (x :: rest)).head? = x.head? := by
  cases rest with
  | nil => rfl
  | cons y ys =>
    cases x with
    | nil => exact absurd rfl hx
    | cons a as => simp [joinWith]

theorem destCell_facts (t : TableVal) (hne : t.destinations ≠ []) (hok : ∀ d ∈ t.destinations, destOK d = true)
    (hlen : (destCell t).length ≤ maxCellChars) :
    storeCell (.str (destCell t)) = .str (destCell t) ∧ plainFirst (.str (destCell t)) = true := by
  have hf := fun d hd => destOK_facts d (hok d hd)
  have hne' : destCell t ≠ [] := joinWith_ne_nil _ hne (fun d hd => (hf d hd).1)
  obtain ⟨x, rest, hxs⟩ : ∃ x rest, t.destinations = x :: rest := by
    cases hd : t.destinations with
    | nil => exact absurd hd hne
    | cons x rest => exact ⟨x, rest, rfl⟩
  have hx := hf x (by rw [hxs]; simp)
  have hhead : (destCell t).head? = x.head? := by
    unfold destCell; rw [hxs]; exact head_joinWith x rest hx.1
  constructor
  · exact storeCell_str _ hne' (by rw [hhead]; exact hx.2.2.2.2.2) hlen
  · -- not blank: the first character is no space; no marker: no leading star, no colon
    obtain ⟨a, as, hxa⟩ : ∃ a as, x = a :: as := by
      cases x with
      | nil => exact absurd rfl hx.1
      | cons a as => exact ⟨a, as, rfl⟩
    have ha : isSpace a = false := hx.2.1 a (by rw [hxa]; simp)
    obtain ⟨r, hr⟩ : ∃ r, destCell t = a :: r := by
      cases hd : destCell t with
      | nil => exact absurd hd hne'
      | cons b r =>
        rw [hd, hxa] at hhead
        simp at hhead
        exact ⟨r, by rw [hhead]⟩
    have hnb : allSpace (destCell t) = false := by
      rw [hr]; simp [allSpace, ha]
    have hstar : a ≠ '*' := by
      intro e; apply hx.2.2.2.2.1; rw [hxa, e]; rfl
    have hcolon : ':' ∉ destCell t := by
      unfold destCell
      have : ∀ ds : List Str, (∀ d ∈ ds, ':' ∉ d) → ':' ∉ joinWith ' ' ds := by
        intro ds
        induction ds with
        | nil => simp [joinWith]
        | cons y ys ih =>
          intro h
          cases ys with
          | nil => simpa [joinWith] using h y (by simp)
          | cons z zs =>
            simp only [joinWith, List.mem_append, List.mem_cons, not_or]
            exact ⟨h y (by simp), by decide, ih (fun d hd => h d (List.mem_cons_of_mem _ hd))⟩
      exact this _ (fun d hd => (hf d hd).2.2.2.1)
    have hlead : leading '*' (destCell t) = 0 := by rw [hr]; simp [leading, hstar]
    have hcls : classify (destCell t) = none := by
      unfold classify classifyColon
      simp only [hlead]
      have h1 : isTemplate (destCell t) = false := by
        unfold isTemplate
        have : leading ':' (destCell t) = 0 := by
          rw [hr]
          have : a ≠ ':' := by intro e; apply hcolon; rw [hr, e]; simp
          simp [leading, this]
        simp [this]
      have h2 : isMetaKey (destCell t) = false := by
        unfold isMetaKey
        have : (destCell t).dropWhile (· != ':') = [] := by
          apply dropWhile_eq_nil_of_all
          intro c hc
          simp only [bne_iff_ne, ne_eq]
          intro e; exact hcolon (e ▸ hc)
        simp [this]
      simp [h1, h2]
    simp [plainFirst, Cell.isBlank, hnb, hcls]

theorem storeRow_single (W : Nat) (s : Str) (h : storeCell (.str s) = .str s) :
    storeRow W [.str s] = .str s :: List.replicate (W - 1) .none := by
  simp [storeRow, padTo, h]

/-- a table without columns: the block is the two header rows -/
theorem layout_block_nocols (naRep : Str) (t : TableVal) (h : excelWF t = true) (W : Nat) (hc : t.columns = []) :
    layout ((tableBlock naRep t).map (storeRow W)) = .ok ⟨t.name, t.transposed, t.destinations, [], [], []⟩ := by
  obtain ⟨_, w2, _, w4, w5, w6, _⟩ := excelWF_facts t h
  obtain ⟨hh1, hh2⟩ := header_facts t (excelWF_size t h).1
  obtain ⟨hd1, _⟩ := destCell_facts t w4 w5 (excelWF_size t h).2.1
  have hdest : destinations (.str (destCell t)) = t.destinations := destinations_wf _ w4 w5 w6
  simp only [tableBlock, hc, List.isEmpty_nil, if_true, List.map_cons, List.map_nil,
    storeRow_single W _ hh1, storeRow_single W _ hd1]
  unfold layout
  simp only [C02.name_and_orientation, hh2, bind, Except.bind, pure, Except.pure, List.length_cons, List.length_nil,
    List.drop_succ_cons, List.drop_zero, List.drop_nil, List.any_nil, Bool.and_false, Bool.false_eq_true, if_false,
    hdest]
  cases ht : t.transposed
  · simp [ht, w2, parseColumnNames, stripOfStr]
  · simp [ht, List.dropLast_concat, parseColumnNames]


theorem map_strip_id (l : List Str) (h : ∀ s ∈ l, strip s = s) : l.map strip = l := by
  conv => rhs; rw [← List.map_id l]
  exact List.map_congr_left h

/-- header interpretation of a row-wise grid given explicitly: padded header rows, names, units, value rows -/
theorem layout_rowwise_explicit (hdr dest : Str) (p1 p2 : Row) (names units : List Str) (rows : List Row) (k : Nat)
    (hnt : (hdr.drop 2).getLast? ≠ some '*')
    (hn : ∀ s ∈ names, textOK s = true ∧ strip s = s) (hu : ∀ u ∈ units, strip u = u)
    (hlen : units.length = names.length) (hrows : ∀ r ∈ rows, r.length = names.length) :
    layout ((.str hdr :: p1) :: (.str dest :: p2) :: (names.map Cell.str ++ List.replicate k .none) ::
            (units.map Cell.str ++ List.replicate k .none) :: rows.map (fun r => r ++ List.replicate k .none)) =
      .ok ⟨hdr.drop 2, false, destinations (.str dest), names, units, rows⟩ := by
  rw [C02.layout_rowwise _ _ _ _ _ _ _ hnt, parseColumnNames_padded names k hn]
  have htake : (units.map Cell.str ++ List.replicate k Cell.none).take names.length = units.map Cell.str := by
    apply List.take_left'; simp [hlen]
  have hstr : (units.map Cell.str).all Cell.isStr = true := by simp [Cell.isStr]
  have hstrip : (units.map Cell.str).map stripOfStr = units := by
    rw [List.map_map]
    have : (stripOfStr ∘ Cell.str) = strip := by funext s; rfl
    rw [this, map_strip_id units hu]
  have hr : (rows.map (fun r => r ++ List.replicate k Cell.none)).map (fun l => l.take names.length) = rows := by
    rw [List.map_map]
    conv => rhs; rw [← List.map_id rows]
    apply List.map_congr_left
    intro r hr
    simp only [Function.comp, id]
    exact List.take_left' (hrows r hr)
  have hnl : ¬ (units.map Cell.str ++ List.replicate k Cell.none).length < names.length := by
    simp [hlen]
  simp only [hnl, if_false, htake, hstr, if_true, hstrip, hr]

theorem storeCell_names (cols : List Column) (f : Column → Str) (h : ∀ c ∈ cols, textOK (f c) = true) :
    (cols.map (fun c => Cell.str (f c))).map storeCell = (cols.map f).map Cell.str := by
  rw [List.map_map, List.map_map]
  apply List.map_congr_left
  intro c hc
  exact storeCell_textOK _ (h c hc)

theorem storeRow_eq (W : Nat) (r r' : Row) (h : r.map storeCell = r') :
    storeRow W r = r' ++ List.replicate (W - r'.length) .none := by
  subst h; simp [storeRow, padTo]

def namesOf (t : TableVal) : List Str := t.columns.map (fun c => c.name)
def unitsOf (t : TableVal) : List Str := t.columns.map (fun c => c.unit)
def colsOf (naRep : Str) (t : TableVal) : List Row := t.columns.map (cellsOf naRep)

/-- the stored block of a row-wise table with columns, row by row -/
theorem storedBlock_rowwise (naRep : Str) (t : TableVal) (h : excelWF t = true) (W : Nat)
    (hc : t.columns ≠ []) (ht : t.transposed = false) :
    (tableBlock naRep t).map (storeRow W) =
      (.str (header t) :: List.replicate (W - 1) .none) :: (.str (destCell t) :: List.replicate (W - 1) .none) ::
      ((namesOf t).map Cell.str ++ List.replicate (W - t.columns.length) .none) ::
      ((unitsOf t).map Cell.str ++ List.replicate (W - t.columns.length) .none) ::
      (transposeN (colsOf naRep t) t.nRows).map (fun r => r ++ List.replicate (W - t.columns.length) .none) := by
  obtain ⟨_, _, _, w4, w5, _, _, w8, _, _⟩ := excelWF_facts t h
  obtain ⟨hh1, _⟩ := header_facts t (excelWF_size t h).1
  obtain ⟨hd1, _⟩ := destCell_facts t w4 w5 (excelWF_size t h).2.1
  have hcf := fun c hc => columnOK_facts t.nRows c (w8 c hc)
  have hemp : t.columns.isEmpty = false := by cases hcs : t.columns <;> simp_all
  have hN := storeRow_eq W _ _ (storeCell_names t.columns (fun c => c.name) (fun c hc => (hcf c hc).1))
  have hU := storeRow_eq W _ _ (storeCell_names t.columns (fun c => c.unit) (fun c hc => (hcf c hc).2.2.1))
  simp only [List.length_map] at hN hU
  have hV : ∀ i ∈ List.range t.nRows, storeRow W (reprRow naRep i 0 t.columns) =
      t.columns.map (fun c => readCell naRep (valAt c i)) ++ List.replicate (W - t.columns.length) .none := by
    intro i hi
    have hi' : i < t.nRows := by simpa using hi
    have := storeRow_eq W _ _ (reprRow_wf naRep i t.columns 0 (fun c hc => by
      have hl := (hcf c hc).2.2.2.2.1
      rw [valAt_eq c i (by omega)]
      exact (hcf c hc).2.2.2.2.2 _ (List.getElem_mem _)))
    simpa using this
  unfold tableBlock layoutTable namesOf unitsOf colsOf
  rw [← rows_eq_transposeN naRep t.columns t.nRows (fun c hc' => (hcf c hc').2.2.2.2.1)]
  simp only [hemp, Bool.false_eq_true, if_false, ht, List.map_cons,
    storeRow_single W _ hh1, storeRow_single W _ hd1, hN, hU]
  congr 4
  rw [List.map_map, List.map_map]
  apply List.map_congr_left
  intro i hi
  simp only [Function.comp, hV i hi]

theorem transposeN_row_length (cols : List Row) (m : Nat) : ∀ r ∈ transposeN cols m, r.length = cols.length := by
  intro r hr
  simp only [transposeN, List.mem_map] at hr
  obtain ⟨i, _, rfl⟩ := hr
  simp

/-- a row-wise table with at least one column: header interpretation of the stored block -/
theorem layout_block_rowwise (naRep : Str) (t : TableVal) (h : excelWF t = true) (W : Nat)
    (hc : t.columns ≠ []) (ht : t.transposed = false) :
    layout ((tableBlock naRep t).map (storeRow W)) =
      .ok ⟨t.name, false, t.destinations, namesOf t, unitsOf t, transposeN (colsOf naRep t) t.nRows⟩ := by
  obtain ⟨_, w2, _, w4, w5, w6, _, w8, _, _⟩ := excelWF_facts t h
  obtain ⟨_, hh2⟩ := header_facts t (excelWF_size t h).1
  have hcf := fun c hc => columnOK_facts t.nRows c (w8 c hc)
  rw [storedBlock_rowwise naRep t h W hc ht,
    layout_rowwise_explicit (header t) (destCell t) _ _ (namesOf t) (unitsOf t) _ _
      (by rw [hh2, ht]; simpa using w2)
      (by intro s hs; obtain ⟨c, hc', rfl⟩ := List.mem_map.1 hs; exact ⟨(hcf c hc').1, (hcf c hc').2.1⟩)
      (by intro s hs; obtain ⟨c, hc', rfl⟩ := List.mem_map.1 hs; exact (hcf c hc').2.2.2.1)
      (by simp [namesOf, unitsOf])
      (by intro r hr; rw [transposeN_row_length _ _ r hr]; simp [colsOf, namesOf])]
  have hdest : destinations (.str (destCell t)) = t.destinations := destinations_wf _ w4 w5 w6
  rw [hh2, ht, hdest]
  simp


/-! ### transposed tables -/

theorem foldl_max_const (L : List Row) (q : Nat) (hne : L ≠ []) (h : ∀ l ∈ L, l.length = q) (a : Nat) :
    L.foldl (fun m l => max m l.length) a = max a q := by
  induction L generalizing a with
  | nil => exact absurd rfl hne
  | cons l ls ih =>
    simp only [List.foldl_cons, h l (by simp)]
    cases ls with
    | nil => simp
    | cons l' ls' =>
      rw [ih (by simp) (fun x hx => h x (List.mem_cons_of_mem _ hx))]
      omega

theorem nRowLoop_stops (L : List Row) (m longest : Nat) (hl : m ≤ longest)
    (h1 : ∀ i, i < m → L.any (fun l => decide (i < l.length) && !(getD0 l i).isBlank) = true)
    (h2 : L.any (fun l => decide (m < l.length) && !(getD0 l m).isBlank) = false) :
    ∀ fuel i, i ≤ m → m - i ≤ fuel → nRowLoop L longest i fuel = m := by
  intro fuel
  induction fuel with
  | zero =>
    intro i hi hf
    have : i = m := by omega
    simp [nRowLoop, this]
  | succ n ih =>
    intro i hi hf
    unfold nRowLoop
    by_cases hlt : i < m
    · have hc : (decide (i < longest) && L.any (fun l => decide (i < l.length) && !(getD0 l i).isBlank)) = true := by
        rw [h1 i hlt]; simp; omega
      rw [if_pos hc]
      exact ih (i + 1) (by omega) (by omega)
    · have : i = m := by omega
      subst this
      have hc : ¬ ((decide (i < longest) && L.any (fun l => decide (i < l.length) && !(getD0 l i).isBlank)) = true) := by
        rw [h2]; simp
      rw [if_neg hc]

theorem getD0_append_left (a b : Row) (i : Nat) (h : i < a.length) : getD0 (a ++ b) i = a[i] := by
  simp [getD0, List.getD_eq_getElem?_getD, List.getElem?_append_left h, h]

theorem getD0_pad (a : Row) (k : Nat) (i : Nat) (h : a.length ≤ i) :
    getD0 (a ++ List.replicate k .none) i = .none := by
  simp only [getD0, List.getD_eq_getElem?_getD, List.getElem?_append_right h]
  cases hg : (List.replicate k Cell.none)[i - a.length]? with
  | none => rfl
  | some x =>
    have := List.mem_of_getElem? hg
    simp at this
    simp [this.2]

/-- `zip(*lines)` of the value parts of transposed lines: the padding is trimmed, the columns come back as rows -/
theorem transposedRows_padded (cols : List Row) (m k : Nat) (hne : cols ≠ []) (hlen : ∀ c ∈ cols, c.length = m)
    (hnb : ∀ c ∈ cols, ∀ x ∈ c, x.isBlank = false) :
    transposedRows (cols.map (fun c => c ++ List.replicate k .none)) = .ok (transposeN cols m) := by
  obtain ⟨c0, cs, hcs⟩ : ∃ c0 cs, cols = c0 :: cs := by
    cases cols with
    | nil => exact absurd rfl hne
    | cons c0 cs => exact ⟨c0, cs, rfl⟩
  have hL : ∀ l ∈ cols.map (fun c => c ++ List.replicate k Cell.none), l.length = m + k := by
    intro l hl
    obtain ⟨c, hc, rfl⟩ := List.mem_map.1 hl
    simp [hlen c hc]
  have hlong : (cols.map (fun c => c ++ List.replicate k Cell.none)).foldl (fun m l => max m l.length) 0 = m + k := by
    rw [foldl_max_const _ (m + k) (by simp [hne]) hL 0]; omega
  have h1 : ∀ i, i < m → (cols.map (fun c => c ++ List.replicate k Cell.none)).any
      (fun l => decide (i < l.length) && !(getD0 l i).isBlank) = true := by
    intro i hi
    rw [List.any_eq_true]
    refine ⟨c0 ++ List.replicate k Cell.none, by rw [hcs]; simp, ?_⟩
    have hc0 : c0.length = m := hlen c0 (by rw [hcs]; simp)
    have hi' : i < c0.length := by omega
    rw [getD0_append_left c0 _ i hi', hnb c0 (by rw [hcs]; simp) _ (List.getElem_mem _)]
    simp; omega
  have h2 : (cols.map (fun c => c ++ List.replicate k Cell.none)).any
      (fun l => decide (m < l.length) && !(getD0 l m).isBlank) = false := by
    rw [List.any_eq_false]
    intro l hl
    obtain ⟨c, hc, rfl⟩ := List.mem_map.1 hl
    rw [getD0_pad c k m (by rw [hlen c hc]; exact Nat.le_refl _)]
    simp [Cell.isBlank]
  have hn := nRowLoop_stops _ m (m + k) (by omega) h1 h2 (m + k) 0 (by omega) (by omega)
  have hpad : (cols.map (fun c => c ++ List.replicate k Cell.none)).map (padOrTrim m) = cols := by
    rw [List.map_map]
    conv => rhs; rw [← List.map_id cols]
    apply List.map_congr_left
    intro c hc
    simp only [Function.comp, padOrTrim, id]
    have : (c ++ List.replicate k Cell.none).length ≥ m := by simp [hlen c hc]
    rw [if_pos this]
    exact List.take_left' (hlen c hc)
  unfold transposedRows
  rw [hlong]
  simp only [hn, hpad]
  rw [hcs]
  rfl

/-- header interpretation of a transposed grid given explicitly by its lines `(name, unit, value cells)` -/
theorem layout_transposed_explicit (hdr dest : Str) (p1 p2 : Row) (trip : List (Str × Str × Row)) (m k : Nat)
    (ht : (hdr.drop 2).getLast? = some '*') (hne : trip ≠ [])
    (hn : ∀ x ∈ trip, textOK x.1 = true ∧ strip x.1 = x.1) (hu : ∀ x ∈ trip, strip x.2.1 = x.2.1)
    (hlen : ∀ x ∈ trip, x.2.2.length = m) (hnb : ∀ x ∈ trip, ∀ c ∈ x.2.2, c.isBlank = false) :
    layout ((.str hdr :: p1) :: (.str dest :: p2) ::
        trip.map (fun x => Cell.str x.1 :: Cell.str x.2.1 :: (x.2.2 ++ List.replicate k .none))) =
      .ok ⟨(hdr.drop 2).dropLast, true, destinations (.str dest), trip.map (fun x => x.1), trip.map (fun x => x.2.1),
           transposeN (trip.map (fun x => x.2.2)) m⟩ := by
  obtain ⟨x0, xs, hx⟩ : ∃ x0 xs, trip = x0 :: xs := by
    cases trip with
    | nil => exact absurd rfl hne
    | cons x0 xs => exact ⟨x0, xs, rfl⟩
  have hshape : trip.map (fun x => Cell.str x.1 :: Cell.str x.2.1 :: (x.2.2 ++ List.replicate k Cell.none)) =
      (Cell.str x0.1 :: Cell.str x0.2.1 :: (x0.2.2 ++ List.replicate k Cell.none)) ::
        xs.map (fun x => Cell.str x.1 :: Cell.str x.2.1 :: (x.2.2 ++ List.replicate k Cell.none)) := by
    rw [hx]; rfl
  rw [hshape, C02.layout_transposed _ _ _ _ _ _ ht, ← hshape]
  have hany : (trip.map (fun x => Cell.str x.1 :: Cell.str x.2.1 :: (x.2.2 ++ List.replicate k Cell.none))).any
      (fun l => decide (l.length < 2)) = false := by
    rw [List.any_eq_false]
    intro l hl
    obtain ⟨x, _, rfl⟩ := List.mem_map.1 hl
    simp
  have hnames : (trip.map (fun x => Cell.str x.1 :: Cell.str x.2.1 :: (x.2.2 ++ List.replicate k Cell.none))).map
      (fun l => getD0 l 0) = (trip.map (fun x => x.1)).map Cell.str := by
    rw [List.map_map, List.map_map]; rfl
  have hpn : parseColumnNames ((trip.map (fun x => x.1)).map Cell.str) = .ok (trip.map (fun x => x.1)) := by
    have := parseColumnNames_padded (trip.map (fun x => x.1)) 0 (by
      intro s hs; obtain ⟨x, hx', rfl⟩ := List.mem_map.1 hs; exact hn x hx')
    simpa using this
  have htake : (trip.map (fun x => Cell.str x.1 :: Cell.str x.2.1 :: (x.2.2 ++ List.replicate k Cell.none))).take
      (trip.map (fun x => x.1)).length =
      trip.map (fun x => Cell.str x.1 :: Cell.str x.2.1 :: (x.2.2 ++ List.replicate k Cell.none)) := by
    apply List.take_of_length_le; simp
  have hunits : (trip.map (fun x => Cell.str x.1 :: Cell.str x.2.1 :: (x.2.2 ++ List.replicate k Cell.none))).map
      (fun l => getD0 l 1) = (trip.map (fun x => x.2.1)).map Cell.str := by
    rw [List.map_map, List.map_map]; rfl
  have hstr : ((trip.map (fun x => x.2.1)).map Cell.str).all Cell.isStr = true := by simp [Cell.isStr]
  have hstrip : ((trip.map (fun x => x.2.1)).map Cell.str).map stripOfStr = trip.map (fun x => x.2.1) := by
    rw [List.map_map]
    have : (stripOfStr ∘ Cell.str) = strip := by funext s; rfl
    rw [this, map_strip_id]
    intro s hs; obtain ⟨x, hx', rfl⟩ := List.mem_map.1 hs; exact hu x hx'
  have hdrop : (trip.map (fun x => Cell.str x.1 :: Cell.str x.2.1 :: (x.2.2 ++ List.replicate k Cell.none))).map
      (fun l => l.drop 2) = (trip.map (fun x => x.2.2)).map (fun c => c ++ List.replicate k Cell.none) := by
    rw [List.map_map, List.map_map]; rfl
  have hrows := transposedRows_padded (trip.map (fun x => x.2.2)) m k (by simp [hne])
    (by intro c hc; obtain ⟨x, hx', rfl⟩ := List.mem_map.1 hc; exact hlen x hx')
    (by intro c hc; obtain ⟨x, hx', rfl⟩ := List.mem_map.1 hc; exact hnb x hx')
  have hnl : ¬ ((trip.map (fun x => x.2.1)).map Cell.str).length < (trip.map (fun x => x.1)).length := by simp
  simp only [hany, Bool.false_eq_true, if_false, hnames, hpn, htake, hunits, hnl, hstr, if_true, hstrip, hdrop, hrows]


def tripOf (naRep : Str) (t : TableVal) : List (Str × Str × Row) :=
  t.columns.map (fun c => (c.name, c.unit, cellsOf naRep c))

/-- the stored block of a transposed table with columns, line by line -/
theorem storedBlock_transposed (naRep : Str) (t : TableVal) (h : excelWF t = true) (W : Nat)
    (hc : t.columns ≠ []) (ht : t.transposed = true) :
    (tableBlock naRep t).map (storeRow W) =
      (.str (header t) :: List.replicate (W - 1) .none) :: (.str (destCell t) :: List.replicate (W - 1) .none) ::
      (tripOf naRep t).map (fun x => Cell.str x.1 :: Cell.str x.2.1 ::
        (x.2.2 ++ List.replicate (W - (t.nRows + 2)) .none)) := by
  obtain ⟨_, _, _, w4, w5, _, _, w8, _, _⟩ := excelWF_facts t h
  obtain ⟨hh1, _⟩ := header_facts t (excelWF_size t h).1
  obtain ⟨hd1, _⟩ := destCell_facts t w4 w5 (excelWF_size t h).2.1
  have hcf := fun c hc => columnOK_facts t.nRows c (w8 c hc)
  have hemp : t.columns.isEmpty = false := by cases hcs : t.columns <;> simp_all
  unfold tableBlock layoutTable tripOf
  simp only [hemp, Bool.false_eq_true, if_false, ht, if_true, List.map_cons,
    storeRow_single W _ hh1, storeRow_single W _ hd1]
  congr 2
  rw [List.map_map, List.map_map]
  apply List.map_congr_left
  intro c hc'
  obtain ⟨c1, _, c3, _, c5, c6⟩ := hcf c hc'
  have := storeRow_eq W (Cell.str c.name :: Cell.str c.unit :: reprCol naRep c.unit 0 c.values)
    (Cell.str c.name :: Cell.str c.unit :: cellsOf naRep c) (by
      simp only [List.map_cons, storeCell_textOK _ c1, storeCell_textOK _ c3]
      rw [reprCol_wf naRep c.unit c.values 0 c6]; rfl)
  simp only [Function.comp, this, List.length_cons, cellsOf, List.length_map, c5, List.cons_append]

theorem layout_block_transposed (naRep : Str) (t : TableVal) (h : excelWF t = true) (hna : naRepOK naRep = true)
    (W : Nat) (hc : t.columns ≠ []) (ht : t.transposed = true) :
    layout ((tableBlock naRep t).map (storeRow W)) =
      .ok ⟨t.name, true, t.destinations, namesOf t, unitsOf t, transposeN (colsOf naRep t) t.nRows⟩ := by
  obtain ⟨_, w2, _, w4, w5, w6, _, w8, _, _⟩ := excelWF_facts t h
  obtain ⟨_, hh2⟩ := header_facts t (excelWF_size t h).1
  have hcf := fun c hc => columnOK_facts t.nRows c (w8 c hc)
  have hdest : destinations (.str (destCell t)) = t.destinations := destinations_wf _ w4 w5 w6
  have hlast : ((header t).drop 2).getLast? = some '*' := by rw [hh2, ht]; simp
  rw [storedBlock_transposed naRep t h W hc ht,
    layout_transposed_explicit (header t) (destCell t) _ _ (tripOf naRep t) t.nRows _ hlast
      (by simp [tripOf, hc])
      (by intro x hx; obtain ⟨c, hc', rfl⟩ := List.mem_map.1 hx; exact ⟨(hcf c hc').1, (hcf c hc').2.1⟩)
      (by intro x hx; obtain ⟨c, hc', rfl⟩ := List.mem_map.1 hx; exact (hcf c hc').2.2.2.1)
      (by intro x hx; obtain ⟨c, hc', rfl⟩ := List.mem_map.1 hx; simp [cellsOf, (hcf c hc').2.2.2.2.1])
      (by
        intro x hx; obtain ⟨c, hc', rfl⟩ := List.mem_map.1 hx
        intro cell hcell
        obtain ⟨v, hv, rfl⟩ := List.mem_map.1 hcell
        exact readCell_not_blank naRep hna c.unit v ((hcf c hc').2.2.2.2.2 v hv))]
  rw [hh2, ht, hdest]
  have e1 : (tripOf naRep t).map (fun x => x.1) = namesOf t := by simp [tripOf, namesOf, List.map_map, Function.comp]
  have e2 : (tripOf naRep t).map (fun x => x.2.1) = unitsOf t := by simp [tripOf, unitsOf, List.map_map, Function.comp]
  have e3 : (tripOf naRep t).map (fun x => x.2.2) = colsOf naRep t := by
    simp only [tripOf, colsOf, List.map_map]; rfl
  rw [e1, e2, e3]
  simp

/-- **one table**: the reader's table constructor on the stored block of a well-formed table gives the table
    back and leaves the fixer untouched -/
theorem makeTable_block (ext : Ext) (naRep : Str) (hna : naRepOK naRep = true) (t : TableVal)
    (h : excelWF t = true) (W : Nat) (f : Fixer) (hf : f.errors = 0 ∧ f.warnings = 0) :
    makeTable ext ((tableBlock naRep t).map (storeRow W)) f = .ok (expected t, f) := by
  obtain ⟨_, _, _, _, _, _, w7, w8, _, _⟩ := excelWF_facts t h
  apply makeTable_of_precursor ext _ f t w8
  have hfin := finish_wf ext naRep hna t f hf w7 w8
  unfold makePrecursor
  by_cases hc : t.columns = []
  · rw [layout_block_nocols naRep t h W hc]
    have hn : t.nRows = 0 := by simp [TableVal.nRows, hc]
    simp only [hc, hn, List.map_nil, transposeN, List.range_zero] at hfin
    simpa [bind, Except.bind] using hfin
  · cases ht : t.transposed
    · rw [layout_block_rowwise naRep t h W hc ht]
      rw [ht] at hfin
      simpa [bind, Except.bind, namesOf, unitsOf, colsOf] using hfin
    · rw [layout_block_transposed naRep t h hna W hc ht]
      rw [ht] at hfin
      simpa [bind, Except.bind, namesOf, unitsOf, colsOf] using hfin

/-! ## H. row kinds of a stored block -/

theorem header_kind (t : TableVal) (h : excelWF t = true) (rest : Row) :
    rowKind (.str (header t) :: rest) = .tbl := by
  obtain ⟨w1, _, w3, _⟩ := excelWF_facts t h
  have hlead : leading '*' (header t) = 2 := by
    unfold header
    simp only [leading, if_true]
    have : leading '*' (t.name ++ if t.transposed = true then ['*'] else []) = 0 := by
      cases hn : t.name with
      | nil =>
        cases ht : t.transposed
        · simp [leading]
        · exact absurd hn (w3 ht)
      | cons a as =>
        have : a ≠ '*' := by rw [hn] at w1; simpa using w1
        simp [leading, this]
    rw [this]
  have hnb : (Cell.str (header t)).isBlank = false := by
    simp [Cell.isBlank, header, allSpace, isSpace]
  unfold rowKind
  simp only [hnb, Bool.false_eq_true, if_false, classify, hlead, if_true]

theorem plain_of_append (c : Cell) (xs pad : Row) (h : plainFirst c = true) :
    rowKind ((c :: xs) ++ pad) = .plain := rowKind_plain c _ h

/-- every row of a stored block after the header row continues the block -/
theorem block_kinds (naRep : Str) (hna : naRepOK naRep = true) (t : TableVal) (h : excelWF t = true) (W : Nat) :
    ∃ hd plains, (tableBlock naRep t).map (storeRow W) = hd :: plains ∧ rowKind hd = .tbl ∧
      ∀ r ∈ plains, rowKind r = .plain := by
  obtain ⟨_, _, _, w4, w5, _, _, w8, w9, w10⟩ := excelWF_facts t h
  obtain ⟨hh1, _⟩ := header_facts t (excelWF_size t h).1
  obtain ⟨hd1, hd2⟩ := destCell_facts t w4 w5 (excelWF_size t h).2.1
  have hcf := fun c hc => columnOK_facts t.nRows c (w8 c hc)
  have hdest : rowKind (Cell.str (destCell t) :: List.replicate (W - 1) Cell.none) = .plain := rowKind_plain _ _ hd2
  cases hc : t.columns with
  | nil =>
    refine ⟨Cell.str (header t) :: List.replicate (W - 1) Cell.none,
      [Cell.str (destCell t) :: List.replicate (W - 1) Cell.none], ?_, header_kind t h _, ?_⟩
    · simp only [tableBlock, hc, List.isEmpty_nil, if_true, List.map_cons, List.map_nil,
        storeRow_single W _ hh1, storeRow_single W _ hd1]
    · intro r hr
      simp only [List.mem_singleton] at hr
      rw [hr]; exact hdest
  | cons c0 cs =>
    have hne : t.columns ≠ [] := by rw [hc]; simp
    have hc0 : c0 ∈ t.columns := by rw [hc]; simp
    obtain ⟨c1, _, c3, _, c5, c6⟩ := hcf c0 hc0
    cases ht : t.transposed
    · -- row-wise
      have hfirst := w10 ht c0 cs hc
      simp only [firstColumnOK, Bool.and_eq_true, List.all_eq_true] at hfirst
      obtain ⟨⟨f1, f2⟩, f3⟩ := hfirst
      refine ⟨_, _, storedBlock_rowwise naRep t h W hne ht, header_kind t h _, ?_⟩
      intro r hr
      simp only [List.mem_cons, List.mem_map] at hr
      rcases hr with rfl | rfl | rfl | hr
      · exact hdest
      · simp only [namesOf, hc, List.map_cons, List.cons_append]
        apply rowKind_plain
        simp only [plainFirst, textOK_not_blank _ c1, Bool.not_false, Bool.true_and]
        exact f1
      · simp only [unitsOf, hc, List.map_cons, List.cons_append]
        apply rowKind_plain
        simp only [plainFirst, textOK_not_blank _ c3, Bool.not_false, Bool.true_and]
        exact f2
      · obtain ⟨row, hrow, rfl⟩ := hr
        simp only [transposeN, List.mem_map, List.mem_range] at hrow
        obtain ⟨i, hi, rfl⟩ := hrow
        simp only [colsOf, hc, List.map_cons, List.cons_append]
        apply rowKind_plain
        have hl : i < c0.values.length := by omega
        simp only [cellsOf]
        rw [getD0_map _ _ _ hl]
        apply readCell_plainFirst naRep hna c0.unit _ (c6 _ (List.getElem_mem _))
        intro s hs
        have := f3 _ (List.getElem_mem hl)
        rw [hs] at this
        exact this
    · -- transposed
      refine ⟨_, _, storedBlock_transposed naRep t h W hne ht, header_kind t h _, ?_⟩
      intro r hr
      simp only [List.mem_cons, List.mem_map] at hr
      rcases hr with rfl | ⟨x, hx, rfl⟩
      · exact hdest
      · simp only [tripOf, List.mem_map] at hx
        obtain ⟨c, hc', rfl⟩ := hx
        apply rowKind_plain
        simp only [plainFirst, textOK_not_blank _ (hcf c hc').1, Bool.not_false, Bool.true_and]
        exact w9 ht c hc'


/-! ## I. the splitter on a stored sheet -/

def blankW (W : Nat) : Row := List.replicate W Cell.none

/-- what the BLANK state keeps of the first separator row (`len(row) > 1`) -/
def keepGrid (W : Nat) : List Row := if 2 ≤ W then [blankW W] else []

theorem blankW_kind (W : Nat) (hW : 1 ≤ W) : rowKind (blankW W) = .blankRow (decide (2 ≤ W)) := by
  obtain ⟨n, rfl⟩ : ∃ n, W = n + 1 := ⟨W - 1, by omega⟩
  simp only [blankW, List.replicate_succ, rowKind, Cell.isBlank, if_true]
  cases n with
  | zero => simp
  | succ k => simp [List.replicate_succ]

theorem go_plains (plains rest : List Row) (hp : ∀ r ∈ plains, rowKind r = .plain) (j : Nat) (g : List Row)
    (st : BT) (i0 : Nat) :
    go rowKind j ⟨g, st, i0⟩ (plains ++ rest) = go rowKind (j + plains.length) ⟨g ++ plains, st, i0⟩ rest := by
  induction plains generalizing j g with
  | nil => simp
  | cons r rs ih =>
    have hr := hp r (by simp)
    simp only [List.cons_append, go, C03.plain_continues rowKind _ j r hr, List.nil_append]
    rw [ih (fun x hx => hp x (List.mem_cons_of_mem _ hx))]
    simp [Nat.add_assoc, Nat.add_comm 1]

theorem go_table (hd : Row) (plains rest : List Row) (hk : rowKind hd = .tbl)
    (hp : ∀ r ∈ plains, rowKind r = .plain) (i : Nat) (s : St Row) :
    go rowKind i s (hd :: plains ++ rest) =
      emit s ++ go rowKind (i + 1 + plains.length) ⟨hd :: plains, .table, i⟩ rest := by
  have h1 : step rowKind s i hd = (⟨[hd], .table, i⟩, emit s) := by simp [step, switch, hk]
  simp only [List.cons_append, go, h1]
  rw [go_plains plains rest hp]
  rfl

theorem go_first_blank (W : Nat) (hW : 1 ≤ W) (rest : List Row) (j : Nat) (g : List Row) (i0 : Nat) :
    go rowKind j ⟨g, .table, i0⟩ (blankW W :: rest) =
      emit ⟨g, .table, i0⟩ ++ go rowKind (j + 1) ⟨keepGrid W, .blank, j⟩ rest := by
  have hk := blankW_kind W hW
  have h1 := (C03.blank_ends_block rowKind ⟨g, .table, i0⟩ j (blankW W) _ hk).1 (by simp)
  simp only [go, h1, keepGrid]
  by_cases h2 : 2 ≤ W <;> simp [h2]

theorem go_blanks (W : Nat) (hW : 1 ≤ W) (b : Nat) (rest : List Row) (j : Nat) (g : List Row) (i0 : Nat) :
    go rowKind j ⟨g, .blank, i0⟩ (List.replicate b (blankW W) ++ rest) =
      go rowKind (j + b) ⟨g, .blank, i0⟩ rest := by
  induction b generalizing j with
  | zero => simp
  | succ n ih =>
    have hk := blankW_kind W hW
    have h1 := (C03.blank_ends_block rowKind ⟨g, .blank, i0⟩ j (blankW W) _ hk).2 rfl
    simp only [List.replicate_succ, List.cons_append, go, h1, List.nil_append]
    rw [ih]
    congr 1
    omega

/-- the stored rows of a sheet: table blocks separated by rows of empty cells; nothing after the last block -/
def storedRows (naRep : Str) (W sep : Nat) : List TableVal → List Row
  | [] => []
  | [t] => (tableBlock naRep t).map (storeRow W)
  | t :: t' :: rest =>
    (tableBlock naRep t).map (storeRow W) ++ List.replicate (trailingBlank t + sep) (blankW W) ++
      storedRows naRep W sep (t' :: rest)

def blankPairs (W i : Nat) : List (Block Row × BlockVal) :=
  if 2 ≤ W then [(⟨.blank, [blankW W], i⟩, .grid [blankW W])] else []

/-- the blocks of a stored sheet with the values the handlers give them -/
def sheetPairs (naRep : Str) (W sep : Nat) : Nat → List TableVal → List (Block Row × BlockVal)
  | _, [] => []
  | i, [t] => [(⟨.table, (tableBlock naRep t).map (storeRow W), i⟩, .table (expected t))]
  | i, t :: t' :: rest =>
    (⟨.table, (tableBlock naRep t).map (storeRow W), i⟩, .table (expected t)) ::
      (blankPairs W (i + (tableBlock naRep t).length) ++
        sheetPairs naRep W sep (i + (tableBlock naRep t).length + (trailingBlank t + sep)) (t' :: rest))

theorem emit_keep (W j : Nat) : emit (⟨keepGrid W, .blank, j⟩ : St Row) = (blankPairs W j).map (·.1) := by
  unfold keepGrid blankPairs emit
  by_cases h : 2 ≤ W <;> simp [h]

/-- **the splitter cuts a stored sheet back into exactly the written blocks** -/
theorem go_storedRows (naRep : Str) (hna : naRepOK naRep = true) (W sep : Nat) (hW : 1 ≤ W) (hsep : 1 ≤ sep)
    (tables : List TableVal) (hwf : ∀ t ∈ tables, excelWF t = true) (hne : tables ≠ []) (i : Nat) (s : St Row) :
    go rowKind i s (storedRows naRep W sep tables) = emit s ++ (sheetPairs naRep W sep i tables).map (·.1) := by
  induction tables generalizing i s with
  | nil => exact absurd rfl hne
  | cons t rest ih =>
    obtain ⟨hd, plains, hB, hk, hp⟩ := block_kinds naRep hna t (hwf t (by simp)) W
    have hlen : (tableBlock naRep t).length = 1 + plains.length := by
      have := congrArg List.length hB
      simp at this; omega
    cases rest with
    | nil =>
      simp only [storedRows, sheetPairs, hB, List.map_cons, List.map_nil]
      have := go_table hd plains [] hk hp i s
      simp only [List.append_nil] at this
      rw [this]
      simp [go, emit]
    | cons t' rest' =>
      simp only [storedRows, sheetPairs, hB, List.map_cons, List.map_append]
      rw [List.append_assoc, go_table hd plains _ hk hp i s]
      obtain ⟨b, hb⟩ : ∃ b, trailingBlank t + sep = b + 1 := ⟨trailingBlank t + sep - 1, by omega⟩
      rw [hb, List.replicate_succ, List.cons_append, go_first_blank W hW, go_blanks W hW]
      rw [ih (fun x hx => hwf x (List.mem_cons_of_mem _ hx)) (by simp), emit_keep]
      simp only [emit, List.singleton_append, List.cons_append, List.nil_append, hlen]
      have e1 : i + 1 + plains.length = i + (1 + plains.length) := by omega
      have e2 : i + (1 + plains.length) + 1 + b = i + (1 + plains.length) + (b + 1) := by omega
      rw [e1, e2]


/-! ## J. what `store` makes of the rows appended to a sheet -/

theorem dropTrailingEmpty_replicate (n : Nat) : dropTrailingEmpty (List.replicate n ([] : Row)) = [] := by
  induction n with
  | zero => rfl
  | succ k ih => simp [List.replicate_succ, dropTrailingEmpty, ih]

theorem dropTrailingEmpty_append_ne (xs ys : List Row) (h : dropTrailingEmpty ys ≠ []) :
    dropTrailingEmpty (xs ++ ys) = xs ++ dropTrailingEmpty ys := by
  induction xs with
  | nil => rfl
  | cons x xs ih =>
    simp only [List.cons_append, dropTrailingEmpty, ih]
    cases hd : xs ++ dropTrailingEmpty ys with
    | nil =>
      simp only [List.append_eq_nil_iff] at hd
      exact absurd hd.2 h
    | cons z zs => rfl

theorem dropTrailingEmpty_append_nil (xs ys : List Row) (h : dropTrailingEmpty ys = []) :
    dropTrailingEmpty (xs ++ ys) = dropTrailingEmpty xs := by
  induction xs with
  | nil => simpa [dropTrailingEmpty] using h
  | cons x xs ih => simp only [List.cons_append, dropTrailingEmpty, ih]

theorem dropTrailingEmpty_full (B : List Row) (h : ∀ r ∈ B, r.isEmpty = false) : dropTrailingEmpty B = B := by
  induction B with
  | nil => rfl
  | cons x xs ih =>
    have hx := h x (by simp)
    simp only [dropTrailingEmpty, ih (fun r hr => h r (List.mem_cons_of_mem _ hr))]
    cases xs with
    | nil => simp [hx]
    | cons y ys => rfl

theorem tableBlock_rows_nonempty (naRep : Str) (t : TableVal) : ∀ r ∈ tableBlock naRep t, r.isEmpty = false := by
  intro r hr
  unfold tableBlock at hr
  cases hc : t.columns with
  | nil =>
    simp only [hc, List.isEmpty_nil, if_true, List.mem_cons, List.not_mem_nil, or_false] at hr
    rcases hr with rfl | rfl <;> rfl
  | cons c cs =>
    simp only [hc, List.isEmpty_cons, Bool.false_eq_true, if_false, layoutTable] at hr
    cases ht : t.transposed
    · simp only [ht, Bool.false_eq_true, if_false, List.mem_cons, List.mem_map, List.mem_range] at hr
      rcases hr with rfl | rfl | rfl | rfl | ⟨i, _, rfl⟩
      · rfl
      · rfl
      · rfl
      · rfl
      · rfl
    · simp only [ht, if_true, List.mem_cons, List.mem_map] at hr
      rcases hr with rfl | rfl | ⟨c', _, rfl⟩ <;> rfl

theorem tableBlock_ne_nil (naRep : Str) (t : TableVal) : tableBlock naRep t ≠ [] := by
  unfold tableBlock layoutTable
  split <;> simp

/-- the appended rows without the rows after the last cell -/
def rawRows (naRep : Str) (sep : Nat) : List TableVal → List Row
  | [] => []
  | [t] => tableBlock naRep t
  | t :: t' :: rest =>
    tableBlock naRep t ++ List.replicate (trailingBlank t + sep) [] ++ rawRows naRep sep (t' :: rest)

theorem rawRows_ne_nil (naRep : Str) (sep : Nat) (t : TableVal) (rest : List TableVal) :
    rawRows naRep sep (t :: rest) ≠ [] := by
  cases rest with
  | nil => exact tableBlock_ne_nil naRep t
  | cons t' r => simp [rawRows, tableBlock_ne_nil]

theorem layoutSheet_cons (naRep : Str) (sep : Nat) (t : TableVal) (rest : List TableVal) :
    layoutSheet naRep sep (t :: rest) =
      (tableBlock naRep t ++ List.replicate (trailingBlank t + sep) []) ++ layoutSheet naRep sep rest := by
  simp [layoutSheet, sepRows, layoutTable_split, List.append_assoc, List.replicate_append_replicate]

theorem dropTrailingEmpty_layoutSheet (naRep : Str) (sep : Nat) (tables : List TableVal) :
    dropTrailingEmpty (layoutSheet naRep sep tables) = rawRows naRep sep tables := by
  induction tables with
  | nil => rfl
  | cons t rest ih =>
    rw [layoutSheet_cons]
    cases rest with
    | nil =>
      simp only [layoutSheet, List.flatMap_nil, List.append_nil, rawRows]
      rw [dropTrailingEmpty_append_nil _ _ (dropTrailingEmpty_replicate _),
        dropTrailingEmpty_full _ (tableBlock_rows_nonempty naRep t)]
    | cons t' r =>
      rw [dropTrailingEmpty_append_ne _ _ (by rw [ih]; exact rawRows_ne_nil naRep sep t' r), ih]
      simp [rawRows, List.append_assoc]

theorem storeRow_nil (W : Nat) : storeRow W [] = blankW W := by simp [storeRow, padTo, blankW]

theorem map_rawRows (naRep : Str) (W sep : Nat) (tables : List TableVal) :
    (rawRows naRep sep tables).map (storeRow W) = storedRows naRep W sep tables := by
  induction tables with
  | nil => rfl
  | cons t rest ih =>
    cases rest with
    | nil => rfl
    | cons t' r =>
      simp only [rawRows, storedRows, List.map_append, List.map_replicate, storeRow_nil]
      rw [ih]

/-- **the openpyxl law applied to a written sheet**: the blocks, padded to the sheet width, separated by rows of
    empty cells, nothing after the last block -/
theorem store_layoutSheet (naRep : Str) (sep : Nat) (tables : List TableVal) :
    store (layoutSheet naRep sep tables) =
      storedRows naRep (width (layoutSheet naRep sep tables)) sep tables := by
  unfold store
  rw [dropTrailingEmpty_layoutSheet, map_rawRows]

theorem le_foldl_max (rows : List Row) (a : Nat) :
    a ≤ rows.foldl (fun m r => max m r.length) a ∧ ∀ r ∈ rows, r.length ≤ rows.foldl (fun m r => max m r.length) a := by
  induction rows generalizing a with
  | nil => simp
  | cons x xs ih =>
    have := ih (max a x.length)
    simp only [List.foldl_cons, List.mem_cons]
    refine ⟨by omega, ?_⟩
    rintro r (rfl | hr)
    · omega
    · exact this.2 r hr

theorem le_width (rows : List Row) (r : Row) (h : r ∈ rows) : r.length ≤ width rows := (le_foldl_max rows 0).2 r h

theorem width_pos (naRep : Str) (sep : Nat) (t : TableVal) (rest : List TableVal) :
    1 ≤ width (layoutSheet naRep sep (t :: rest)) := by
  have : [Cell.str (header t)] ∈ layoutSheet naRep sep (t :: rest) := by
    simp [layoutSheet, layoutTable]
  simpa using le_width _ _ this

/-! ## K. the handlers on the blocks of a sheet -/

theorem runBlocks_pairs (cfg : Config) (hfilter : cfg.filter = none) (ps : List (Block Row × BlockVal))
    (h : ∀ p ∈ ps, ∀ f : Fixer, handle cfg p.1.ty p.1.rows f.reset = .ok (p.2, f.reset)) (f : Fixer) :
    (runBlocks cfg (ps.map (·.1)) f).blocks = ps.map (fun p => ⟨p.1.ty, p.1.first, p.2⟩) ∧
    (runBlocks cfg (ps.map (·.1)) f).issues = [] ∧
    (runBlocks cfg (ps.map (·.1)) f).ending = Ending.exhausted := by
  induction ps generalizing f with
  | nil => simp [runBlocks]
  | cons p ps ih =>
    have hp := h p (by simp) f
    have := ih (fun q hq => h q (List.mem_cons_of_mem _ hq)) f.reset
    simp only [List.map_cons, runBlocks, accepts, hfilter, Bool.not_true, Bool.false_eq_true, if_false, hp]
    exact ⟨by rw [this.1], this.2.1, this.2.2⟩

theorem sheetPairs_handle (ext : Ext) (tracker : Tracker) (naRep : Str) (hna : naRepOK naRep = true) (W sep : Nat)
    (tables : List TableVal) (hwf : ∀ t ∈ tables, excelWF t = true) (i : Nat) :
    ∀ p ∈ sheetPairs naRep W sep i tables, ∀ f : Fixer,
      handle ⟨.pdtable, none, tracker, ext⟩ p.1.ty p.1.rows f.reset = .ok (p.2, f.reset) := by
  induction tables generalizing i with
  | nil => intro p hp; simp [sheetPairs] at hp
  | cons t rest ih =>
    have ht : ∀ f : Fixer, handle ⟨.pdtable, none, tracker, ext⟩ .table ((tableBlock naRep t).map (storeRow W)) f.reset =
        .ok (.table (expected t), f.reset) := by
      intro f
      have := makeTable_block ext naRep hna t (hwf t (by simp)) W f.reset ⟨rfl, rfl⟩
      simp [handle, this, bind, Except.bind, pure, Except.pure]
    cases rest with
    | nil =>
      intro p hp f
      simp only [sheetPairs, List.mem_singleton] at hp
      subst hp
      exact ht f
    | cons t' r =>
      intro p hp f
      simp only [sheetPairs, List.mem_cons, List.mem_append] at hp
      rcases hp with rfl | hp | hp
      · exact ht f
      · unfold blankPairs at hp
        by_cases h2 : 2 ≤ W
        · simp only [h2, if_true, List.mem_singleton] at hp
          subst hp; rfl
        · simp [h2] at hp
      · exact ih (fun x hx => hwf x (List.mem_cons_of_mem _ hx)) _ p hp f

/-- the table a handler value holds, if it is one -/
def pairTable (p : Block Row × BlockVal) : Option Precursor :=
  match p.2 with
  | .table q => some q
  | _ => none

/-- the tables among the blocks of a sheet are the written tables, in order -/
theorem sheetPairs_tables (naRep : Str) (W sep : Nat) (tables : List TableVal) (i : Nat) :
    (sheetPairs naRep W sep i tables).filterMap pairTable = tables.map expected := by
  induction tables generalizing i with
  | nil => rfl
  | cons t rest ih =>
    cases rest with
    | nil => simp [sheetPairs, pairTable]
    | cons t' r =>
      have hb : (blankPairs W (i + (tableBlock naRep t).length)).filterMap pairTable = [] := by
        unfold blankPairs; split <;> simp [pairTable]
      simp only [sheetPairs, List.filterMap_cons, List.filterMap_append, hb, List.nil_append, ih, List.map_cons,
        pairTable]

/-- **one sheet**: reading the stored rows of a sheet written from well-formed tables delivers every block without
    an issue, and the tables among them are the written ones in order -/
theorem parseBlocks_sheet (ext : Ext) (tracker : Tracker) (naRep : Str) (hna : naRepOK naRep = true) (sep : Nat)
    (hsep : 1 ≤ sep) (tables : List TableVal) (hwf : ∀ t ∈ tables, excelWF t = true) (f : Fixer) :
    let r := parseBlocks ⟨.pdtable, none, tracker, ext⟩ (store (layoutSheet naRep sep tables)) f
    r.blocks = (sheetPairs naRep (width (layoutSheet naRep sep tables)) sep 0 tables).map
        (fun p => ⟨p.1.ty, p.1.first, p.2⟩) ∧
    r.issues = [] ∧ r.ending = Ending.exhausted := by
  intro r
  show (parseBlocks _ _ f).blocks = _ ∧ (parseBlocks _ _ f).issues = [] ∧ (parseBlocks _ _ f).ending = _
  unfold parseBlocks segment run
  rw [store_layoutSheet]
  cases tables with
  | nil => simp [storedRows, sheetPairs, go, emit, initSt, runBlocks]
  | cons t rest =>
    rw [go_storedRows naRep hna _ sep (width_pos naRep sep t rest) hsep _ hwf (by simp) 0 initSt]
    have : emit (initSt : St Row) = [] := rfl
    rw [this, List.nil_append]
    exact runBlocks_pairs _ rfl _ (sheetPairs_handle ext tracker naRep hna _ sep _ hwf 0) f

/-! ## L. the style index arithmetic -/

theorem tableRows_length (N W i : Nat) (d : Dim) :
    (tableRows N W i d).length = min (i + d.trueRows + 2) N - i := by
  simp [tableRows]

theorem tableRows_row_length (N W i : Nat) (d : Dim) : ∀ r ∈ tableRows N W i d, r.length = min d.trueCols W := by
  intro r hr
  simp only [tableRows, List.mem_map] at hr
  obtain ⟨_, _, rfl⟩ := hr
  simp

/-- every coordinate of the slice lies in the table's rows, inside the sheet -/
theorem tableRows_bounds (N W i : Nat) (d : Dim) : ∀ r ∈ tableRows N W i d, ∀ x ∈ r,
    i ≤ x.1 ∧ x.1 < i + d.trueRows + 2 ∧ x.1 < N ∧ x.2 < W ∧ x.2 < d.trueCols := by
  intro r hr x hx
  simp only [tableRows, List.mem_map, List.mem_range'_1] at hr
  obtain ⟨row, ⟨h1, h2⟩, rfl⟩ := hr
  simp only [List.mem_map, List.mem_range] at hx
  obtain ⟨c, hc, rfl⟩ := hx
  simp only
  omega

/-- the cells of a table lie in the rows `[i, i + trueRows + 2)` of the sheet and inside its width -/
def InRect (N W i k : Nat) (d : Dim) (x : Target) : Prop :=
  x.table = k ∧ i ≤ x.row ∧ x.row < i + d.trueRows + 2 ∧ x.row < N ∧ x.col < W ∧ x.col < d.trueCols

theorem tag_mem (k : Nat) (p : Part) (xs : List (Nat × Nat)) (x : Target) (h : x ∈ tag k p xs) :
    x.table = k ∧ (x.row, x.col) ∈ xs := by
  simp only [tag, List.mem_map] at h
  obtain ⟨y, hy, rfl⟩ := h
  exact ⟨rfl, hy⟩

theorem mem_getD_nil {α : Type} (l : List (List α)) (n : Nat) (y : α) (h : y ∈ l.getD n []) : ∃ r ∈ l, y ∈ r := by
  rw [List.getD_eq_getElem?_getD] at h
  cases hg : l[n]? with
  | none => simp [hg] at h
  | some r => simp [hg] at h; exact ⟨r, List.mem_of_getElem? hg, h⟩

/-- **one table**: with the two header rows inside the sheet (and two columns under a transposed table that has
    lines) the styling of the table raises nothing and touches only cells of the table's own rows -/
theorem styleTable_ok (N W i k : Nat) (d : Dim) (h2 : i + 2 ≤ N)
    (hW : d.transposed = true → i + 2 < N → 1 ≤ d.numCols → 2 ≤ W) :
    ∃ ts, styleTable N W i k d = .ok ts ∧ ∀ x ∈ ts, InRect N W i k d x := by
  have hlen := tableRows_length N W i d
  have hb := tableRows_bounds N W i d
  have hrl := tableRows_row_length N W i d
  unfold styleTable
  cases hT : tableRows N W i d with
  | nil => rw [hT] at hlen; simp at hlen; omega
  | cons r0 tl =>
    cases tl with
    | nil => rw [hT] at hlen; simp at hlen; omega
    | cons r1 rest =>
      rw [hT] at hb hrl hlen
      have hsub : ∀ r ∈ rest, ∀ x ∈ r, i ≤ x.1 ∧ x.1 < i + d.trueRows + 2 ∧ x.1 < N ∧ x.2 < W ∧ x.2 < d.trueCols :=
        fun r hr => hb r (List.mem_cons_of_mem _ (List.mem_cons_of_mem _ hr))
      have hin : ∀ (p : Part) (xs : List (Nat × Nat)),
          (∀ y ∈ xs, i ≤ y.1 ∧ y.1 < i + d.trueRows + 2 ∧ y.1 < N ∧ y.2 < W ∧ y.2 < d.trueCols) →
          ∀ x ∈ tag k p xs, InRect N W i k d x := by
        intro p xs hxs x hx
        obtain ⟨e, hm⟩ := tag_mem k p xs x hx
        exact ⟨e, hxs _ hm⟩
      have h0 := hin .tableName r0 (hb r0 (by simp))
      have h1 := hin .destinations r1 (hb r1 (by simp))
      cases hd : d.transposed
      · -- row-wise
        simp only [Bool.false_eq_true, if_false]
        refine ⟨_, rfl, ?_⟩
        intro x hx
        simp only [List.mem_append] at hx
        rcases hx with (((hx | hx) | hx) | hx) | hx
        · exact h0 x hx
        · exact h1 x hx
        · refine hin .columnNames _ ?_ x hx
          intro y hy
          obtain ⟨r, hr, hyr⟩ := mem_getD_nil rest 0 y hy
          exact hsub r hr y hyr
        · refine hin .units _ ?_ x hx
          intro y hy
          obtain ⟨r, hr, hyr⟩ := mem_getD_nil rest 1 y hy
          exact hsub r hr y hyr
        · refine hin .values _ ?_ x hx
          intro y hy
          simp only [List.mem_flatten] at hy
          obtain ⟨r, hr, hyr⟩ := hy
          exact hsub r (List.mem_of_mem_drop hr) y hyr
      · -- transposed
        have hany : rest.any (fun t => decide (t.length < 2)) = false := by
          rw [List.any_eq_false]
          intro r hr
          have hl := hrl r (List.mem_cons_of_mem _ (List.mem_cons_of_mem _ hr))
          have hne : rest ≠ [] := List.ne_nil_of_mem hr
          have h3 : 3 ≤ min (i + d.trueRows + 2) N - i := by
            cases rest with
            | nil => exact absurd rfl hne
            | cons a b => simp at hlen; omega
          have hcols : 1 ≤ d.numCols := by
            simp only [Dim.trueRows, hd, if_true] at h3; omega
          have := hW hd (by omega) hcols
          simp only [Dim.trueCols, hd, if_true] at hl
          simp only [decide_eq_true_eq]
          omega
        simp only [if_true, hany, Bool.false_eq_true, if_false]
        refine ⟨_, rfl, ?_⟩
        have hflat : ∀ (g : List (Nat × Nat) → List (Nat × Nat)), (∀ t, ∀ y ∈ g t, y ∈ t) →
            ∀ y ∈ rest.flatMap g, i ≤ y.1 ∧ y.1 < i + d.trueRows + 2 ∧ y.1 < N ∧ y.2 < W ∧ y.2 < d.trueCols := by
          intro g hg y hy
          simp only [List.mem_flatMap] at hy
          obtain ⟨r, hr, hyr⟩ := hy
          exact hsub r hr y (hg r y hyr)
        have gn := hflat (fun t => t.take 1) (fun t y hy => List.mem_of_mem_take hy)
        have gu := hflat (fun t => (t.drop 1).take 1) (fun t y hy => List.mem_of_mem_drop (List.mem_of_mem_take hy))
        have gv := hflat (fun t => t.drop 2) (fun t y hy => List.mem_of_mem_drop hy)
        intro x hx
        simp only [List.mem_append] at hx
        rcases hx with (((((hx | hx) | hx) | hx) | hx) | hx) | hx
        · exact h0 x hx
        · exact h1 x hx
        · exact hin .columnNames _ gn x hx
        · exact hin .units _ gu x hx
        · exact hin .values _ gv x hx
        · exact hin .centeredUnits _ gu x hx
        · exact hin .centeredValues _ gv x hx

/-- where the loop of `_style_tables_in_worksheet` expects the tables: `i` is the sheet row of the first header -/
def Fits (N W sep : Nat) : Nat → List Dim → Prop
  | _, [] => True
  | i, d :: ds =>
    (i + 2 ≤ N ∧ (d.transposed = true → i + 2 < N → 1 ≤ d.numCols → 2 ≤ W)) ∧
      Fits N W sep (i + d.trueRows + 2 + sep) ds

/-- a target lies in the rows of the table it is tagged with -/
def InOwn (N W sep : Nat) : Nat → Nat → List Dim → Target → Prop
  | _, _, [], _ => False
  | i, k, d :: ds, x => InRect N W i k d x ∨ InOwn N W sep (i + d.trueRows + 2 + sep) (k + 1) ds x

theorem styleTargets_ok (N W sep : Nat) (dims : List Dim) (i k : Nat) (h : Fits N W sep i dims) :
    ∃ ts, styleTargets N W sep i k dims = .ok ts ∧ ∀ x ∈ ts, InOwn N W sep i k dims x := by
  induction dims generalizing i k with
  | nil => exact ⟨[], rfl, by simp⟩
  | cons d ds ih =>
    obtain ⟨⟨h2, hW⟩, hrest⟩ := h
    obtain ⟨a, ha, hax⟩ := styleTable_ok N W i k d h2 hW
    obtain ⟨b, hb, hbx⟩ := ih (i + d.trueRows + 2 + sep) (k + 1) hrest
    refine ⟨a ++ b, by simp [styleTargets, ha, hb, bind, Except.bind, pure, Except.pure], ?_⟩
    intro x hx
    rcases List.mem_append.1 hx with hx | hx
    · exact Or.inl (hax x hx)
    · exact Or.inr (hbx x hx)

theorem layoutTable_length (naRep : Str) (t : TableVal) : (layoutTable naRep t).length = (dimOf t).trueRows + 2 := by
  unfold layoutTable dimOf Dim.trueRows
  cases t.transposed <;> simp <;> omega

theorem tableBlock_length_ge (naRep : Str) (t : TableVal) : 2 ≤ (tableBlock naRep t).length := by
  unfold tableBlock layoutTable
  split
  · simp
  · split <;> simp

theorem rawRows_length_cons (naRep : Str) (sep : Nat) (t t' : TableVal) (r : List TableVal) :
    (rawRows naRep sep (t :: t' :: r)).length =
      (layoutTable naRep t).length + sep + (rawRows naRep sep (t' :: r)).length := by
  simp only [rawRows, List.length_append, List.length_replicate, layoutTable_split]
  omega

/-- the tables as written satisfy the expectations of the style loop, for every table shape -/
theorem fits_layout (naRep : Str) (sep : Nat) (tables : List TableVal) (N W i : Nat)
    (hN : i + (rawRows naRep sep tables).length ≤ N)
    (hW : ∀ t ∈ tables, ∀ r ∈ layoutTable naRep t, r.length ≤ W) :
    Fits N W sep i (tables.map dimOf) := by
  induction tables generalizing i with
  | nil => trivial
  | cons t rest ih =>
    have hblock := tableBlock_length_ge naRep t
    have hfirst : i + 2 ≤ N := by
      cases rest with
      | nil => simp only [rawRows] at hN; omega
      | cons t' r => simp only [rawRows, List.length_append] at hN; omega
    refine ⟨⟨hfirst, ?_⟩, ?_⟩
    · intro htr _ hcols
      simp only [dimOf] at htr hcols
      cases hc : t.columns with
      | nil => rw [hc] at hcols; simp at hcols
      | cons c cs =>
        have hmem : (Cell.str c.name :: Cell.str c.unit :: reprCol naRep c.unit 0 c.values) ∈ layoutTable naRep t := by
          simp [layoutTable, htr, hc]
        have := hW t (by simp) _ hmem
        simp at this; omega
    · cases rest with
      | nil => trivial
      | cons t' r =>
        apply ih
        · rw [rawRows_length_cons, layoutTable_length] at hN; omega
        · exact fun x hx => hW x (List.mem_cons_of_mem _ hx)

/-! ## M. sheet width of well-formed tables -/

theorem foldl_max_le (rows : List Row) (a B : Nat) (ha : a ≤ B) (h : ∀ r ∈ rows, r.length ≤ B) :
    rows.foldl (fun m r => max m r.length) a ≤ B := by
  induction rows generalizing a with
  | nil => simpa using ha
  | cons x xs ih =>
    simp only [List.foldl_cons]
    apply ih
    · have := h x (by simp); omega
    · exact fun r hr => h r (List.mem_cons_of_mem _ hr)

theorem width_le (rows : List Row) (B : Nat) (h : ∀ r ∈ rows, r.length ≤ B) : width rows ≤ B :=
  foldl_max_le rows 0 B (Nat.zero_le _) h

/-- no row of a well-formed table is wider than openpyxl can address -/
theorem layoutTable_row_le (naRep : Str) (t : TableVal) (h : excelWF t = true) :
    ∀ r ∈ layoutTable naRep t, r.length ≤ maxColumns := by
  obtain ⟨_, _, _, _, _, _, _, w8, _, _⟩ := excelWF_facts t h
  have hsz := (excelWF_size t h).2.2
  simp only [dimOf, Dim.trueCols] at hsz
  have h1 : 1 ≤ maxColumns := by decide
  intro r hr
  simp only [layoutTable, List.mem_cons] at hr
  rcases hr with rfl | rfl | hr
  · simpa using h1
  · simpa using h1
  · cases ht : t.transposed
    · simp only [ht, Bool.false_eq_true, if_false] at hr hsz
      simp only [List.mem_cons, List.mem_map, List.mem_range] at hr
      rcases hr with rfl | rfl | ⟨i, _, rfl⟩
      · simpa using hsz
      · simpa using hsz
      · rw [reprRow_length]; exact hsz
    · simp only [ht, if_true] at hr hsz
      simp only [List.mem_map] at hr
      obtain ⟨c, hc, rfl⟩ := hr
      have := (columnOK_facts t.nRows c (w8 c hc)).2.2.2.2.1
      simp only [List.length_cons, reprCol_length, this]
      omega

theorem width_layoutSheet_le (naRep : Str) (sep : Nat) (tables : List TableVal)
    (hwf : ∀ t ∈ tables, excelWF t = true) : width (layoutSheet naRep sep tables) ≤ maxColumns := by
  apply width_le
  intro r hr
  simp only [layoutSheet, List.mem_flatMap, List.mem_append] at hr
  obtain ⟨t, ht, hr | hr⟩ := hr
  · exact layoutTable_row_le naRep t (hwf t ht) r hr
  · simp only [sepRows, List.mem_replicate] at hr
    rw [hr.2]; exact Nat.zero_le _

end Pdt.Grid
