/-
  Lemmas/Write.lean — stage A of the CSV round trip: the rows `read_csv` sees for a text written by
  `write_csv` are, line by line, the cell texts the writer joined (an empty cell list reads back as one
  empty cell), followed by the blank rows that end the block.
-/
import PdtModel.Model.Write
import PdtModel.Lemmas.Text
set_option linter.unusedSimpArgs false
namespace Pdt.Write
open Pdt Pdt.Reader Pdt.Represent

theorem mem_joinWith (sep c : Char) (xs : List Str) (h : c ∈ joinWith sep xs) :
    c = sep ∨ ∃ x ∈ xs, c ∈ x := by
  induction xs with
  | nil => simp [joinWith] at h
  | cons x rest ih =>
    cases rest with
    | nil => simp [joinWith] at h; exact Or.inr ⟨x, by simp, h⟩
    | cons y ys =>
      simp only [joinWith, List.mem_append, List.mem_cons] at h
      rcases h with h | h | h
      · exact Or.inr ⟨x, by simp, h⟩
      · exact Or.inl h
      · rcases ih h with e | ⟨z, hz, hc⟩
        · exact Or.inl e
        · exact Or.inr ⟨z, List.mem_cons_of_mem _ hz, hc⟩

theorem splitOn_unlines (ls : List Str) (h : ∀ l ∈ ls, '\n' ∉ l) :
    splitOn '\n' (unlines ls) = ls ++ [[]] := by
  induction ls with
  | nil => rfl
  | cons l rest ih =>
    have hl := h l (by simp)
    simp only [unlines, List.flatMap_cons, List.append_assoc, List.singleton_append]
    rw [splitOn_append_sep '\n' l _ hl]
    have := ih (fun x hx => h x (List.mem_cons_of_mem _ hx))
    simp only [unlines] at this
    rw [this]; rfl

/-- iterating over the written text gives back exactly the written lines -/
theorem linesOf_unlines (ls : List Str) (h : ∀ l ∈ ls, '\n' ∉ l) : linesOf (unlines ls) = ls := by
  unfold linesOf
  simp only [splitOn_unlines ls h]
  simp

/-- what `"".join / split` makes of a cell list: `sep.join([])` is "" which splits into one empty cell -/
def readCells (cs : List Str) : List Str := match cs with | [] => [[]] | _ => cs

theorem splitOn_joinLine (sep : Char) (cs : List Str) (h : ∀ x ∈ cs, sep ∉ x) :
    splitOn sep (joinLine sep cs) = readCells cs := by
  cases cs with
  | nil => rfl
  | cons x xs => exact splitOn_joinWith sep (x :: xs) (by simp) h

def strRow (cs : List Str) : Row := cs.map Cell.str
def blankRow : Row := [.str []]

/-- the rows of a written table as `read_csv` sees them (before the blank rows that end it) -/
def tableRows (naRep : Str) (t : TableVal) : List Row :=
  (tableCells naRep t).map (fun cs => strRow (readCells cs))

def dataEmpty (t : TableVal) : Bool := if t.transposed then t.columns.isEmpty else t.nRows = 0

def tailBlanks (t : TableVal) : List Row := (if dataEmpty t then [blankRow] else []) ++ [blankRow]

/-- no written cell text contains the separator, a newline or a carriage return (which the universal-newline
    translation of a text file read by path turns into a newline) -/
def CellsClean (sep : Char) (naRep : Str) (t : TableVal) : Prop :=
  ∀ row ∈ tableCells naRep t, ∀ x ∈ row, sep ∉ x ∧ '\n' ∉ x ∧ '\r' ∉ x

theorem tableLines_eq (sep : Char) (naRep : Str) (t : TableVal) :
    tableLines sep naRep t =
      (tableCells naRep t).map (joinLine sep) ++ (if dataEmpty t then [[]] else []) ++ [[]] := by
  unfold tableLines dataEmpty
  by_cases ht : t.transposed = true <;> simp [ht]

theorem readRows_table (sep : Char) (naRep : Str) (t : TableVal) (hsep : sep ≠ '\n')
    (hc : CellsClean sep naRep t) :
    (tableLines sep naRep t).map (fun l => (splitOn sep l).map Cell.str) = tableRows naRep t ++ tailBlanks t := by
  rw [tableLines_eq]
  have h1 : ((tableCells naRep t).map (joinLine sep)).map (fun l => (splitOn sep l).map Cell.str)
      = tableRows naRep t := by
    simp only [List.map_map, tableRows]
    apply List.map_congr_left
    intro cs hcs
    simp only [Function.comp, strRow]
    rw [splitOn_joinLine sep cs (fun x hx => (hc cs hcs x hx).1)]
  have h2 : ((if dataEmpty t = true then [[]] else [] : List Str) ++ [[]]).map
      (fun l => (splitOn sep l).map Cell.str) = tailBlanks t := by
    unfold tailBlanks
    by_cases hd : dataEmpty t = true <;> simp [hd, blankRow, splitOn]
  rw [List.append_assoc, List.map_append, h1, h2]

theorem tableLines_no_newline (sep : Char) (naRep : Str) (t : TableVal) (hsep : sep ≠ '\n')
    (hc : CellsClean sep naRep t) : ∀ l ∈ tableLines sep naRep t, '\n' ∉ l := by
  intro l hl
  rw [tableLines_eq] at hl
  simp only [List.mem_append, List.mem_map] at hl
  rcases hl with (⟨cs, hcs, rfl⟩ | hl) | hl
  · intro hmem
    rcases mem_joinWith sep '\n' cs hmem with e | ⟨x, hx, hxc⟩
    · exact hsep e.symm
    · exact (hc cs hcs x hx).2.1 hxc
  · by_cases hd : dataEmpty t = true <;> simp [hd] at hl
    subst hl; simp
  · simp at hl; subst hl; simp

/-- **stage A**: reading the written text gives, table after table, the written cell rows followed by
    the blank rows that end each block -/
theorem readRows_writeCsv (sep : Char) (naRep : Str) (ts : List TableVal) (hsep : sep ≠ '\n')
    (hc : ∀ t ∈ ts, CellsClean sep naRep t) :
    readRows sep (writeCsv sep naRep ts) = ts.flatMap (fun t => tableRows naRep t ++ tailBlanks t) := by
  unfold readRows writeCsv
  rw [linesOf_unlines]
  · induction ts with
    | nil => rfl
    | cons t rest ih =>
      simp only [List.flatMap_cons, List.map_append]
      rw [readRows_table sep naRep t hsep (hc t (by simp)),
          ih (fun u hu => hc u (List.mem_cons_of_mem _ hu))]
  · intro l hl
    simp only [List.mem_flatMap] at hl
    obtain ⟨t, ht, hlt⟩ := hl
    exact tableLines_no_newline sep naRep t hsep (hc t ht) l hlt

end Pdt.Write
