/-
  Lemmas/Roundtrip.lean — stage C of the CSV round trip, column level: parsing the rendered texts of a
  well-formed column gives back its values.
-/
import PdtModel.Model.Write
import PdtModel.Model.WriteWF
import PdtModel.Props.C02
set_option linter.unusedSimpArgs false
namespace Pdt.Write
open Pdt Pdt.Reader Pdt.Represent

/-- the external `float()` reads back a rendered numeral as the same number, and the numeral is not
    mistaken for a missing-value marker -/
structure NumOK (ext : Ext) (tok : Str) : Prop where
  notNa : tok ≠ NaN
  notMarker : Gen.missingFloatConvert.contains (normalize tok) = false
  parse : ext.parseFloat tok = some tok

/-- an integer column value: `str(i)` is read back as `float(i)`, printed `i.0` (|i| < 2^53) -/
structure IntOK (ext : Ext) (i : Int) : Prop where
  notMarker : Gen.missingFloatConvert.contains (normalize (intToStr i)) = false
  parse : ext.parseFloat (intToStr i) = some (intToStr i ++ ".0".toList)

/-- the external `to_datetime` reads back a rendered timestamp as the same timestamp; the rendering starts
    with a digit, has no surrounding blanks and is not a marker -/
structure DtOK (ext : Ext) (tok : Str) : Prop where
  notNa : tok ≠ NaT
  stripped : strip (dtText tok) = dtText tok
  digit : ∃ c cs, dtText tok = c :: cs ∧ ext.isDigit c = true
  notMarker : isMissingMarker (dtText tok) = false
  parse : ext.parseDt (dtText tok) = .ok tok

/-- the value the reader delivers for a stored value (numbers by value: an int64 `3` comes back as `3.0`) -/
inductive Obs | text (s : Str) | bool (b : Bool) | num (tok : Str) | dt (tok : Str)
  deriving DecidableEq, Repr

def obsVal : Val → Obs
  | .text s => .text s
  | .bool b => .bool b
  | .num t => .num t
  | .int i => .num (intToStr i ++ ".0".toList)
  | .dt t => .dt t

/-- a column value is well formed for its unit (and its position `pos`, the argument of the sealant test) -/
def ValOK (ext : Ext) (unit : Str) (pos : Nat) (v : Val) : Prop :=
  if unit = uText then ∃ s, v = .text s ∧ (pos = 0 → s ≠ []) ∧ s.getLast? ≠ some '\x00'
  else if unit = uOnoff then ∃ b, v = .bool b
  else if unit = uDatetime then ∃ t, v = .dt t ∧ (t = NaT ∨ DtOK ext t)
  else (∃ t, v = .num t ∧ (t = NaN ∨ NumOK ext t)) ∨ (∃ i, v = .int i ∧ IntOK ext i)

def textOf : Val → Str | .text s => s | _ => []
def boolOf : Val → Bool | .bool b => b | _ => false
def dtOf : Val → Str | .dt t => t | _ => NaT
def numOf : Val → Str | .num t => t | .int i => intToStr i ++ ".0".toList | _ => NaN

/-- the parsed column, by unit -/
def obsCol (unit : Str) (vs : List Val) : ColVals :=
  if unit = uText then .text (vs.map textOf)
  else if unit = uOnoff then .onoff (vs.map boolOf)
  else if unit = uDatetime then .dt (vs.map dtOf)
  else .num (vs.map numOf)

/-- the missing-value representation is itself a marker (default "-") -/
def NaRepOK (naRep : Str) : Prop :=
  Gen.missingFloatConvert.contains (normalize naRep) = true ∧ isMissingMarker (strip naRep) = true ∧ strip naRep ≠ []

theorem naRep_default_ok : NaRepOK "-".toList := by
  refine ⟨by decide, by decide, by decide⟩

theorem uText_ne_uOnoff : uText ≠ uOnoff := by decide
theorem uText_ne_uDatetime : uText ≠ uDatetime := by decide
theorem uOnoff_ne_uDatetime : uOnoff ≠ uDatetime := by decide

/-! ### rendered texts, unit by unit -/

theorem cellText_text (naRep : Str) (pos : Nat) (s : Str) (h : pos = 0 → s ≠ []) :
    cellText naRep pos uText (.text s) = s := by
  unfold cellText represent
  have h1 : (uText = uOnoff) = False := eq_false uText_ne_uOnoff
  by_cases hs : s = []
  · subst hs
    have hp : pos ≠ 0 := fun e => h e rfl
    simp [Val.isNa, Cell.pyStr, h1, hp]
  · simp [Val.isNa, Cell.pyStr, h1, hs]

theorem cellText_bool (naRep : Str) (pos : Nat) (b : Bool) :
    cellText naRep pos uOnoff (.bool b) = (if b then "1".toList else "0".toList) := by
  unfold cellText represent
  cases b <;> simp [Val.isNa, Cell.pyStr] <;> decide

theorem cellText_na (naRep : Str) (pos : Nat) (unit : Str) (v : Val) (hu : unit ≠ uText) (hv : v.isNa = true) :
    cellText naRep pos unit v = naRep := by
  unfold cellText represent
  simp [hu, hv, Cell.pyStr]

theorem cellText_dt (naRep : Str) (pos : Nat) (t : Str) (ht : t ≠ NaT) :
    cellText naRep pos uDatetime (.dt t) = dtText t := by
  unfold cellText represent
  have h1 : (uDatetime = uOnoff) = False := eq_false (fun e => uOnoff_ne_uDatetime e.symm)
  have h2 : (uDatetime = uText) = False := eq_false (fun e => uText_ne_uDatetime e.symm)
  simp [Val.isNa, ht, h1, h2, Cell.pyStr, dtText]

theorem cellText_num (naRep : Str) (pos : Nat) (unit : Str) (t : Str) (h1 : unit ≠ uText) (h2 : unit ≠ uOnoff)
    (h3 : unit ≠ uDatetime) (ht : t ≠ NaN) : cellText naRep pos unit (.num t) = t := by
  unfold cellText represent
  simp [Val.isNa, ht, h1, h2, h3, Cell.pyStr]

theorem cellText_int (naRep : Str) (pos : Nat) (unit : Str) (i : Int) (h1 : unit ≠ uText) (h2 : unit ≠ uOnoff)
    (h3 : unit ≠ uDatetime) : cellText naRep pos unit (.int i) = intToStr i := by
  unfold cellText represent
  simp [Val.isNa, h1, h2, h3, Cell.pyStr]

/-! ### parsing the rendered texts of a column gives back its values -/

theorem parseWith_all_some {α : Type} (cellFn : Cell → Option α) (rep : FixCfg → α) (vt : String)
    (txt : Cell → Str) (cells : List Cell) (f : Fixer) (vals : List α)
    (h : cells.map cellFn = vals.map some) :
    parseWith cellFn rep vt txt cells f = (vals, f) := by
  induction cells generalizing vals with
  | nil => cases vals <;> simp_all [parseWith]
  | cons c cs ih =>
    cases vals with
    | nil => simp at h
    | cons v vs =>
      simp only [List.map_cons, List.cons.injEq] at h
      unfold parseWith
      rw [h.1]
      simp [ih vs h.2]

theorem parseDatetime_all_ok (ext : Ext) (cells : List Cell) (f : Fixer) (vals : List Str)
    (h : ∀ p ∈ cells.zip vals, dtCell ext p.1 = .ok p.2) (hl : cells.length = vals.length) :
    parseDatetime ext cells f = .ok (vals, f) := by
  induction cells generalizing vals with
  | nil => cases vals <;> simp_all [parseDatetime]
  | cons c cs ih =>
    cases vals with
    | nil => simp at hl
    | cons v vs =>
      have hc : dtCell ext c = .ok v := h (c, v) (by simp)
      unfold parseDatetime
      rw [hc]
      simp only []
      rw [ih vs (fun p hp => h p (by simp [hp])) (by simpa using hl)]
      rfl

theorem onoff_rendered (b : Bool) : onoffCell (.str (if b then "1".toList else "0".toList)) = some b := by
  cases b <;> decide

/-- `dtCell` on text, as a function of the stripped text -/
def dtStr (ext : Ext) : Str → DtCell
  | [] => .fix
  | c :: cs =>
    if ext.isDigit c || isMissingMarker (c :: cs) then
      if isMissingMarker (c :: cs) then .ok NaT
      else match ext.parseDt (c :: cs) with
        | .ok t => .ok t
        | .valueError => .fix
        | .raises n => .raises n
    else .fix

theorem dtCell_str (ext : Ext) (s : Str) : dtCell ext (.str s) = dtStr ext (strip s) := by
  simp only [dtCell]
  cases strip s <;> rfl

theorem dtCell_naRep (ext : Ext) (naRep : Str) (hna : NaRepOK naRep) : dtCell ext (.str naRep) = .ok NaT := by
  rw [dtCell_str]
  obtain ⟨_, h2, h3⟩ := hna
  cases hv : strip naRep with
  | nil => exact absurd hv h3
  | cons c cs =>
    rw [hv] at h2
    simp [dtStr, h2]

theorem dtCell_rendered (ext : Ext) (t : Str) (h : DtOK ext t) : dtCell ext (.str (dtText t)) = .ok t := by
  rw [dtCell_str, h.stripped]
  obtain ⟨c, cs, hcs, hd⟩ := h.digit
  have hm := h.notMarker
  have hp := h.parse
  rw [hcs] at hm hp ⊢
  simp [dtStr, hd, hm, hp]

theorem floatCell_naRep (ext : Ext) (naRep : Str) (hna : NaRepOK naRep) : floatCell ext (.str naRep) = some NaN := by
  show (if Gen.missingFloatConvert.contains (normalize naRep) = true then some NaN else ext.parseFloat naRep) = _
  rw [hna.1]; rfl

theorem floatCell_num (ext : Ext) (t : Str) (h : NumOK ext t) : floatCell ext (.str t) = some t := by
  show (if Gen.missingFloatConvert.contains (normalize t) = true then some NaN else ext.parseFloat t) = _
  rw [h.notMarker, h.parse]; rfl

theorem floatCell_int (ext : Ext) (i : Int) (h : IntOK ext i) :
    floatCell ext (.str (intToStr i)) = some (intToStr i ++ ".0".toList) := by
  show (if Gen.missingFloatConvert.contains (normalize (intToStr i)) = true then some NaN
        else ext.parseFloat (intToStr i)) = _
  rw [h.notMarker, h.parse]; rfl

/-- **a well-formed column reads back**: parsing the rendered texts of its values (each rendered at its own
    position `p.2`) yields exactly the observed values and never calls the fixer -/
theorem parse_rendered (ext : Ext) (naRep : Str) (hna : NaRepOK naRep) (unit : Str) (ps : List (Val × Nat))
    (f : Fixer) (h : ∀ p ∈ ps, ValOK ext unit p.2 p.1) :
    parseColumn ext unit (ps.map (fun p => Cell.str (cellText naRep p.2 unit p.1))) f =
      .ok (obsCol unit (ps.map (·.1)), f) := by
  unfold parseColumn obsCol
  by_cases h1 : unit = uText
  · subst h1
    simp only [if_true, List.map_map]
    congr 3
    apply List.map_congr_left
    intro p hp
    have := h p hp
    simp only [ValOK, if_true] at this
    obtain ⟨s, hs, hpos, hnul⟩ := this
    simp only [Function.comp, hs, textCell, Cell.pyStr]
    rw [cellText_text naRep p.2 s hpos]
    exact C02.rstripNul_id s hnul
  · rw [if_neg h1, if_neg h1]
    by_cases h2 : unit = uOnoff
    · subst h2
      simp only [if_true]
      have hv : (ps.map (fun p => Cell.str (cellText naRep p.2 uOnoff p.1))).map onoffCell =
          ((ps.map (·.1)).map boolOf).map some := by
        simp only [List.map_map]
        apply List.map_congr_left
        intro p hp
        have := h p hp
        simp only [ValOK, if_neg uText_ne_uOnoff.symm, if_true] at this
        obtain ⟨b, hb⟩ := this
        simp only [Function.comp, hb, cellText_bool]
        exact onoff_rendered b
      unfold parseOnoff
      rw [parseWith_all_some onoffCell _ _ _ _ f _ hv]
    · rw [if_neg h2, if_neg h2]
      by_cases h3 : unit = uDatetime
      · subst h3
        simp only [if_true]
        have hv : ∀ q ∈ (ps.map (fun p => Cell.str (cellText naRep p.2 uDatetime p.1))).zip
            ((ps.map (·.1)).map dtOf), dtCell ext q.1 = .ok q.2 := by
          intro q hq
          rw [List.map_map, List.zip_map', List.mem_map] at hq
          obtain ⟨p, hp, rfl⟩ := hq
          have := h p hp
          simp only [ValOK, if_neg uText_ne_uDatetime.symm, if_neg uOnoff_ne_uDatetime.symm, if_true] at this
          obtain ⟨t, ht, hok⟩ := this
          simp only [Function.comp, ht]
          rcases hok with rfl | hok
          · rw [cellText_na naRep p.2 uDatetime (.dt NaT) uText_ne_uDatetime.symm (by simp [Val.isNa])]
            exact dtCell_naRep ext naRep hna
          · rw [cellText_dt naRep p.2 t hok.notNa]
            exact dtCell_rendered ext t hok
        rw [parseDatetime_all_ok ext _ f _ hv (by simp)]
        rfl
      · rw [if_neg h3, if_neg h3]
        have hv : (ps.map (fun p => Cell.str (cellText naRep p.2 unit p.1))).map (floatCell ext) =
            ((ps.map (·.1)).map numOf).map some := by
          simp only [List.map_map]
          apply List.map_congr_left
          intro p hp
          have := h p hp
          simp only [ValOK, if_neg h1, if_neg h2, if_neg h3] at this
          rcases this with ⟨t, ht, hok⟩ | ⟨i, hi, hok⟩
          · simp only [Function.comp, ht]
            rcases hok with rfl | hok
            · rw [cellText_na naRep p.2 unit (.num NaN) h1 (by simp [Val.isNa])]
              exact floatCell_naRep ext naRep hna
            · rw [cellText_num naRep p.2 unit t h1 h2 h3 hok.notNa]
              exact floatCell_num ext t hok
          · simp only [Function.comp, hi]
            rw [cellText_int naRep p.2 unit i h1 h2 h3]
            exact floatCell_int ext i hok
        unfold parseFloat
        rw [parseWith_all_some (floatCell ext) _ _ _ _ f _ hv]

end Pdt.Write
