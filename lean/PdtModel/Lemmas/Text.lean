import PdtModel.Model.Text
set_option linter.unusedSimpArgs false
namespace Pdt

theorem dropWhile_idem {α} (p : α → Bool) (l : List α) : (l.dropWhile p).dropWhile p = l.dropWhile p := by
  induction l with
  | nil => simp
  | cons x xs ih =>
    by_cases h : p x
    · simp [List.dropWhile_cons, h, ih]
    · simp [List.dropWhile_cons, h]

theorem dropWhile_eq_self {α} (p : α → Bool) (l : List α) (h : ∀ x, l.head? = some x → p x = false) :
    l.dropWhile p = l := by
  cases l with
  | nil => simp
  | cons x xs => simp [List.dropWhile_cons, h x (by simp)]

theorem head_dropWhile_not {α} (p : α → Bool) (l : List α) :
    ∀ x, (l.dropWhile p).head? = some x → p x = false := by
  induction l with
  | nil => simp
  | cons y ys ih =>
    intro x hx
    by_cases h : p y
    · simp [List.dropWhile_cons, h] at hx; exact ih x hx
    · simp [List.dropWhile_cons, h] at hx; subst hx; simpa using h

theorem lstrip_idem (s : Str) : lstrip (lstrip s) = lstrip s := dropWhile_idem _ _

theorem rstrip_idem (s : Str) : rstrip (rstrip s) = rstrip s := by
  simp [rstrip, dropWhile_idem]

theorem rstrip_cons (c : Char) (cs : Str) (hc : isSpace c = false) :
    rstrip (c :: cs) = c :: rstrip cs := by
  unfold rstrip
  rw [List.reverse_cons, List.dropWhile_append]
  by_cases h : (List.dropWhile isSpace cs.reverse).isEmpty = true
  · have h' : List.dropWhile isSpace cs.reverse = [] := by simpa using h
    simp [h, h', List.dropWhile_cons, hc]
  · simp [h]

/-- `rstrip` only removes a suffix: a non-space head survives -/
theorem head_rstrip (c : Char) (cs : Str) (hc : isSpace c = false) :
    (rstrip (c :: cs)).head? = some c := by
  rw [rstrip_cons c cs hc]; rfl

theorem lstrip_rstrip_lstrip (s : Str) : lstrip (rstrip (lstrip s)) = rstrip (lstrip s) := by
  cases h : lstrip s with
  | nil => simp [rstrip, lstrip]
  | cons c cs =>
    have hc : isSpace c = false := head_dropWhile_not isSpace s c (by unfold lstrip at h; simp [h])
    apply dropWhile_eq_self
    intro x hx
    rw [head_rstrip c cs hc] at hx
    cases hx; exact hc

/-- Python: `s.strip().strip() == s.strip()` -/
theorem strip_idem (s : Str) : strip (strip s) = strip s := by
  unfold strip
  rw [lstrip_rstrip_lstrip, rstrip_idem]

end Pdt

namespace Pdt

/-! ### split / join -/

theorem splitOn_ne_nil (sep : Char) (s : Str) : splitOn sep s ≠ [] := by
  induction s with
  | nil => simp [splitOn]
  | cons c cs ih =>
    unfold splitOn
    split
    · simp
    · split <;> simp

theorem splitOn_no_sep (sep : Char) (s : Str) (h : sep ∉ s) : splitOn sep s = [s] := by
  induction s with
  | nil => rfl
  | cons c cs ih =>
    have hc : c ≠ sep := fun e => h (by simp [e])
    have hcs : sep ∉ cs := fun e => h (List.mem_cons_of_mem _ e)
    simp [splitOn, hc, ih hcs]

theorem splitOn_append_sep (sep : Char) (l r : Str) (h : sep ∉ l) :
    splitOn sep (l ++ sep :: r) = l :: splitOn sep r := by
  induction l with
  | nil => simp [splitOn]
  | cons c cs ih =>
    have hc : c ≠ sep := fun e => h (by simp [e])
    have hcs : sep ∉ cs := fun e => h (List.mem_cons_of_mem _ e)
    simp [splitOn, hc, ih hcs]

/-- `sep.join(xs).split(sep) == xs` for a non-empty list of separator-free strings -/
theorem splitOn_joinWith (sep : Char) (xs : List Str) (hne : xs ≠ []) (h : ∀ x ∈ xs, sep ∉ x) :
    splitOn sep (joinWith sep xs) = xs := by
  induction xs with
  | nil => exact absurd rfl hne
  | cons x rest ih =>
    cases rest with
    | nil => simp [joinWith, splitOn_no_sep sep x (h x (by simp))]
    | cons y ys =>
      have hx := h x (by simp)
      simp only [joinWith]
      rw [splitOn_append_sep sep x _ hx, ih (by simp) (fun z hz => h z (List.mem_cons_of_mem _ hz))]

/-- `"".split(sep) == [""]`: an empty line is one empty cell -/
theorem splitOn_nil (sep : Char) : splitOn sep [] = [[]] := rfl

end Pdt
