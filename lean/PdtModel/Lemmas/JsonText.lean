/-
  Lemmas/JsonText.lean — the decoder of Model/JsonText.lean inverts its encoder:
    hex digits and `\\uXXXX` escapes (BMP and surrogate pairs), one encoded character, a whole string literal,
    numerals (the maximal run of numeral characters is the token when the next character is a delimiter),
    and by mutual induction over the nested value: `parseV (dumps v ++ rest) = some (v, rest)`.
  Main results: `parseString_dumpsStr`, `parseV_dumps`, `parseTail_dumps`, `parseMTail_dumps`; `JWF` is the
  well-formedness they need.  Core Lean only.
-/
import PdtModel.Model.JsonText
import PdtModel.Lemmas.Json
set_option linter.unusedSimpArgs false
namespace Pdt.C08
open Pdt Pdt.Json Pdt.JsonText

theorem hexVal_hexChar : ∀ d, d < 16 → hexVal (hexChar d) = some d := by decide

theorem hex4Val_hex4 (n : Nat) (h : n < 65536) :
    hex4Val (hexChar (n / 4096 % 16)) (hexChar (n / 256 % 16)) (hexChar (n / 16 % 16)) (hexChar (n % 16)) = some n := by
  unfold hex4Val
  rw [hexVal_hexChar _ (Nat.mod_lt _ (by decide)), hexVal_hexChar _ (Nat.mod_lt _ (by decide)),
    hexVal_hexChar _ (Nat.mod_lt _ (by decide)), hexVal_hexChar _ (Nat.mod_lt _ (by decide))]
  simp only [Option.some.injEq]
  omega

/-- a `\uXXXX` escape of a BMP code point that is not a surrogate decodes to that code point -/
theorem decodeEscape_u (n : Nat) (rest : Str) (h : n < 65536) (hs : ¬ (55296 ≤ n ∧ n ≤ 57343)) :
    decodeEscape ('u' :: (hex4 n ++ rest)) = some (Char.ofNat n, rest) := by
  have hv := hex4Val_hex4 n h
  have h1 : ¬ (55296 ≤ n ∧ n ≤ 56319) := by omega
  have h2 : ¬ (56320 ≤ n ∧ n ≤ 57343) := by omega
  simp only [hex4, List.cons_append, List.nil_append, decodeEscape, hv, h1, h2, if_false]

/-- a high + low surrogate escape pair decodes to the astral code point -/
theorem decodeEscape_pair (hi lo : Nat) (rest : Str) (hh : 55296 ≤ hi ∧ hi ≤ 56319) (hl : 56320 ≤ lo ∧ lo ≤ 57343) :
    decodeEscape ('u' :: (hex4 hi ++ ('\\' :: 'u' :: (hex4 lo ++ rest)))) =
      some (Char.ofNat (65536 + (hi - 55296) * 1024 + (lo - 56320)), rest) := by
  have hv1 := hex4Val_hex4 hi (by omega)
  have hv2 := hex4Val_hex4 lo (by omega)
  simp only [hex4, List.cons_append, List.nil_append, decodeEscape, hv1, hv2, hh, hl, and_self, if_true]

theorem char_not_surrogate (c : Char) : ¬ (55296 ≤ c.toNat ∧ c.toNat ≤ 57343) := by
  have := c.valid
  simp only [UInt32.isValidChar, Nat.isValidChar] at this
  have : c.toNat = c.val.toNat := rfl
  omega

theorem char_lt (c : Char) : c.toNat < 1114112 := by
  have := c.valid
  simp only [UInt32.isValidChar, Nat.isValidChar] at this
  have : c.toNat = c.val.toNat := rfl
  omega


theorem ofNat_toNat (c : Char) : Char.ofNat c.toNat = c := Char.ofNat_toNat c

theorem esc_short (c e : Char) (tail : Str) (fuel : Nat) (s r : Str)
    (h : parseStrBody fuel tail = some (s, r)) (hd : decodeEscape (e :: tail) = some (c, tail)) :
    parseStrBody (fuel + 1) ('\\' :: e :: tail) = some (c :: s, r) := by
  have hbs : ('\\' : Char) ≠ '"' := by decide
  simp only [parseStrBody, hbs, if_false, if_true, hd, h]

theorem esc_bmp (c : Char) (tail : Str) (fuel : Nat) (s r : Str)
    (h : parseStrBody fuel tail = some (s, r)) (hb : c.toNat < 65536) :
    parseStrBody (fuel + 1) (escU c.toNat ++ tail) = some (c :: s, r) := by
  have hbs : ('\\' : Char) ≠ '"' := by decide
  have hd := decodeEscape_u c.toNat tail hb (char_not_surrogate c)
  simp only [escU, List.cons_append]
  simp only [parseStrBody, hbs, if_false, if_true, hd, h, ofNat_toNat]

theorem astral_code (n : Nat) (h1 : 65536 ≤ n) :
    65536 + (55296 + (n - 65536) / 1024 - 55296) * 1024 + (56320 + (n - 65536) % 1024 - 56320) = n := by
  have e1 : 55296 + (n - 65536) / 1024 - 55296 = (n - 65536) / 1024 := Nat.add_sub_cancel_left _ _
  have e2 : 56320 + (n - 65536) % 1024 - 56320 = (n - 65536) % 1024 := Nat.add_sub_cancel_left _ _
  rw [e1, e2, Nat.add_assoc, Nat.div_add_mod']
  omega

theorem decode_astral (n : Nat) (h1 : 65536 ≤ n) (h2 : n < 1114112) (rest : Str) :
    decodeEscape ('u' :: (hex4 (55296 + (n - 65536) / 1024) ++ ('\\' :: 'u' :: (hex4 (56320 + (n - 65536) % 1024) ++ rest)))) =
      some (Char.ofNat n, rest) := by
  have hq : (n - 65536) / 1024 < 1024 := by
    apply Nat.div_lt_of_lt_mul; omega
  have hr : (n - 65536) % 1024 < 1024 := Nat.mod_lt _ (by decide)
  have hd := decodeEscape_pair (55296 + (n - 65536) / 1024) (56320 + (n - 65536) % 1024) rest
    ⟨Nat.le_add_right _ _, by omega⟩ ⟨Nat.le_add_right _ _, by omega⟩
  rw [astral_code n h1] at hd
  exact hd

theorem esc_pair (x y : Nat) (tail : Str) (fuel : Nat) (s r : Str) (ch : Char)
    (h : parseStrBody fuel tail = some (s, r))
    (hd : decodeEscape ('u' :: (hex4 x ++ ('\\' :: 'u' :: (hex4 y ++ tail)))) = some (ch, tail)) :
    parseStrBody (fuel + 1) (escU x ++ escU y ++ tail) = some (ch :: s, r) := by
  have hbs : ('\\' : Char) ≠ '"' := by decide
  simp only [escU, List.cons_append, List.append_assoc]
  simp only [parseStrBody, hbs, if_false, if_true, hd, h]

theorem esc_astral (c : Char) (tail : Str) (fuel : Nat) (s r : Str)
    (h : parseStrBody fuel tail = some (s, r)) (hb : ¬ c.toNat < 65536) :
    parseStrBody (fuel + 1) (escU (55296 + (c.toNat - 65536) / 1024) ++ escU (56320 + (c.toNat - 65536) % 1024) ++ tail) =
      some (c :: s, r) := by
  have hd := decode_astral c.toNat (Nat.le_of_not_lt hb) (char_lt c) tail
  rw [ofNat_toNat] at hd
  exact esc_pair _ _ tail fuel s r c h hd

theorem esc_plain (c : Char) (tail : Str) (fuel : Nat) (s r : Str)
    (h : parseStrBody fuel tail = some (s, r)) (h1 : c ≠ '"') (h2 : c ≠ '\\') (hp : 32 ≤ c.toNat) :
    parseStrBody (fuel + 1) (c :: tail) = some (c :: s, r) := by
  have hlt : ¬ c.toNat < 32 := by omega
  simp only [parseStrBody, h1, h2, hlt, if_false, h]

/-- decoding one encoded character: the parser reads back exactly the character `escChar` wrote -/
theorem parseStrBody_escChar (c : Char) (tail : Str) (fuel : Nat) (s r : Str)
    (h : parseStrBody fuel tail = some (s, r)) :
    parseStrBody (fuel + 1) (escChar c ++ tail) = some (c :: s, r) := by
  unfold escChar
  by_cases h1 : c = '"'
  · rw [if_pos h1, h1]; exact esc_short _ _ _ _ _ _ h rfl
  rw [if_neg h1]
  by_cases h2 : c = '\\'
  · rw [if_pos h2, h2]; exact esc_short _ _ _ _ _ _ h rfl
  rw [if_neg h2]
  by_cases h3 : c = '\n'
  · rw [if_pos h3, h3]; exact esc_short _ _ _ _ _ _ h rfl
  rw [if_neg h3]
  by_cases h4 : c = '\r'
  · rw [if_pos h4, h4]; exact esc_short _ _ _ _ _ _ h rfl
  rw [if_neg h4]
  by_cases h5 : c = '\t'
  · rw [if_pos h5, h5]; exact esc_short _ _ _ _ _ _ h rfl
  rw [if_neg h5]
  by_cases h6 : c = '\x08'
  · rw [if_pos h6, h6]; exact esc_short _ _ _ _ _ _ h rfl
  rw [if_neg h6]
  by_cases h7 : c = '\x0c'
  · rw [if_pos h7, h7]; exact esc_short _ _ _ _ _ _ h rfl
  rw [if_neg h7]
  by_cases hp : 32 ≤ c.toNat ∧ c.toNat ≤ 126
  · rw [if_pos hp]; exact esc_plain c tail fuel s r h h1 h2 hp.1
  rw [if_neg hp]
  by_cases hb : c.toNat < 65536
  · rw [if_pos hb]; exact esc_bmp c tail fuel s r h hb
  · rw [if_neg hb]; exact esc_astral c tail fuel s r h hb

theorem escChar_ne_nil (c : Char) : escChar c ≠ [] := by
  unfold escChar
  repeat' split
  all_goals simp [escU]

theorem length_le_escStr (s : Str) : s.length ≤ (escStr s).length := by
  induction s with
  | nil => simp [escStr]
  | cons c cs ih =>
    have : 0 < (escChar c).length := List.length_pos_iff.2 (escChar_ne_nil c)
    simp only [escStr, List.length_cons, List.length_append]
    omega

/-- the body of an encoded string reads back as the string, up to the closing quote -/
theorem parseStrBody_escStr (s rest : Str) (fuel : Nat) (hf : s.length < fuel) :
    parseStrBody fuel (escStr s ++ '"' :: rest) = some (s, rest) := by
  induction s generalizing fuel with
  | nil =>
    cases fuel with
    | zero => omega
    | succ n => simp [escStr, parseStrBody]
  | cons c cs ih =>
    cases fuel with
    | zero => omega
    | succ n =>
      have := ih n (by simp at hf; omega)
      simp only [escStr, List.append_assoc]
      exact parseStrBody_escChar c _ n cs rest this

theorem parseString_dumpsStr (s rest : Str) : parseString (dumpsStr s ++ rest) = some (s, rest) := by
  simp only [dumpsStr, List.cons_append, List.append_assoc, parseString]
  apply parseStrBody_escStr
  have := length_le_escStr s
  simp only [List.length_append, List.length_cons]
  omega


/-! ### numerals, whitespace, first characters -/

/-- the well-formedness `loads_dumps` needs, beyond what the types give (`Str` has no lone surrogates: a Lean
    `Char` is a Unicode scalar value; dict keys are strings by the type of `JVal.obj`):
    an integer prints as a JSON integer numeral whose value `int()` gives back; a float leaf is a finite float —
    its `repr` token is a JSON number, not an integer numeral, and `repr(float(token))` is the token again;
    the keys of every dict are pairwise distinct -/
def numTok (t : Str) : Bool := t.all isNumChar && !t.isEmpty

mutual
def JWF (cd : NumCodec) : JVal → Bool
  | .null => true
  | .bool _ => true
  | .str _ => true
  | .int i => numTok (intToStr i) && isJsonInt (intToStr i) && cd.intOf (intToStr i) == i
  | .num t => numTok t && !isJsonInt t && isJsonNumber t && cd.floatOf t == t
  | .arr xs => JWFList cd xs
  | .obj kvs => JWFKvs cd kvs && decide ((kvs.map (·.1)).Nodup)
def JWFList (cd : NumCodec) : List JVal → Bool
  | [] => true
  | x :: xs => JWF cd x && JWFList cd xs
def JWFKvs (cd : NumCodec) : List (Str × JVal) → Bool
  | [] => true
  | (_, v) :: kvs => JWF cd v && JWFKvs cd kvs
end

theorem skipWs_of_head (c : Char) (r : Str) (h : isWs c = false) : skipWs (c :: r) = c :: r := by
  simp [skipWs, List.dropWhile_cons, h]

theorem skipWs_space (r : Str) : skipWs (' ' :: r) = skipWs r := by
  simp [skipWs, List.dropWhile_cons, isWs]

theorem numChar_facts (c : Char) (h : isNumChar c = true) :
    isWs c = false ∧ c ≠ 'n' ∧ c ≠ 't' ∧ c ≠ 'f' ∧ c ≠ '"' ∧ c ≠ '[' ∧ c ≠ '{' ∧ c ≠ ']' ∧ c ≠ '}' := by
  refine ⟨?_, ?_, ?_, ?_, ?_, ?_, ?_, ?_, ?_⟩ <;>
    first
    | (intro e; subst e; exact absurd h (by decide))
    | (cases hw : isWs c with
       | false => rfl
       | true =>
         exfalso
         simp only [isWs, Bool.or_eq_true, decide_eq_true_eq] at hw
         rcases hw with ((e | e) | e) | e <;> (subst e; exact absurd h (by decide)))

theorem takeWhile_all {α} (p : α → Bool) (a rest : List α) (ha : a.all p = true)
    (hr : ∀ c, rest.head? = some c → p c = false) :
    (a ++ rest).takeWhile p = a ∧ (a ++ rest).dropWhile p = rest := by
  induction a with
  | nil =>
    cases rest with
    | nil => simp
    | cons c cs => simp [List.takeWhile_cons, List.dropWhile_cons, hr c rfl]
  | cons x xs ih =>
    simp only [List.all_cons, Bool.and_eq_true] at ha
    simp [List.takeWhile_cons, List.dropWhile_cons, ha.1, ih ha.2]

/-- what may follow a value in a JSON text: nothing a numeral could swallow -/
def Delim (rest : Str) : Prop := ∀ c, rest.head? = some c → isNumChar c = false

theorem parseNumber_int (cd : NumCodec) (t rest : Str) (i : Int) (ht : numTok t = true) (hi : isJsonInt t = true)
    (hv : cd.intOf t = i) (hr : Delim rest) : parseNumber cd (t ++ rest) = some (.int i, rest) := by
  simp only [numTok, Bool.and_eq_true] at ht
  have := takeWhile_all isNumChar t rest ht.1 hr
  simp [parseNumber, this.1, this.2, hi, hv]

theorem parseNumber_float (cd : NumCodec) (t rest : Str) (ht : numTok t = true) (hi : isJsonInt t = false)
    (hn : isJsonNumber t = true) (hv : cd.floatOf t = t) (hr : Delim rest) :
    parseNumber cd (t ++ rest) = some (.num t, rest) := by
  simp only [numTok, Bool.and_eq_true] at ht
  have := takeWhile_all isNumChar t rest ht.1 hr
  simp [parseNumber, this.1, this.2, hi, hn, hv]

/-- a numeral token is handled by the number branch of `parseV` -/
theorem parseV_number (cd : NumCodec) (fuel : Nat) (t rest : Str) (ht : numTok t = true) :
    parseV cd (fuel + 1) (t ++ rest) = parseNumber cd (t ++ rest) := by
  cases t with
  | nil => simp [numTok] at ht
  | cons c cs =>
    simp only [numTok, List.all_cons, Bool.and_eq_true] at ht
    have hf := numChar_facts c ht.1.1
    simp only [List.cons_append, parseV, hf.2.1, hf.2.2.1, hf.2.2.2.1, hf.2.2.2.2.1, hf.2.2.2.2.2.1, hf.2.2.2.2.2.2.1,
      if_false]

/-- first character of an encoded value: not whitespace, not a closing bracket -/
def StartOK (s : Str) : Prop := ∃ c cs, s = c :: cs ∧ isWs c = false ∧ c ≠ ']' ∧ c ≠ '}'

theorem dumps_start (cd : NumCodec) (v : JVal) (h : JWF cd v = true) : StartOK (dumps v) := by
  cases v with
  | null => exact ⟨'n', _, rfl, by decide, by decide, by decide⟩
  | bool b => cases b <;> exact ⟨_, _, rfl, by decide, by decide, by decide⟩
  | int i =>
    simp only [JWF, Bool.and_eq_true] at h
    cases ht : intToStr i with
    | nil => rw [ht] at h; simp [numTok] at h
    | cons c cs =>
      rw [ht] at h
      have hc : isNumChar c = true := by
        have := h.1.1; simp only [numTok, List.all_cons, Bool.and_eq_true] at this; exact this.1.1
      have hf := numChar_facts c hc
      exact ⟨c, cs, by simp [dumps, ht], hf.1, hf.2.2.2.2.2.2.2.1, hf.2.2.2.2.2.2.2.2⟩
  | num t =>
    simp only [JWF, Bool.and_eq_true] at h
    cases t with
    | nil => simp [numTok] at h
    | cons c cs =>
      have hc : isNumChar c = true := by
        have := h.1.1.1; simp only [numTok, List.all_cons, Bool.and_eq_true] at this; exact this.1.1
      have hf := numChar_facts c hc
      exact ⟨c, cs, rfl, hf.1, hf.2.2.2.2.2.2.2.1, hf.2.2.2.2.2.2.2.2⟩
  | str s => exact ⟨'"', _, rfl, by decide, by decide, by decide⟩
  | arr xs => cases xs <;> exact ⟨'[', _, rfl, by decide, by decide, by decide⟩
  | obj kvs =>
    cases kvs with
    | nil => exact ⟨'{', _, rfl, by decide, by decide, by decide⟩
    | cons kv rest => obtain ⟨k, v⟩ := kv; exact ⟨'{', _, rfl, by decide, by decide, by decide⟩


theorem delim_cons (c : Char) (r : Str) (h : isNumChar c = false) : Delim (c :: r) := by
  intro d hd; simp at hd; subst hd; exact h

theorem delim_tail (xs : List JVal) (rest : Str) : Delim (dumpsTail xs ++ ']' :: rest) := by
  cases xs with
  | nil => exact delim_cons _ _ (by decide)
  | cons x xs => exact delim_cons _ _ (by decide)

theorem delim_mtail (kvs : List (Str × JVal)) (rest : Str) : Delim (dumpsMTail kvs ++ '}' :: rest) := by
  cases kvs with
  | nil => exact delim_cons _ _ (by decide)
  | cons kv kvs => obtain ⟨k, v⟩ := kv; exact delim_cons _ _ (by decide)

theorem skipWs_start (s rest : Str) (h : StartOK s) : skipWs (s ++ rest) = s ++ rest := by
  obtain ⟨c, cs, rfl, hw, _, _⟩ := h
  exact skipWs_of_head c _ hw

theorem parseKey_dumps (k X : Str) (hX : ∃ c cs, X = c :: cs ∧ isWs c = false) :
    parseKey (dumpsStr k ++ (':' :: ' ' :: X)) = some (k, X) := by
  obtain ⟨c, cs, rfl, hw⟩ := hX
  unfold parseKey
  rw [parseString_dumpsStr]
  have h1 : skipWs (':' :: ' ' :: c :: cs) = ':' :: ' ' :: c :: cs := skipWs_of_head _ _ (by decide)
  simp only [h1, if_true, skipWs_space, skipWs_of_head c cs hw]

mutual
theorem parseV_dumps (cd : NumCodec) : ∀ (v : JVal), JWF cd v = true → ∀ (fuel : Nat) (rest : Str),
    (dumps v).length < fuel → Delim rest → parseV cd fuel (dumps v ++ rest) = some (v, rest)
  | .null, _, fuel, rest, hf, _ => by
    cases fuel with
    | zero => simp at hf
    | succ n => simp [dumps, parseV]
  | .bool b, _, fuel, rest, hf, _ => by
    cases fuel with
    | zero => simp at hf
    | succ n => cases b <;> simp [dumps, parseV]
  | .int i, h, fuel, rest, hf, hr => by
    cases fuel with
    | zero => simp at hf
    | succ n =>
      simp only [JWF, Bool.and_eq_true, beq_iff_eq] at h
      show parseV cd (n + 1) (intToStr i ++ rest) = _
      rw [parseV_number cd n _ rest h.1.1]
      exact parseNumber_int cd _ rest i h.1.1 h.1.2 h.2 hr
  | .num t, h, fuel, rest, hf, hr => by
    cases fuel with
    | zero => simp at hf
    | succ n =>
      simp only [JWF, Bool.and_eq_true, beq_iff_eq, Bool.not_eq_true'] at h
      show parseV cd (n + 1) (t ++ rest) = _
      rw [parseV_number cd n _ rest h.1.1.1]
      exact parseNumber_float cd t rest h.1.1.1 h.1.1.2 h.1.2 h.2 hr
  | .str s, _, fuel, rest, hf, _ => by
    cases fuel with
    | zero => simp at hf
    | succ n =>
      have := parseString_dumpsStr s rest
      simp only [dumpsStr, List.cons_append, parseString] at this
      simp only [dumps, dumpsStr, List.cons_append, parseV, this]
      simp
  | .arr [], _, fuel, rest, hf, _ => by
    cases fuel with
    | zero => simp at hf
    | succ n => simp [dumps, parseV, skipWs, isWs]
  | .arr (x :: xs), h, fuel, rest, hf, hr => by
    cases fuel with
    | zero => simp at hf
    | succ n =>
      simp only [JWF, JWFList, Bool.and_eq_true] at h
      have hs := dumps_start cd x h.1
      simp only [dumps, List.length_cons, List.length_append] at hf
      have hx := parseV_dumps cd x h.1 n (dumpsTail xs ++ ']' :: rest) (by omega) (delim_tail xs rest)
      have ht := parseTail_dumps cd xs h.2 n rest (by simp at hf ⊢; omega)
      have hsk : skipWs (dumps x ++ (dumpsTail xs ++ ']' :: rest)) = dumps x ++ (dumpsTail xs ++ ']' :: rest) :=
        skipWs_start _ _ hs
      obtain ⟨c, cs, hc, _, hne, _⟩ := hs
      have hhead : (dumps x ++ (dumpsTail xs ++ ']' :: rest)).head? ≠ some ']' := by
        rw [hc]; simp [hne]
      have hhead' : ¬ (List.head? (dumps x)).getD ((List.head? (dumpsTail xs)).getD ']') = ']' := by
        rw [hc]; simpa using hne
      simp only [dumps, List.cons_append, List.append_assoc, List.nil_append, parseV]
      simp [hsk, hhead', hx, ht]
  | .obj [], _, fuel, rest, hf, _ => by
    cases fuel with
    | zero => simp at hf
    | succ n => simp [dumps, parseV, skipWs, isWs]
  | .obj ((k, v) :: kvs), h, fuel, rest, hf, hr => by
    cases fuel with
    | zero => simp at hf
    | succ n =>
      simp only [JWF, JWFKvs, Bool.and_eq_true, decide_eq_true_eq] at h
      have hs := dumps_start cd v h.1.1
      simp only [dumps, List.length_cons, List.length_append] at hf
      have hv := parseV_dumps cd v h.1.1 n (dumpsMTail kvs ++ '}' :: rest) (by omega) (delim_mtail kvs rest)
      have ht := parseMTail_dumps cd kvs h.1.2 n rest (by simp at hf ⊢; omega)
      have hkey := parseKey_dumps k (dumps v ++ (dumpsMTail kvs ++ '}' :: rest)) (by
        obtain ⟨c, cs, hc, hw, _, _⟩ := hs
        exact ⟨c, cs ++ (dumpsMTail kvs ++ '}' :: rest), by rw [hc]; rfl, hw⟩)
      have hsk : skipWs (dumpsStr k ++ (':' :: ' ' :: (dumps v ++ (dumpsMTail kvs ++ '}' :: rest)))) =
          dumpsStr k ++ (':' :: ' ' :: (dumps v ++ (dumpsMTail kvs ++ '}' :: rest))) := by
        simp [dumpsStr, skipWs, List.dropWhile_cons, isWs]
      have hhead : (dumpsStr k ++ (':' :: ' ' :: (dumps v ++ (dumpsMTail kvs ++ '}' :: rest)))).head? ≠ some '}' := by
        simp [dumpsStr]
      have hdict : dictOfList ((k, v) :: kvs) = (k, v) :: kvs := dictOfList_nodup _ h.2
      have hhead' : ¬ (List.head? (dumpsStr k)).getD ':' = '}' := by simp [dumpsStr]
      simp only [dumps, List.cons_append, List.append_assoc, List.nil_append, parseV]
      simp [hsk, hhead', hkey, hv, ht, hdict]
theorem parseTail_dumps (cd : NumCodec) : ∀ (xs : List JVal), JWFList cd xs = true → ∀ (fuel : Nat) (rest : Str),
    (dumpsTail xs).length + 1 < fuel → parseTail cd fuel (dumpsTail xs ++ ']' :: rest) = some (xs, rest)
  | [], _, fuel, rest, hf => by
    cases fuel with
    | zero => simp at hf
    | succ n => simp [dumpsTail, parseTail, skipWs, isWs]
  | x :: xs, h, fuel, rest, hf => by
    cases fuel with
    | zero => simp at hf
    | succ n =>
      simp only [JWFList, Bool.and_eq_true] at h
      have hs := dumps_start cd x h.1
      simp only [dumpsTail, List.length_cons, List.length_append] at hf
      have hx := parseV_dumps cd x h.1 n (dumpsTail xs ++ ']' :: rest) (by omega) (delim_tail xs rest)
      have ht := parseTail_dumps cd xs h.2 n rest (by omega)
      have hsk : skipWs (dumps x ++ (dumpsTail xs ++ ']' :: rest)) = dumps x ++ (dumpsTail xs ++ ']' :: rest) :=
        skipWs_start _ _ hs
      have h1 : skipWs (',' :: ' ' :: (dumps x ++ (dumpsTail xs ++ ']' :: rest))) =
          ',' :: ' ' :: (dumps x ++ (dumpsTail xs ++ ']' :: rest)) := skipWs_of_head _ _ (by decide)
      simp only [dumpsTail, List.cons_append, List.append_assoc, parseTail, h1]
      simp [skipWs_space, hsk, hx, ht]
theorem parseMTail_dumps (cd : NumCodec) : ∀ (kvs : List (Str × JVal)), JWFKvs cd kvs = true → ∀ (fuel : Nat) (rest : Str),
    (dumpsMTail kvs).length + 1 < fuel → parseMTail cd fuel (dumpsMTail kvs ++ '}' :: rest) = some (kvs, rest)
  | [], _, fuel, rest, hf => by
    cases fuel with
    | zero => simp at hf
    | succ n => simp [dumpsMTail, parseMTail, skipWs, isWs]
  | (k, v) :: kvs, h, fuel, rest, hf => by
    cases fuel with
    | zero => simp at hf
    | succ n =>
      simp only [JWFKvs, Bool.and_eq_true] at h
      have hs := dumps_start cd v h.1
      simp only [dumpsMTail, List.length_cons, List.length_append] at hf
      have hv := parseV_dumps cd v h.1 n (dumpsMTail kvs ++ '}' :: rest) (by omega) (delim_mtail kvs rest)
      have ht := parseMTail_dumps cd kvs h.2 n rest (by omega)
      have hkey := parseKey_dumps k (dumps v ++ (dumpsMTail kvs ++ '}' :: rest)) (by
        obtain ⟨c, cs, hc, hw, _, _⟩ := hs
        exact ⟨c, cs ++ (dumpsMTail kvs ++ '}' :: rest), by rw [hc]; rfl, hw⟩)
      have h1 : skipWs (',' :: ' ' :: (dumpsStr k ++ (':' :: ' ' :: (dumps v ++ (dumpsMTail kvs ++ '}' :: rest))))) =
          ',' :: ' ' :: (dumpsStr k ++ (':' :: ' ' :: (dumps v ++ (dumpsMTail kvs ++ '}' :: rest)))) :=
        skipWs_of_head _ _ (by decide)
      have h2 : skipWs (dumpsStr k ++ (':' :: ' ' :: (dumps v ++ (dumpsMTail kvs ++ '}' :: rest)))) =
          dumpsStr k ++ (':' :: ' ' :: (dumps v ++ (dumpsMTail kvs ++ '}' :: rest))) := by
        simp [dumpsStr, skipWs, List.dropWhile_cons, isWs]
      simp only [dumpsMTail, List.cons_append, List.append_assoc, parseMTail, h1]
      simp [skipWs_space, h2, hkey, hv, ht]
end

end Pdt.C08
