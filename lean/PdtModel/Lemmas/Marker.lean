import PdtModel.Model.Marker
set_option linter.unusedSimpArgs false
namespace Pdt

theorem leading_split (c : Char) (s : Str) :
    s = List.replicate (leading c s) c ++ s.drop (leading c s) ∧
    (s.drop (leading c s)).head? ≠ some c := by
  induction s with
  | nil => simp [leading]
  | cons x xs ih =>
    unfold leading
    by_cases h : x = c
    · subst h
      simp only [if_true, List.replicate_succ, List.drop_succ_cons, List.cons_append]
      exact ⟨by rw [← ih.1], ih.2⟩
    · simp [h]

theorem leading_unique (c : Char) (m : Nat) (r : Str) (h : r.head? ≠ some c) :
    leading c (List.replicate m c ++ r) = m := by
  induction m with
  | zero =>
    cases r with
    | nil => simp [leading]
    | cons x xs =>
      have : x ≠ c := by simpa using h
      simp [leading, this]
  | succ n ih => simp [List.replicate_succ, leading, ih]

theorem head_ne_of_not_mem {c : Char} {r : Str} (h : c ∉ r) : r.head? ≠ some c := by
  cases r with
  | nil => simp
  | cons x xs =>
    simp only [List.head?_cons, ne_eq, Option.some.injEq]
    intro hx; subst hx; simp at h

end Pdt

namespace Pdt

theorem takeWhile_ne_append (c : Char) (body ws : Str) (h : c ∉ body) :
    (body ++ c :: ws).takeWhile (· != c) = body ∧ (body ++ c :: ws).dropWhile (· != c) = c :: ws := by
  induction body with
  | nil => simp
  | cons x xs ih =>
    have hx : x ≠ c := by intro e; subst e; simp at h
    have hxs : c ∉ xs := by intro e; exact h (List.mem_cons_of_mem _ e)
    simp [List.takeWhile_cons, List.dropWhile_cons, hx, ih hxs]

theorem dropWhile_ne_head (c : Char) (s : Str) (x : Char) (ws : Str)
    (h : s.dropWhile (· != c) = x :: ws) : x = c := by
  induction s with
  | nil => simp at h
  | cons y ys ih =>
    by_cases hy : y = c
    · subst hy; simp [List.dropWhile_cons] at h; exact h.1.symm
    · simp [List.dropWhile_cons, hy] at h; exact ih h

theorem not_mem_takeWhile_ne (c : Char) (s : Str) : c ∉ s.takeWhile (· != c) := by
  induction s with
  | nil => simp
  | cons y ys ih =>
    by_cases hy : y = c
    · subst hy; simp [List.takeWhile_cons]
    · simp [List.takeWhile_cons, hy, ih]; exact fun e => hy e.symm

end Pdt
