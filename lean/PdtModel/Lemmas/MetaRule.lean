/-
  Lemmas/MetaRule.lean — the part of the `Meta` lemmas that depends on the values of the translated
  constants `_unit_from_dtype_kind` / `_units_special`: `unit_from_dtype` and `check_dtype` against the
  literal rule, and what a successful strict validation establishes.  Used by Props/C15.lean.
-/
import PdtModel.Lemmas.Meta
set_option linter.unusedSimpArgs false
set_option linter.unusedVariables false
namespace Pdt.Meta
open Pdt

/-! ### unit_from_dtype / check_dtype against the literal rule -/

/-- the dtype kinds `_unit_from_dtype_kind` knows -/
def KnownKind (k : Str) : Prop :=
  k = ['b'] ∨ k = ['i'] ∨ k = ['u'] ∨ k = ['f'] ∨ k = ['M'] ∨ k = ['O'] ∨ k = ['S'] ∨ k = ['U']

def IsTextKind (k : Str) : Prop := k = ['O'] ∨ k = ['S'] ∨ k = ['U']
def IsBoolKind (k : Str) : Prop := k = ['b']

instance (k : Str) : Decidable (KnownKind k) := by unfold KnownKind; infer_instance
instance (k : Str) : Decidable (IsTextKind k) := by unfold IsTextKind; infer_instance
instance (k : Str) : Decidable (IsBoolKind k) := by unfold IsBoolKind; infer_instance

/-- the rule of the property: unit of a column created without an explicit unit -/
def defaultUnit (k : Str) : Str :=
  if k = ['b'] then "onoff".toList
  else if k = ['O'] ∨ k = ['S'] ∨ k = ['U'] then "text".toList
  else "-".toList

/-- the rule of the property: which unit labels are allowed on which dtype kind -/
def Consistent (u : Str) (k : Str) : Prop :=
  (u = "text".toList ↔ IsTextKind k) ∧ (u = "onoff".toList ↔ IsBoolKind k)

theorem unitFromKind_char (c : Char) :
    unitFromKind [c] =
      if c = 'b' then .ok "onoff".toList
      else if c = 'i' ∨ c = 'u' ∨ c = 'f' ∨ c = 'M' then .ok "-".toList
      else if c = 'O' ∨ c = 'S' ∨ c = 'U' then .ok "text".toList
      else .error .valueError := by
  unfold unitFromKind Gen.unitFromDtypeKind
  simp only [List.lookup]
  by_cases h1 : c = 'b'
  · subst h1; rfl
  by_cases h2 : c = 'i'
  · subst h2; rfl
  by_cases h3 : c = 'u'
  · subst h3; rfl
  by_cases h4 : c = 'f'
  · subst h4; rfl
  by_cases h5 : c = 'M'
  · subst h5; rfl
  by_cases h6 : c = 'O'
  · subst h6; rfl
  by_cases h7 : c = 'S'
  · subst h7; rfl
  by_cases h8 : c = 'U'
  · subst h8; rfl
  have e1 : (c == 'b') = false := by simpa using h1
  have e2 : (c == 'i') = false := by simpa using h2
  have e3 : (c == 'u') = false := by simpa using h3
  have e4 : (c == 'f') = false := by simpa using h4
  have e5 : (c == 'M') = false := by simpa using h5
  have e6 : (c == 'O') = false := by simpa using h6
  have e7 : (c == 'S') = false := by simpa using h7
  have e8 : (c == 'U') = false := by simpa using h8
  simp [e1, e2, e3, e4, e5, e6, e7, e8, h1, h2, h3, h4, h5, h6, h7, h8]

theorem unitFromKind_ok (k u : Str) (h : unitFromKind k = .ok u) : KnownKind k ∧ u = defaultUnit k := by
  match k, h with
  | [], h => simp [unitFromKind] at h
  | _ :: _ :: _, h => simp [unitFromKind] at h
  | [c], h =>
    rw [unitFromKind_char] at h
    unfold KnownKind defaultUnit
    by_cases h1 : c = 'b'
    · subst h1; simp at h; subst h; decide
    by_cases h2 : c = 'i'
    · subst h2; simp at h; subst h; decide
    by_cases h3 : c = 'u'
    · subst h3; simp at h; subst h; decide
    by_cases h4 : c = 'f'
    · subst h4; simp at h; subst h; decide
    by_cases h5 : c = 'M'
    · subst h5; simp at h; subst h; decide
    by_cases h6 : c = 'O'
    · subst h6; simp at h; subst h; decide
    by_cases h7 : c = 'S'
    · subst h7; simp at h; subst h; decide
    by_cases h8 : c = 'U'
    · subst h8; simp at h; subst h; decide
    simp [h1, h2, h3, h4, h5, h6, h7, h8] at h

theorem unitFromKind_known (k : Str) (h : KnownKind k) : unitFromKind k = .ok (defaultUnit k) := by
  unfold KnownKind at h
  rcases h with h | h | h | h | h | h | h | h <;> subst h <;> rfl

theorem isSpecial_iff (u : Str) : isSpecial u = true ↔ (u = "onoff".toList ∨ u = "text".toList) := by
  unfold isSpecial Gen.unitsSpecial
  rw [List.contains_iff_mem]
  simp

theorem defaultUnit_consistent (k : Str) : Consistent (defaultUnit k) k := by
  unfold Consistent defaultUnit IsTextKind IsBoolKind
  by_cases h1 : k = ['b']
  · subst h1; decide
  · by_cases h2 : k = ['O'] ∨ k = ['S'] ∨ k = ['U']
    · simp [h1, h2]
    · simp [h1, h2]

/-- `check_dtype` accepts exactly the unit labels the rule allows (on the kinds it knows) -/
theorem checkDtype_ok_iff (m : ColMeta) (k : Str) :
    checkDtype m k = .ok () ↔ (KnownKind k ∧ Consistent m.unit k) := by
  constructor
  · intro h
    unfold checkDtype at h
    cases hu : unitFromKind k with
    | error e => simp [hu] at h
    | ok base =>
      obtain ⟨hk, hb⟩ := unitFromKind_ok k base hu
      refine ⟨hk, ?_⟩
      simp only [hu] at h
      have hcons := defaultUnit_consistent k
      by_cases hs : isSpecial base = true
      · simp only [hs, if_true] at h
        by_cases he : base = m.unit
        · rw [← he, hb]; exact hcons
        · simp [he] at h
      · simp only [hs] at h
        by_cases hs2 : isSpecial m.unit = true
        · simp [hs2] at h
        · -- neither the dtype's unit nor the column's unit is special
          have n1 := mt (isSpecial_iff base).2 hs
          have n2 := mt (isSpecial_iff m.unit).2 hs2
          unfold Consistent at hcons ⊢
          rw [← hb] at hcons
          constructor
          · constructor
            · intro e; exact absurd (Or.inr e) n2
            · intro e; exact absurd (Or.inr (hcons.1.2 e)) n1
          · constructor
            · intro e; exact absurd (Or.inl e) n2
            · intro e; exact absurd (Or.inl (hcons.2.2 e)) n1
  · rintro ⟨hk, hc⟩
    unfold checkDtype
    rw [unitFromKind_known k hk]
    have hcons := defaultUnit_consistent k
    simp only
    by_cases hs : isSpecial (defaultUnit k) = true
    · simp only [hs, if_true]
      have := (isSpecial_iff _).1 hs
      rcases this with h | h
      · have : m.unit = "onoff".toList := hc.2.2 (hcons.2.1 h)
        simp [h, this]
      · have : m.unit = "text".toList := hc.1.2 (hcons.1.1 h)
        simp [h, this]
    · simp only [hs]
      have n1 := mt (isSpecial_iff (defaultUnit k)).2 hs
      have hs2 : ¬ isSpecial m.unit = true := by
        intro h2
        rcases (isSpecial_iff _).1 h2 with h | h
        · exact n1 (Or.inl (hcons.2.2 (hc.2.1 h)))
        · exact n1 (Or.inr (hcons.1.2 (hc.1.1 h)))
      simp [hs2]

/-! ### what validation establishes -/

/-- the register agrees with the rule on every frame column that has an entry -/
def ConsReg (r : Reg) (f : Frame) : Prop :=
  ∀ c ∈ f.cols, ∀ m, get r c.name = some m → KnownKind c.kind ∧ Consistent m.unit c.kind

theorem updLoop_cons_strict (cs : List Col) (r r' : Reg)
    (h : updLoop true cs r = (r', none)) :
    ∀ c ∈ cs, ∀ m, get r' c.name = some m → KnownKind c.kind ∧ Consistent m.unit c.kind := by
  induction cs generalizing r with
  | nil => intro c hc; cases hc
  | cons c cs ih =>
    unfold updLoop at h
    cases hc : get r c.name with
    | some m0 =>
      simp only [hc, if_true] at h
      cases hd : checkDtype m0 c.kind with
      | error e => simp [hd] at h
      | ok _ =>
        simp only [hd] at h
        intro c' hc' m hm
        rcases List.mem_cons.1 hc' with rfl | hin
        · have := updLoop_preserve true cs r _ m0 hc
          rw [h] at this
          simp only at this
          rw [this] at hm; cases hm
          exact (checkDtype_ok_iff m0 c'.kind).1 hd
        · exact ih r h c' hin m hm
    | none =>
      simp only [hc] at h
      cases hu : unitFromKind c.kind with
      | error e => simp [hu] at h
      | ok u =>
        simp only [hu] at h
        intro c' hc' m hm
        rcases List.mem_cons.1 hc' with rfl | hin
        · have hg : get (r ++ [(c'.name, ({ unit := u } : ColMeta))]) c'.name = some { unit := u } := by
            rw [get_append, hc]; simp
          have := updLoop_preserve true cs _ _ _ hg
          rw [h] at this
          simp only at this
          rw [this] at hm; cases hm
          obtain ⟨hk, hu'⟩ := unitFromKind_ok _ _ hu
          exact ⟨hk, by simp only; rw [hu']; exact defaultUnit_consistent _⟩
        · exact ih _ h c' hin m hm

theorem updLoop_default (strict : Bool) (cs : List Col) (r r' : Reg)
    (h : updLoop strict cs r = (r', none)) (hnd : (cs.map (·.name)).Nodup) :
    ∀ c ∈ cs, get r c.name = none → get r' c.name = some { unit := defaultUnit c.kind } := by
  induction cs generalizing r with
  | nil => intro c hc; cases hc
  | cons c cs ih =>
    have hnd' := List.nodup_cons.1 (by simpa using hnd : (c.name :: cs.map (·.name)).Nodup)
    unfold updLoop at h
    cases hc : get r c.name with
    | some m0 =>
      simp only [hc] at h
      have hrest : updLoop strict cs r = (r', none) := by
        cases strict with
        | true =>
          simp only [if_true] at h
          cases hd : checkDtype m0 c.kind with
          | ok _ => simpa [hd] using h
          | error e => simp [hd] at h
        | false => simpa using h
      intro c' hc' hnone
      rcases List.mem_cons.1 hc' with rfl | hin
      · rw [hc] at hnone; cases hnone
      · exact ih r hrest hnd'.2 c' hin hnone
    | none =>
      simp only [hc] at h
      cases hu : unitFromKind c.kind with
      | error e => simp [hu] at h
      | ok u =>
        simp only [hu] at h
        obtain ⟨_, hu'⟩ := unitFromKind_ok _ _ hu
        intro c' hc' hnone
        rcases List.mem_cons.1 hc' with rfl | hin
        · have hg : get (r ++ [(c'.name, ({ unit := u } : ColMeta))]) c'.name = some { unit := u } := by
            rw [get_append, hc]; simp
          have := updLoop_preserve strict cs _ _ _ hg
          rw [h] at this
          simp only at this
          rw [this, hu']
        · apply ih _ h hnd'.2 c' hin
          have hne : ¬ c.name = c'.name := by
            intro e
            apply hnd'.1
            rw [e]
            exact List.mem_map.2 ⟨c', hin, rfl⟩
          rw [get_append, hnone]; simp [hne]

theorem updateColumns_ok_cons (r r' : Reg) (f : Frame)
    (h : updateColumns true r f = (r', none)) (he : f.empty = false) : ConsReg r' f := by
  obtain ⟨_, r2, hl, rfl⟩ := updateColumns_ok_loop true r r' f h he
  intro c hc m hm
  rw [get_reorder] at hm
  have hin : c.name ∈ f.names := List.mem_map.2 ⟨c, hc, rfl⟩
  simp only [hin, if_true] at hm
  exact updLoop_cons_strict f.cols _ r2 hl c hc m hm

theorem updateColumns_ok_default (strict : Bool) (r r' : Reg) (f : Frame)
    (h : updateColumns strict r f = (r', none)) (he : f.empty = false) :
    ∀ c ∈ f.cols, get r c.name = none → get r' c.name = some { unit := defaultUnit c.kind } := by
  obtain ⟨hnd, r2, hl, rfl⟩ := updateColumns_ok_loop strict r r' f h he
  intro c hc hnone
  have hin : c.name ∈ f.names := List.mem_map.2 ⟨c, hc, rfl⟩
  rw [get_reorder]
  simp only [hin, if_true]
  apply updLoop_default strict f.cols _ r2 hl hnd c hc
  rw [get_restrict]; simp [hin, hnone]

/-- the part that unit setters can break: a state remembered as validated under the strict flag is consistent -/
def GoodC (i : Info) : Prop :=
  ∀ f0, i.last = some f0 → f0.empty = false → i.lastStrict = true → ConsReg i.reg f0

theorem checkDataframe_goodC (i : Info) (f : Frame) (h : GoodC i) : GoodC (checkDataframe i f).1 := by
  unfold checkDataframe
  by_cases hl : i.last = some f ∧ i.lastStrict = i.strict
  · simpa [hl] using h
  · simp only [hl, if_false]
    cases hu : updateColumns i.strict i.reg f with
    | mk r e =>
      cases e with
      | none =>
        intro f0 hf0 he hs
        simp at hf0 hs; subst hf0
        rw [hs] at hu
        exact updateColumns_ok_cons _ _ _ hu he
      | some e => intro f0 hf0; simp at hf0


end Pdt.Meta
