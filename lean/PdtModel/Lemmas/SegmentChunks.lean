/-
  Lemmas/SegmentChunks.lean — stage B of the round trips: a row sequence made of "chunks"
  (a table-marker row, rows whose first cell is neither blank nor a marker, then at least one
  blank row) is split into exactly those chunks as TABLE blocks.
-/
import PdtModel.Model.Segment
set_option linter.unusedSimpArgs false
namespace Pdt

section
variable {R : Type} (kindOf : R → Kind)

theorem go_plain (i : Nat) (s : St R) (ps rest : List R) (h : ∀ p ∈ ps, kindOf p = .plain) :
    go kindOf i s (ps ++ rest) = go kindOf (i + ps.length) { s with grid := s.grid ++ ps } rest := by
  induction ps generalizing i s with
  | nil => simp
  | cons p ps ih =>
    have hp := h p (by simp)
    simp only [List.cons_append, go, step, hp, List.nil_append]
    rw [ih (i + 1) _ (fun q hq => h q (List.mem_cons_of_mem _ hq))]
    simp [Nat.add_assoc, Nat.add_comm 1]

theorem go_blanks (i : Nat) (s : St R) (bs rest : List R) (hs : s.state = .blank)
    (h : ∀ b ∈ bs, (kindOf b).isBlank = true) :
    go kindOf i s (bs ++ rest) = go kindOf (i + bs.length) s rest := by
  induction bs generalizing i with
  | nil => simp
  | cons b bs ih =>
    have hb := h b (by simp)
    cases hk : kindOf b with
    | blankRow keep =>
      simp only [List.cons_append, go, step, hk, hs, if_true, List.nil_append]
      rw [ih (i + 1) (fun q hq => h q (List.mem_cons_of_mem _ hq))]
      simp [Nat.add_assoc, Nat.add_comm 1]
    | _ => simp [hk, Kind.isBlank] at hb

/-- one chunk: marker row, plain rows, a payload-free blank row, further blank rows -/
theorem go_chunk (i : Nat) (s : St R) (m : R) (ps : List R) (b : R) (bs rest : List R)
    (hg : s.grid = []) (hm : kindOf m = .tbl) (hps : ∀ p ∈ ps, kindOf p = .plain)
    (hb : kindOf b = .blankRow false) (hbs : ∀ x ∈ bs, (kindOf x).isBlank = true) :
    go kindOf i s (m :: (ps ++ b :: (bs ++ rest))) =
      ⟨.table, m :: ps, i⟩ :: go kindOf (i + 1 + ps.length + 1 + bs.length) ⟨[], .blank, i + 1 + ps.length⟩ rest := by
  simp only [go, step, hm, switch, emit, hg, List.nil_append, if_true]
  rw [go_plain kindOf (i + 1) _ ps _ hps]
  simp only [List.singleton_append, go, step, hb, switch, emit]
  have : ¬ (BT.table = BT.blank) := by decide
  simp only [this, if_false, Bool.false_eq_true, List.cons_append, List.nil_append]
  rw [go_blanks kindOf _ _ bs rest rfl hbs]

structure Chunk (R : Type) where
  marker : R
  plains : List R
  blank : R
  blanks : List R

def Chunk.rows (c : Chunk R) : List R := c.marker :: (c.plains ++ c.blank :: c.blanks)
def Chunk.block (c : Chunk R) : List R := c.marker :: c.plains

def Chunk.Good (c : Chunk R) : Prop :=
  kindOf c.marker = .tbl ∧ (∀ p ∈ c.plains, kindOf p = .plain) ∧ kindOf c.blank = .blankRow false ∧
  (∀ x ∈ c.blanks, (kindOf x).isBlank = true)

/-- blocks with their origin rows, chunk after chunk -/
def chunkBlocks (i : Nat) : List (Chunk R) → List (Block R)
  | [] => []
  | c :: cs => ⟨.table, c.block, i⟩ :: chunkBlocks (i + c.rows.length) cs

theorem go_chunks (i : Nat) (s : St R) (cs : List (Chunk R)) (hg : s.grid = [])
    (h : ∀ c ∈ cs, c.Good kindOf) :
    go kindOf i s (cs.flatMap Chunk.rows) = chunkBlocks i cs := by
  induction cs generalizing i s with
  | nil => simp [go, emit, hg, chunkBlocks]
  | cons c cs ih =>
    obtain ⟨hm, hps, hb, hbs⟩ := h c (by simp)
    simp only [List.flatMap_cons, Chunk.rows, List.cons_append, List.append_assoc]
    rw [go_chunk kindOf i s c.marker c.plains c.blank c.blanks _ hg hm hps hb hbs]
    simp only [chunkBlocks, Chunk.block]
    rw [ih _ _ rfl (fun d hd => h d (List.mem_cons_of_mem _ hd))]
    simp [Chunk.rows, Nat.add_assoc, Nat.add_comm, Nat.add_left_comm]

/-- **stage B**: a sequence of good chunks is segmented into exactly its chunks, as TABLE blocks, each with
    the index of its marker row as origin -/
theorem run_chunks (cs : List (Chunk R)) (h : ∀ c ∈ cs, c.Good kindOf) :
    run kindOf (cs.flatMap Chunk.rows) = chunkBlocks 0 cs :=
  go_chunks kindOf 0 initSt cs rfl h

end

end Pdt
