/-
  Lemmas/Meta.lean — facts about the register (an insertion-ordered dict) and about
  `_update_columns` / `_check_dataframe`, shared by Props/C04.lean and Props/C15.lean.  Core Lean only.
  Nothing in this file depends on the *values* of the translated constants (`Gen.unitFromDtypeKind`,
  `Gen.unitsSpecial`); what does lives in Lemmas/MetaRule.lean.
-/
import PdtModel.Model.Meta
set_option linter.unusedSimpArgs false
set_option linter.unusedVariables false
namespace Pdt.Meta
open Pdt

/-! ### dict primitives -/

theorem get_none_iff (r : Reg) (n : Str) : get r n = none ↔ n ∉ keys r := by
  induction r with
  | nil => simp [get, keys]
  | cons kv r ih =>
    obtain ⟨k, v⟩ := kv
    by_cases h : k = n
    · simp [get, keys, h]
    · have h' : ¬ n = k := fun e => h e.symm
      simp [get, keys, h, h'] at ih ⊢
      exact ih

theorem get_some_mem (r : Reg) (n : Str) (m : ColMeta) (h : get r n = some m) : n ∈ keys r := by
  by_cases hm : n ∈ keys r
  · exact hm
  · rw [(get_none_iff r n).2 hm] at h; cases h

theorem mem_keys_get (r : Reg) (n : Str) (h : n ∈ keys r) : ∃ m, get r n = some m := by
  cases hg : get r n with
  | none => exact absurd h ((get_none_iff r n).1 hg)
  | some m => exact ⟨m, rfl⟩

theorem get_set (r : Reg) (n n' : Str) (m : ColMeta) :
    get (set r n m) n' = if n = n' then some m else get r n' := by
  induction r with
  | nil => by_cases h : n = n' <;> simp [set, get, h]
  | cons kv r ih =>
    obtain ⟨k, v⟩ := kv
    by_cases h1 : k = n
    · subst h1
      by_cases h2 : k = n' <;> simp [set, get, h2]
    · by_cases h2 : k = n'
      · subst h2
        have : ¬ n = k := fun e => h1 e.symm
        simp [set, get, h1, this]
      · simp [set, get, h1, h2, ih]

theorem keys_set_mem (r : Reg) (n : Str) (m : ColMeta) (h : n ∈ keys r) : keys (set r n m) = keys r := by
  induction r with
  | nil => simp [keys] at h
  | cons kv r ih =>
    obtain ⟨k, v⟩ := kv
    by_cases h1 : k = n
    · simp [set, keys, h1]
    · have hn : n ∈ keys r := by
        simp [keys] at h
        rcases h with h | h
        · exact absurd h.symm h1
        · simpa [keys] using h
      have := ih hn
      simp [set, keys, h1] at this ⊢
      exact this

theorem keys_set_not_mem (r : Reg) (n : Str) (m : ColMeta) (h : n ∉ keys r) :
    keys (set r n m) = keys r ++ [n] := by
  induction r with
  | nil => simp [set, keys]
  | cons kv r ih =>
    obtain ⟨k, v⟩ := kv
    have h1 : ¬ k = n := by intro e; apply h; simp [keys, e]
    have hn : n ∉ keys r := by intro e; apply h; simp [keys] at e ⊢; exact Or.inr e
    have := ih hn
    simp [set, keys, h1] at this ⊢
    exact this

theorem nodup_keys_set (r : Reg) (n : Str) (m : ColMeta) (h : (keys r).Nodup) : (keys (set r n m)).Nodup := by
  by_cases hm : n ∈ keys r
  · rw [keys_set_mem r n m hm]; exact h
  · rw [keys_set_not_mem r n m hm]
    exact List.nodup_append.2 ⟨h, by simp, by intro a ha b hb; simp at hb; subst hb; intro e; subst e; exact hm ha⟩

theorem keys_append (r : Reg) (n : Str) (m : ColMeta) : keys (r ++ [(n, m)]) = keys r ++ [n] := by
  simp [keys]

theorem get_append (r : Reg) (n n' : Str) (m : ColMeta) :
    get (r ++ [(n, m)]) n' = match get r n' with
      | some x => some x
      | none => if n = n' then some m else none := by
  induction r with
  | nil => simp [get]
  | cons kv r ih =>
    obtain ⟨k, v⟩ := kv
    by_cases h : k = n'
    · simp [get, h]
    · simp [get, h, ih]

theorem get_restrict (r : Reg) (names : List Str) (n : Str) :
    get (restrict r names) n = if n ∈ names then get r n else none := by
  induction r with
  | nil => simp [restrict, get]
  | cons kv r ih =>
    obtain ⟨k, v⟩ := kv
    simp only [restrict] at ih ⊢
    by_cases hk : k ∈ names
    · have hc : names.contains k = true := List.contains_iff_mem.2 hk
      by_cases h : k = n
      · subst h; simp [List.filter_cons, get, hk, hc]
      · simp only [List.filter_cons, hc, if_true, get, h, if_false]
        exact ih
    · have hc : names.contains k = false := by
        cases hcc : names.contains k with
        | false => rfl
        | true => exact absurd (List.contains_iff_mem.1 hcc) hk
      by_cases h : k = n
      · subst h
        simp only [List.filter_cons, hc, if_false, Bool.false_eq_true]
        rw [ih]; simp [hk]
      · simp only [List.filter_cons, hc, if_false, Bool.false_eq_true, get, h]
        exact ih

theorem keys_restrict_sublist (r : Reg) (names : List Str) : (keys (restrict r names)).Sublist (keys r) := by
  unfold keys restrict
  exact (List.filter_sublist).map _

theorem nodup_keys_restrict (r : Reg) (names : List Str) (h : (keys r).Nodup) :
    (keys (restrict r names)).Nodup := (keys_restrict_sublist r names).nodup h

theorem keys_restrict_subset (r : Reg) (names : List Str) (n : Str) (h : n ∈ keys (restrict r names)) :
    n ∈ names := by
  obtain ⟨m, hm⟩ := mem_keys_get _ _ h
  rw [get_restrict] at hm
  by_cases hn : n ∈ names
  · exact hn
  · simp [hn] at hm

theorem keys_reorder (r : Reg) (names : List Str) :
    keys (reorder r names) = names.filter (fun n => (get r n).isSome) := by
  induction names with
  | nil => simp [reorder, keys]
  | cons n ns ih =>
    unfold reorder keys at ih ⊢
    cases h : get r n with
    | none => simp [List.filterMap_cons, h, ih]
    | some m => simp [List.filterMap_cons, h, ih]

theorem get_reorder (r : Reg) (names : List Str) (n : Str) :
    get (reorder r names) n = if n ∈ names then get r n else none := by
  induction names with
  | nil => simp [reorder, get]
  | cons x xs ih =>
    unfold reorder at ih ⊢
    cases h : get r x with
    | none =>
      simp only [List.filterMap_cons, h, Option.map_none]
      rw [ih]
      by_cases hx : n = x
      · subst hx; simp [h]
      · simp [hx]
    | some m =>
      simp only [List.filterMap_cons, h, Option.map_some]
      by_cases hx : x = n
      · subst hx; simp [get, h]
      · have hx' : ¬ n = x := fun e => hx e.symm
        simp only [get, hx, if_false]
        rw [ih]
        simp [hx']

theorem hasDup_false_nodup (l : List Str) (h : hasDup l = false) : l.Nodup := by
  induction l with
  | nil => exact List.nodup_nil
  | cons x xs ih =>
    simp [hasDup] at h
    exact List.nodup_cons.2 ⟨h.1, ih h.2⟩

theorem nodup_hasDup_false (l : List Str) (h : l.Nodup) : hasDup l = false := by
  induction l with
  | nil => rfl
  | cons x xs ih =>
    have := List.nodup_cons.1 h
    simp [hasDup, this.1, ih this.2]

/-- for a register with unique keys, position and lookup agree entry by entry -/
theorem get_of_mem_nodup (r : Reg) (h : (keys r).Nodup) (kv : Str × ColMeta) (hkv : kv ∈ r) :
    get r kv.1 = some kv.2 := by
  induction r with
  | nil => cases hkv
  | cons x r ih =>
    obtain ⟨k, v⟩ := x
    have hnd := List.nodup_cons.1 (by simpa [keys] using h : (k :: keys r).Nodup)
    rcases List.mem_cons.1 hkv with rfl | hin
    · simp [get]
    · have hne : ¬ k = kv.1 := by
        intro e
        apply hnd.1
        rw [e]
        exact List.mem_map.2 ⟨kv, hin, rfl⟩
      simp only [get, hne, if_false]
      exact ih hnd.2 hin

/-- positional list of metadata = per-key lookup, in key order -/
theorem map_get_keys (r : Reg) (h : (keys r).Nodup) :
    (keys r).map (get r) = r.map (fun kv => some kv.2) := by
  unfold keys
  rw [List.map_map]
  apply List.map_congr_left
  intro kv hkv
  exact get_of_mem_nodup r h kv hkv

/-! ### the `for name in df_columns` loop -/

theorem updLoop_preserve (strict : Bool) (cs : List Col) (r : Reg) (n : Str) (m : ColMeta)
    (hg : get r n = some m) : get (updLoop strict cs r).1 n = some m := by
  induction cs generalizing r with
  | nil => simpa [updLoop] using hg
  | cons c cs ih =>
    unfold updLoop
    cases hc : get r c.name with
    | some m0 =>
      simp only
      cases strict with
      | true =>
        simp only [if_true]
        cases hd : checkDtype m0 c.kind with
        | ok _ => simpa using ih r hg
        | error e => simpa using hg
      | false => simpa using ih r hg
    | none =>
      simp only
      cases hu : unitFromKind c.kind with
      | error e => simpa using hg
      | ok u =>
        simp only
        apply ih
        rw [get_append, hg]

theorem updLoop_nodup (strict : Bool) (cs : List Col) (r : Reg) (h : (keys r).Nodup) :
    (keys (updLoop strict cs r).1).Nodup := by
  induction cs generalizing r with
  | nil => simpa [updLoop] using h
  | cons c cs ih =>
    unfold updLoop
    cases hc : get r c.name with
    | some m0 =>
      simp only
      cases strict with
      | true =>
        simp only [if_true]
        cases hd : checkDtype m0 c.kind with
        | ok _ => simpa using ih r h
        | error e => simpa using h
      | false => simpa using ih r h
    | none =>
      simp only
      cases hu : unitFromKind c.kind with
      | error e => simpa using h
      | ok u =>
        simp only
        apply ih
        rw [keys_append]
        have hn := (get_none_iff r c.name).1 hc
        exact List.nodup_append.2 ⟨h, by simp, by
          intro a ha b hb; simp at hb; subst hb; intro e; subst e; exact hn ha⟩

theorem updLoop_registered (strict : Bool) (cs : List Col) (r r' : Reg)
    (h : updLoop strict cs r = (r', none)) : ∀ c ∈ cs, ∃ m, get r' c.name = some m := by
  induction cs generalizing r with
  | nil => intro c hc; cases hc
  | cons c cs ih =>
    unfold updLoop at h
    cases hc : get r c.name with
    | some m0 =>
      simp only [hc] at h
      have hrest : updLoop strict cs r = (r', none) := by
        cases strict with
        | true =>
          simp only [if_true] at h
          cases hd : checkDtype m0 c.kind with
          | ok _ => simpa [hd] using h
          | error e => simp [hd] at h
        | false => simpa using h
      intro c' hc'
      rcases List.mem_cons.1 hc' with rfl | hin
      · have := updLoop_preserve strict cs r _ m0 hc
        rw [hrest] at this
        exact ⟨m0, this⟩
      · exact ih r hrest c' hin
    | none =>
      simp only [hc] at h
      cases hu : unitFromKind c.kind with
      | error e => simp [hu] at h
      | ok u =>
        simp only [hu] at h
        intro c' hc'
        rcases List.mem_cons.1 hc' with rfl | hin
        · have hg : get (r ++ [(c'.name, ({ unit := u } : ColMeta))]) c'.name = some { unit := u } := by
            rw [get_append, hc]; simp
          have := updLoop_preserve strict cs _ _ _ hg
          rw [h] at this
          exact ⟨_, this⟩
        · exact ih _ h c' hin

/-! ### `_update_columns` -/

theorem updateColumns_nodup (strict : Bool) (r : Reg) (f : Frame) (h : (keys r).Nodup) :
    (keys (updateColumns strict r f).1).Nodup := by
  unfold updateColumns
  by_cases hd : hasDup f.names = true
  · simpa [hd] using h
  · have hd' : hasDup f.names = false := by simpa using hd
    have hn := hasDup_false_nodup _ hd'
    simp only [hd', Bool.false_eq_true, if_false]
    by_cases he : f.empty = true
    · simp only [he, if_true]
      rw [keys_reorder]
      exact (List.filter_sublist).nodup hn
    · simp only [he]
      cases hl : updLoop strict f.cols (restrict r f.names) with
      | mk r2 e =>
        have := updLoop_nodup strict f.cols _ (nodup_keys_restrict r f.names h)
        rw [hl] at this
        cases e with
        | none =>
          have : (keys (reorder r2 f.names)).Nodup := by
            rw [keys_reorder]; exact (List.filter_sublist).nodup hn
          simpa using this
        | some e => simpa using this

/-- what a successful `_update_columns` of a non-empty frame went through -/
theorem updateColumns_ok_loop (strict : Bool) (r r' : Reg) (f : Frame)
    (h : updateColumns strict r f = (r', none)) (he : f.empty = false) :
    f.names.Nodup ∧ ∃ r2, updLoop strict f.cols (restrict r f.names) = (r2, none) ∧ r' = reorder r2 f.names := by
  unfold updateColumns at h
  by_cases hd : hasDup f.names = true
  · simp [hd] at h
  · have hd' : hasDup f.names = false := by simpa using hd
    refine ⟨hasDup_false_nodup _ hd', ?_⟩
    simp only [hd', Bool.false_eq_true, if_false, he] at h
    cases hl : updLoop strict f.cols (restrict r f.names) with
    | mk r2 e =>
      rw [hl] at h
      cases e with
      | none => simp at h; exact ⟨r2, rfl, h.symm⟩
      | some e => simp at h

theorem updateColumns_ok_keys (strict : Bool) (r r' : Reg) (f : Frame)
    (h : updateColumns strict r f = (r', none)) (he : f.empty = false) : keys r' = f.names := by
  obtain ⟨_, r2, hl, rfl⟩ := updateColumns_ok_loop strict r r' f h he
  rw [keys_reorder]
  apply List.filter_eq_self.2
  intro n hn
  obtain ⟨c, hc, rfl⟩ := List.mem_map.1 hn
  obtain ⟨m, hm⟩ := updLoop_registered strict f.cols _ r2 hl c hc
  simp [hm]

/-- a frame that has lost all its columns (with or without rows): a successful update leaves no entry -/
theorem updateColumns_ok_keys_nocols (strict : Bool) (r r' : Reg) (f : Frame)
    (h : updateColumns strict r f = (r', none)) (hc : f.cols = []) : keys r' = f.names := by
  unfold updateColumns at h
  have hn : f.names = [] := by simp [Frame.names, hc]
  simp only [hn, hasDup, Bool.false_eq_true, if_false, hc, updLoop] at h
  by_cases he : f.empty = true
  · simp only [he, if_true] at h
    obtain ⟨rfl, _⟩ := Prod.mk.inj h
    simp [hn, reorder, keys]
  · simp only [he] at h
    obtain ⟨rfl, _⟩ := Prod.mk.inj h
    simp [hn, reorder, keys]

theorem updateColumns_ok_names_nodup (strict : Bool) (r r' : Reg) (f : Frame)
    (h : updateColumns strict r f = (r', none)) : f.names.Nodup := by
  unfold updateColumns at h
  by_cases hd : hasDup f.names = true
  · simp [hd] at h
  · exact hasDup_false_nodup _ (by simpa using hd)

/-- validation never alters the metadata of a column that stays in the frame -/
theorem updateColumns_ok_keeps (strict : Bool) (r r' : Reg) (f : Frame)
    (h : updateColumns strict r f = (r', none)) (he : f.empty = false) :
    ∀ c ∈ f.cols, ∀ m, get r c.name = some m → get r' c.name = some m := by
  obtain ⟨hnd, r2, hl, rfl⟩ := updateColumns_ok_loop strict r r' f h he
  intro c hc m hm
  have hin : c.name ∈ f.names := List.mem_map.2 ⟨c, hc, rfl⟩
  rw [get_reorder]
  simp only [hin, if_true]
  have := updLoop_preserve strict f.cols (restrict r f.names) c.name m (by rw [get_restrict]; simp [hin, hm])
  rw [hl] at this
  exact this

/-! ### `_check_dataframe` and the invariant behind the short cut -/

/-- what is true of an info object at all times: the register is a dict (unique keys), and whenever a
    validated state is remembered, the register is the one that validation left behind -/
structure Good (i : Info) : Prop where
  nodup : (keys i.reg).Nodup
  keysOk : ∀ f0, i.last = some f0 → (f0.empty = false ∨ f0.cols = []) → keys i.reg = f0.names

theorem checkDataframe_strict (i : Info) (f : Frame) : (checkDataframe i f).1.strict = i.strict := by
  unfold checkDataframe
  by_cases h : i.last = some f ∧ i.lastStrict = i.strict
  · simp [h]
  · simp only [h, if_false]
    cases hu : updateColumns i.strict i.reg f with
    | mk r e => cases e <;> simp

theorem checkDataframe_good (i : Info) (f : Frame) (h : Good i) : Good (checkDataframe i f).1 := by
  unfold checkDataframe
  by_cases hl : i.last = some f ∧ i.lastStrict = i.strict
  · simpa [hl] using h
  · simp only [hl, if_false]
    have hnd := updateColumns_nodup i.strict i.reg f h.nodup
    cases hu : updateColumns i.strict i.reg f with
    | mk r e =>
      rw [hu] at hnd
      cases e with
      | none =>
        refine ⟨hnd, ?_⟩
        intro f0 hf0 he
        simp at hf0; subst hf0
        rcases he with he | he
        · exact updateColumns_ok_keys _ _ _ _ hu he
        · exact updateColumns_ok_keys_nocols _ _ _ _ hu he
      | some e =>
        refine ⟨hnd, ?_⟩
        intro f0 hf0; simp at hf0

/-- after a successful consultation the remembered state is the frame just seen -/
theorem checkDataframe_ok_last (i i' : Info) (f : Frame) (h : checkDataframe i f = (i', none)) :
    i'.last = some f := by
  unfold checkDataframe at h
  by_cases hl : i.last = some f ∧ i.lastStrict = i.strict
  · simp [hl] at h; rw [← h]; exact hl.1
  · simp only [hl, if_false] at h
    cases hu : updateColumns i.strict i.reg f with
    | mk r e =>
      rw [hu] at h
      cases e with
      | none => simp at h; rw [← h]
      | some e => simp at h

/-! ### every operation preserves `Good` (frame effects universally quantified) -/

/-- entries of columns that are in the frame survive `_update_columns`, whether it succeeds or raises -/
theorem updateColumns_keeps_any (strict : Bool) (r : Reg) (f : Frame) (n : Str) (m : ColMeta)
    (hn : n ∈ f.names) (hg : get r n = some m) : get (updateColumns strict r f).1 n = some m := by
  unfold updateColumns
  by_cases hd : hasDup f.names = true
  · simpa [hd] using hg
  · have hd' : hasDup f.names = false := by simpa using hd
    simp only [hd', Bool.false_eq_true, if_false]
    have h1 : get (restrict r f.names) n = some m := by rw [get_restrict]; simp [hn, hg]
    by_cases he : f.empty = true
    · simp only [he, if_true]
      rw [get_reorder]; simp [hn, h1]
    · simp only [he]
      have h2 := updLoop_preserve strict f.cols _ n m h1
      cases hl : updLoop strict f.cols (restrict r f.names) with
      | mk r2 e =>
        rw [hl] at h2
        cases e with
        | none =>
          have : get (reorder r2 f.names) n = some m := by rw [get_reorder]; simp [hn, h2]
          simpa using this
        | some e => simpa using h2

/-- … and therefore survive any consultation, successful or not -/
theorem checkDataframe_keeps (i : Info) (f : Frame) (n : Str) (m : ColMeta)
    (hn : n ∈ f.names) (hg : get i.reg n = some m) : get (checkDataframe i f).1.reg n = some m := by
  unfold checkDataframe
  by_cases hl : i.last = some f ∧ i.lastStrict = i.strict
  · simpa [hl] using hg
  · simp only [hl, if_false]
    have := updateColumns_keeps_any i.strict i.reg f n m hn hg
    cases hu : updateColumns i.strict i.reg f with
    | mk r e =>
      rw [hu] at this
      cases e <;> simpa using this

theorem checkDataframe_ok_lastStrict (i i' : Info) (f : Frame) (h : checkDataframe i f = (i', none)) :
    i'.lastStrict = i'.strict := by
  unfold checkDataframe at h
  by_cases hl : i.last = some f ∧ i.lastStrict = i.strict
  · simp [hl] at h; rw [← h]; exact hl.2
  · simp only [hl, if_false] at h
    cases hu : updateColumns i.strict i.reg f with
    | mk r e =>
      rw [hu] at h
      cases e with
      | none => simp at h; rw [← h]
      | some e => simp at h

theorem assignUnits_keys (r : Reg) (m : List (Str × Str)) : keys (assignUnits r m).1 = keys r := by
  induction m generalizing r with
  | nil => simp [assignUnits]
  | cons p rest ih =>
    obtain ⟨n, u⟩ := p
    unfold assignUnits
    cases hg : get r n with
    | none => simp
    | some cm =>
      simp only
      rw [ih]
      exact keys_set_mem r n _ (get_some_mem r n cm hg)

theorem setUnits_good (i : Info) (f : Frame) (m : List (Str × Str)) (hg : Good i) : Good (setUnits i f m).1 := by
  unfold setUnits
  have hc := checkDataframe_good i f hg
  cases h : checkDataframe i f with
  | mk i1 e =>
    rw [h] at hc
    cases e with
    | some e => simpa using hc
    | none =>
      simp only
      have hk := assignUnits_keys i1.reg m
      cases ha : assignUnits i1.reg m with
      | mk r e2 =>
        rw [ha] at hk
        simp only at hk ⊢
        exact ⟨by simp only; rw [hk]; exact hc.nodup, by
          intro f0 hf0 he; simp only at hf0 ⊢; rw [hk]; exact hc.keysOk f0 hf0 he⟩

theorem setColFmt_good (i : Info) (f : Frame) (n : Str) (fm : Option Str) (hg : Good i) :
    Good (setColFmt i f n fm).1 := by
  unfold setColFmt
  have hc := checkDataframe_good i f hg
  cases h : checkDataframe i f with
  | mk i1 e =>
    rw [h] at hc
    cases e with
    | some e => simpa using hc
    | none =>
      simp only
      cases hget : get i1.reg n with
      | none => simpa using hc
      | some m =>
        have hk := keys_set_mem i1.reg n { m with fmt := fm } (get_some_mem i1.reg n m hget)
        exact ⟨by simp only; rw [hk]; exact hc.nodup, by
          intro f0 hf0 he; simp only at hf0 ⊢; rw [hk]; exact hc.keysOk f0 hf0 he⟩

theorem addColumnCore_good (i : Info) (f : Frame) (n : Str) (u du fm : Option Str) (hg : Good i) :
    Good (addColumnCore i f n u du fm).1 := by
  have base : Good { i with last := none } := ⟨hg.nodup, by intro f0 hf0; simp at hf0⟩
  unfold addColumnCore
  simp only
  cases hfind : f.cols.find? (fun c => c.name = n) with
  | none => simpa using base
  | some c =>
    simp only
    cases u with
    | none =>
      simp only
      cases hu : unitFromKind c.kind with
      | error e => simpa using base
      | ok u0 =>
        simp only
        cases hget : get i.reg n with
        | none => exact ⟨by simpa using nodup_keys_set i.reg n _ hg.nodup, by intro f0 hf0; simp at hf0⟩
        | some col => exact ⟨by simpa using nodup_keys_set i.reg n _ hg.nodup, by intro f0 hf0; simp at hf0⟩
    | some u0 =>
      simp only
      cases hget : get i.reg n with
      | none => exact ⟨by simpa using nodup_keys_set i.reg n _ hg.nodup, by intro f0 hf0; simp at hf0⟩
      | some col => exact ⟨by simpa using nodup_keys_set i.reg n _ hg.nodup, by intro f0 hf0; simp at hf0⟩

theorem addColumn_good (i : Info) (f : Frame) (n : Str) (u du fm : Option Str) (hg : Good i) :
    Good (addColumn i f n u du fm).1 := by
  unfold addColumn
  by_cases h : (u.isNone && dupLabel f n) = true
  · simp only [h, if_true]
    exact ⟨hg.nodup, by intro f0 hf0; simp at hf0⟩
  · simp only [h]
    exact addColumnCore_good i f n u du fm hg

theorem nodup_zipReg (ps : List (Str × Str)) (r : Reg) (h : (keys r).Nodup) : (keys (zipReg ps r)).Nodup := by
  induction ps generalizing r with
  | nil => simpa [zipReg] using h
  | cons p rest ih => obtain ⟨n, u⟩ := p; unfold zipReg; exact ih _ (nodup_keys_set r n _ h)

theorem nodup_mapReg (m : List (Str × Str)) (ns : List Str) (r : Reg) (h : (keys r).Nodup) :
    (keys (mapReg m ns r)).Nodup := by
  induction ns generalizing r with
  | nil => simpa [mapReg] using h
  | cons n rest ih =>
    unfold mapReg
    cases hl : mapLookup m n with
    | none => simpa using ih r h
    | some u => simpa using ih _ (nodup_keys_set r n _ h)

theorem fresh_good (r : Reg) (strict : Bool) (h : (keys r).Nodup) : Good { reg := r, last := none, strict := strict } :=
  ⟨h, by intro f0 hf0; simp at hf0⟩

theorem attach_good (reg : Reg) (strict : Bool) (f : Frame) (i : Info) (hnd : (keys reg).Nodup)
    (h : attach reg strict f = .ok i) : Good i := by
  unfold attach at h
  have hc := checkDataframe_good _ f (fresh_good reg strict hnd)
  cases hcd : checkDataframe { reg := reg, last := none, strict := strict } f with
  | mk i1 e =>
    rw [hcd] at h hc
    cases e with
    | none => simp at h; rw [← h]; exact hc
    | some e => simp at h

theorem nodup_makeReg (f : Frame) (us : Option (List Str)) (um : Option (List (Str × Str))) :
    (keys (makeReg f us um)).Nodup := by
  unfold makeReg
  cases us with
  | some u => exact nodup_zipReg _ [] (by simp [keys])
  | none => cases um with
    | some m => exact nodup_mapReg m _ [] (by simp [keys])
    | none => simp [keys]

/-- a constructed table (`make_table_dataframe` with any `units` / `unit_map`) starts `Good` -/
theorem make_good (f : Frame) (us : Option (List Str)) (um : Option (List (Str × Str))) (strict : Bool) (i : Info)
    (h : make f us um strict = .ok i) : Good i := by
  unfold make at h
  by_cases hb : bothTruthy us um = true
  · simp [hb] at h
  · simp only [hb] at h
    exact attach_good _ strict f i (nodup_makeReg f us um) h

theorem nodup_combineOne (out : List Str) (acc src r : Reg) (h : (keys acc).Nodup)
    (hc : combineOne out acc src = .ok r) : (keys r).Nodup := by
  induction src generalizing acc with
  | nil => simp [combineOne] at hc; rw [← hc]; exact h
  | cons p rest ih =>
    obtain ⟨n, c⟩ := p
    unfold combineOne at hc
    by_cases ho : out.contains n = true
    · simp only [ho, Bool.not_true, Bool.false_eq_true, if_false] at hc
      cases hg : get acc n with
      | none => simp only [hg] at hc; exact ih _ (nodup_keys_set acc n _ h) hc
      | some col =>
        simp only [hg] at hc
        by_cases hu : col.unit ≠ c.unit
        · simp [hu] at hc
        · simp only [hu, if_false] at hc
          exact ih _ (nodup_keys_set acc n _ h) hc
    · have ho' : out.contains n = false := by simpa using ho
      simp only [ho', Bool.not_false, if_true] at hc
      exact ih acc h hc

theorem nodup_combine (out : List Str) (acc : Reg) (srcs : List Reg) (r : Reg) (h : (keys acc).Nodup)
    (hc : combine out acc srcs = .ok r) : (keys r).Nodup := by
  induction srcs generalizing acc with
  | nil => simp [combine] at hc; rw [← hc]; exact h
  | cons s rest ih =>
    unfold combine at hc
    cases h1 : combineOne out acc s with
    | error e => simp [h1] at hc
    | ok acc' =>
      simp only [h1] at hc
      exact ih acc' (nodup_combineOne out acc s acc' h h1) hc

/-- a derived frame's info (`__finalize__` with *any* source registers, any result frame) starts `Good` -/
theorem finalize_good (srcs : List Reg) (strict : Bool) (f : Frame) (i : Info)
    (h : finalize srcs strict f = .ok i) : Good i := by
  unfold finalize at h
  cases hc : combine f.names [] srcs with
  | error e => simp [hc] at h
  | ok reg =>
    simp only [hc] at h
    exact attach_good reg strict f i (nodup_combine _ [] srcs reg (by simp [keys]) hc) h

/-- **every operation preserves the invariant**, whatever frame it leaves behind -/
theorem step_good (t : Tbl) (op : Op) (hg : Good t.info) : Good (step t op).1.info := by
  cases op with
  | mutate f => simpa [step] using hg
  | consult => simpa [step, consult] using checkDataframe_good t.info t.frame hg
  | addColumn n u du fm f => simpa [step] using addColumn_good t.info f n u du fm hg
  | setUnits m => simpa [step] using setUnits_good t.info t.frame m hg
  | setAllUnits us => simpa [step, setAllUnits] using setUnits_good t.info t.frame _ hg
  | setFmt n fm => simpa [step] using setColFmt_good t.info t.frame n fm hg
  | setStrict b => exact ⟨by simpa [step] using hg.nodup, by intro f0 hf0 he; simpa [step] using hg.keysOk f0 (by simpa [step] using hf0) he⟩
  | setColUnit n u =>
    by_cases hc : n ∈ t.frame.names
    · by_cases hd : dupLabel t.frame n = true
      · simpa [step, setColUnit, hc, hd] using hg
      · simpa [step, setColUnit, hc, hd] using setUnits_good t.info t.frame [(n, u)] hg
    · simpa [step, setColUnit, hc] using hg
  | rewrap us st =>
    unfold step rewrap
    have hc := checkDataframe_good t.info t.frame hg
    cases h : checkDataframe t.info t.frame with
    | mk i1 e =>
      rw [h] at hc
      cases e with
      | some e => simpa using hc
      | none =>
        simp only
        cases hm : make t.frame (some (us.getD (units i1.reg))) none (st.getD i1.strict) with
        | ok i2 => simpa using make_good _ _ _ _ i2 hm
        | error e => simpa using hc
  | derive srcs st f =>
    unfold step
    cases h : finalize srcs st f with
    | ok i2 => simpa [h] using finalize_good srcs st f i2 h
    | error e => simpa [h] using hg

theorem run_good (t : Tbl) (ops : List Op) (hg : Good t.info) : Good (run t ops).info := by
  induction ops generalizing t with
  | nil => simpa [run] using hg
  | cons op ops ih => unfold run; exact ih _ (step_good t op hg)


end Pdt.Meta
