import PdtModel.Model.Reader
set_option linter.unusedSimpArgs false
namespace Pdt
open Pdt.Reader

theorem map_range_getD {α β} (l : List α) (d : α) (g : α → β) :
    (List.range l.length).map (fun i => g (l.getD i d)) = l.map g := by
  apply List.ext_getElem
  · simp
  · intro i h1 h2
    simp at h1
    simp [List.getD_eq_getElem?_getD, h1]

theorem zipIdx_map_eq_range {α β} (l : List α) (d : α) (f : α × Nat → β) :
    l.zipIdx.map f = (List.range l.length).map (fun j => f (l.getD j d, j)) := by
  apply List.ext_getElem
  · simp
  · intro i h1 h2
    simp at h1
    simp [List.getD_eq_getElem?_getD, h1]

theorem getD0_map_range (n : Nat) (M : Nat → Cell) (j : Nat) (h : j < n) :
    getD0 ((List.range n).map M) j = M j := by
  simp [getD0, List.getD_eq_getElem?_getD, h]

/-- transposing a matrix given row by row -/
theorem transposeN_matrix (nR nC : Nat) (M : Nat → Nat → Cell) :
    transposeN ((List.range nR).map (fun i => (List.range nC).map (fun j => M i j))) nC =
      (List.range nC).map (fun j => (List.range nR).map (fun i => M i j)) := by
  unfold transposeN
  apply List.map_congr_left
  intro j hj
  simp only [List.mem_range] at hj
  simp only [List.map_map]
  apply List.map_congr_left
  intro i _
  simp [Function.comp, getD0_map_range nC (M i) j hj]

end Pdt
