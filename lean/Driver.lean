/-
  Driver.lean — line-protocol driver over the executable model (compiled as `pdt-driver`).
  One JSON object per input line: {"op": <name>, ...args}; one JSON value per output line.
  Unknown op / malformed arguments answer {"error": ...} — never a default value.
-/
import Lean.Data.Json
import PdtModel.Model.Text
import PdtModel.Model.Cell
import PdtModel.Model.Marker
import PdtModel.Model.Segment
open Lean Pdt

namespace Drv

def str (s : Str) : Json := Json.str (String.ofList s)

def cellToJson : Cell → Json
  | .none => Json.null
  | .str s => str s
  | .bool b => Json.bool b
  | .int i => Json.mkObj [("i", Json.num (JsonNumber.fromInt i))]
  | .float t => Json.mkObj [("f", str t)]
  | .dt t => Json.mkObj [("d", str t)]
  | .other t => Json.mkObj [("o", str t)]

def cellOfJson (j : Json) : Except String Cell :=
  match j with
  | .null => pure .none
  | .str s => pure (.str s.toList)
  | .bool b => pure (.bool b)
  | .obj _ =>
    match j.getObjVal? "i" with
    | .ok v => do let i ← v.getInt?; pure (.int i)
    | .error _ =>
    match j.getObjVal? "f" with
    | .ok v => do let s ← v.getStr?; pure (.float s.toList)
    | .error _ =>
    match j.getObjVal? "d" with
    | .ok v => do let s ← v.getStr?; pure (.dt s.toList)
    | .error _ =>
    match j.getObjVal? "o" with
    | .ok v => do let s ← v.getStr?; pure (.other s.toList)
    | .error _ => throw "bad cell object"
  | _ => throw "bad cell"

def rowOfJson (j : Json) : Except String Row := do
  let a ← j.getArr?
  a.toList.mapM cellOfJson

def rowsOfJson (j : Json) : Except String (List Row) := do
  let a ← j.getArr?
  a.toList.mapM rowOfJson

def rowToJson (r : Row) : Json := Json.arr (r.map cellToJson).toArray

def markerToJson : Option Marker → Json
  | none => Json.null
  | some .table => "table"
  | some .directive => "directive"
  | some .template => "template"
  | some .metadata => "metadata"

def btToJson : BT → Json
  | .directive => "DIRECTIVE"
  | .table => "TABLE"
  | .template => "TEMPLATE_ROW"
  | .metadata => "METADATA"
  | .blank => "BLANK"

def blockToJson (b : Block Row) : Json :=
  Json.mkObj [("ty", btToJson b.ty), ("first", Json.num (JsonNumber.fromNat b.first)),
              ("rows", Json.arr (b.rows.map rowToJson).toArray)]

def getStr (j : Json) (k : String) : Except String Str := do
  let v ← j.getObjVal? k
  let s ← v.getStr?
  pure s.toList

def getNat (j : Json) (k : String) : Except String Nat := do
  let v ← j.getObjVal? k
  v.getNat?

/-- op dispatch -/
def handle (j : Json) : Except String Json := do
  let op ← (← j.getObjVal? "op").getStr?
  match op with
  | "classify" => do
    let s ← getStr j "s"
    pure (markerToJson (classify s))
  | "isspace_range" => do
    let lo ← getNat j "lo"
    let hi ← getNat j "hi"
    let xs := (List.range (hi - lo)).filterMap fun k =>
      let n := lo + k
      if isSpace (Char.ofNat n) then some (Json.num (JsonNumber.fromNat n)) else none
    pure (Json.arr xs.toArray)
  | "strip" => do
    let s ← getStr j "s"
    pure (str (strip s))
  | "is_blank" => do
    let c ← cellOfJson (← j.getObjVal? "c")
    pure (Json.bool c.isBlank)
  | "segment" => do
    let rows ← rowsOfJson (← j.getObjVal? "rows")
    pure (Json.arr ((segment rows).map blockToJson).toArray)
  | _ => throw s!"unknown op {op}"

end Drv

partial def loop (h : IO.FS.Stream) (out : IO.FS.Stream) : IO Unit := do
  let line ← h.getLine
  if line.isEmpty then return ()
  let res := match Json.parse line with
    | .error e => Json.mkObj [("error", Json.str s!"parse: {e}")]
    | .ok j => match Drv.handle j with
      | .ok r => r
      | .error e => Json.mkObj [("error", Json.str e)]
  out.putStrLn res.compress
  loop h out

def main : IO Unit := do
  let out ← IO.getStdout
  loop (← IO.getStdin) out
  out.flush
