/-
  Driver.lean — line-protocol driver over the executable model (compiled as `pdt-driver`).
  One JSON object per input line: {"op": <name>, ...args}; one JSON value per output line.
  Unknown op / malformed arguments answer {"error": ...} — never a default value.
  Op handlers live in Drv/*.lean, one file per model layer.
-/
import Drv.Base
import Drv.Segment
import Drv.Bundle
import Drv.Meta
import Drv.Equals
import Drv.Convert
import Drv.Load
import Drv.Resource
import Drv.Reader
import Drv.Write
import Drv.Json
import Drv.Grid
import Drv.Combine
import Drv.PathRes
import Drv.Blocks
import Drv.Errors
import Drv.Rewrites
import Drv.Regex
open Lean

def handlers : List (String → Json → Option (Except String Json)) :=
  [Drv.handleSegment, Drv.handleBundle,
   Drv.handleMeta, Drv.handleEquals, Drv.handleConvert, Drv.handleLoad, Drv.handleResource, Drv.handleReader, Drv.handleWrite, Drv.handleJson, Drv.handleGrid, Drv.handleCombine, Drv.handlePathRes, Drv.handleBlocks, Drv.handleErrors, Drv.handleRewrites, Drv.handleRegex]

def dispatch (j : Json) : Except String Json := do
  let op ← (← j.getObjVal? "op").getStr?
  match handlers.findSome? (fun h => h op j) with
  | some r => r
  | none => throw s!"unknown op {op}"

partial def loop (h : IO.FS.Stream) (out : IO.FS.Stream) : IO Unit := do
  let line ← h.getLine
  if line.isEmpty then return ()
  let res := match Json.parse line with
    | .error e => Json.mkObj [("error", Json.str s!"parse: {e}")]
    | .ok j => match dispatch j with
      | .ok r => r
      | .error e => Json.mkObj [("error", Json.str e)]
  out.putStrLn res.compress
  loop h out

def main : IO Unit := do
  let out ← IO.getStdout
  loop (← IO.getStdin) out
  out.flush
