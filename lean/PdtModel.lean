import PdtModel.Model.Text
import PdtModel.Model.Cell
import PdtModel.Model.Marker
import PdtModel.Model.Segment
