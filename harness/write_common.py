"""Well-formed table bundles (DESIGN.md §3) as real pdtable Tables, and their protocol form for the
Lean writer model (driver ops "write_csv" / "read_csv")."""
import datetime
import weakref
import io
import math
import warnings

from harness import reader_common as rc
from harness.common import float_tok

SEPS = [";", ",", "|", "\t", "~", "§", "¦"]
# includes characters that str.splitlines() treats as line breaks but file iteration does not
# (form feed, FS/RS, NEL, LINE SEPARATOR, VT): they are ordinary in-line characters of a CSV cell
TEXT_ALPHA = ["a", "b", "Z", "é", " ", " ", "-", "n", "N", "1", "0", ".", "*", ":", "_", "x", "µ", "=", "'", '"', " ",
              "\x0c", "\x1c", "\x1e", "\x85", "\u2028", "\x0b", "\x00",
              # a decomposed and a composed spelling of one letter are different texts (no normalisation anywhere)
              "e\u0301", "\u00e9", "\u1112\u1161\u11ab", "\ud55c", "\uff21"]


def is_space(ch):
    return ord(ch) in rc.SPACE_CPS


def is_blank(s):
    return all(is_space(c) for c in s)


def classify(s):
    """reference marker classifier (same rule as c03.ref_kind, strings only)"""
    stars = len(s) - len(s.lstrip("*"))
    if stars == 2:
        return "table"
    if stars == 3:
        return "directive"
    colons = len(s) - len(s.lstrip(":"))
    if 1 <= colons <= 3 and ":" not in s[colons:]:
        return "template"
    if s.count(":") == 1:
        body, ws = s.split(":")
        if body and is_blank(ws):
            return "key"
    return None


def rand_str(rng, alpha, lo, hi, bad):
    return "".join(c for c in (rng.choice(alpha) for _ in range(rng.randint(lo, hi))) if c not in bad)


def wf_table(rng, sep, transposed=None, kinds=None, n_row=None):
    """-> (Table, kinds). Every clause of DESIGN §3 holds by construction.  `kinds` / `n_row` fix the column kinds
    and the number of rows (deterministic enumeration of small shapes)."""
    import numpy as np
    import pandas as pd
    from pdtable import Table
    bad = {sep, "\n", "\r"}
    if transposed is None:
        transposed = rng.random() < 0.45
    n_col = (rng.choice([0, 1, 1, 2, 2, 3, 4, 5]) if rng.random() < 0.97 else rng.choice([9, 17, 33])) \
        if kinds is None else len(kinds)
    n_row = rng.choice([0, 1, 1, 2, 3, 6]) if n_row is None else n_row
    kinds = [rng.choice(["text", "onoff", "datetime", "num", "num", "int", "f32", "i32", "u8"]) for _ in range(n_col)] \
        if kinds is None else list(kinds)
    # 1. name
    while True:
        name = rand_str(rng, TEXT_ALPHA, 0, 6, bad)
        if name.startswith("*") or name.endswith("*"):
            continue
        if transposed and not name:
            continue
        break
    # 2. destinations
    dests = set()
    for _ in range(rng.choice([1, 1, 2, 3])):
        while True:
            d = rand_str(rng, ["a", "b", "all", "é", "_", "1", "-", "*", "x"], 1, 3, bad | {":"})
            if d and not any(is_space(c) for c in d) and not d.startswith("**"):
                dests.add(d)
                break
    # 3. column names
    names = []
    while len(names) < n_col:
        nm = rand_str(rng, TEXT_ALPHA, 1, 5, bad).strip()
        nm = nm.strip("".join(chr(c) for c in rc.SPACE_CPS))
        if not nm or nm in names:
            continue
        if (transposed or not names) and classify(nm) is not None:
            continue
        names.append(nm)
    # column names that differ only in letter case (or only after case folding) are different names
    if len(names) >= 2 and rng.random() < 0.2:
        base = names[0]
        for cand in (base.swapcase(), base.upper(), base.lower(), base + "ß" if False else base.replace("ss", "ß")):
            if cand != base and cand not in names and cand.strip("".join(chr(c) for c in rc.SPACE_CPS)) == cand \
                    and not any(c in bad for c in cand) and (not transposed or classify(cand) is None):
                names[1] = cand
                break
    # 4. units
    units = []
    for j, k in enumerate(kinds):
        if k in ("text", "onoff", "datetime"):
            units.append(k)
            continue
        while True:
            # units are case-sensitive: 'mm' and 'Mm', 's' and 'S', 't' and 'T' are different units, also when both
            # occur in one bundle or one after the other in one process
            u = rng.choice(["-", "m", "kg", "mm", "°C", "m/s", "%", "N m", "", "1/s", "Mm", "M", "KG", "Kg", "s", "S",
                            "t", "T", "Text", "DateTime", "ONOFF"])
            if any(c in bad for c in u) or u in ("text", "onoff", "datetime"):
                continue
            if j == 0 and not transposed and (is_blank(u) or classify(u) is not None):
                continue
            units.append(u)
            break
    # 5. cells
    cols = {}
    for j, (nm, k) in enumerate(zip(names, kinds)):
        vals = []
        for i in range(n_row):
            if k == "text":
                while True:
                    s = rng.choice(["", "a", " a ", "-", "nan", "None", "1.5", "**x", ":a", "k:"]) \
                        if rng.random() < 0.4 else rand_str(rng, TEXT_ALPHA, 0, 6, bad)
                    if rng.random() < 0.02:
                        s = (s or "x") * rng.choice([50, 90, 300, 1500])      # a long text is a text like any other
                    if any(c in bad for c in s):
                        continue
                    s = s.rstrip("\x00")     # a text value ending in NUL is not kept by the reader (finding F3, C02)
                    if not transposed and j == 0 and (is_blank(s) or classify(s) is not None):
                        continue
                    if transposed and i == 0 and s == "":
                        continue
                    vals.append(s)
                    break
            elif k == "onoff":
                vals.append(rng.random() < 0.5)
            elif k == "datetime":
                if rng.random() < 0.2:
                    vals.append(pd.NaT)
                else:
                    # microsecond timestamps cover years 1..9999 (pandas 3 keeps them at [us]); a tenth of the
                    # values sit at / beyond the limits of other resolutions and epochs
                    year = rng.choice(YEAR_EDGES) if rng.random() < 0.1 else rng.randint(1900, 2200)
                    vals.append(pd.Timestamp(datetime.datetime(year, rng.randint(1, 12), rng.randint(1, 28),
                                                               rng.randint(0, 23), rng.randint(0, 59), rng.randint(0, 59),
                                                               rng.choice([0, 0, 1, 999999, 123000]))))
            elif k == "int":
                vals.append(rng.choice([0, 1, -1, 7, 10 ** 6, -2 ** 40, 2 ** 53 - 1]))
            elif k == "i32":
                vals.append(rng.choice([0, 1, -1, 7, 10 ** 6, -2 ** 31, 2 ** 31 - 1]))
            elif k == "u8":
                vals.append(rng.choice([0, 1, 7, 128, 255]))
            elif k == "f32":
                # single precision: the value a float32 holds is written with all the digits of its float64 widening
                vals.append(rng.choice([float("nan"), 0.1, 0.5, -2.5, 1e-3, 3.1415927, 1e10, float("inf"), 16777216.0,
                                        rng.random()]))
            else:
                r = rng.random()
                if r < 0.2:
                    vals.append(float("nan"))
                elif r < 0.3:
                    vals.append(rng.choice([float("inf"), float("-inf"), 0.0, -0.0, 1e300, 5e-324, 1e22, 1e16, 123456789.123456789]))
                else:
                    vals.append(rng.choice([float(rng.randint(-1000, 1000)), rng.random() * 10 ** rng.randint(-8, 15), -rng.random()]))
        cols[nm] = vals
    # transposed: every row needs a non-blank rendered cell (automatic unless all columns are text)
    if transposed and kinds and all(k == "text" for k in kinds):
        for i in range(n_row):
            if all(is_blank(cols[nm][i]) for nm in names):
                cols[names[0]][i] = "x"
    data = {}
    for nm, k in zip(names, kinds):
        v = cols[nm]
        if k == "text":
            # half of the text columns are held as object (a frame built from an object array would be inferred as
            # `str` by pandas 3: a Series with an explicit dtype is not), half in pandas 3's own string dtype
            data[nm] = pd.Series(list(v), dtype=object) if rng.random() < 0.5 else pd.array(list(v), dtype="str")
        elif k == "onoff":
            data[nm] = np.array(v, dtype=bool)
        elif k == "int":
            data[nm] = np.array(v, dtype="int64")
        elif k == "i32":
            data[nm] = np.array(v, dtype="int32")
        elif k == "u8":
            data[nm] = np.array(v, dtype="uint8")
        elif k == "f32":
            data[nm] = np.array(v, dtype="float32")
        elif k == "datetime":
            data[nm] = pd.Series(v, dtype="datetime64[us]").to_numpy() if v else np.array([], dtype="datetime64[us]")
            if v and all(x is pd.NaT or x.microsecond == 0 for x in v) and rng.random() < 0.5:
                data[nm] = data[nm].astype("datetime64[s]")     # a coarser resolution holding the same instants
        else:
            data[nm] = np.array(v, dtype="float64")
    df = pd.DataFrame(data)
    if n_row and rng.random() < 0.2:
        # row labels are not part of a table: any labels (shifted, reversed, text, repeated)
        df.index = rng.choice([list(range(5, 5 + n_row)), list(range(n_row, 0, -1)), [f"r{i}" for i in range(n_row)],
                               [0] * n_row])
    # the generator's own record of what the table holds (the expectation of the round trip is this record, not
    # what the library reports about the table it was given)
    record = {"name": name, "transposed": bool(transposed), "destinations": sorted(dests), "names": list(names),
              "units": list(units), "columns": []}
    for nm, k in zip(names, kinds):
        arr = data[nm]
        if n_row == 0:
            record["columns"].append({"k": "raw", "v": []})
        elif k == "text":
            record["columns"].append({"k": "text", "v": [str(x) for x in cols[nm]]})
        elif k == "onoff":
            record["columns"].append({"k": "onoff", "v": [bool(x) for x in cols[nm]]})
        elif k == "datetime":
            record["columns"].append({"k": "dt", "v": [rc.ts_tok(x) for x in cols[nm]]})
        else:
            record["columns"].append({"k": "num", "v": [float_tok(float(x)) for x in np.asarray(arr).tolist()]})
    with warnings.catch_warnings():
        warnings.simplefilter("ignore")
        t = Table(df, name=name, destinations=dests, units=units, transposed=transposed)
        if len(names) >= 2 and rng.random() < 0.25:
            # another route to the same table: build it with the columns in another order, look at it once, then
            # select the columns back into the intended order and wrap that frame (Table(t0.df[names]))
            perm = list(range(len(names)))
            rng.shuffle(perm)
            t0 = Table(df[[names[k] for k in perm]], name=name, destinations=dests,
                       units=[units[k] for k in perm], transposed=transposed)
            _ = t0.units
            t = Table(t0.df[names])
            t.metadata.transposed = transposed
    if any(c in sep_chars_of_render(t) for c in bad):
        return wf_table(rng, sep, transposed, kinds, n_row)   # a numeral / timestamp contains the separator: not admissible
    RECORDS[id(t)] = (weakref.ref(t.df), record)
    return t, kinds


RECORDS = {}


def record_of(t):
    """the generator's record of a table it built (None for tables that came from elsewhere)"""
    ent = RECORDS.get(id(t))
    return ent[1] if ent is not None and ent[0]() is t.df else None


YEAR_EDGES = [1, 2, 99, 100, 999, 1000, 1582, 1583, 1676, 1677, 1678, 1899, 1900, 1969, 1970, 2037, 2038, 2039, 2261, 2262,
              2263, 2500, 3000, 9998, 9999]


def sep_chars_of_render(t):
    """all characters of the rendered numerals / timestamps / booleans of a table"""
    chars = set("01-")
    for nm in t.df.columns:
        s = t.df[nm]
        if s.dtype.kind in "fiu":
            for x in s.tolist():
                chars |= set(str(x))
        elif s.dtype.kind == "M":
            for x in s.tolist():
                chars |= set(str(x.to_pydatetime())) if x is not None and x == x else set()
    return chars


def wf_bundle(rng, sep):
    # mostly short bundles; now and then more tables than any small batch
    return [wf_table(rng, sep) for _ in range(rng.choice([0, 1, 1, 1, 2, 2, 3, 4]) if rng.random() < 0.97 else rng.choice([9, 17]))]


def table_val(t):
    """real Table -> protocol TableVal (values typed by the dtype pandas holds them in)"""
    cols = []
    for nm, unit in zip(t.df.columns, t.units):
        s = t.df[nm]
        k = s.dtype.kind
        if k == "b":
            vals = [bool(x) for x in s.tolist()]
        elif k in "iu":
            vals = [{"i": int(x)} for x in s.tolist()]
        elif k == "f":
            vals = [{"f": float_tok(float(x))} for x in s.tolist()]
        elif k == "M":
            vals = [{"d": rc.ts_tok(x)} for x in s.tolist()]
        else:
            vals = [x if isinstance(x, str) else str(x) for x in s.tolist()]
        col = {"name": str(nm), "unit": unit, "values": vals}
        if str(s.dtype) not in ("object", "bool", "int64", "float64", "datetime64[us]"):
            col["dtype"] = str(s.dtype)          # for the replay only (the model does not look at it)
        cols.append(col)
    tv = {"name": t.name, "destinations": [str(d) for d in t.metadata.destinations],
          "transposed": bool(t.metadata.transposed), "columns": cols}
    idx = list(t.df.index)
    if idx != list(range(len(idx))):
        # row labels are not part of a table, but a replay has to rebuild the frame as it was
        tv["row_labels"] = [x if isinstance(x, str) else int(x) for x in idx]
    return tv


def table_from_val(tv):
    """protocol TableVal -> real Table (inverse of table_val: same dtypes, values, header)"""
    import numpy as np
    import pandas as pd
    from pdtable import Table
    data, units = {}, []
    for c in tv["columns"]:
        v = c["values"]
        units.append(c["unit"])
        if c["unit"] == "onoff" or (v and all(isinstance(x, bool) for x in v)):
            data[c["name"]] = np.array(v, dtype=bool)
        elif c["unit"] == "datetime" or (v and all(isinstance(x, dict) and "d" in x for x in v)):
            data[c["name"]] = pd.Series([pd.NaT if x["d"] == "NaT" else pd.Timestamp(x["d"]) for x in v],
                                        dtype="datetime64[us]").to_numpy() if v else np.array([], dtype="datetime64[us]")
        elif v and all(isinstance(x, dict) and "i" in x for x in v):
            data[c["name"]] = np.array([x["i"] for x in v], dtype="int64")
        elif c["unit"] == "text":
            data[c["name"]] = np.array(v, dtype=object) if v else np.array([], dtype=object)
        else:
            data[c["name"]] = np.array([float(x["f"]) for x in v], dtype="float64")
    df = pd.DataFrame(data)
    for c in tv["columns"]:
        if c.get("dtype"):
            try:
                df[c["name"]] = pd.array(list(df[c["name"]]), dtype=c["dtype"]) if c["dtype"] in ("str", "string") \
                    else df[c["name"]].astype(c["dtype"])
            except Exception:  # noqa: BLE001 — an unknown dtype name: keep the plain column
                pass
    if tv.get("row_labels") is not None and len(tv["row_labels"]) == len(df):
        df.index = tv["row_labels"]
    with warnings.catch_warnings():
        warnings.simplefilter("ignore")
        return Table(df, name=tv["name"], destinations=set(tv["destinations"]), units=units,
                     transposed=tv["transposed"])


def observe(t):
    """what the property compares: header + values by value (ints as numbers)"""
    d = rc.canon_table(t)
    return d
