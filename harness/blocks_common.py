"""Shared runner for the block-level properties (C07 C11 C12 C13): the real `parse_blocks` with a
chosen output form, filter, tracker and fixer, canonicalised to the shape the Lean `parseBlocks`
(driver op "parse_blocks") prints."""
import logging
import warnings

from harness import common, reader_common as rc
from harness.common import grid_to_json, float_tok

logging.disable(logging.CRITICAL)


def collecting_tracker():
    from pdtable.table_origin import InputIssueTracker

    class Collecting(InputIssueTracker):
        def __init__(self):
            self._issues = []

        def add_issue(self, input_issue):
            self._issues.append(input_issue)

        @property
        def issues(self):
            return self._issues
    return Collecting()


def canon_json_table(j):
    """JsonData of a table -> precursor-like canonical form (unit-directed value tokens)"""
    import pandas as pd
    cols = []
    units = []
    for cname, col in j["columns"].items():
        u = col["unit"]
        units.append(u)
        vals = col["values"]
        try:
            if not vals:
                cols.append({"k": "raw", "v": []})
            elif u == "text":
                cols.append({"k": "text", "v": [str(x) for x in vals]})
            elif u == "onoff":
                cols.append({"k": "onoff", "v": [bool(x) for x in vals]})
            elif u == "datetime":
                cols.append({"k": "dt", "v": ["NaT" if x is None else pd.Timestamp(x).isoformat() for x in vals]})
            else:
                cols.append({"k": "num", "v": ["nan" if x is None else float_tok(float(x)) for x in vals]})
        except (TypeError, ValueError):
            # the unit text does not tell the kind of these values (e.g. a unit that came back unstripped): keep the
            # values as they are — the comparison that follows sees the difference, the harness does not crash
            cols.append({"k": "values-do-not-fit-unit", "v": [repr(x) for x in vals]})
    return {"name": j["name"], "destinations": list(j["destinations"].keys()), "names": list(j["columns"].keys()),
            "units": units, "columns": cols}


def canon_block(bt, val, form):
    from pdtable import Table, MetadataBlock, Directive
    if isinstance(val, Table):
        return {"table": rc.canon_table(val)}
    if isinstance(val, MetadataBlock):
        return {"metadata": [[k, v] for k, v in val.items()]}
    if isinstance(val, Directive):
        return {"directive": {"name": val.name, "lines": [common.cell_to_json(c) for c in val.lines]}}
    if isinstance(val, dict):
        return {"json": canon_json_table(val)}
    return {"grid": grid_to_json(val)}


def impl_parse_blocks(rows, to="pdtable", filt=None, tracker="raising", fixer_kind=None, origin_rows=True):
    """-> {"blocks": [...], "issues": [rows], "ending": ...} ; filt is a python predicate or None"""
    from pdtable.io.parsers.blocks import parse_blocks
    from pdtable.table_origin import InputError
    tr = collecting_tracker() if tracker == "collecting" else None
    fixer = rc.make_fixer(fixer_kind) if fixer_kind else None
    blocks, ending = [], "exhausted"
    try:
        with warnings.catch_warnings():
            warnings.simplefilter("ignore")
            for bt, val in parse_blocks(iter([list(r) for r in rows]), to=to, filter=filt, issue_tracker=tr,
                                        fixer=fixer):
                first = None
                try:
                    first = val.metadata.origin.input_location.row
                except AttributeError:
                    pass
                blocks.append({"ty": bt.name, "first": first, "val": canon_block(bt, val, to)})
    except InputError as e:
        issue = e.args[0]
        ending = {"InputError": getattr(getattr(issue, "load_location", None), "row", None)}
    except Exception as e:  # noqa: BLE001
        ending = {"escaped": type(e).__name__}
    issues = [getattr(i.load_location, "row", None) for i in tr.issues] if tr is not None else \
        ([ending["InputError"]] if isinstance(ending, dict) and "InputError" in ending else [])
    return {"blocks": blocks, "issues": issues, "ending": ending}


def model_op(rows, to="pdtable", filt=None, tracker="raising", fixer_kind="strict"):
    """filt: None or {"accept": [[ty, name, bool]...], "default": bool}"""
    return {"op": "parse_blocks", "rows": grid_to_json(rows), "to": to, "filter": filt, "tracker": tracker,
            "fixer": rc.FIXERS[fixer_kind], "ext": rc.ext_tables(rows)}


def canon_model(ans):
    """model answer -> impl shape: destinations as sorted set for tables; origin rows only where the
    implementation exposes them (tables)"""
    if "blocks" not in ans:
        return ans
    out = []
    for b in ans["blocks"]:
        v = b["val"]
        first = b["first"]
        if "table" in v:
            t = dict(v["table"])
            t["destinations"] = sorted(set(t["destinations"]))
            v = {"table": t}
        elif "json" in v:
            t = dict(v["json"])
            t.pop("transposed", None)
            # make_table_json_data zips column names with units: columns beyond the units are dropped
            n = len(t["units"])
            t["names"], t["columns"] = t["names"][:n], t["columns"][:n]
            v = {"json": t}
            first = None
        else:
            first = None
        out.append({"ty": b["ty"], "first": first, "val": v})
    return {"blocks": out, "issues": ans["issues"], "ending": ans["ending"]}


def py_filter(spec):
    """python predicate from the extensional filter spec"""
    if spec is None:
        return None
    table = {}
    for t, n, b in spec["accept"]:
        table.setdefault((t, n), b)          # first entry wins, as in the driver

    def pred(bt, name):
        return table.get((bt.name, name), spec["default"])
    return pred
