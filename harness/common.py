"""Shared machinery for the pdtable verification checks (see DESIGN.md §2)."""
import fcntl
import hashlib
import json
import os
import random
import re
import subprocess
import sys
import time
from pathlib import Path

ROOT = Path(__file__).resolve().parent.parent          # /verif (checkout-relative)
LEAN = ROOT / "lean"
REPO = Path(os.environ.get("PDT_REPO", "/repo"))
DRIVER = LEAN / ".lake" / "build" / "bin" / "pdt-driver"
ALLOWED_AXIOMS = {"propext", "Classical.choice", "Quot.sound"}
FORBIDDEN = re.compile(
    r"\b(sorry|admit|native_decide|bv_decide|implemented_by|unsafe)\b|^\s*axiom\s|maxHeartbeats\s+0\b"
)
TRUSTED_BASE = [
    "Lean 4.33.0 kernel (thorough tier: leanchecker re-check of the .olean files)",
    "axioms allowed in property theorems: propext, Classical.choice, Quot.sound (audited per run)",
    "harness/extract.py (constants translated from /repo source via ast)",
    "correspondence harness + lean/Driver.lean JSON line protocol and canonicalisation",
    "statement of the property as transcribed in lean/PdtModel/Props/<id>.lean",
]

if str(REPO) not in sys.path:
    sys.path.insert(0, str(REPO))


class InfraError(Exception):
    """Tooling failure (exit 2) — never a VIOLATION."""


def seed_from_env() -> int:
    try:
        return int(os.environ.get("VERIF_SEED", "0"))
    except ValueError:
        return 0


def make_rng(seed: int, stream: str) -> random.Random:
    h = hashlib.sha256(f"{seed}:{stream}".encode()).digest()
    return random.Random(int.from_bytes(h[:8], "big"))


# --------------------------------------------------------------------------- build / audit

class _Lock:
    def __init__(self, path):
        self.path = path

    def __enter__(self):
        self.f = open(self.path, "w")
        fcntl.flock(self.f, fcntl.LOCK_EX)

    def __exit__(self, *a):
        fcntl.flock(self.f, fcntl.LOCK_UN)
        self.f.close()


def run_cmd(cmd, cwd=None, timeout=1800, input=None):
    try:
        p = subprocess.run(cmd, cwd=cwd, capture_output=True, text=True, timeout=timeout, input=input)
    except subprocess.TimeoutExpired as e:
        raise InfraError(f"timeout: {' '.join(map(str, cmd))}") from e
    except FileNotFoundError as e:
        raise InfraError(f"missing tool: {cmd[0]}") from e
    return p.returncode, p.stdout, p.stderr


def translate():
    """Tie 1: regenerate lean/PdtModel/Gen/*.lean from the current /repo source."""
    from harness import extract
    return extract.run(REPO, LEAN / "PdtModel" / "Gen")


def lake_build(targets):
    """Returns (ok, log). A failed build is a broken proof obligation, not an infra error,
    unless lake itself is unusable."""
    with _Lock(LEAN / ".build.lock"):
        rc, out, err = run_cmd(["lake", "build", *targets], cwd=LEAN, timeout=3000)
    log = out + err
    if rc != 0 and ("error:" not in log):
        raise InfraError("lake build failed without a Lean error:\n" + log[-2000:])
    return rc == 0, log


def audit(prop: str):
    """Run `#audit_ns` for the property; returns dict(obligations, discharged, bad, theorems)."""
    f = LEAN / "PdtModel" / "Audit" / f"{prop}.lean"
    rc, out, err = run_cmd(["lake", "env", "lean", str(f.relative_to(LEAN))], cwd=LEAN, timeout=900)
    thms, bad = {}, []
    for m in re.finditer(r"AXIOMS (\S+) : \[(.*?)\]", out):
        name = m.group(1)
        last = name.rsplit(".", 1)[-1]
        if re.fullmatch(r"eq_\d+|eq_def|congr_simp|injEq|sizeOf_spec|inj|noConfusion.*", last):
            continue
        axs = [a.strip() for a in m.group(2).split(",") if a.strip()]
        thms[name] = axs
        if not set(axs) <= ALLOWED_AXIOMS:
            bad.append((name, axs))
    ok = rc == 0 and not bad and len(thms) > 0
    return {
        "ok": ok, "rc": rc, "obligations": len(thms),
        "discharged": sum(1 for a in thms.values() if set(a) <= ALLOWED_AXIOMS) if rc == 0 else 0,
        "bad": bad, "theorems": sorted(thms), "log": (out + err)[-3000:] if rc != 0 else "",
    }


def _strip_comments(src: str) -> str:
    # remove /- ... -/ (nested) and -- line comments
    out, i, depth = [], 0, 0
    while i < len(src):
        if src.startswith("/-", i):
            depth += 1; i += 2; continue
        if depth and src.startswith("-/", i):
            depth -= 1; i += 2; continue
        if depth:
            if src[i] == "\n":
                out.append("\n")
            i += 1; continue
        if src.startswith("--", i):
            while i < len(src) and src[i] != "\n":
                i += 1
            continue
        out.append(src[i]); i += 1
    return "".join(out)


def import_closure(prop: str):
    """Lean source files (inside this project) that Props/<prop>.lean transitively imports."""
    seen, todo = [], [LEAN / "PdtModel" / "Props" / f"{prop}.lean"]
    while todo:
        p = todo.pop()
        if p in seen or not p.exists():
            continue
        seen.append(p)
        for m in re.finditer(r"^import\s+((?:PdtModel|Drv)[\w.]*)", p.read_text(), re.M):
            todo.append(LEAN / (m.group(1).replace(".", "/") + ".lean"))
    return sorted(seen)


def grep_forbidden(prop: str):
    """sorry / admit / axiom / native_decide / … outside comments, in every Lean source the
    property's theorems depend on (the import closure of Props/<prop>.lean)."""
    hits = []
    for p in import_closure(prop):
        code = _strip_comments(p.read_text())
        for n, line in enumerate(code.split("\n"), 1):
            if FORBIDDEN.search(line):
                hits.append(f"{p.relative_to(LEAN)}:{n}: {line.strip()[:120]}")
    return hits


def leanchecker(modules):
    rc, out, err = run_cmd(["lake", "env", "leanchecker", *modules], cwd=LEAN, timeout=3000)
    return rc == 0, (out + err)[-2000:]


# --------------------------------------------------------------------------- driver

def run_model(ops):
    """Pipe JSON ops (list of dicts) through the compiled model driver; returns parsed answers."""
    if not ops:
        return []
    if not DRIVER.exists():
        raise InfraError(f"driver not built: {DRIVER}")
    data = "\n".join(json.dumps(o, ensure_ascii=False) for o in ops) + "\n"
    try:
        p = subprocess.run([str(DRIVER)], input=data.encode("utf-8"), capture_output=True, timeout=1800)
    except subprocess.TimeoutExpired as e:
        raise InfraError("driver timeout") from e
    if p.returncode != 0:
        raise InfraError(f"driver crashed rc={p.returncode}: {p.stderr.decode('utf-8', 'replace')[-500:]}")
    lines = p.stdout.decode("utf-8").split("\n")
    if lines and lines[-1] == "":
        lines.pop()
    if len(lines) != len(ops):
        raise InfraError(f"driver answered {len(lines)} lines for {len(ops)} ops")
    return [json.loads(l) for l in lines]


# --------------------------------------------------------------------------- cells

def cell_to_json(x):
    """Native Python cell -> protocol cell (see lean/Driver.lean:cellOfJson)."""
    import datetime
    if x is None:
        return None
    if isinstance(x, bool):
        return x
    if isinstance(x, str):
        return x
    if isinstance(x, int):
        try:
            ft = repr(float(x))
        except OverflowError:
            ft = "OverflowError"
        return {"i": x, "if": ft}
    if isinstance(x, float):
        return {"f": float_tok(x)}
    if isinstance(x, datetime.datetime):
        return {"d": x.isoformat()}
    return {"o": str(x)}


def float_tok(x: float) -> str:
    if x != x:
        return "nan"
    return repr(float(x))


def grid_to_json(rows):
    return [[cell_to_json(c) for c in row] for row in rows]


# --------------------------------------------------------------------------- results

class Outcome:
    """Collected by a property module's run()."""

    def __init__(self):
        self.evaluations = 0
        self.nontrivial = set()        # hashes of distinct non-trivial cases
        self.samples = []
        self.mismatches = []           # correspondence: model vs implementation
        self.failures = []             # oracle: the property itself fails on the real code
        self.dist = {}                 # generator distribution counters
        self.notes = []
        self.rule = ""
        self.exhaustive = False

    def count(self, key, n=1):
        self.dist[key] = self.dist.get(key, 0) + n

    def case(self, case, nontrivial=True):
        self.evaluations += 1
        if nontrivial:
            self.nontrivial.add(hashlib.sha1(json.dumps(case, sort_keys=True, default=str).encode()).hexdigest())
        if len(self.samples) < 4:
            self.samples.append(case)

    def mismatch(self, what, case, impl, model):
        if len(self.mismatches) < 50:
            self.mismatches.append({"what": what, "input": case, "impl": impl, "model": model})

    def fail(self, what, case, observed, expected=None, key=None):
        # at most 5 records per kind of failure (a known finding met a hundred times must not crowd out another
        # failure), at most 200 in all
        k = key or what
        self._per_key = getattr(self, "_per_key", {})
        self._per_key[k] = self._per_key.get(k, 0) + 1
        if self._per_key[k] <= 5 and len(self.failures) < 200:
            self.failures.append({"what": what, "input": case, "observed": observed,
                                  "expected": expected, "key": k})


def load_known_findings():
    p = ROOT / "known_findings.json"
    if not p.exists():
        return []
    return json.loads(p.read_text())


def exc_class(e: BaseException) -> str:
    return type(e).__name__


# --------------------------------------------------------------------------- shrinking

def ddmin(items, still_fails, budget_s=15.0):
    """Delta-minimise a list: the shortest sub-list (order kept) found within the budget on which `still_fails`
    holds.  `still_fails(candidate) -> bool` must be side-effect free; exceptions count as "does not fail"."""
    import time
    t0 = time.time()
    items = list(items)

    def ok(c):
        try:
            return bool(still_fails(c))
        except Exception as e:  # noqa: BLE001
            if type(e).__name__ == "_OutOfTime":
                raise
            return False
    n = 2
    while len(items) >= 2 and time.time() - t0 < budget_s:
        chunk = max(1, len(items) // n)
        reduced = False
        for start in range(0, len(items), chunk):
            cand = items[:start] + items[start + chunk:]
            if cand and ok(cand):
                items, n, reduced = cand, max(n - 1, 2), True
                break
            if time.time() - t0 > budget_s:
                break
        if not reduced:
            if chunk == 1:
                break
            n = min(len(items), n * 2)
    return items


def shrink_failure(mod, failure, budget_s=20.0):
    """If the harness offers `shrink(inp, fails)`, minimise the failing input: `fails(inp2)` is true iff the
    harness's own content-based `replay` fails on inp2 with the same verdict text.  Returns the (possibly) smaller
    input; the original is kept by the caller."""
    if not hasattr(mod, "shrink"):
        return None
    import time
    what = failure["what"]
    t0 = time.time()

    class _OutOfTime(Exception):
        pass

    def fails(inp2):
        # a hard wall-clock limit on the whole minimisation, whatever the harness's own shrinker does
        if time.time() - t0 > 2.5 * budget_s:
            raise _OutOfTime()
        ok, msg = mod.replay({"input": inp2})
        return (not ok) and str(msg) == str(what)
    try:
        t1 = time.time()
        if not fails(failure["input"]):
            return None          # the replay does not reproduce this verdict from the content: nothing to shrink
        if time.time() - t1 > budget_s / 8:
            return None          # one replay of this input is too slow to minimise it within the budget
        small = mod.shrink(failure["input"], fails, budget_s)
        return small if small is not None and fails(small) else None
    except _OutOfTime:
        return None
    except Exception:  # noqa: BLE001
        return None
