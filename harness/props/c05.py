"""C05 — pandas operations carry table metadata along and never alias it.

Correspondence: `TableDataFrame.__finalize__` is wrapped from this process (monkeypatch, restored afterwards);
every call pandas makes is recorded as (method, which sources carry `_table_data`, result columns / dtypes /
emptiness) and sent to the Lean model (`Combine.finalize`), which predicts: table frame vs plain frame vs
exception class, warnings, name, destinations, units, display fields, origin tree, input ancestors, strict flag
and which mutable objects the result shares with its sources.  Follow-up mutations through the `Table` facade,
consultations (`get_table_info`) and re-wraps (`Table(df, name=…)`) are mirrored as model steps and the raw
state of every metadata object is compared afterwards.

Oracle: the C05 statement evaluated on the real objects through the public API only (`Table(df).name`,
`.destinations`, `.column_metadata`, `.metadata.origin`, `type()`, `id()`), without the model.
"""
import logging
import warnings

from harness import common
from harness.common import Outcome, make_rng

logging.disable(logging.CRITICAL)

EXTRA = {
    "assumptions": [
        "which __finalize__ calls pandas makes for an operation (method name, `other`, result columns and dtypes) "
        "is observed per case, not modelled; the theorems quantify over every such call; for the operations the "
        "statement names (STATEMENT_OPS) a call with a method pdtable does not know is an alarm",
        "dropna / dropna(subset=) are refused by pdtable today (pandas' internal isna() frame is validated against "
        "the kept units): open finding F4, keys row_selection_refused:dropna / :dropna_subset; they run in every "
        "case stream and are judged like any safe operation",
        "operations whose result pandas builds through `_constructor` without calling __finalize__ are outside "
        "the model (observed only): dot, matmul, rolling/expanding/ewm aggregations and groupby.cumsum return a "
        "TableDataFrame without metadata, no warning, no error — tracked as known findings "
        "`tableframe_without_metadata:<op>`; `describe`/`agg` build a plain DataFrame without asking pdtable, so no "
        "warning can be expected there",
        "a safe-list operation may still be refused when the *result* cannot be a table with the kept units: "
        "result dtype against a special unit (ColumnUnitException), duplicate column labels (InvalidNamingError), "
        "a dtype kind without StarTable unit (ValueError), a unit clash (InvalidTableCombineError); the oracle "
        "accepts a refusal only when it verifies that cause on the observed result frame",
        "new columns of an EMPTY result frame stay unregistered until the frame has rows (pdtable does not trust "
        "dtypes of empty columns); the new-column clause is evaluated on non-empty results",
        "a source without origin (`origin=None`, a table made in code) has no input location and contributes none "
        "to the result's input ancestors (D39 fixed in /repo)",
        "a frame with neither rows nor columns (shape (0, 0)) is dropped by pandas.concat before pdtable is asked "
        "(unless every operand is like that) and is then not counted as a source of the concat",
        "column labels are compared as (type, repr) tokens; labels that are equal in Python but of different "
        "type (1, 1.0, True) are not generated",
        "display_unit / display_format propagation is modelled and compared but is not part of the statement",
    ],
    "explanation": "Props/C05.lean proves, for every heap, method, `other` and result frame: finalize_result_* "
                   "(table frame iff a selected source carries info; name, destinations, units, origin, input "
                   "ancestors), combine_refuses_unit_clash, no_alias (everything reachable from the result is "
                   "freshly allocated), mutation_independence (any sequence of facade mutations — including a "
                   "consultation after columns were deleted or re-ordered in place, checkDataframe_frame — on one of two "
                   "separated infos leaves every observation of the other unchanged, separation is preserved), "
                   "combine_refuses_unit_clash_class (InvalidTableCombineError when the sources are readable), "
                   "rewrap_independent, degrade_or_refuse. Partial in exactly: what pandas passes to __finalize__ "
                   "is observed.",
    "trusted_base": [
        "the recording wrapper around TableDataFrame.__finalize__ in harness/props/c05.py (what pandas passed)",
    ],
}

KIND_DEFAULT = {"b": "onoff", "i": "-", "u": "-", "f": "-", "M": "-", "O": "text", "S": "text", "U": "text"}
SPECIAL = {"text", "onoff"}
KNOWN_NOINFO = {"dot", "matmul", "rolling.sum", "expanding.sum", "ewm.mean", "groupby.cumsum"}

_CURRENT = None      # the World receiving recorded __finalize__ calls

# operation -> method names pandas 3.0.6 passes to TableDataFrame.__finalize__ (union over the data paths seen in
# thorough runs of seeds 0-3); a difference is reported in the evidence notes, it is not an alarm
FINALIZE_TABLE = {
    "dropna": ["isna", "__invert__", "copy", "transpose", "take", "None"],
    "dropna_subset": ["isna", "take", "__invert__", "copy", "transpose", "None"],
    "drop_duplicates": ["copy", "take"], "query": ["take", "copy"],
    "sample": ["take", "copy"], "nlargest": ["copy", "take"], "loc_mask": ["take", "copy"],
    "shift": ["shift", "copy"], "interpolate": ["interpolate", "take", "None", "copy"], "where": ["None", "take"],
    "rank": ["rank", "take", "None"], "diff": ["diff", "take", "None"], "clip": ["isna", "take", "None"],
    "count": ["isna", "__invert__"],
    "astype_object": ["astype"],
    "astype_bool": ["astype"],
    "replace_label": ["None", "copy", "replace"],
    "fillna_label": ["astype", "copy", "fillna"],
    "astype_nullable": ["astype", "copy"],
    "assign_ext": ["copy"],
    "tz_localize": ["copy"],
    "convert_dtypes": ["convert_dtypes"],
    "concat_late_shared": ["concat"],
    "concat_late_clash": ["concat"],
    "assign_retype": ["copy"],
    "T": ["transpose"],
    "abs": ["None", "take"],
    "add_plain": ["None", "take"],
    "add_self": ["None", "take"],
    "apply_identity": ["apply", "copy"],
    "apply_rows": ["apply", "copy", "transpose"],
    "assign_existing": ["copy"],
    "assign_new": ["copy"],
    "assign_timedelta": ["copy"],
    "astype": ["astype", "copy"],
    "astype_str": ["astype"],
    "cols": ["take"],
    "cols_none": ["take"],
    "concat_clash": ["concat"],
    "concat_cols": ["concat"],
    "concat_cols_dup": ["concat"],
    "concat_plain_second": ["concat"],
    "concat_rows": ["concat"],
    "concat_rows_3": ["concat"],
    "concat_rows_mixed": ["concat"],
    "copy": ["copy"],
    "copy_shallow": ["copy"],
    "cumsum": ["cumsum", "take"],
    "describe": ["None"],
    "dot": ["copy", "transpose"],
    "drop_cols": ["None"],
    "drop_rows": ["None"],
    "ewm.mean": [],
    "expanding.sum": [],
    "fillna": ["fillna"],
    "groupby.cumsum": ["None"],
    "groupby_sum": ["None", "groupby"],
    "gt": ["None", "take"],
    "head": ["None", "copy"],
    "iloc_empty": ["None"],
    "iloc_rc": ["copy", "take"],
    "iloc_rows": ["None"],
    "isna": ["isna"],
    "join": ["None", "concat", "merge"],
    "loc_cols": ["None", "copy"],
    "loc_rows": ["None"],
    "map_bool": ["apply", "copy", "map"],
    "map_identity": ["apply", "copy", "map"],
    "matmul": ["copy", "transpose"],
    "melt": ["copy", "melt"],
    "merge_clash": ["None", "concat", "copy", "merge"],
    "merge_fn": ["None", "concat", "copy", "merge"],
    "merge_key": ["None", "concat", "copy", "merge"],
    "mul_scalar": ["None", "take"],
    "np_exp": ["None", "take"],
    "reindex_cols": ["None", "reindex"],
    "reindex_newrow": ["None", "reindex"],
    "reindex_rows": ["None", "reindex"],
    "rename_cols": ["copy", "rename"],
    "rename_index": ["copy", "rename"],
    "replace": ["copy", "replace"],
    "reset_index": ["copy"],
    "rolling.sum": [],
    "round": ["round"],
    "rows_bool": ["copy", "take"],
    "rows_slice": ["None"],
    "rsub_scalar": ["None", "take"],
    "set_index": ["copy"],
    "sort_index": ["copy", "sort_index"],
    "sort_values": ["copy", "sort_values"],
    "take_cols": ["take"],
    "take_rows": ["copy", "take"],
}


def tok(label):
    import datetime
    import numpy as np
    import pandas as pd
    if isinstance(label, (np.datetime64, datetime.datetime)):
        return "datetime:" + pd.Timestamp(label).isoformat()   # Timestamp / datetime64 / datetime: one label
    if isinstance(label, np.generic):
        label = label.item()          # numpy scalar labels (df.columns.values) == their Python value
    if isinstance(label, tuple):
        return "tuple:(" + ",".join(tok(x) for x in label) + ")"
    return f"{type(label).__name__}:{label!r}"


# --------------------------------------------------------------------------- raw state (for the model)

def origin_json(o, loc_tok):
    if o is None:
        return None
    return {"loc": loc_tok(o.input_location) if o.input_location is not None else None,
            "parents": [origin_json(p, loc_tok) for p in o.parents],
            "op": o.operation}


def raw_anc(o, loc_tok):
    try:
        return {"ok": [loc_tok(x) for x in o.get_input_ancestors()]}
    except Exception as e:  # noqa: BLE001 — class is compared
        return {"exc": type(e).__name__}


def fmt_spec(f):
    return None if f is None else f.specifier


def frame_json(df):
    dt = df.dtypes
    return {"cols": [[tok(l), str(d), getattr(d, "kind", "?")] for l, d in zip(df.columns, dt)],
            "empty": bool(df.empty)}


UNOBSERVABLE = object()


def info_of(x):
    """the ComplementaryTableInfo attached to `x` (None if there is none): the frame's own hidden attribute when
    it has the name this harness knows, else pdtable's public accessor — the one place that touches it"""
    d = getattr(x, "__dict__", None)
    if isinstance(d, dict) and "_table_data" in d:
        return d["_table_data"]
    try:
        from pdtable.frame import get_table_info, is_table_dataframe
        import pandas as pd
        if isinstance(x, pd.DataFrame) and is_table_dataframe(x):
            return get_table_info(x, fail_if_missing=False, check_dataframe=False) or None
    except Exception:  # noqa: BLE001 — no metadata reachable
        pass
    return None


def remembered_state(info):
    """(dtypes Series, empty, strict) the info remembers from its last successful validation, None when it
    remembers nothing, UNOBSERVABLE when the private representation is not one this harness knows.
    Private attributes of pdtable: read through this one tolerant accessor only."""
    import pandas as pd
    d = getattr(info, "__dict__", {})
    if "_last_dataframe_state" in d:
        st = d["_last_dataframe_state"]
        if st is None:
            return None
        return (st, d.get("_last_dataframe_empty"), d.get("_last_strict_types", info.metadata.strict_types))
    cands = [k for k in d if k.startswith("_last") or k.startswith("_checked")]
    if len(cands) == 1:
        v = d[cands[0]]
        if v is None:
            return None
        if isinstance(v, tuple) and len(v) == 3 and isinstance(v[0], pd.Series):
            return v
    return UNOBSERVABLE


def state_json(info):
    r = remembered_state(info)
    if r is None or r is UNOBSERVABLE:
        return r
    st, empty, strict = r
    return {"cols": [[tok(l), str(d)] for l, d in st.items()], "empty": bool(empty),
            "strict": bool(info.metadata.strict_types if strict is None else strict)}


_ISSUER_CACHE = {}


def issuing_function(filename, lineno):
    """name of the innermost function of `filename` containing `lineno` (which code issued a warning)"""
    import ast
    if filename not in _ISSUER_CACHE:
        spans = []
        try:
            tree = ast.parse(open(filename, encoding="utf-8").read())
            for node in ast.walk(tree):
                if isinstance(node, (ast.FunctionDef, ast.AsyncFunctionDef)):
                    spans.append((node.lineno, node.end_lineno, node.name))
        except (OSError, SyntaxError):
            pass
        _ISSUER_CACHE[filename] = spans
    best = None
    for lo, hi, name in _ISSUER_CACHE[filename]:
        if lo <= lineno <= hi and (best is None or lo >= best[0]):
            best = (lo, name)
    return best[1] if best else None


def is_pdtable_warning(w):
    import os
    return (os.sep + "pdtable" + os.sep) in str(getattr(w, "filename", ""))


def classify_finalize_warnings(ws, result_is_plain):
    """pdtable's warnings during one __finalize__ call, by stable facts (never by wording): the function that
    issued it — `_combine_tables` warns about an unknown method, `__finalize__` about the fall-back — and, when
    the functions have other names, by position and outcome (the fall-back warning is the last one and the
    result is a plain DataFrame)."""
    mine = [w for w in ws if is_pdtable_warning(w)]
    names = []
    for k, w in enumerate(mine):
        fn = issuing_function(w.filename, w.lineno)
        if fn == "_combine_tables":
            names.append("unknown_method")
        elif fn == "__finalize__":
            names.append("fallback")
        elif result_is_plain and k == len(mine) - 1:
            names.append("fallback")
        else:
            names.append("unknown_method")
    return names


def reach_ids(info):
    s = {("info", id(info)), ("metadata", id(info.metadata)), ("dict", id(info.columns)),
         ("dests", id(info.metadata.destinations))}
    for c in info.columns.values():
        s.add(("column", id(c)))
        if c.display_format is not None:
            s.add(("format", id(c.display_format)))
    return s


def shared_kinds(a, b):
    return sorted({k for k, _ in reach_ids(a) & reach_ids(b)})


class World:
    """Mirror of one case: real objects <-> model references, model steps and what the code answered."""

    def __init__(self):
        self.keep = []            # keeps every object alive (no id() reuse inside a case)
        self.ref_of = {}          # id(info) -> model reference
        self.n_infos = 0
        self.infos = []           # initial infos, as sent to the model
        self.steps = []
        self.expect = []
        self.dead = None          # reason why mirroring stopped
        self.calls = []           # recorded __finalize__ calls (observations of pandas + outcome)
        self.locs = {}
        self.flips = []           # a refused consultation that was accepted when simply repeated

    def loc_tok(self, loc):
        return f"L{loc.row}"

    def raw_obs(self, info):
        m = info.metadata
        return {"name": m.name, "dests": sorted(m.destinations), "origin": origin_json(m.origin, self.loc_tok),
                "anc": raw_anc(m.origin, self.loc_tok) if m.origin is not None else {"exc": "AttributeError"},
                "transposed": bool(m.transposed), "strict": bool(m.strict_types),
                "cols": [[tok(l), c.unit, c.display_unit, fmt_spec(c.display_format)] for l, c in info.columns.items()]}

    def register(self, info):
        self.keep.append(info)
        self.ref_of[id(info)] = self.n_infos
        self.n_infos += 1
        return self.n_infos - 1

    def add_table(self, t):
        info = info_of(t.df)
        self.keep.append(t.df)
        o = self.raw_obs(info)
        last = state_json(info)
        if last is UNOBSERVABLE:
            last = None
            if self.dead is None:
                self.dead = "remembered frame state unobservable (comparison with the model skipped)"
        self.infos.append({"name": o["name"], "dests": o["dests"], "origin": o["origin"],
                           "transposed": o["transposed"], "strict": o["strict"], "cols": o["cols"],
                           "last": last})
        return self.register(info)

    def ref(self, info):
        if info is None:
            return None
        r = self.ref_of.get(id(info))
        if r is None and self.dead is None:
            self.dead = "metadata object not created under observation"
        return r

    def push(self, step, expect):
        if self.dead is None:
            self.steps.append(step)
            self.expect.append(expect)

    # ---- recorded from the wrapper
    def on_finalize(self, obj, method, own, lr, objs, obj_info, frame, result, exc, warns):
        self.keep.append(obj)
        sel = "merge" if method == "merge" else "concat" if method == "concat" else "own"
        srcs = {"merge": lr or [], "concat": objs or [], "own": [own]}[sel]
        data = [d for d in srcs if d is not None]
        call = {"method": method, "carry": [d is not None for d in srcs], "frame": frame,
                "exc": type(exc).__name__ if exc is not None else None, "warns": warns,
                "res": None, "obj": obj, "data": data}
        step = {"k": "finalize", "method": method, "obj": self.ref(obj_info),
                "other": {"own": self.ref(own),
                          "lr": None if lr is None else [self.ref(x) for x in lr],
                          "objs": None if objs is None else [self.ref(x) for x in objs]},
                "frame": frame}
        if exc is not None:
            expect = {"exc": type(exc).__name__}
        else:
            info = info_of(obj) if result is obj else None
            from pdtable.frame import TableDataFrame
            if result is obj and info is not None:
                call["res"] = "table"
                uniq = []
                for d in data:
                    if all(d is not u for u in uniq):
                        uniq.append(d)
                shared = [[self.ref(d), shared_kinds(info, d)] for d in uniq]
                if self.dead is None:
                    r = self.register(info)
                else:
                    r = None
                expect = {"res": "table", "info": r, "warn": warns, "obs": self.raw_obs(info), "shared": shared}
            else:
                call["res"] = "plain" if type(result).__name__ == "DataFrame" and not isinstance(result, TableDataFrame) \
                    else "tableframe-without-info"
                expect = {"res": call["res"], "info": None, "warn": warns, "obs": None, "shared": []}
        self.calls.append(call)
        self.push(step, expect)

    # ---- driven by the case script
    def consult(self, df):
        from pdtable.frame import get_table_info
        info = info_of(df)
        step = {"k": "consult", "info": self.ref(info), "frame": frame_json(df)}
        try:
            get_table_info(df)
        except Exception as e:  # noqa: BLE001
            self.push(step, {"exc": type(e).__name__})
            if self.dead is None:
                self.dead = "consultation raised (partial register update is not mirrored)"
            # the verdict must not flip without a change of the frame: ask again, and once more after a no-op
            before = frame_json(df)
            for attempt in ("repeated at once", "repeated after a no-op"):
                if attempt.endswith("no-op"):
                    len(df), df.shape, list(df.columns)
                try:
                    get_table_info(df)
                except Exception:  # noqa: BLE001 — still refused, as it must be
                    continue
                if frame_json(df) == before:
                    info_now = info_of(df)
                    self.flips.append({"first": type(e).__name__, "then": "accepted, " + attempt,
                                       "frame": before,
                                       "units": [[tok(l), c.unit] for l, c in info_now.columns.items()]})
                break
            return type(e).__name__
        self.push(step, "ok")
        return None

    def observe_all(self):
        for info in list(self.keep):
            r = self.ref_of.get(id(info))
            if r is not None and hasattr(info, "columns") and hasattr(info, "metadata"):
                self.push({"k": "observe", "info": r}, self.raw_obs(info))

    def model_op(self):
        return {"op": "c05", "infos": self.infos, "steps": self.steps}


def install():
    """wrap TableDataFrame.__finalize__; returns the undo function"""
    import pandas as pd
    from pdtable.frame import TableDataFrame
    orig = TableDataFrame.__dict__["__finalize__"]

    def recording_finalize(self, other, method=None, **kw):
        w = _CURRENT
        if w is None:
            return orig(self, other, method, **kw)
        m = method if (method is None or isinstance(method, str)) else str(method)
        own = info_of(other)
        lr = objs = None
        if not isinstance(other, pd.core.generic.NDFrame):
            if hasattr(other, "left") and hasattr(other, "right"):
                lr = [info_of(other.left), info_of(other.right)]
            if hasattr(other, "objs"):
                objs = [info_of(o) for o in list(other.objs)]
        obj_info = info_of(self)
        frame = frame_json(self)
        exc = res = None
        with warnings.catch_warnings(record=True) as ws:
            warnings.simplefilter("always")
            try:
                res = orig(self, other, method, **kw)
            except Exception as e:  # noqa: BLE001 — re-raised below
                exc = e
        names = classify_finalize_warnings(ws, exc is None and res is not self)
        w.on_finalize(self, m, own, lr, objs, obj_info, frame, res, exc, names)
        if exc is not None:
            raise exc
        return res

    TableDataFrame.__finalize__ = recording_finalize

    def undo():
        TableDataFrame.__finalize__ = orig
    return undo


# --------------------------------------------------------------------------- generators

def _substrings(w):
    return sorted({w[i:j] for i in range(len(w)) for j in range(i + 1, len(w) + 1)} - {w})


# units that are pieces of the special units' names ("t" for tonnes, "te", "on", "off", "n", "f", …) and the empty
# unit are ordinary units of numeric columns: they must be treated like "m" or "kg", never like text / onoff
ODD_UNITS = _substrings("text") + _substrings("onoff") + [""]
UNITS = {"f": ["m", "kg", "-", "s"], "i": ["-", "mm", "N"], "O": ["text"], "b": ["onoff"], "M": ["datetime", "-"],
         # pandas extension dtypes: nullable Int64 / Float64 / boolean, tz-aware datetime, category, string
         "I": ["-", "mm", "pcs"], "F": ["kg", "mm", "-"], "B": ["onoff"], "Z": ["datetime", "-"], "C": ["text"],
         "S": ["text"]}
EXT_DTYPE = {"I": "Int64", "F": "Float64", "B": "boolean", "C": "category", "S": "string"}
NP_DTYPE = {"f": "float64", "i": "int64", "O": "object", "b": "bool", "M": "datetime64[ns]"}
BASE_KIND = {"I": "i", "F": "f", "B": "b", "Z": "M", "C": "O", "S": "O"}


def fresh(u):
    """an equal unit string that is a different object (CPython shares only 0/1-character strings): units read
    from two files, or computed, are equal but never identical"""
    return "".join(list(u))
COLS = ["a", "b", "c", "d", "e", "g"]


def origin_spec(rng, loc_counter):
    """None | {"loc": row} | {"op": "made up", "parents": [leaf, leaf]}"""
    def leaf():
        loc_counter[0] += 1
        return {"loc": loc_counter[0]}
    x = rng.random()
    if x < 0.15:
        return None
    if x < 0.8:
        return leaf()
    return {"op": "made up", "parents": [leaf(), leaf()]}


def build_origin(spec):
    from pdtable.table_origin import TableOrigin, LocationBlock, LocationSheet, NullLocationFile
    if spec is None:
        return None
    if "loc" in spec:
        sheet = LocationSheet(file=NullLocationFile("f", id="f"), sheet_name=None)
        return TableOrigin(input_location=LocationBlock(sheet=sheet, row=spec["loc"]))
    return TableOrigin(operation=spec["op"], parents=[build_origin(p) for p in spec["parents"]])


class SetupRefused(Exception):
    """pdtable refused to build a table whose units go with its dtype kinds"""


def column_values(rng, kind, n):
    """JSON-able cell values of one column (datetimes as ISO text)"""
    base = BASE_KIND.get(kind, kind)
    if base == "f":
        return [float(rng.choice([0.5, 1.0, 2.0, 3.5, -1.0, 10.0])) for _ in range(n)]
    if base == "i":
        return [rng.choice([0, 1, 2, 3, 7, -4]) for _ in range(n)]
    if base == "O":
        return [rng.choice(["x", "y", "z", "w"]) for _ in range(n)]
    if base == "b":
        return [rng.choice([True, False]) for _ in range(n)]
    return [rng.choice(["2020-01-01", "2021-06-30", "2022-12-24"]) for _ in range(n)]


def build_column(kind, values):
    import pandas as pd
    if kind in EXT_DTYPE:
        return pd.array(values, dtype=EXT_DTYPE[kind])
    if kind == "Z":
        return pd.DatetimeIndex(pd.to_datetime(values)).tz_localize("UTC") if values else \
            pd.DatetimeIndex([], dtype="datetime64[ns, UTC]")
    if kind == "M":
        return list(pd.to_datetime(values))
    return list(values)


def gen_column(rng, kind, n):
    return build_column(kind, column_values(rng, kind, n))


def table_spec(rng, loc_counter, name=None, cols=None, nrows=None, force=None):
    """a random small table as plain data; `cols` = list of (label, kind, unit) to force a header"""
    force = force or {}
    n = nrows if nrows is not None else rng.choice([1, 2, 3, 3, 4, 0] if rng.random() < 0.3 else [2, 3, 4])
    if cols is None:
        k = rng.choice([1, 2, 3, 3, 4])
        labels = rng.sample(COLS, k)
        cols = []
        for l in labels:
            kind = rng.choice(["f", "f", "i", "O", "b", "M"])
            if rng.random() < 0.2:
                kind = rng.choice(["I", "F", "B", "Z", "C", "S"])
            if force.get("odd") and not cols:
                kind = rng.choice(["f", "i"])           # at least one numeric column to degrade
            unit = rng.choice(UNITS[kind])
            if kind in "fiIF" and (rng.random() < 0.3 or force.get("odd")):
                unit = rng.choice(ODD_UNITS)
            cols.append((l, kind, unit))
    columns = [{"label": l, "kind": kind, "unit": u, "values": column_values(rng, kind, n)} for l, kind, u in cols]
    strict = not (rng.random() < 0.15 or force.get("nonstrict"))
    dests = sorted(rng.sample(["all", "d1", "d2", "x"], rng.choice([1, 1, 2, 3])))
    if rng.random() < 0.12:
        dests = []                 # a table without any destination is not a table for "all"
    if name is None and rng.random() < 0.06:
        name = ""
    name = name if name is not None else rng.choice(["t", "tab", "é_1", "foo"])
    origin = origin_spec(rng, loc_counter)
    for c in columns:
        c["display_unit"] = rng.choice(["km", "", "g"]) if rng.random() < 0.2 else None
        c["display_format"] = rng.choice([2, "14.3e"]) if rng.random() < 0.2 else None
    return {"name": name, "dests": dests, "strict": strict, "origin": origin, "nrows": n, "columns": columns}


def build_table(spec):
    import pandas as pd
    from pdtable import Table
    from pdtable.table_metadata import ColumnFormat
    cols = spec["columns"]
    df = pd.DataFrame({c["label"]: build_column(c["kind"], c["values"]) for c in cols})
    if spec["nrows"] == 0:
        for c in cols:   # keep the intended dtypes on empty frames
            if c["kind"] in NP_DTYPE:
                df[c["label"]] = df[c["label"]].astype(NP_DTYPE[c["kind"]])
    kw = {} if spec["strict"] else {"strict_types": False}
    try:
        t = Table(df, name=spec["name"], units=[fresh(c["unit"]) for c in cols], destinations=set(spec["dests"]),
                  origin=build_origin(spec["origin"]), **kw)
    except Exception as e:  # noqa: BLE001 — every generated header pairs special units with their own dtype kind
        raise SetupRefused(type(e).__name__,
                           [[c["label"], str(df[c["label"]].dtype), df[c["label"]].dtype.kind, c["unit"]] for c in cols]) from e
    cm = t.column_metadata
    for c in cols:
        if c.get("display_unit") is not None:
            cm[c["label"]].display_unit = c["display_unit"]
        if c.get("display_format") is not None:
            cm[c["label"]].display_format = ColumnFormat(c["display_format"])
    return t


def spec_header(spec):
    """[(label, numpy dtype kind, unit)] of a table spec"""
    return [(c["label"], BASE_KIND.get(c["kind"], c["kind"]), c["unit"]) for c in spec["columns"]]


def header_of(t):
    """[(label, kind, unit)] of a Table, from the real objects"""
    df = t.df
    cm = info_of(df).columns
    return [(l, df[l].dtype.kind, cm[l].unit) for l in df.columns if l in cm]


# an operation: name, safe (in the documented list), build(rng, ctx) -> (sources, thunk)
# ctx: {"t": first table frame, "mk": callable making further tables}

def _numeric(df):
    return [c for c in df.columns if df[c].dtype.kind in "if"]


# DataFrame methods outside the documented list, one drawn per `pool_method` case
METHOD_POOL = ["corr", "cov", "describe", "cumsum", "cumprod", "cummax", "cummin", "diff", "rank", "shift", "pct_change",
               "round", "abs", "clip", "where", "mask", "map", "T", "quantile", "infer_objects", "explode",
               "combine_first", "ffill", "bfill", "mode", "transform", "agg", "nsmallest", "truncate", "add_prefix",
               "add_suffix", "set_flags", "squeeze", "convert_dtypes", "interpolate", "notna", "isna", "count", "nunique",
               "sum", "mean", "median", "std", "var", "min", "max", "prod", "sem", "skew", "kurt", "idxmax", "idxmin",
               "stack", "dropna", "drop_duplicates", "sort_values", "reset_index", "head", "tail", "copy", "eq", "ne"]
# the methods pdtable's `_combine_tables` documents as known (frame.py, "metadata combination is safe"); every other
# method name must be announced by the unknown-method warning when the result is made a table frame
KNOWN_METHODS = {None, "merge", "concat", "reindex", "take", "copy", "groupby", "replace", "sort_index", "transpose",
                 "astype", "append", "fillna", "rename", "unstack", "melt"}

def _ops():
    import numpy as np
    import pandas as pd
    ops = []

    def op(name, safe, arity=1):
        def deco(f):
            ops.append((name, safe, arity, f))
            return f
        return deco

    @op("copy", True)
    def _(rng, d, mk): return [d], lambda: d.copy()

    @op("copy_shallow", True)
    def _(rng, d, mk): return [d], lambda: d.copy(deep=False)

    @op("rows_bool", True)
    def _(rng, d, mk):
        mask = np.array([rng.random() < 0.6 for _ in range(len(d))], dtype=bool)
        return [d], lambda: d[mask]

    @op("rows_slice", True)
    def _(rng, d, mk): return [d], lambda: d[0:rng.choice([1, 2])]

    @op("cols", True)
    def _(rng, d, mk):
        cs = list(d.columns)
        sel = rng.sample(cs, rng.randint(1, len(cs)))
        return [d], lambda: d[sel]

    @op("cols_none", True)
    def _(rng, d, mk): return [d], lambda: d[[]]

    @op("iloc_rows", True)
    def _(rng, d, mk): return [d], lambda: d.iloc[rng.choice([0, 1]):]

    @op("iloc_empty", True)
    def _(rng, d, mk): return [d], lambda: d.iloc[0:0]

    @op("iloc_rc", True)
    def _(rng, d, mk):
        ci = rng.sample(range(d.shape[1]), rng.randint(1, d.shape[1]))
        ri = [i for i in range(len(d)) if rng.random() < 0.7]
        return [d], lambda: d.iloc[ri, ci]

    @op("loc_rows", True)
    def _(rng, d, mk): return [d], lambda: d.loc[0:1]

    @op("loc_cols", True)
    def _(rng, d, mk):
        cs = list(d.columns)
        sel = rng.sample(cs, rng.randint(1, len(cs)))
        return [d], lambda: d.loc[:, sel]

    @op("take_rows", True)
    def _(rng, d, mk):
        idx = [i for i in range(len(d)) if rng.random() < 0.7]
        return [d], lambda: d.take(idx)

    @op("take_cols", True)
    def _(rng, d, mk):
        ci = rng.sample(range(d.shape[1]), rng.randint(1, d.shape[1]))
        return [d], lambda: d.take(ci, axis=1)

    @op("reindex_rows", True)
    def _(rng, d, mk):
        idx = list(d.index)
        rng.shuffle(idx)
        return [d], lambda: d.reindex(idx[: max(1, len(idx) - 1)] if idx else idx)

    @op("reindex_newrow", True)
    def _(rng, d, mk): return [d], lambda: d.reindex(list(d.index) + [99])

    @op("reindex_cols", True)
    def _(rng, d, mk):
        cs = rng.sample(list(d.columns), rng.randint(1, d.shape[1])) + ["zz"]
        return [d], lambda: d.reindex(columns=cs)

    @op("sort_index", True)
    def _(rng, d, mk): return [d], lambda: d.sort_index(ascending=False)

    @op("astype", True)
    def _(rng, d, mk):
        m = {c: ("float64" if d[c].dtype.kind == "i" else "float32") for c in _numeric(d)}
        return [d], lambda: d.astype(m)

    @op("astype_nullable", True)
    def _(rng, d, mk):
        # same dtype kind, pandas extension dtype: the unit must be kept
        m = {}
        for c in d.columns:
            k = d[c].dtype.kind
            if k == "i":
                m[c] = rng.choice(["Int64", "Float64"])
            elif k == "f":
                m[c] = "Float64"
            elif k == "b":
                m[c] = "boolean"
            elif k == "O":
                m[c] = rng.choice(["string", "category"])
        return [d], lambda: d.astype(m)

    @op("assign_ext", True)
    def _(rng, d, mk):
        kind = rng.choice(["I", "F", "B", "Z", "C", "S"])
        vals = gen_column(rng, kind, len(d))
        if kind in ("I", "B") and len(d) > 1 and rng.random() < 0.5:
            vals[0] = pd.NA
        return [d], lambda: d.assign(nx=vals)

    @op("tz_localize", True)
    def _(rng, d, mk):
        cs = [c for c in d.columns if d[c].dtype.kind == "M" and getattr(d[c].dtype, "tz", None) is None]
        if not cs:   # no naive datetime column: bring one in first, then localize it
            ts = pd.to_datetime(["2021-06-30"] * len(d))
            return [d], lambda: d.assign(tz_src=ts).assign(tz_src=lambda x: x["tz_src"].dt.tz_localize("UTC"))
        c = rng.choice(cs)
        return [d], lambda: d.assign(**{c: d[c].dt.tz_localize("UTC")})

    @op("convert_dtypes", False)
    def _(rng, d, mk): return [d], lambda: d.convert_dtypes()

    @op("astype_str", True)
    def _(rng, d, mk):
        c = rng.choice(list(d.columns))
        return [d], lambda: d.astype({c: str})

    @op("fillna", True)
    def _(rng, d, mk): return [d], lambda: d.fillna(0)

    @op("replace", True)
    def _(rng, d, mk): return [d], lambda: d.replace({1.0: 5.0, "x": "q"})

    @op("astype_object", True)
    def _(rng, d, mk):
        cs = _numeric(d) or list(d.columns)
        c = rng.choice(cs)
        return [d], lambda: d.astype({c: rng.choice([object, str])})

    @op("astype_bool", True)
    def _(rng, d, mk):
        cs = _numeric(d) or list(d.columns)
        c = rng.choice(cs)
        return [d], lambda: d.astype({c: bool})

    @op("replace_label", True)
    def _(rng, d, mk):
        cs = _numeric(d)
        if not cs or not len(d):
            return [d], None
        c = rng.choice(cs)
        v = d[c].iloc[0]
        return [d], lambda: d.replace({c: {v: "n/a"}})

    @op("fillna_label", True)
    def _(rng, d, mk):
        cs = [c for c in d.columns if d[c].dtype.kind == "f" and isinstance(d[c].dtype, np.dtype)]
        if not cs or len(d) < 2:
            return [d], None
        c = rng.choice(cs)
        hole = d.assign(**{c: [np.nan] + list(d[c])[1:]})      # a numeric column with a missing value
        return [d], lambda: hole.astype({c: object}).fillna({c: "missing"})

    @op("assign_new", True)
    def _(rng, d, mk):
        kind = rng.choice(["f", "i", "O", "b"])
        vals = gen_column(rng, kind, len(d))
        if len(d) == 0:
            vals = np.array([], dtype={"f": "float64", "i": "int64", "O": "object", "b": "bool"}[kind])
        return [d], lambda: d.assign(nw=vals)

    @op("assign_existing", True)
    def _(rng, d, mk):
        c = rng.choice(list(d.columns))
        vals = list(d[c])
        vals.reverse()
        return [d], lambda: d.assign(**{c: vals})

    @op("assign_timedelta", True)
    def _(rng, d, mk):
        vals = pd.to_timedelta([rng.choice([1, 2, 3]) for _ in range(len(d))], unit="s")
        return [d], lambda: d.assign(td=vals)

    @op("drop_cols", True)
    def _(rng, d, mk):
        c = rng.choice(list(d.columns))
        return [d], lambda: d.drop(columns=[c])

    @op("drop_rows", True)
    def _(rng, d, mk): return [d], lambda: d.drop(index=[0]) if len(d) else d.drop(index=[])

    @op("rename_cols", True)
    def _(rng, d, mk):
        c = rng.choice(list(d.columns))
        return [d], lambda: d.rename(columns={c: str(c) + "_r"})

    @op("rename_index", True)
    def _(rng, d, mk): return [d], lambda: d.rename(index={0: 50})

    @op("concat_rows", True, 2)
    def _(rng, d, mk):
        u = mk(same_header=True)
        return [d, u], lambda: pd.concat([d, u])

    @op("concat_rows_3", True, 2)
    def _(rng, d, mk):
        u = mk(same_header=True)
        return [d, u, d], lambda: pd.concat([d, u, d], ignore_index=True)

    @op("concat_rows_mixed", True, 2)
    def _(rng, d, mk):
        u = mk(extra_cols=True)
        return [d, u], lambda: pd.concat([d, u])

    @op("concat_plain_second", True, 2)
    def _(rng, d, mk):
        p = pd.DataFrame(pd.DataFrame(d))
        return [d, p], lambda: pd.concat([d, p])

    @op("concat_cols", True, 2)
    def _(rng, d, mk):
        u = mk(disjoint=True)
        return [d, u], lambda: pd.concat([d, u], axis=1)

    @op("concat_cols_dup", True, 2)
    def _(rng, d, mk):
        u = mk(same_header=True)
        return [d, u], lambda: pd.concat([d, u], axis=1)

    @op("concat_clash", True, 2)
    def _(rng, d, mk):
        u = mk(clash=True)
        return [d, u], lambda: pd.concat([d, u])

    @op("concat_late_shared", True, 3)
    def _(rng, d, mk):
        fs = [d] + mk.all
        return fs, lambda: pd.concat(fs, ignore_index=True)

    @op("concat_late_clash", True, 3)
    def _(rng, d, mk):
        fs = [d] + mk.all
        return fs, lambda: pd.concat(fs, ignore_index=True)

    @op("assign_retype", True)
    def _(rng, d, mk):
        cand = [c for c in d.columns if d[c].dtype.kind in "if"] or list(d.columns)
        c = rng.choice(cand)
        vals = [rng.choice(["short", "long"]) for _ in range(len(d))]
        return [d], lambda: d.assign(**{c: vals, "width": [0.5] * len(d)})

    @op("merge_key", True, 2)
    def _(rng, d, mk):
        u = mk(merge=True)
        key = d.columns[0]
        return [d, u], lambda: d.merge(u, on=key, how=rng.choice(["inner", "inner", "left"]))

    @op("merge_fn", True, 2)
    def _(rng, d, mk):
        u = mk(merge=True)
        key = d.columns[0]
        return [d, u], lambda: pd.merge(d, u, on=key)

    @op("merge_clash", True, 2)
    def _(rng, d, mk):
        u = mk(merge=True, clash=True)
        key = d.columns[0]
        return [d, u], lambda: d.merge(u, on=key)

    # ---- outside the documented list
    @op("describe", False)
    def _(rng, d, mk): return [d], lambda: d.describe()

    @op("mul_scalar", False)
    def _(rng, d, mk):
        cs = _numeric(d) or list(d.columns)
        return [d], lambda: d[cs] * 2

    @op("rsub_scalar", False)
    def _(rng, d, mk):
        cs = _numeric(d) or list(d.columns)
        return [d], lambda: 1 - d[cs]

    @op("add_self", False)
    def _(rng, d, mk):
        cs = _numeric(d) or list(d.columns)
        return [d], lambda: d[cs] + d[cs]

    @op("add_plain", False)
    def _(rng, d, mk):
        cs = _numeric(d) or list(d.columns)
        return [d], lambda: d[cs] + pd.DataFrame(d[cs])

    @op("isna", False)
    def _(rng, d, mk): return [d], lambda: d.isna()

    @op("gt", False)
    def _(rng, d, mk):
        cs = _numeric(d) or list(d.columns)
        return [d], lambda: d[cs] > 1

    @op("groupby_sum", False)
    def _(rng, d, mk):
        key = d.columns[0]
        return [d], lambda: d.groupby(key).sum()

    @op("T", False)
    def _(rng, d, mk): return [d], lambda: d.T

    @op("map_identity", False)
    def _(rng, d, mk): return [d], lambda: d.map(lambda x: x)

    @op("map_bool", False)
    def _(rng, d, mk): return [d], lambda: d.map(lambda x: x == x)

    @op("apply_identity", False)
    def _(rng, d, mk): return [d], lambda: d.apply(lambda s: s)

    @op("apply_rows", False)
    def _(rng, d, mk): return [d], lambda: d.apply(lambda r: r, axis=1)

    @op("abs", False)
    def _(rng, d, mk):
        cs = _numeric(d) or list(d.columns)
        return [d], lambda: d[cs].abs()

    @op("round", False)
    def _(rng, d, mk): return [d], lambda: d.round(1)

    @op("cumsum", False)
    def _(rng, d, mk):
        cs = _numeric(d) or list(d.columns)
        return [d], lambda: d[cs].cumsum()

    @op("sort_values", False)
    def _(rng, d, mk): return [d], lambda: d.sort_values(d.columns[0])

    @op("head", False)
    def _(rng, d, mk): return [d], lambda: d.head(2)

    @op("reset_index", False)
    def _(rng, d, mk): return [d], lambda: d.reset_index(drop=True)

    @op("set_index", False)
    def _(rng, d, mk): return [d], lambda: d.set_index(d.columns[0])

    @op("melt", False)
    def _(rng, d, mk): return [d], lambda: d.melt(id_vars=[d.columns[0]])

    @op("np_exp", False)
    def _(rng, d, mk):
        cs = _numeric(d) or list(d.columns)
        return [d], lambda: np.exp(d[cs])

    # ---- row selections of the statement ("row or column selection") beyond masks / slices / take
    @op("dropna", True)
    def _(rng, d, mk): return [d], lambda: d.dropna()

    @op("dropna_subset", True)
    def _(rng, d, mk):
        c = rng.choice(list(d.columns))
        return [d], lambda: d.dropna(subset=[c])

    @op("drop_duplicates", True)
    def _(rng, d, mk): return [d], lambda: d.drop_duplicates()

    @op("query", True)
    def _(rng, d, mk):
        cs = [c for c in _numeric(d) if isinstance(c, str) and c.isidentifier()]
        if not cs:
            return [d], None
        c = rng.choice(cs)
        return [d], lambda: d.query(f"{c} > 0")

    @op("sample", True)
    def _(rng, d, mk):
        n = min(len(d), rng.choice([1, 2]))
        return [d], lambda: d.sample(n, random_state=rng.randrange(100))

    @op("nlargest", True)
    def _(rng, d, mk):
        cs = [c for c in d.columns if d[c].dtype.kind in "if" and isinstance(d[c].dtype, np.dtype)]
        if not cs:
            return [d], None
        c = rng.choice(cs)
        return [d], lambda: d.nlargest(2, c)

    @op("loc_mask", True)
    def _(rng, d, mk):
        mask = pd.Series([rng.random() < 0.6 for _ in range(len(d))], index=d.index, dtype=bool)
        return [d], lambda: d.loc[mask]

    # ---- more of the unknown-method branch, and operations that go through pandas' isna()
    @op("shift", False)
    def _(rng, d, mk): return [d], lambda: d.shift(1)

    @op("interpolate", False)
    def _(rng, d, mk):
        cs = _numeric(d) or list(d.columns)
        return [d], lambda: d[cs].interpolate()

    @op("where", False)
    def _(rng, d, mk):
        cs = _numeric(d) or list(d.columns)
        return [d], lambda: d[cs].where(d[cs] > 0, 0)

    @op("rank", False)
    def _(rng, d, mk):
        cs = _numeric(d) or list(d.columns)
        return [d], lambda: d[cs].rank()

    @op("diff", False)
    def _(rng, d, mk):
        cs = _numeric(d) or list(d.columns)
        return [d], lambda: d[cs].diff()

    @op("clip", False)
    def _(rng, d, mk):
        cs = _numeric(d) or list(d.columns)
        return [d], lambda: d[cs].clip(0, 2)

    @op("count", False)
    def _(rng, d, mk): return [d], lambda: d.count()

    @op("pool_method", False)
    def _(rng, d, mk):
        # one DataFrame method from a larger pool per case, called with defaults (or one drawn argument); what is not
        # applicable raises TypeError / ValueError inside pandas and is simply a refused unsafe operation
        cs = _numeric(d) or list(d.columns)
        n = d[cs]
        m = rng.choice(METHOD_POOL)
        calls_ = {
            "quantile": lambda: n.quantile([0.5]), "clip": lambda: n.clip(0, 2), "where": lambda: n.where(n > 0, 0),
            "mask": lambda: n.mask(n > 0, 0), "map": lambda: n.map(lambda x: x), "T": lambda: n.T,
            "combine_first": lambda: n.combine_first(n), "explode": lambda: d.explode(d.columns[0]),
            "transform": lambda: n.transform(lambda x: x), "agg": lambda: n.agg(["sum"]),
            "nsmallest": lambda: n.nsmallest(1, cs[0]), "truncate": lambda: d.truncate(0, 1),
            "add_prefix": lambda: d.add_prefix("p_"), "add_suffix": lambda: d.add_suffix("_s"),
            "set_flags": lambda: d.set_flags(), "squeeze": lambda: n.squeeze(), "swaplevel": None,
        }
        f = calls_.get(m, lambda: getattr(n, m)())
        return [d], f

    @op("join", False, 2)
    def _(rng, d, mk):
        u = mk(disjoint=True)
        return [d, u], lambda: d.join(u)

    # ---- results pandas builds without asking pdtable (known findings, observed only)
    def numeric_frame(d):
        cs = _numeric(d)
        return d[cs] if cs else None

    @op("dot", False)
    def _(rng, d, mk):
        n = numeric_frame(d)
        return [d], (lambda: n.dot(n.T)) if n is not None else None

    @op("matmul", False)
    def _(rng, d, mk):
        n = numeric_frame(d)
        return [d], (lambda: n @ n.T) if n is not None else None

    @op("rolling.sum", False)
    def _(rng, d, mk):
        n = numeric_frame(d)
        return [d], (lambda: n.rolling(2).sum()) if n is not None else None

    @op("expanding.sum", False)
    def _(rng, d, mk):
        n = numeric_frame(d)
        return [d], (lambda: n.expanding().sum()) if n is not None else None

    @op("ewm.mean", False)
    def _(rng, d, mk):
        n = numeric_frame(d)
        return [d], (lambda: n.ewm(1).mean()) if n is not None else None

    @op("groupby.cumsum", False)
    def _(rng, d, mk):
        n = numeric_frame(d)
        return [d], (lambda: n.groupby(n.columns[0]).cumsum()) if n is not None and n.shape[1] > 1 else None

    return ops


# safe-list operations that turn numeric data into text / booleans: the kept unit cannot stay
DEGRADING = {"astype_str", "astype_object", "astype_bool", "replace_label", "fillna_label", "assign_retype", "replace"}
# the operations the C05 statement names -> the harness operations exercising them.  Required outcome for each (checked
# per case by the oracle, against the __finalize__ calls pandas actually makes): a table frame, reached through methods
# pdtable knows (safe list / merge / concat / None) — an unknown-method warning on one of these is an alarm
# (`statement_op_unknown_method:<op>`), e.g. after a pandas upgrade that renames the method `assign` arrives with.
STATEMENT_OPS = {
    "copy": ["copy", "copy_shallow"],
    "rename (in pdtable's safe list, not named by the statement)": ["rename_cols", "rename_index"],
    "row or column selection": ["rows_bool", "rows_slice", "cols", "cols_none", "iloc_rows", "iloc_rc", "iloc_empty", "loc_rows",
                                "loc_cols", "loc_mask", "query", "sample", "nlargest", "drop_duplicates", "dropna",
                                "dropna_subset"],
    "take": ["take_rows", "take_cols"], "reindex": ["reindex_rows", "reindex_newrow", "reindex_cols"],
    "sort by index": ["sort_index"], "astype": ["astype", "astype_nullable", "astype_str", "astype_object", "astype_bool"],
    "fillna": ["fillna", "fillna_label"], "replace": ["replace", "replace_label"],
    "assign": ["assign_new", "assign_existing", "assign_ext", "assign_retype", "assign_timedelta", "tz_localize"],
    "drop": ["drop_cols", "drop_rows"],
    "concat": ["concat_rows", "concat_rows_3", "concat_rows_mixed", "concat_plain_second", "concat_cols",
               "concat_cols_dup", "concat_clash", "concat_late_shared", "concat_late_clash"],
    "merge": ["merge_key", "merge_fn", "merge_clash"],
}

# row selections of the statement that pdtable refuses today (pandas validates an internal isna() frame against the
# kept units): they always run and are judged like every safe operation; the failure is reported under
# `row_selection_refused:<op>`, which is excused only while that key is an OPEN known finding (F4)
GATED = {"dropna": "row_selection_refused:dropna", "dropna_subset": "row_selection_refused:dropna_subset"}
ROW_SELECTION = {"dropna", "dropna_subset", "drop_duplicates", "query", "sample", "nlargest", "loc_mask", "rows_bool",
                 "rows_slice", "iloc_rows", "loc_rows", "take_rows", "drop_rows"}
_OPEN_KEYS = None


def open_known_keys():
    global _OPEN_KEYS
    if _OPEN_KEYS is None:
        try:
            _OPEN_KEYS = {k.get("key") for k in common.load_known_findings()
                          if k.get("status") == "open" and k.get("property") == "C05"}
        except Exception:  # noqa: BLE001
            _OPEN_KEYS = set()
    return _OPEN_KEYS


MUTS = ["set_unit", "set_name", "add_dest", "add_column_new", "add_column_existing", "set_disp_unit", "set_fmt",
        "rewrap_name", "rewrap_units", "rewrap_dests", "rewrap_none", "del_column", "reorder", "discard_dest",
        "rewrap_transposed", "rewrap_origin", "rewrap_origin_none", "rewrap_strict", "rewrap_dests_str"]
SIDES = ["source", "result"]
N_MUT = len(MUTS) * len(SIDES)


# --------------------------------------------------------------------------- public observations (oracle)

def pub(world, df):
    """what a reader sees through the public API; `world` only mirrors the consultation"""
    from pdtable import Table
    err = world.consult(df)
    if err:
        return {"exc": err}
    t = Table(df)
    td = t.table_data           # one consultation; Table.name / .destinations / .units are its accessors
    md = td.metadata
    o = md.origin
    try:
        anc = [id_loc(x) for x in o.get_input_ancestors()]
    except Exception as e:  # noqa: BLE001
        anc = {"exc": type(e).__name__}
    return {"name": md.name, "name_api": td.name,
            "dests": sorted(md.destinations), "dests_api": sorted(td.destinations),
            "cols": [[tok(l), c.unit, c.display_unit, fmt_spec(c.display_format)] for l, c in td.columns.items()],
            "column_names": [tok(c) for c in t.column_names],
            "op": getattr(o, "operation", None), "anc": anc, "is_origin": o is not None,
            "origin_id": id(o),
            "strict": md.strict_types, "transposed": md.transposed}


def header_lines(df):
    """the `**name` line and the destination line pdtable writes for this frame (None if it cannot be written)"""
    import io
    from pdtable import Table, write_csv
    try:
        buf = io.StringIO()
        with warnings.catch_warnings():
            warnings.simplefilter("ignore")
            write_csv(Table(df), buf)
        lines = buf.getvalue().split("\n")
        return [lines[0], sorted(lines[1].split(";")[0].split(" "))]
    except Exception:  # noqa: BLE001 — frames pdtable cannot write (odd labels, dtypes) are not compared this way
        return None


def id_loc(loc):
    return f"L{loc.row}"


def same_view(a, b):
    """observations that must not change when *another* frame is mutated"""
    keys = ("name", "name_api", "dests", "dests_api", "cols", "column_names", "op", "anc", "strict", "transposed",
            "exc")
    return all(a.get(k) == b.get(k) for k in keys)


def is_table_frame(x):
    from pdtable.frame import TableDataFrame
    return isinstance(x, TableDataFrame)


def has_info(x):
    return is_table_frame(x) and info_of(x) is not None


# --------------------------------------------------------------------------- one case

class CaseResult:
    def __init__(self, case):
        self.case = case
        self.failures = []     # (what, observed, expected, key)
        self.counts = []
        self.world = None
        self.nontrivial = False
        self.op_methods = []   # (operation, methods pandas passed to __finalize__)

    def fail(self, what, observed, expected=None, key=None):
        self.failures.append((what, observed, expected, key or what))


def apply_mutation(res, world, rng, frames, target, mut):
    """perform one follow-up mutation on frame `target`; returns (did_something, new_frames)"""
    import pandas as pd
    from pdtable import Table
    info = info_of(target)
    r = world.ref(info)
    cm = info.columns
    new = []
    if mut == "set_unit":
        err = world.consult(target)
        if err:
            return False, new
        cand = [l for l in target.columns if l in cm and target[l].dtype.kind in "iufM" and cm[l].unit not in SPECIAL]
        if not cand:
            try:
                Table(target)["no_such_column"].unit = "km"
                got = "ok"
            except Exception as e:  # noqa: BLE001
                got = {"exc": type(e).__name__}
            world.push({"k": "mutate", "info": r, "mut": {"m": "set_unit", "col": tok("no_such_column"), "unit": "km"}}, got)
            res.counts.append("mut-missing-column:" + (got if isinstance(got, str) else got["exc"]))
            return False, new
        l = rng.choice(cand)
        u = rng.choice([x for x in ["km", "zz", "mm2"] if x != cm[l].unit])
        Table(target)[l].unit = u
        world.push({"k": "mutate", "info": r, "mut": {"m": "set_unit", "col": tok(l), "unit": u}}, "ok")
        return True, new
    if mut in ("del_column", "reorder"):
        # the frame itself is changed in place (no __finalize__), then read as a table: `_update_columns`
        # deletes / re-orders entries of the register dict in place
        if world.consult(target):
            return False, new
        cols = list(target.columns)
        if len(cols) < 2:
            return False, new
        with warnings.catch_warnings():
            warnings.simplefilter("ignore")
            if mut == "del_column":
                del target[rng.choice(cols)]
            else:
                c = cols[0]
                ser = target.pop(c)
                target[c] = ser.to_numpy()          # first column moved to the end
        err = world.consult(target)
        res.counts.append("consult-after-" + mut + (":" + err if err else ":ok"))
        return err is None, new
    if mut == "set_name":
        if world.consult(target):
            return False, new
        n = rng.choice([x for x in ["renamed", "other_name"] if x != info.metadata.name])
        Table(target).metadata.name = n
        world.push({"k": "mutate", "info": r, "mut": {"m": "set_name", "name": n}}, "ok")
        return True, new
    if mut == "add_dest":
        if world.consult(target):
            return False, new
        d = rng.choice(["new_dest", "all", "d9"])
        fresh = d not in info.metadata.destinations
        Table(target).destinations.add(d)
        world.push({"k": "mutate", "info": r, "mut": {"m": "add_dest", "d": d}}, "ok")
        return fresh, new
    if mut == "discard_dest":
        if world.consult(target):
            return False, new
        cur_d = sorted(info.metadata.destinations)
        d = rng.choice(cur_d) if cur_d else "all"
        Table(target).metadata.destinations.discard(d)      # often the only one: an empty destination set
        world.push({"k": "mutate", "info": r, "mut": {"m": "remove_dest", "d": d}}, "ok")
        res.counts.append("dests-left:%d" % min(len(info.metadata.destinations), 2))
        return bool(cur_d), new
    if mut in ("add_column_new", "add_column_existing"):
        if mut == "add_column_new":
            l = next(x for x in ("nw2", "nw3", "nw4", "nw5", "nw6", "nw7", "nw8", "nw9") if x not in target.columns)
            vals, u = list(range(len(target))), "s"
        else:
            cand = [l for l in target.columns if l in cm and target[l].dtype.kind in "if" and cm[l].unit not in SPECIAL]
            if not cand:
                return False, new
            l = rng.choice(cand)
            vals, u = list(target[l]), ("q1" if cm[l].unit != "q1" else "q2")
        with warnings.catch_warnings():
            warnings.simplefilter("ignore")
            Table(target).add_column(l, vals, unit=u)
        world.push({"k": "mutate", "info": r, "mut": {"m": "add_column", "col": tok(l), "unit": u}}, "ok")
        return True, new
    if mut in ("set_disp_unit", "set_fmt"):
        if world.consult(target):
            return False, new
        cand = [l for l in target.columns if l in cm]
        if not cand:
            return False, new
        l = rng.choice(cand)
        if mut == "set_disp_unit":
            du = "DU" if cm[l].display_unit != "DU" else "DU2"
            Table(target).column_metadata[l].display_unit = du
            world.push({"k": "mutate", "info": r, "mut": {"m": "set_disp_unit", "col": tok(l), "unit": du}}, "ok")
            return True, new
        withf = [x for x in cand if cm[x].display_format is not None]
        l = rng.choice(withf) if withf else l
        f = Table(target).column_metadata[l].display_format
        sp = ".9f" if f is None or f.specifier != ".9f" else ".8f"
        if f is not None:
            f.specifier = sp
        world.push({"k": "mutate", "info": r, "mut": {"m": "set_fmt", "col": tok(l), "spec": sp}}, "ok")
        return f is not None, new
    if mut == "rewrap_none":
        t2 = Table(target)                  # no overriding field: a facade on the very same frame
        if t2.df is not target:
            res.fail("Table(df) without overrides copied the frame", None, None, key="rewrap_none_copies")
        world.push({"k": "rewrap", "info": r, "frame": frame_json(target),
                    "kw": {"name": None, "dests": None, "units": None, "transposed": None}},
                   {"info": r, "obs": world.raw_obs(info), "shared": ["same"]})
        return False, new
    # re-wraps
    if world.consult(target):
        return False, new
    before = pub(world, target)
    kw, kwj = {}, {"name": None, "dests": None, "units": None, "transposed": None}
    new_origin = None
    if mut == "rewrap_name":
        kw["name"] = kwj["name"] = "wrapped"
    elif mut == "rewrap_transposed":
        kw["transposed"] = kwj["transposed"] = not before["transposed"]
    elif mut == "rewrap_strict":
        kw["strict_types"] = kwj["strict"] = False
    elif mut == "rewrap_dests_str":
        kw["destinations"] = kwj["dests_str"] = "w1  w2 w1"       # a str value is split at single blanks
    elif mut in ("rewrap_origin", "rewrap_origin_none"):
        if mut == "rewrap_origin":
            new_origin = build_origin({"loc": 9_000_000 + rng.randrange(10 ** 6)})
        kw["origin"] = new_origin
        kwj["origin"] = {"set": origin_json(new_origin, world.loc_tok)}
    elif mut == "rewrap_dests":
        kw["destinations"] = {"w1", "w2"}
        kwj["dests"] = ["w1", "w2"]
    else:
        units = []
        for l in target.columns:
            k = target[l].dtype.kind
            units.append(KIND_DEFAULT.get(k, "-") if KIND_DEFAULT.get(k) in SPECIAL else rng.choice(["u1", "u2"]))
        if rng.random() < 0.25 and units:
            units = units[:-1]          # zip truncation: the last column gets its dtype default
        kw["units"] = kwj["units"] = units
    step = {"k": "rewrap", "info": r, "frame": frame_json(target), "kw": kwj}
    try:
        t2 = Table(target, **kw)
    except Exception as e:  # noqa: BLE001
        world.push(step, {"exc": type(e).__name__})
        res.fail("re-wrap with overriding " + mut[7:] + " raised", type(e).__name__, "a new Table", key="rewrap_raises")
        return False, new
    d2 = t2.df
    world.keep.append(d2)
    i2 = info_of(d2)
    r2 = world.register(i2) if world.dead is None else None
    world.push(step, {"info": r2, "obs": world.raw_obs(i2), "shared": shared_kinds(i2, info)})
    # oracle: overriding field taken, the rest inherited, original untouched, nothing shared
    after = pub(world, target)
    p2 = pub(world, d2)
    if d2 is target:
        res.fail("re-wrap with overrides returned the same frame object", None, None, key="rewrap_same_object")
    if not same_view(before, after):
        res.fail("re-wrap changed the original", after, before, key="rewrap_changes_original")
    sh = shared_kinds(i2, info)
    if sh:
        res.fail("re-wrapped table shares mutable metadata objects with the original", sh, [], key="rewrap_alias")
    exp = dict(before)
    if mut == "rewrap_name":
        exp["name"] = "wrapped"
    elif mut == "rewrap_dests":
        exp["dests"] = ["w1", "w2"]
    elif mut == "rewrap_transposed":
        exp["transposed"] = not before["transposed"]
    elif mut == "rewrap_strict":
        exp["strict"] = False
    elif mut == "rewrap_dests_str":
        exp["dests"] = ["", "w1", "w2"]
    elif mut == "rewrap_origin":
        exp["op"], exp["anc"] = None, [id_loc(new_origin.input_location)]
    elif mut == "rewrap_origin_none":
        exp["op"], exp["anc"] = None, {"exc": "AttributeError"}
    else:
        full = kw["units"] + [KIND_DEFAULT.get(target[l].dtype.kind) for l in list(target.columns)[len(kw["units"]):]]
        exp["cols"] = [[tok(l), u, None, None] for l, u in zip(target.columns, full)]
    for k in ("name", "dests", "op", "anc", "transposed", "strict"):
        if p2.get(k) != exp.get(k):
            res.fail(f"re-wrapped table has wrong {k}", p2.get(k), exp.get(k), key="rewrap_" + k)
    if not target.empty and "exc" not in p2 and [c[:2] for c in p2.get("cols", [])] != [c[:2] for c in exp["cols"]]:
        res.fail("re-wrapped table has wrong units", p2.get("cols"), exp["cols"], key="rewrap_units")
    new.append(d2)
    return True, new


def dtype_conflict(labels, kinds, units):
    """some column's dtype cannot go with the unit it would keep (special units are tied to their dtype)"""
    for l in labels:
        if l in units and kinds.get(l) in KIND_DEFAULT:
            base = KIND_DEFAULT[kinds[l]]
            if (base in SPECIAL and base != units[l]) or (base not in SPECIAL and units[l] in SPECIAL):
                return True
    return False


def check_result(res, world, name, safe, sources, pre, R, exc, ws_outer, calls):
    """clauses of C05 about one operation; returns the result frame if it is a table frame"""
    import pandas as pd
    from pdtable.frame import TableDataFrame, InvalidTableCombineError
    from pdtable.table_metadata import ColumnUnitException, InvalidNamingError
    # sources carrying metadata; pandas.concat drops operands of shape (0, 0) before anything else happens
    drop00 = name.startswith("concat") and any(sum(s.shape) > 0 for s in sources)
    src_info = [(s, p) for s, p in zip(sources, pre)
                if p is not None and not (drop00 and sum(s.shape) == 0)]
    # --- a result made a table frame through a method pdtable does not know must carry the unknown-method warning
    for c in calls:
        if c["exc"] is None and c["res"] == "table" and c["method"] not in KNOWN_METHODS \
                and "unknown_method" not in c["warns"]:
            res.fail(f"__finalize__ method {c['method']!r} is not in pdtable's list of known methods, yet its result "
                     "became a table frame without the unknown-method warning", c["warns"], ["unknown_method"],
                     key="unknown_method_silent:" + str(c["method"]))
    # --- degrade path of __finalize__: plain DataFrame exactly, with the warning
    for c in calls:
        if c["exc"] is None and c["res"] != "table":
            if c["res"] != "plain":
                res.fail("__finalize__ without any source metadata returned a table frame instead of a plain DataFrame",
                         c["res"], "plain", key="degrade_returns_tableframe")
            if "fallback" not in c["warns"]:
                res.fail("fall-back to a plain DataFrame without the warning", c["warns"], ["fallback"],
                         key="degrade_without_warning")
            if any(c["carry"]):
                res.fail("a source carried metadata but the result was degraded", c["carry"], None,
                         key="degrade_despite_info")
        if c["res"] == "table" and not any(c["carry"]):
            res.fail("table frame produced although no source carried metadata", c["method"], None,
                     key="table_from_nothing")
    # --- an operation of the statement must be served by a method pdtable knows (no "unknown method" warning)
    if safe:
        unk = [c["method"] for c in calls if "unknown_method" in c["warns"]]
        if unk:
            res.fail(f"operation {name} of the documented safe list reaches __finalize__ with a method pdtable treats "
                     "as unknown", unk, "a method of the safe list / merge / concat / None",
                     key=GATED.get(name, "statement_op_unknown_method:" + name))
    # --- clash: shared surviving columns disagreeing on unit must be refused
    clash = None
    if len(src_info) > 1 and calls:
        last_cols = {c[0] for c in calls[-1]["frame"]["cols"]}
        seen = {}
        for s, p in src_info:
            if "cols" not in p:
                continue
            for l, u, _, _ in p["cols"]:
                if l in last_cols and l in seen and seen[l] != u:
                    clash = (l, seen[l], u)
                seen.setdefault(l, u)
    if exc is not None:
        cls = type(exc).__name__
        res.counts.append("exc:" + cls)
        if clash:
            if not isinstance(exc, InvalidTableCombineError):
                res.counts.append("clash_refused_by:" + cls)
            return None
        if isinstance(exc, InvalidTableCombineError):
            res.fail("InvalidTableCombineError without a unit clash between the sources", cls, None,
                     key="spurious_clash")
        if safe and name in ROW_SELECTION and not any(c["exc"] is not None for c in calls):
            res.counts.append("refusal:raised by pandas before any __finalize__")     # e.g. a label that is not there
        elif safe and name in ROW_SELECTION:
            # selecting rows changes no dtype and no column: nothing can justify a refusal by __finalize__
            res.fail(f"row selection {name} of a table frame is refused", cls, "a table frame",
                     key="row_selection_refused:" + name)
        elif safe:
            # a refusal must have a cause visible on the result frame of the failing __finalize__ call
            cause = None
            fc = next((c for c in calls if c["exc"] is not None), None)
            if fc is not None:
                labels = [c[0] for c in fc["frame"]["cols"]]
                kinds = {c[0]: c[2] for c in fc["frame"]["cols"]}
                units = {}
                for s, p in src_info:
                    for l, u, _, _ in p.get("cols", []):
                        units.setdefault(l, u)
                if len(set(labels)) != len(labels) and isinstance(exc, InvalidNamingError):
                    cause = "duplicate labels"
                elif isinstance(exc, ValueError) and any(k not in KIND_DEFAULT for k in kinds.values()):
                    cause = "dtype kind without unit"
                elif isinstance(exc, ColumnUnitException) and dtype_conflict(labels, kinds, units):
                    cause = "dtype against kept unit"
            else:
                cause = "raised by pandas before any __finalize__" if not isinstance(
                    exc, (ColumnUnitException, InvalidNamingError, InvalidTableCombineError)) else None
            if cause is None:
                res.fail(f"safe operation {name} refused without a cause on the result frame", cls, "a table frame",
                         key=("row_selection_refused:" + name) if name in ROW_SELECTION else "safe_op_refused:" + cls)
            else:
                res.counts.append("refusal:" + cause)
        return None
    if clash and is_table_frame(R):
        res.fail(f"combining frames whose shared column {clash[0]} disagrees on unit was not refused",
                 {"units": clash[1:], "result": type(R).__name__}, "an error", key="clash_not_refused")
        return None
    # --- result classification
    if not isinstance(R, pd.DataFrame):
        res.counts.append("result:" + type(R).__name__)
        return None
    if not isinstance(R, TableDataFrame):
        if type(R) is not pd.DataFrame:
            res.fail("degraded result is not exactly a pandas DataFrame", type(R).__name__, "DataFrame",
                     key="degrade_type")
        if safe and src_info:
            res.fail(f"safe operation {name} lost the table metadata", type(R).__name__, "TableDataFrame",
                     key="safe_op_degraded:" + name.split("_")[0])
        res.counts.append("result:plain")
        return None
    if info_of(R) is None:
        warned = bool(ws_outer) or any(c["warns"] for c in calls)
        res.fail(f"operation {name} returned a TableDataFrame without metadata" + ("" if warned else ", no warning, no error"),
                 "TableDataFrame without _table_data", "plain DataFrame + warning, or an error",
                 key="tableframe_without_metadata:" + name)
        return None
    res.counts.append("result:table")
    if not src_info:
        res.fail("table frame produced although no source carried metadata", name, None, key="table_from_nothing")
        return None
    if any(R is s for s in sources):
        res.counts.append("result-is-source")
        return None
    p = pub(world, R)
    if "exc" in p:
        # pandas may change a column after __finalize__ ran (assign copies first, then sets the column): the
        # refusal then comes with the first consultation; it needs the same kind of cause as an immediate one
        units0 = {}
        for s, sp in src_info:
            for l, u, _, _ in sp["cols"]:
                units0.setdefault(l, u)
        for l, c in info_of(R).columns.items():
            units0.setdefault(tok(l), c.unit)
        labels = [tok(l) for l in R.columns]
        kinds0 = {tok(l): d.kind for l, d in zip(R.columns, R.dtypes)}
        if p["exc"] == "ColumnUnitException" and dtype_conflict(labels, kinds0, units0):
            res.counts.append("refusal-on-first-access:dtype against kept unit")
        elif p["exc"] == "ValueError" and any(k not in KIND_DEFAULT for k in kinds0.values()):
            res.counts.append("refusal-on-first-access:dtype kind without unit")
        else:
            res.fail("result table frame cannot be consulted", p, None, key="result_unreadable")
        return None
    first = src_info[0][1]
    if p["name"] != first["name"]:
        res.fail("result does not carry the first source's name", p["name"], first["name"], key="name")
    if p["dests"] != first["dests"]:
        res.fail("result does not carry the first source's destinations", p["dests"], first["dests"], key="destinations")
    if p["name_api"] != first["name_api"] or p["dests_api"] != first["dests_api"]:
        res.fail("Table(result).name / .destinations differ from the first source's",
                 [p["name_api"], p["dests_api"]], [first["name_api"], first["dests_api"]], key="destinations_api")
    # writing is slow: always where empty-vs-default matters (no / one destination, empty name), else 1 case in 5
    la = lb = None
    if len(first["dests"]) <= 1 or first["name"] == "" or res.case["index"] % 5 == 0:
        la, lb = header_lines(src_info[0][0]), header_lines(R)
    if la is not None and lb is not None and la != lb:
        res.fail("the written table header (name line, destination line) of the result differs from the first source's",
                 lb, la, key="written_header")
    units = {}
    for s, sp in src_info:
        for l, u, _, _ in sp["cols"]:
            units.setdefault(l, u)
    got = {c[0]: c[1] for c in p["cols"]}
    kinds = {tok(l): R[l].dtype.kind for l in R.columns} if len(set(R.columns)) == len(R.columns) else {}
    if p["strict"] and not R.empty and dtype_conflict(p["column_names"], kinds, got):
        bad = {l: [kinds.get(l), got.get(l)] for l in p["column_names"]
               if dtype_conflict([l], kinds, got)}
        res.fail("a table frame labels a column with a unit its data type cannot have (mislabelled table)",
                 bad, "refused with an error", key="mislabelled_table")
    for l in p["column_names"]:
        if l in units:
            if got.get(l) != units[l]:
                res.fail("a surviving column did not keep its unit", {l: got.get(l)}, {l: units[l]}, key="unit_kept")
        elif not R.empty:
            if got.get(l) != KIND_DEFAULT.get(kinds.get(l)):
                res.fail("a new column did not get the default unit of its dtype", {l: got.get(l)},
                         {l: KIND_DEFAULT.get(kinds.get(l))}, key="unit_new")
    if not R.empty and [c[0] for c in p["cols"]] != p["column_names"]:
        res.fail("units are not registered for exactly the result's columns", [c[0] for c in p["cols"]],
                 p["column_names"], key="units_vs_columns")
    # origin: derived, names a pandas operation, ancestors = the sources' input locations
    from pdtable.table_origin import TableOrigin
    o = info_of(R).metadata.origin
    if not isinstance(o, TableOrigin) or o.input_location is not None or not isinstance(o.operation, str) \
            or not o.operation.startswith("Pandas "):
        res.fail("result origin is not a derived origin naming a pandas operation", repr(o)[:120], None, key="origin_kind")
    else:
        # a source made in code has no origin: it has no input location and contributes none
        want = []
        ok = True
        for s, sp in src_info:
            if not sp["is_origin"]:
                continue
            if isinstance(sp["anc"], dict):
                ok = False               # a source whose own origin is inconsistent (not generated)
            else:
                want += sp["anc"]
        res.counts.append("anc-checked" if ok else "anc-skip")
        if ok:
            exact = p["anc"] == want if safe else (not isinstance(p["anc"], dict) and set(p["anc"]) == set(want))
            if not exact:
                res.fail("input ancestors of the result are not the sources' input locations", p["anc"], want,
                         key="ancestors")
        for what, f in (("str(metadata)", lambda: str(info_of(R).metadata)), ("str(origin)", lambda: str(o))):
            try:
                f()
            except Exception as e:  # noqa: BLE001
                res.fail(f"{what} of the result raises", type(e).__name__, "a text", key="origin_unprintable")
        if safe and len(calls) == 1:
            par = list(o.parents)
            src_o = [info_of(s).metadata.origin for s, _ in src_info if info_of(s).metadata.origin is not None]
            if len(par) != len(src_o) or any(a is not b for a, b in zip(par, src_o)):
                res.fail("origin parents are not the sources' origins", len(par), len(src_o), key="origin_parents")
    # no aliasing, by identity
    for s, _ in src_info:
        sh = shared_kinds(info_of(R), info_of(s))
        if sh:
            res.fail("result shares mutable metadata objects with a source", sh, [], key="alias:" + ",".join(sh))
    return R


# chain lengths for the 'long' stream: a multi-source operation, then this many single-source safe operations
LONG_LADDER = [15, 16, 17, 32, 64, 200, 31, 33, 63, 65, 127, 129]
LONG_STEPS = ["copy", "copy_shallow", "sort_index", "fillna", "rename_index"]
LONG_MULTI = ["concat_rows", "concat_cols", "concat_rows_3"]


def long_plan(rng, index, names):
    """multi-source operation at the start / in the middle / twice, and a long tail of single-source operations;
    the input ancestors are checked after every step"""
    n = LONG_LADDER[index % len(LONG_LADDER)]
    where = ["start", "middle", "twice"][(index // len(LONG_LADDER)) % 3]
    steps = [rng.choice(LONG_STEPS) for _ in range(n)]
    multi = rng.choice(LONG_MULTI)
    if where == "start":
        seq = [multi] + steps
    elif where == "middle":
        k = rng.choice([1, 2, 5])
        seq = steps[:k] + [multi] + steps[k:]
    else:
        seq = [multi] + steps + [rng.choice(LONG_MULTI)] + [rng.choice(LONG_STEPS) for _ in range(min(n, 20))]
    return [(names[x], []) for x in seq]


def clashing(rng, u):
    """a unit that is NOT `u`: another unit, or `u` in another case / with a blank (units are compared exactly)"""
    cands = [u + "X", u.upper(), u.capitalize(), u.swapcase(), u + " ", " " + u]
    return rng.choice([c for c in cands if c != u])


def make_case(seed, stream, index, ops):
    """the case as plain data: literal tables, operations by name with the seed of their argument draws,
    follow-up mutations — everything `exec_case` needs, nothing that depends on stream positions"""
    rng = make_rng(seed, f"C05:{stream}:{index}")
    loc_counter = [index * 100]
    names = {o[0]: k for k, o in enumerate(ops)}
    if stream == "long":
        plan = long_plan(rng, index, names)
    elif stream == "pairs":
        n_ops = len(ops)
        op_idx = (index // N_MUT) % n_ops
        mi = index % N_MUT
        plan = [(op_idx, [(SIDES[mi // len(MUTS)], MUTS[mi % len(MUTS)])])]
    else:
        depth = rng.choice([2, 3, 4])
        plan = [(rng.randrange(len(ops)), [(rng.choice(SIDES), rng.choice(MUTS)) for _ in range(rng.choice([0, 1, 2]))])
                for _ in range(depth)]
    degrading = ops[plan[0][0]][0] in DEGRADING and rng.random() < 0.6
    t0 = table_spec(rng, loc_counter,
                    nrows=rng.choice([2, 3, 3, 4, 0]) if rng.random() < 0.25 else rng.choice([2, 3, 4]),
                    force={"odd": True} if degrading else None)
    tables = [t0]
    hdr = spec_header(t0)
    n0 = t0["nrows"]
    steps = []
    for i, (oi, muts) in enumerate(plan):
        kind = ops[oi][0]
        extra = []
        if ops[oi][2] > 2:
            # 2-3 further tables sharing columns (m1, m2) the first table lacks; with "clash" two of the
            # LATER tables disagree on the unit of m1 (whichever pair), otherwise all agree
            k = rng.choice([2, 3])
            have_m1 = sorted(rng.sample(range(k), 2)) if k == 3 and rng.random() < 0.5 else list(range(k))
            clash_at = rng.choice(have_m1[1:]) if kind == "concat_late_clash" else None
            m1_clash = rng.choice(["g", "KG", "Kg", "kg ", " kg"])
            for j in range(k):
                cols = [hdr[0]] if rng.random() < 0.7 else []
                if j in have_m1:
                    cols.append(("m1", "f", m1_clash if j == clash_at else "kg"))
                if rng.random() < 0.6 or not cols:
                    cols.append(("m2", "i", "N"))
                tables.append(table_spec(rng, loc_counter, name="u%d_%d" % (i, j), cols=cols))
                extra.append(len(tables) - 1)
        elif ops[oi][2] > 1:
            nrows = n0 if "cols" in kind or kind == "join" else None
            if kind in ("concat_rows", "concat_rows_3", "concat_cols_dup"):
                cols = list(hdr)
            elif kind == "concat_rows_mixed":
                cols = hdr[: max(1, len(hdr) - 1)] + [("x1", "f", "N")]
            elif kind in ("concat_cols", "join"):
                cols = [("p", "f", "kg"), ("q", "O", "text")]
            elif kind == "concat_clash":
                cols = [(l, k, clashing(rng, u) if j == 0 and u not in SPECIAL else u) for j, (l, k, u) in enumerate(hdr)]
                if hdr[0][2] in SPECIAL:
                    cols = list(hdr)         # no clash possible on a special unit: plain concat
            elif kind in ("merge_key", "merge_fn"):
                cols = [hdr[0], ("r1", "f", "N")] + ([(hdr[1][0], hdr[1][1], "other")] if len(hdr) > 1 and hdr[1][2] not in SPECIAL else [])
            elif kind == "merge_clash":
                l, k, u = hdr[0]
                cols = [(l, k, clashing(rng, u) if u not in SPECIAL else u), ("r1", "f", "N")]
            else:
                cols = None
            tables.append(table_spec(rng, loc_counter, name="u%d" % i, cols=cols, nrows=nrows))
            extra.append(len(tables) - 1)
        steps.append({"op": kind, "args": rng.getrandbits(32), "extra": extra,
                      "muts": [{"side": sd, "mut": m, "args": rng.getrandbits(32)} for sd, m in muts]})
    return {"seed": seed, "stream": stream, "index": index, "tables": tables, "steps": steps}


def run_case(seed, stream, index, ops):
    return exec_case(make_case(seed, stream, index, ops), ops)


def exec_case(case, ops):
    """build the tables, run the operations, check the clauses, mutate, check independence — from the
    content of `case` alone"""
    global _CURRENT
    import random
    world = World()
    names = {o[0]: k for k, o in enumerate(ops)}
    stream = case.get("stream", "chains")
    res = CaseResult(case)
    res.world = world
    try:
        # all tables of the case are made up front (the model allocates the initial infos first)
        built = []
        for spec in case["tables"]:
            t = build_table(spec)
            world.add_table(t)
            built.append(t)
    except SetupRefused as e:
        res.fail("a table whose units agree with the dtype kinds of its columns was refused at construction",
                 {"exc": e.args[0], "columns": e.args[1]}, "a table frame", key="table_construction_refused")
        return res
    t0 = built[0]
    plan = [st for st in case["steps"] if st["op"] in names]
    frames = [t.df for t in built]
    cur = t0.df
    _CURRENT = world
    try:
        for step in plan:
            name, safe, arity, build = ops[names[step["op"]]]
            muts = step["muts"]
            rng = random.Random(step["args"])
            if not has_info(cur):
                break
            us = [built[k].df for k in step["extra"] if k < len(built)]

            def mk(_us=us, **kw):
                return _us[0]
            mk.all = us
            try:
                sources, thunk = build(rng, cur, mk)
            except Exception as e:  # noqa: BLE001 — generator could not build arguments for this frame
                res.counts.append("skip:" + name)
                continue
            if thunk is None:
                res.counts.append("skip:" + name)
                continue
            res.counts.append("op:" + name)
            if stream == "chains" and any(info_of(s) is not None and
                                          any(k not in KIND_DEFAULT for k in (s[c].dtype.kind for c in s.columns))
                                          for s in sources if is_table_frame(s)):
                break
            pre = [pub(world, s) if has_info(s) else None for s in sources]
            if any(p is not None and "exc" in p for p in pre):
                res.counts.append("skip:source-unreadable")
                break
            ncalls = len(world.calls)
            R = exc = None
            with warnings.catch_warnings(record=True) as ws:
                warnings.simplefilter("always")
                try:
                    R = thunk()
                except Exception as e:  # noqa: BLE001 — judged by the oracle
                    exc = e
            ws_outer = [w for w in ws if is_pdtable_warning(w)]
            calls = world.calls[ncalls:]
            res.counts.append("finalize_calls:%d" % min(len(calls), 9))
            res.op_methods.append((name, [str(c["method"]) for c in calls]))
            for c in calls:
                res.counts.append("method:%s" % c["method"])
            res.nontrivial = res.nontrivial or bool(calls)
            # the operation itself must not change its sources
            post = [pub(world, s) if has_info(s) else None for s in sources]
            for a, b in zip(pre, post):
                if a is not None and not same_view(a, b):
                    res.fail(f"operation {name} changed the metadata of a source", b, a, key="op_changes_source")
            Rt = check_result(res, world, name, safe, sources, pre, R, exc, ws_outer, calls)
            if Rt is not None and all(Rt is not f for f in frames):
                frames.append(Rt)
                world.keep.append(Rt)
            # follow-up mutations: every other frame's observations stay as they are
            for mstep in muts:
                side, mut = mstep["side"], mstep["mut"]
                rng = random.Random(mstep["args"])
                cands = [s for s in sources if has_info(s)] if side == "source" else ([Rt] if Rt is not None else [])
                if not cands:
                    res.counts.append("mut-skip:no-" + side)
                    continue
                target = rng.choice(cands)
                live = [f for f in frames if has_info(f)]
                base = {id(f): pub(world, f) for f in live}
                if any("exc" in b for b in base.values()):
                    res.counts.append("mut-skip:unreadable")
                    continue
                did, new = apply_mutation(res, world, rng, frames, target, mut)
                res.counts.append(("mut:" if did else "mut-noop:") + side + ":" + mut)
                for f in live:
                    now = pub(world, f)
                    if f is target:
                        if did and not mut.startswith("rewrap") and same_view(base[id(f)], now):
                            res.fail("mutation had no visible effect on its own frame", mut, None, key="mutation_noop")
                        continue
                    if not same_view(base[id(f)], now):
                        res.fail(f"{mut} on the {side} changed another frame's metadata",
                                 {"now": now, "mutated": side}, base[id(f)], key="independence:" + mut)
                # a re-wrapped table is itself independent: mutate it, look at the original, and back
                for d2 in new:
                    frames.append(d2)
                    b_t, b_2 = pub(world, target), pub(world, d2)
                    apply_mutation(res, world, rng, frames, d2, "add_dest")
                    apply_mutation(res, world, rng, frames, d2, "set_unit")
                    if not same_view(b_t, pub(world, target)):
                        res.fail("mutating the re-wrapped table changed the original", None, None, key="rewrap_independence")
                    b_2 = pub(world, d2)
                    apply_mutation(res, world, rng, frames, target, "set_name")
                    apply_mutation(res, world, rng, frames, target, "add_dest")
                    if not same_view(b_2, pub(world, d2)):
                        res.fail("mutating the original changed the re-wrapped table", None, None, key="rewrap_independence")
            if Rt is not None:
                cur = Rt
        world.observe_all()
    finally:
        _CURRENT = None
    for fl in world.flips:
        res.fail("a frame refused as a table was accepted when consulted again, unchanged (mislabelled table)",
                 fl, "refused again", key="refusal_flips")
    return res


# --------------------------------------------------------------------------- entry points

def run(tier, seed, model_ok, translator, search=False):
    out = Outcome()
    out.rule = ("stream 'pairs': every (operation, follow-up mutation x side) pair — %d operations (the documented safe "
                "list + a sample outside it + the six known __finalize__-bypassing operations) x %d mutations "
                "(set unit / name / add destination / add column new+existing / display unit / format / re-wrap with "
                "name, units, destinations, nothing / delete a column or re-order the columns of the frame in place and "
                "consult; on a randomly chosen source and on the result) on a fresh random table (1-4 columns of "
                "float/int/text/bool/datetime, 0-4 rows, random origin tree, destinations, strictness, display fields); "
                "stream 'chains': random chains of 2-4 operations with 0-2 mutations after each. "
                "Non-trivial: pandas called __finalize__ at least once; distinct by (plan, recorded calls).") % (
                    len(_ops()), N_MUT)
    ops = _ops()
    reps = 1 if tier == "quick" else 4
    n_pairs = len(ops) * N_MUT * reps
    n_chains = 350 if tier == "quick" else 4000
    undo = install()
    pend, mops = [], []
    per_key = {}
    seen_methods = {}
    try:
        n_long = 7 if tier == "quick" else 72
        for stream, n in (("pairs", n_pairs), ("chains", n_chains), ("long", n_long)):
            for index in range(n):
                if stream == "pairs" and tier == "quick" and not ops[(index // N_MUT) % len(ops)][1] \
                        and ops[(index // N_MUT) % len(ops)][0] != "pool_method" and (index % N_MUT) % 3 != seed % 3:
                    continue        # operations outside the statement's list: a third of the mutations per quick run
                with warnings.catch_warnings():
                    warnings.simplefilter("ignore")
                    res = run_case(seed, stream, index, ops)
                sig = dict(res.case, calls=[[c["method"], c["carry"], c["res"], c["exc"]] for c in res.world.calls])
                out.case(sig, nontrivial=res.nontrivial)
                for c in res.counts:
                    out.count(c)
                for opname, methods in res.op_methods:
                    seen_methods.setdefault(opname, set()).update(methods)
                if res.world.dead:
                    out.count("mirror-stopped:" + res.world.dead[:40])
                for what, obs, exp, key in res.failures:
                    out.count("oracle-failure:" + key)
                    per_key[key] = per_key.get(key, 0) + 1
                    if per_key[key] <= 2:          # known findings must not crowd out new failures
                        out.fail(what, res.case, obs, exp, key=key)
                if model_ok and res.world.steps:
                    mops.append(res.world.model_op())
                    pend.append((res.case, res.world.expect))
    finally:
        undo()
    out.exhaustive = False
    # which methods pandas passes per operation: compared with the committed table, reported, never an alarm
    drift = {k: sorted(v - set(FINALIZE_TABLE.get(k, []))) for k, v in seen_methods.items()
             if k != "pool_method" and v - set(FINALIZE_TABLE.get(k, []))}
    if drift:
        out.notes.append("pandas __finalize__ methods not in the committed table (pandas changed, or a data path "
                         "not seen when the table was recorded): " + str(drift))
    else:
        out.notes.append("pandas __finalize__ methods per operation: all within the committed table "
                         "(recorded with pandas 3.0.6)")
    safe_names = {o[0] for o in ops if o[1]}
    listed = {x for v in STATEMENT_OPS.values() for x in v}
    if safe_names - listed or listed - safe_names:
        out.notes.append("STATEMENT_OPS and the safe=True operations differ: " + str(sorted(safe_names ^ listed)))
    unrun = {k: [x for x in v if not out.dist.get("op:" + x)] for k, v in STATEMENT_OPS.items()}
    unrun = {k: v for k, v in unrun.items() if len(v) == len(STATEMENT_OPS[k])}
    if unrun:
        out.notes.append("operations of the statement not exercised in this run: " + str(sorted(unrun)))
    if model_ok and not search:
        answers = common.run_model(mops)
        for (case, expect), ans in zip(pend, answers):
            if isinstance(ans, dict) and "error" in ans:
                out.mismatch("driver error", case, None, ans)
                continue
            for k, (e, a) in enumerate(zip(expect, ans)):
                e2, a2 = canon(e), canon(a)
                if e2 != a2:
                    out.mismatch(f"step {k}: pdtable vs Lean model", dict(case, step=k), e2, a2)
                    break
        out.count("model_steps", sum(len(e) for _, e in pend))
    return out


def canon(x):
    """order-free parts sorted (destination sets, shared-kind sets)"""
    if isinstance(x, dict):
        y = {k: canon(v) for k, v in x.items()}
        if isinstance(y.get("dests"), list):
            y["dests"] = sorted(y["dests"])
        if "shared" in y and isinstance(y["shared"], list):
            y["shared"] = [[s[0], sorted(s[1])] if isinstance(s, list) else s for s in y["shared"]]
            if y["shared"] and not isinstance(y["shared"][0], list):
                y["shared"] = sorted(y["shared"])
        return y
    if isinstance(x, list):
        return [canon(v) for v in x]
    return x


def replay(rep):
    """rebuild the failing case from the content recorded in the replay file and re-evaluate exactly the oracle
    that failed (no generated stream is re-run)"""
    inp = rep.get("input") or {}
    ops = _ops()
    if "tables" in inp and "steps" in inp:
        case = inp
    elif "index" in inp and "stream" in inp:      # replay files written before cases carried their content
        case = make_case(int(inp.get("seed", rep.get("seed", 0))), inp["stream"], int(inp["index"]), ops)
    else:
        return False, "replay file has no input (no-failing-input-found): " + str(rep.get("broken"))[:300]
    # the case is executed in this process after a copy of itself read from other input locations, twice: a change
    # that keeps state between operations (a cache keyed by object identity, a module-level memo) shows then, as it
    # did in the run that found it
    import copy
    import gc
    what = rep.get("what")

    def relocated(c, delta):
        """the same case read from other input locations (what a state kept between operations would mix up)"""
        c = copy.deepcopy(c)

        def walk(o):
            if isinstance(o, dict):
                if "loc" in o and isinstance(o["loc"], int):
                    o["loc"] += delta
                for v in o.values():
                    walk(v)
            elif isinstance(o, list):
                for v in o:
                    walk(v)
        for k, t in enumerate(c.get("tables", [])):
            if t.get("origin") is None:
                t["origin"] = {"loc": delta + k}      # … or read from an input at all
            else:
                walk(t["origin"])
        return c
    undo = install()
    try:
        for variant in (relocated(case, 5000), case, relocated(case, 7000), case):
            with warnings.catch_warnings():
                warnings.simplefilter("ignore")
                res = exec_case(variant, ops)
            # exactly the oracle that failed is re-evaluated (other, e.g. known, findings of the case do not count)
            hits = [f for f in res.failures if f[0] == what] if what else \
                [f for f in res.failures if not f[3].startswith(("safe_op_degraded:", "tableframe_without_metadata:",
                                                                 "row_selection_refused:"))]
            if hits:
                return False, hits[0][0]
            del res
            gc.collect()
    finally:
        undo()
    return True, "property holds on this input"
