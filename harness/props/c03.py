"""C03 — rows are split into blocks by first-cell markers: in order, none lost.

Correspondence: the real `parse_blocks_stable` (recording handlers for every block type) vs the
Lean `segment` (driver op "segment") on the same native rows.
Oracle: the statement of C03 evaluated on the implementation's output by an independent
reference written from the property text (`ref_kind`, `ref_segment`, slice/prefix checks).
"""
import datetime
import itertools

from harness import common, regex_common
from harness.common import Outcome, make_rng, grid_to_json

EXTRA = {
    "assumptions": [
        "rows are sequences (a `None` row is outside the domain: neither reader produces one)",
        "Python str.isspace / re \\s table: compared with CPython on all 0x110000 code points each run",
        "Python `re`: the engine model (Model/Regex.lean: parser + backtracking matcher for the syntax subset the two "
        "patterns are written in) is CPython's semantics — sampled against CPython each run (harness/regex_common.py: "
        "the live patterns on all short strings, random subset patterns x random strings, all group spans)",
    ],
    "explanation": "Theorems in Props/C03.lean hold for every row list; the hand model `classify` is PROVED equal to "
                   "the regex engine model run on the pattern text the translator extracts from blocks.py "
                   "(`classify_is_marker_regex`); the model is further tied to the code by differential execution "
                   "against parse_blocks_stable.",
    "trusted_base": ["lean/PdtModel/Model/Regex.lean as a model of CPython `re` on its syntax subset (validated by "
                     "sampling against CPython, not proved)"],
}

SPACES = [9, 10, 11, 12, 13, 28, 29, 30, 31, 32, 133, 160, 5760] + list(range(8192, 8203)) + \
         [8232, 8233, 8239, 8287, 12288]


LOCATIONS = [None, "anonymous", "Sheet1", "é sheet", "in_'q'!A7"]


def impl_blocks(rows, location=None):
    """`location`: None = the reader's default; "anonymous" = a sheet without a name; else a named sheet
    (as read_excel / the loader supply): the origin row of a block does not depend on it"""
    from pdtable.io.parsers.blocks import parse_blocks_stable
    from pdtable import BlockType
    from pdtable.table_origin import NullLocationFile
    kw = {}
    if location is not None:
        kw["location_sheet"] = NullLocationFile().make_location_sheet(None if location == "anonymous" else location)

    import zlib
    crc = zlib.crc32(repr(rows).encode("utf-8", "replace"))
    form = crc % 7
    # a handler may return anything but None ("If None is returned the block is silently ignored"): in a third of
    # the cases it returns an empty container (as the default METADATA handler does for `key:` rows without values)
    falsy = (crc // 7) % 3 == 0

    class _Empty(dict):
        pass

    def rec(cell_grid, origin=None, fixer=None):
        res = ([list(r) for r in cell_grid], origin.input_location.row)
        if falsy:
            e = _Empty()
            e.res = res
            return e
        return res

    handlers = {bt: rec for bt in BlockType}
    out = []
    # rows are "sequences": lists, tuples, 1-D object arrays (a grid given as numpy array), pandas Series
    if form == 1:
        rows = [tuple(r) for r in rows]
    elif form == 2 and all(not isinstance(c, (list, tuple)) for r in rows for c in r):
        import numpy as np
        conv = []
        for r in rows:
            a = np.empty(len(r), dtype=object)
            for k, c in enumerate(r):
                a[k] = c
            conv.append(a)
        rows = conv
    for bt, blk in parse_blocks_stable(iter(rows), block_handlers=handlers, **kw):
        grid, row = blk.res if falsy else blk
        out.append({"ty": bt.name, "first": row, "rows": grid})
    return out


def default_route_ok(rows, blocks, out, case):
    """the library's own handlers (to='cellgrid': tables are not parsed) deliver a block for every block of the
    segmentation, of the same type — whatever the handler's result looks like (an empty MetadataBlock is a block)"""
    from pdtable.io.parsers.blocks import parse_blocks
    try:
        delivered = list(parse_blocks(iter(rows), to="cellgrid"))
    except Exception as e:  # noqa: BLE001
        out.fail("parse_blocks(to='cellgrid') raised on a row sequence", case, repr(e)[:200], None,
                 key="default_route_raised:" + type(e).__name__)
        return
    got = [bt.name for bt, _ in delivered]
    want = [b["ty"] for b in blocks]
    stable = None
    try:
        from pdtable.io.parsers.blocks import parse_blocks_stable
        # the splitter with its own default handlers (block_handlers left out): metadata, directive and table blocks
        # (a table that does not parse is an input error: then nothing is compared)
        import warnings
        with warnings.catch_warnings():
            warnings.simplefilter("ignore")
            stable = [bt.name for bt, _ in parse_blocks_stable(iter(rows))]
    except Exception as e:  # noqa: BLE001
        if type(e).__name__ != "InputError":
            out.fail("parse_blocks_stable with its default handlers raised on a row sequence", case, repr(e)[:200],
                     None, key="default_route_raised:" + type(e).__name__)
            return
    if stable is not None and stable != [t for t in want if t in ("METADATA", "DIRECTIVE", "TABLE")]:
        out.fail("parse_blocks_stable with its default handlers does not deliver every METADATA / DIRECTIVE / TABLE "
                 "block", case, stable, [t for t in want if t in ("METADATA", "DIRECTIVE", "TABLE")],
                 key="default_route:stable_defaults")
        return
    if got != want:
        out.fail("the default block handlers do not deliver one block per segmented block", case, got, want,
                 key="default_route_blocks")
        return
    # no row of a block is lost inside its handler either: a directive carries one line per row after its first,
    # a block delivered as raw cells is exactly its rows
    for (bt, val), b in zip(delivered, blocks):
        lines = getattr(val, "lines", None)
        if bt.name == "DIRECTIVE" and lines is not None:
            exp = [r[0] if len(r) else None for r in b["rows"][1:]]
            if len(lines) != len(exp) or any(not (x is y or x == y or (x != x and y != y)) for x, y in zip(lines, exp)):
                out.fail("a DIRECTIVE block does not carry the first cell of every row after its first",
                         dict(case, block_first=b["first"]), [str(x) for x in lines], [str(x) for x in exp],
                         key="default_route:directive_lines")
                return
        elif bt.name in ("TABLE", "TEMPLATE_ROW", "BLANK") and isinstance(val, (list, tuple)):
            if [list(r) for r in val] != [list(r) for r in b["rows"]] and repr([list(r) for r in val]) != repr([list(r) for r in b["rows"]]):
                out.fail("a block delivered as raw cells is not exactly its rows", dict(case, block_first=b["first"]),
                         repr(val)[:300], repr(b["rows"])[:300], key="default_route:raw_rows")
                return


# ---------------------------------------------------------------- reference (from the property text)

def ref_is_blank(c):
    return c is None or (isinstance(c, str) and all(ord(ch) in SPACES for ch in c))


def ref_kind(row):
    if len(row) == 0:
        return "blank0"
    c = row[0]
    if ref_is_blank(c):
        return "blank1" if len(row) == 1 else "blankN"
    if not isinstance(c, str):
        return "plain"
    stars = len(c) - len(c.lstrip("*"))
    if stars == 2:
        return "table"
    if stars == 3:
        return "directive"
    colons = len(c) - len(c.lstrip(":"))
    if 1 <= colons <= 3 and ":" not in c[colons:]:
        return "template"
    if c.count(":") == 1:
        body, ws = c.split(":")
        if body and all(ord(ch) in SPACES for ch in ws):
            return "key"
    return "plain"


def ref_segment(rows):
    blocks, grid, state, first = [], [], "METADATA", 0

    def flush():
        if grid:
            blocks.append({"ty": state, "first": first, "rows": list(grid)})

    for i, row in enumerate(rows):
        k = ref_kind(row)
        nxt = None
        if k.startswith("blank"):
            if state == "BLANK":
                continue
            nxt = "BLANK"
        elif k == "table":
            nxt = "TABLE"
        elif k == "directive":
            nxt = "DIRECTIVE"
        elif k == "template":
            nxt = "TEMPLATE_ROW"
        elif k == "key" and state != "METADATA":
            nxt = "BLANK"
        if nxt is None:
            grid.append(row)
            continue
        flush()
        grid, state, first = [], nxt, i
        if not (k in ("blank0", "blank1")):
            grid.append(row)
    flush()
    return blocks


def oracle(rows, blocks, out, case):
    """The C03 statement on the implementation's own output."""
    nonblank = [r for r in rows if not ref_kind(r).startswith("blank")]
    flat = [r for b in blocks for r in b["rows"]]
    if [r for r in flat if not ref_kind(r).startswith("blank")] != nonblank:
        out.fail("row lost, duplicated, changed or reordered", case, blocks, None, key="no_loss")
        return
    # delivered rows are a sublist of the input, in order
    it = iter(rows)
    if not all(any(r is x or r == x for x in it) for r in flat):
        out.fail("delivered rows are not an in-order sublist of the input", case, blocks, None, key="sublist")
        return
    ref = ref_segment(rows)
    if [(b["ty"], b["first"], b["rows"]) for b in blocks] != [(b["ty"], b["first"], b["rows"]) for b in ref]:
        out.fail("block types / origin rows / contents differ from the StarTable segmentation rule",
                 case, blocks, ref, key="segmentation")
        return
    for n, b in enumerate(blocks):
        if b["ty"] != "BLANK" and rows[b["first"]: b["first"] + len(b["rows"])] != b["rows"]:
            out.fail("origin row is not the index of the block's first row", case, b, None, key="origin_row")
            return
        if b["ty"] == "BLANK":
            # the origin row of a BLANK block is the row that ended the previous block (a blank-first-cell row or a
            # `key:` row below the top); its rows are the non-blank-first-cell rows from there up to the next block
            # (plus that first row itself when it was kept)
            end = blocks[n + 1]["first"] if n + 1 < len(blocks) else len(rows)
            k0 = ref_kind(rows[b["first"]])
            span = rows[b["first"]: end]
            want = [r for j, r in enumerate(span) if not ref_kind(r).startswith("blank") or (j == 0 and k0 == "blankN")]
            if not (k0.startswith("blank") or k0 == "key") or want != b["rows"]:
                out.fail("a BLANK block's origin row is not the row that ended the previous block, or its rows are "
                         "not the rows from there to the next block", case, b, want, key="blank_origin_row")
                return
        # block shape: the type is the kind of the first row, every further row is an ordinary row
        kinds = [ref_kind(r) for r in b["rows"]]
        head_ok = {"TABLE": {"table"}, "DIRECTIVE": {"directive"}, "TEMPLATE_ROW": {"template"},
                   "METADATA": {"plain", "key"}, "BLANK": {"plain", "key", "blankN"}}[b["ty"]]
        tail_ok = {"plain", "key"} if b["ty"] == "METADATA" else {"plain"}
        if not kinds or kinds[0] not in head_ok or any(k not in tail_ok for k in kinds[1:]) or \
                (b["ty"] == "METADATA" and b["first"] != 0):
            out.fail("block type does not match the marker of its first row / a later row does not continue it",
                     case, b, kinds, key="block_shape")
            return


def oracle_prefix(rows, blocks, cut, out, case):
    try:
        pb = impl_blocks(rows[:cut])
    except Exception as e:   # the splitter itself must not raise on any row sequence
        out.fail("parse_blocks_stable raised", dict(case, cut=cut), repr(e), None, key="raised:" + type(e).__name__)
        return
    if pb[:-1] != blocks[: max(len(pb) - 1, 0)]:
        out.fail("blocks of a prefix (minus the last) are not a prefix of the blocks of all rows",
                 dict(case, cut=cut), pb, blocks, key="prefix_stable")


# ---------------------------------------------------------------- generators

KIND_SPELLINGS = {
    "empty": [[]],
    "blank1": [[""], [" "], [None], ["\t\u00a0"], ["\u2003"]],
    "blankN": [["", "payload"], [None, 1.5], ["  ", ""], ["", None, "x"]],
    "table": [["**t"], ["**t", ""], ["**x*"], ["** "], ["**"], ["**a:b"], ["**:"]],
    "directive": [["***d"], ["***"], ["***include", "x"], ["*** a:"]],
    "template": [[":a"], ["::a", "b"], [":::"], [":x \t"], ["::\n"]],
    "key": [["author:"], ["k: "], ["****x:"], ["a b:\t", "v"], ["é:\u00a0"]],
    "plain": [["all"], ["a:b"], [":a:"], ["::::x"], ["****x"], ["*x"], ["x**"], ["a:b:"], [" **t"],
              ["k:v"], ["-"], ["1.5"], [":" * 4], ["#x"], ["# comment", "y"], ["//"], ["%"]],
    "nontext": [[1], [1.5], [True], [datetime.datetime(2020, 1, 2)], [0], [float("nan")]],
}
KINDS = list(KIND_SPELLINGS)
LONG_LENGTHS = [63, 64, 65, 127, 128, 129, 255, 256, 257, 258, 511, 512, 513, 1023, 1024, 1025, 4095, 4096, 4097, 8191,
                8192, 8193, 20000]
LONG_PRE = ["", "", "**", "***", ":", "::", " ", "****"]
LONG_SUF = ["", ":", ": ", ":\t ", ":x", " ", "*"]


def run(tier, seed, model_ok, translator, search=False):
    out = Outcome()
    out.rule = ("(a) whitespace table on all code points; (b) every string up to a length bound over a marker "
                "alphabet, classified through the real parse_blocks_stable; (c) every sequence of the 9 row kinds up "
                "to a length bound (exhaustive) and random sequences up to 200 rows with varied spellings. "
                "A case is non-trivial if it has at least one row; distinct by content.")
    rng = make_rng(seed, "C03")
    thorough = tier == "thorough"
    ops, pending = [], []      # model ops and (case, impl) to compare against

    # (a) whitespace table
    py_spaces = [cp for cp in range(0x110000) if chr(cp).isspace()]
    import re
    re_spaces = [cp for cp in range(0x110000) if not (0xD800 <= cp <= 0xDFFF) and re.match(r"\s", chr(cp))]
    out.case({"check": "isspace table", "n": len(py_spaces)})
    if py_spaces != SPACES or re_spaces != SPACES:
        out.mismatch("isspace table differs from CPython", "all code points", py_spaces, SPACES)
    if model_ok:
        ops.append({"op": "isspace_range", "lo": 0, "hi": 0x110000})
        pending.append(("isspace", None, SPACES))
    # (a') the regex engine model behind `classify_is_marker_regex` / `gridName_is_name_regex` vs CPython's `re`
    regex_common.check_regex(out, make_rng(seed, "C03-regex"), tier, model_ok)
    if search:
        # the pattern text changed: strings on which the changed pattern (engine model) and `classify` disagree first
        for s in regex_common.find_disagreement(regex_common.live_marker_pattern()):
            out.count("regex:disagreement_candidates")
            _one([["**t"], [s], ["y"]], {"classify": s}, out, ops, pending, model_ok, prefix_rng=None, record=False)
            _one([[s], ["y"]], {"classify_top": s}, out, ops, pending, model_ok, prefix_rng=None, record=False)

    # (b) classifier through the API: context **t / s / y
    alpha = ["*", ":", "a", " ", "\n", "\t", "é", "\u00a0", "\x1c"]
    maxlen = 5 if thorough else 4
    n_cls = 0
    for L in range(0, maxlen + 1):
        for tup in itertools.product(alpha, repeat=L):
            s = "".join(tup)
            rows = [["**t"], [s], ["y"]]
            n_cls += 1
            _one(rows, {"classify": s}, out, ops, pending, model_ok, prefix_rng=None, record=(n_cls % 997 == 0))
            # the same string at the very top (METADATA state, where `key:` rows continue the block)
            _one([[s], ["y"]], {"classify_top": s}, out, ops, pending, model_ok, prefix_rng=None, record=False)
    out.count("classifier_strings", n_cls)

    # (c1) exhaustive kind sequences
    maxseq = 5 if thorough else 4
    n_seq = 0
    cache = {}
    for L in range(0, maxseq + 1):
        for kinds in itertools.product(KINDS, repeat=L):
            rows = [list(KIND_SPELLINGS[k][0]) for k in kinds]
            n_seq += 1
            cache[kinds] = _one(rows, {"kinds": list(kinds)}, out, ops, pending, model_ok, prefix_rng=None,
                                record=(n_seq % 4999 == 0))
            # prefix stability at every cut (the set of sequences is prefix-closed: all results are cached)
            for cut in range(L):
                pb = cache[kinds[:cut]]
                if pb is not None and cache[kinds] is not None and pb[:-1] != cache[kinds][: max(len(pb) - 1, 0)]:
                    out.fail("blocks of a prefix (minus the last) are not a prefix of the blocks of all rows",
                             {"kinds": list(kinds), "cut": cut}, pb, cache[kinds], key="prefix_stable")
            # the same kind sequence in other spellings (varied per position)
            if L:
                rows2 = [list(KIND_SPELLINGS[k][(n_seq + 3 * j) % len(KIND_SPELLINGS[k])]) for j, k in enumerate(kinds)]
                _one(rows2, {"kinds": list(kinds), "spelling": n_seq}, out, ops, pending, model_ok, prefix_rng=None,
                     record=False)
    out.count("kind_sequences_exhaustive", n_seq)
    out.count("prefix_cuts_on_exhaustive_sequences", sum(len(k) for k in cache))
    out.exhaustive = False

    # (c2) random long sequences with varied spellings, plus prefix cuts
    n_rand = 3000 if thorough else 300
    for i in range(n_rand):
        n = rng.choice([0, 1, 2, 3, 5, 8, 13, 30, 80, 200]) if i % 3 == 0 else rng.randint(0, 25)
        kinds = [rng.choice(KINDS) for _ in range(n)]
        rows = []
        for k in kinds:
            r = list(rng.choice(KIND_SPELLINGS[k]))
            if rng.random() < 0.3:
                r = r + [rng.choice(["", "x", None, 2])] * rng.randint(0, 3)
            if rng.random() < 0.04:
                # a long first cell (the rule has no length limit): marker prefix / suffix around a long body
                n_long = rng.choice(LONG_LENGTHS)
                pre, suf = rng.choice(LONG_PRE), rng.choice(LONG_SUF)
                body = rng.choice(["a", "ab ", "é", "a:b", "x*"])
                cell = (pre + body * (n_long // len(body) + 1))[: max(n_long - len(suf), 0)] + suf
                r = [cell] + r[1:]
                out.count("long_first_cell")
                if k in ("blank1", "empty") and len(r) != len(KIND_SPELLINGS[k][0]):
                    pass
            rows.append(r)
        for k in kinds:
            out.count("kind:" + k)
        _one(rows, {"seed": seed, "index": i, "rows": grid_to_json(rows)}, out, ops, pending, model_ok,
             prefix_rng=rng, record=(i < 3))
    out.count("random_sequences", n_rand)

    # (c3) long inputs: origin rows beyond 255 and beyond 65535 (one long sequence of each size per run)
    for n_long in ([300, 131100] if not thorough else [300, 5000, 70000, 131100, 200000]):
        kinds = [rng.choice(KINDS) if rng.random() < 0.2 else "plain" for _ in range(n_long)]
        # … with one very long block in the middle (nothing may happen to a block at 4096 or 65536 rows)
        kinds[n_long // 3: n_long // 3 + min(9000, n_long // 3)] = ["table"] + ["plain"] * (min(9000, n_long // 3) - 1)
        rows = [list(rng.choice(KIND_SPELLINGS[k])) for k in kinds]
        out.count("long_sequences")
        _one(rows, {"seed": seed, "long": n_long, "rows": grid_to_json(rows)}, out, ops, pending, model_ok,
             prefix_rng=None, record=False)

    # (c4) the same segmentation through read_csv: a text with every kind of block, split into rows by the reader
    csv_route(rng, out, 400 if thorough else 60)

    # (d) the same segmentation through read_excel: leading empty rows of a sheet count as rows
    excel_route(rng, out, 40 if thorough else 8)

    # compare with the model
    if model_ok:
        answers = common.run_model(ops)
        for (what, case, impl), ans in zip(pending, answers):
            if what == "isspace":
                if ans != impl:
                    out.mismatch("Lean isSpace table vs CPython", "all code points", impl, ans)
            elif what == "parse_blocks":
                from harness import blocks_common as bc
                if isinstance(ans, dict) and "error" in ans:
                    out.mismatch("driver error", case, impl, ans)
                elif bc.canon_model(ans) != impl:
                    out.mismatch("parse_blocks(to='cellgrid') vs Lean parseBlocks", case, impl, bc.canon_model(ans))
            else:
                if isinstance(ans, dict) and "error" in ans:
                    out.mismatch("driver error", case, impl, ans)
                elif ans != impl:
                    out.mismatch("segment: parse_blocks_stable vs Lean model", case, impl, ans)
    return out


def interleaved_ok(rows, other, out, case):
    """two readers alive at once (different output forms): the cell-grid reader must deliver what it delivers alone"""
    from pdtable.io.parsers.blocks import parse_blocks

    def canon(it):
        res = []
        try:
            for bt, b in it:
                res.append((bt.name, [list(r) for r in b] if isinstance(b, list) else type(b).__name__))
                yield None
        except Exception as e:  # noqa: BLE001
            res.append(("EXC", type(e).__name__))
        yield res

    def run_alone():
        g = canon(parse_blocks(iter(rows), to="cellgrid"))
        last = None
        for last in g:
            pass
        return last

    import warnings
    with warnings.catch_warnings():
        warnings.simplefilter("ignore")
        return _interleaved(rows, other, out, case, canon, run_alone, parse_blocks)


def retained_ok(rows, out, case):
    """a caller that keeps every delivered block (list(parse_blocks(...))): each raw-cell block still holds the rows it
    was delivered with, and no two blocks are one list object"""
    import warnings
    from pdtable.io.parsers.blocks import parse_blocks
    seen = []
    try:
        with warnings.catch_warnings():
            warnings.simplefilter("ignore")
            kept = []
            for bt, b in parse_blocks(iter(rows), to="cellgrid"):
                kept.append((bt.name, b))
                if isinstance(b, list):
                    seen.append((len(kept) - 1, [list(r) for r in b]))
    except Exception:  # noqa: BLE001 — malformed rows: judged elsewhere
        return
    for idx, snap in seen:
        now = [list(r) for r in kept[idx][1]]
        if now != snap:
            out.fail("a delivered block changed after the reader moved on (the caller kept it)", case,
                     {"block": idx, "type": kept[idx][0], "now": now}, snap, key="retained_block_changed")
            return
    lists = [id(b) for _, b in kept if isinstance(b, list)]
    if len(lists) != len(set(lists)):
        out.fail("two delivered blocks are one and the same list object", case, None, None, key="retained_block_shared")


def _interleaved(rows, other, out, case, canon, run_alone, parse_blocks):
    alone = run_alone()
    g1 = canon(parse_blocks(iter(rows), to="cellgrid"))
    g2 = canon(parse_blocks(iter(other), to="pdtable"))
    r1 = r2 = None
    done1 = done2 = False
    while not (done1 and done2):
        if not done1:
            try:
                v = next(g1)
                if v is not None:
                    r1 = v
            except StopIteration:
                done1 = True
        if not done2:
            try:
                v = next(g2)
                if v is not None:
                    r2 = v
            except StopIteration:
                done2 = True
    if r1 != alone:
        out.fail("a reader delivers other blocks when a second reader (another output form) is consumed alongside it",
                 case, r1, alone, key="interleaved_readers")


def csv_route(rng, out, n):
    """kind sequences with text cells only, written as a CSV text (one line per row) and read with
    read_csv(to='cellgrid'): the blocks delivered are those of the segmentation of the rows the text denotes — same
    types in the same order, and every TABLE block is exactly its rows"""
    import io
    import warnings
    import pdtable
    for i in range(n):
        kinds = [rng.choice(KINDS) for _ in range(rng.randint(0, 14))]
        rows = []
        for k in kinds:
            r = [c for c in rng.choice(KIND_SPELLINGS[k])]
            if any(not isinstance(c, str) for c in r) or any("\n" in c or "\r" in c or ";" in c for c in r):
                r = [""] if k in ("blank1", "empty", "nontext") else ["x"]
            rows.append(r)
        text = "".join(";".join(r) + "\n" for r in rows)
        if rng.random() < 0.3 and text.endswith("\n"):
            text = text[:-1]                      # no final newline
        out.evaluations += 1
        out.count("csv_route")
        csv_case(text, out)


def csv_case(text, out):
    """one text through read_csv(to='cellgrid') against the segmentation of the rows it denotes"""
    import io
    import warnings
    import pdtable
    # the rows that text denotes (a line without cells is one empty cell)
    seen = [line.split(";") for line in text.split("\n")]
    if text.endswith("\n") or text == "":
        seen = seen[:-1]
    want = ref_segment(seen)
    case = {"csv_text": text}
    try:
        with warnings.catch_warnings():
            warnings.simplefilter("ignore")
            got = list(pdtable.read_csv(io.StringIO(text), sep=";", to="cellgrid"))
    except Exception as e:  # noqa: BLE001
        out.fail("read_csv(to='cellgrid') raised on a text of rows", case, repr(e)[:200], None,
                 key="csv_route_raised:" + type(e).__name__)
        return
    if [bt.name for bt, _ in got] != [b["ty"] for b in want]:
        out.fail("read_csv does not deliver the blocks of the segmentation of its rows", case,
                 [bt.name for bt, _ in got], [b["ty"] for b in want], key="csv_route:types")
        return
    tabs_got = [[list(r) for r in b] for bt, b in got if bt.name == "TABLE"]
    tabs_want = [b["rows"] for b in want if b["ty"] == "TABLE"]
    if tabs_got != tabs_want:
        out.fail("a TABLE block read through read_csv is not exactly its rows", case, tabs_got, tabs_want,
                 key="csv_route:table_rows")


def excel_route(rng, out, n):
    """worksheets with 0-3 completely empty leading rows, blank rows between small tables: the origin row of every
    table read through read_excel is the sheet row its `**name` cell stands in"""
    import os
    import tempfile
    import warnings
    import openpyxl
    import pdtable
    d = tempfile.mkdtemp(prefix="pdt-c03-")
    try:
        for i in range(n):
            lead = rng.choice([0, 1, 2, 3])
            rows, starts = [[] for _ in range(lead)], []
            for k in range(rng.randint(1, 3)):
                rows += [[] for _ in range(rng.randint(0, 2))] if k else []
                starts.append(len(rows))
                rows += [[f"**t{k}"], ["all"], ["a", "b"], ["-", "text"], [1.5, "x"], [2, "y"], []]
            wb = openpyxl.Workbook()
            ws = wb.active
            for r, row in enumerate(rows, start=1):
                for c, v in enumerate(row, start=1):
                    ws.cell(row=r, column=c, value=v)
            p = os.path.join(d, f"s{i}.xlsx")
            wb.save(p)
            case = {"excel_rows": [[str(c) for c in r] for r in rows], "leading_empty_rows": lead}
            out.evaluations += 1
            out.count("excel_route:lead" + str(lead))
            try:
                with warnings.catch_warnings():
                    warnings.simplefilter("ignore")
                    got = [b.metadata.origin.input_location.row for bt, b in pdtable.read_excel(p) if bt.name == "TABLE"]
            except Exception as e:  # noqa: BLE001
                out.fail("read_excel raised on a sheet of well-formed tables", case, repr(e), None,
                         key="excel_route:" + type(e).__name__)
                continue
            if got != starts:
                out.fail("origin rows of the tables read through read_excel are not the sheet rows of their markers",
                         case, got, starts, key="excel_route:origin_row")
    finally:
        import shutil
        shutil.rmtree(d, ignore_errors=True)


def _one(rows, case, out, ops, pending, model_ok, prefix_rng, record):
    try:
        import zlib
        location = LOCATIONS[zlib.crc32(repr(rows).encode("utf-8", "replace")) % len(LOCATIONS)] if rows else None
        blocks = impl_blocks(rows, location)
    except Exception as e:   # the splitter itself must not raise on any row sequence
        out.fail("parse_blocks_stable raised", case, repr(e), None, key="raised:" + type(e).__name__)
        return None
    if record:
        out.case(case, nontrivial=len(rows) > 0)
    else:
        out.evaluations += 1
        if rows:
            out.nontrivial.add(hash(repr(rows)))
    oracle(rows, blocks, out, case)
    default_route_ok(rows, blocks, out, case)
    if prefix_rng is not None and rows:
        oracle_prefix(rows, blocks, prefix_rng.randint(0, len(rows)), out, case)
        retained_ok(rows, out, case)
        if prefix_rng.random() < 0.35:
            other = [["**o"], ["all"], ["a", "b"], ["-", "text"], ["1", "x"], [], ["**stub"], [], [":t"], ["***d"], ["v"]]
            interleaved_ok(rows, other if prefix_rng.random() < 0.5 else rows, out, case)
    if model_ok and prefix_rng is not None and len(rows) % 3 == 0:
        # the whole read with the library's own handlers (theorem `cellgrid_delivers_every_block`): model vs code
        from harness import blocks_common as bc
        ops.append(bc.model_op(rows, to="cellgrid"))
        pending.append(("parse_blocks", case, bc.impl_parse_blocks(rows, to="cellgrid")))
    if model_ok:
        ops.append({"op": "segment", "rows": grid_to_json(rows)})
        pending.append(("segment", case, [{"ty": b["ty"], "first": b["first"], "rows": grid_to_json(b["rows"])}
                                          for b in blocks]))
    return blocks


def _rows_of(inp):
    if "rows" in inp:
        return _rows_from_json(inp["rows"])
    if "classify" in inp:
        return [["**t"], [inp["classify"]], ["y"]]
    if "classify_top" in inp:
        return [[inp["classify_top"]], ["y"]]
    if "kinds" in inp and "spelling" in inp:
        n = inp["spelling"]
        return [list(KIND_SPELLINGS[k][(n + 3 * j) % len(KIND_SPELLINGS[k])]) for j, k in enumerate(inp["kinds"])]
    if "kinds" in inp:
        return [list(KIND_SPELLINGS[k][0]) for k in inp["kinds"]]
    return None


def replay(rep):
    inp = rep.get("input") or {}
    if "csv_text" in inp:
        out = Outcome()
        csv_case(inp["csv_text"], out)
        return (False, out.failures[0]["what"]) if out.failures else (True, "property holds on this input")
    rows = _rows_of(inp)
    if rows is None:
        return False, "replay file has no input (no-failing-input-found): " + str(rep.get("broken"))[:300]
    out = Outcome()
    try:
        blocks = impl_blocks(rows)
    except Exception as e:  # noqa: BLE001 — the splitter itself must not raise on any row sequence
        return False, "parse_blocks_stable raised"
    oracle(rows, blocks, out, inp)
    default_route_ok(rows, blocks, out, inp)
    if "cut" in inp:
        oracle_prefix(rows, blocks, min(inp["cut"], len(rows)), out, inp)
    else:
        for cut in range(len(rows) + 1) if len(rows) <= 40 else ():
            oracle_prefix(rows, blocks, cut, out, inp)
    if out.failures:
        return False, out.failures[0]["what"]
    return True, "property holds on this input"


def shrink(inp, fails, budget_s):
    """fewer rows, then fewer cells per row, with the same verdict"""
    if "csv_text" in inp or "excel_rows" in inp:
        return None
    rows = _rows_of(inp)
    if rows is None:
        return None
    keep = {k: v for k, v in inp.items() if k == "cut"}
    jr = grid_to_json(rows)
    import time
    t0 = time.time()
    jr = common.ddmin(jr, lambda rs: fails(dict(keep, rows=rs)), budget_s * 0.7)
    for k in range(len(jr)):
        if time.time() - t0 > budget_s or len(jr) > 400:
            break                # cells are trimmed only for inputs that ended up small, and within the budget
        while len(jr[k]) > 1 and fails(dict(keep, rows=jr[:k] + [jr[k][:-1]] + jr[k + 1:])):
            jr[k] = jr[k][:-1]
    return dict(keep, rows=jr)


def _rows_from_json(rows):
    def cell(c):
        if isinstance(c, dict):
            if "i" in c:
                return int(c["i"])
            if "f" in c:
                return float(c["f"])
            if "d" in c:
                return datetime.datetime.fromisoformat(c["d"])
            return object()
        return c
    return [[cell(c) for c in r] for r in rows]
